/-
C16 — "its documented syntax renders to the documented structure WHEREVER IT IS VALIDLY PLACED and composes with core
constructs": generalisations of the renderings of `Props/C16RenderX.lean`, end to end on the model of
`markdown.Markdown(extensions=[…]).convert` (`PipelineX.convertX`).

Part 1, footnotes.  `Props/C16RenderX.lean` has ONE reference at the END of the paragraph and one footnote.  Here: a
paragraph line with ANY number of references, each anywhere in the line (followed by any text of letters, digits and
spaces, or by nothing), to ANY number of footnotes, referenced once, several times or never, defined in any order
(`C16_footnotes_anywhere`); the three documented shapes are spelled out as corollaries (`C16_footnote_mid`,
`C16_footnote_twice`, `C16_footnote_two`, `C16_footnote_two_swapped`); and the same for ANY number of such paragraphs,
the `fnref` counters and the back-links running across the paragraphs (`C16_footnotes_paragraphs`, at the end of the
file).

Part 2, admonition.  `Props/C16RenderX.lean` has ONE body paragraph and nothing after the admonition.  Here: a body
of ANY number of paragraphs (each in its own indented block, each of any number of plain lines) followed by ANY number
of ordinary paragraphs (`C16_admonition_paragraphs`; spelled out for two body paragraphs and one paragraph after:
`C16_admonition_two_paragraphs`; with ANY number of ordinary paragraphs BEFORE the admonition as well:
`C16_admonition_between_paragraphs`, spelled out `C16_paragraph_admonition_paragraph`) — the further body blocks are attached to the admonition by `parse_content`, the
first unindented block ends it; and an admonition NESTED in the body of another one (`C16_admonition_nested`, at the
end of the file).

Part 3, def_list.  `Props/C16RenderX.lean` has ONE group of terms and one-line definitions.  Here: ANY number of
term/definition groups separated by empty lines (they all go into ONE `dl`), and in every group the last definition
may be continued by ANY number of indented paragraphs, which makes that `dd` hold paragraphs
(`C16_deflist_groups`; spelled out: `C16_deflist_continued`, `C16_deflist_two_groups`), and the list followed by ANY
number of ordinary paragraphs (`C16_deflist_then_paragraphs`, spelled out `C16_deflist_then_paragraph`).

Part 1 also has `C16_footnotes_paragraphs` (references in several paragraphs) and
`C16_footnotes_definitions_anywhere` / `C16_footnotes_definitions_first` (the definitions in the MIDDLE or at the
BEGINNING of the document, references before and after them), at the end of the file.

Part 4, an extension construct inside a core container: a definition list inside a BLOCK QUOTE renders as the same
list does at top level, wrapped in `blockquote` (`C16_deflist_in_blockquote`, `C16_deflist_in_blockquote_one`), and so
does an admonition (`C16_admonition_in_blockquote`, `C16_admonition_in_blockquote_one`).

How it is proved (helper lemmas: `Lemmas/RenderG*.lean`): every stage of `convertX` is followed on the printed form by
induction over the list of references and over the list of definitions — the block stage (paragraph, then one
`FootnoteBlockProcessor` run per definition), `makeFootnotesDiv`, the footnote pattern of the inline stage turn by turn
(`Lemmas/RenderGInl.lean`), `__processPlaceholders` (`RenderGPP`), the stack loop of the inline tree processor
(`RenderGRun`), the duplicates processor with the bookkeeping lemmas of `Lemmas/Footnotes.lean` (`RenderGTree`),
prettify, unescape (`RenderGPretty`, `RenderGSer`), the serializer (`RenderGHtml`), the two `str.replace` calls of the
footnote postprocessor (`RenderGPost`).
-/
import MdVerif.Lemmas.RenderGCor
import MdVerif.Lemmas.RenderGAdm4
import MdVerif.Lemmas.RenderGAdm6
import MdVerif.Lemmas.RenderGDef5
import MdVerif.Lemmas.RenderGDef7
import MdVerif.Lemmas.RenderGQuote2
import MdVerif.Lemmas.RenderGQuote4
import MdVerif.Lemmas.RenderGNest3
import MdVerif.Lemmas.RenderGMP6
import MdVerif.Lemmas.RenderGMP7
import MdVerif.Lemmas.RenderGMP8

namespace MdVerif.RenderG
open Py PipelineX MdVerif.RenderX
open MdVerif.Footnotes.Spec (refName)

/-! ### the domain -/

/-- a footnote label: non-empty, ASCII letters and digits only -/
def Label (w : Str) : Prop := w ≠ [] ∧ ∀ c ∈ w, isAsciiAlnum c = true

instance (w : Str) : Decidable (Label w) := by unfold Label; infer_instance

/-- the text after a reference: ASCII letters, digits and spaces, possibly none -/
def TailText (u : Str) : Prop := ∀ c ∈ u, DocSpec.isAlnumSp c = true

instance (u : Str) : Decidable (TailText u) := by unfold TailText; infer_instance

/-- the references of the paragraph: `(label, text after the reference)` -/
def RefsOK (segs : List (Str × Str)) : Prop := ∀ s ∈ segs, Label s.1 ∧ TailText s.2

instance (segs : List (Str × Str)) : Decidable (RefsOK segs) := by unfold RefsOK; infer_instance

/-- the definitions `(label, note)`: at least one, plain one-line notes, pairwise different labels -/
def DefsWF (defs : List (Str × Str)) : Prop :=
  defs ≠ [] ∧ (∀ d ∈ defs, Label d.1 ∧ PlainLine d.2) ∧ (defs.map (·.1)).Nodup

instance (defs : List (Str × Str)) : Decidable (DefsWF defs) := by unfold DefsWF; infer_instance

/-- every reference has a definition -/
def Defined (segs defs : List (Str × Str)) : Prop := ∀ s ∈ segs, s.1 ∈ defs.map (·.1)

instance (segs defs : List (Str × Str)) : Decidable (Defined segs defs) := by unfold Defined; infer_instance

/-- the source: the paragraph line `t[^a]u[^b]v…`, then one block `[^label]: note` per definition, separated by empty
    lines -/
example : fnSrcG "See".toList [("1".toList, " and".toList), ("w3c".toList, [])] [("w3c".toList, "Web".toList), ("1".toList, "one".toList)] =
    "See[^1] and[^w3c]\n\n[^w3c]: Web\n\n[^1]: one".toList := by decide +kernel

/-- the rendering `fnRender fmt t segs defs`: the paragraph in which the `k`-th reference to the label `id` is
    `<sup id="fnref:id">` (`fnref2:id`, `fnref3:id`, … for `k` = 2, 3, …: `refName id (k-1)`) around
    `<a class="footnote-ref" href="#fn:id">N</a>` with `N` the position of `id` among the DEFINITIONS, followed by its
    text; then `div.footnote > hr, ol` with one `li#fn:id` per definition, in definition order, holding the note, a
    no-break space and one back-link per reference to it (`#fnref:id`, `#fnref2:id`, …; one also when it is never
    referenced) titled with the footnote's number -/
example : fnRender .xhtml "See".toList [("1".toList, " and".toList), ("w3c".toList, []), ("1".toList, " again".toList)]
      [("w3c".toList, "Web".toList), ("1".toList, "one".toList), ("x".toList, "unused".toList)] =
    ("<p>See<sup id=\"fnref:1\"><a class=\"footnote-ref\" href=\"#fn:1\">2</a></sup> and".toList ++
     "<sup id=\"fnref:w3c\"><a class=\"footnote-ref\" href=\"#fn:w3c\">1</a></sup>".toList ++
     "<sup id=\"fnref2:1\"><a class=\"footnote-ref\" href=\"#fn:1\">2</a></sup> again</p>\n".toList ++
     "<div class=\"footnote\">\n<hr />\n<ol>\n".toList ++
     "<li id=\"fn:w3c\">\n<p>Web&#160;<a class=\"footnote-backref\" href=\"#fnref:w3c\" ".toList ++
       "title=\"Jump back to footnote 1 in the text\">&#8617;</a></p>\n</li>\n".toList ++
     "<li id=\"fn:1\">\n<p>one&#160;<a class=\"footnote-backref\" href=\"#fnref:1\" ".toList ++
       "title=\"Jump back to footnote 2 in the text\">&#8617;</a><a class=\"footnote-backref\" href=\"#fnref2:1\" ".toList ++
       "title=\"Jump back to footnote 2 in the text\">&#8617;</a></p>\n</li>\n".toList ++
     "<li id=\"fn:x\">\n<p>unused&#160;<a class=\"footnote-backref\" href=\"#fnref:x\" ".toList ++
       "title=\"Jump back to footnote 3 in the text\">&#8617;</a></p>\n</li>\n".toList ++
     "</ol>\n</div>".toList) := by decide +kernel

/-- the other extensions whose presence this proof allows: any of admonition, def_list, abbr, sane_lists, nl2br and
    wikilinks (the last two change the pattern table of the inline stage; the proof only uses that the table starts
    with backtick, escape, footnote and contains the line-break pattern only under nl2br — `FnTab`).  fenced_code,
    tables, attr_list, toc: `Props/C16Render*.lean`, `C16AttrList`, `C17`. -/
def FnCompat (x : Exts) : Prop :=
  x.footnotes = true ∧ x.fencedCode = false ∧ x.tables = false ∧ x.attrList = false ∧ x.toc = false

instance (x : Exts) : Decidable (FnCompat x) := by unfold FnCompat; infer_instance

example : FnCompat { footnotes := true } ∧
    FnCompat { footnotes := true, admonition := true, defList := true, abbr := true, saneLists := true,
               nl2br := true, wikilinks := true } := by decide

theorem label_facts {w : Str} (h : Label w) : WordFacts w := ⟨h.1, h.2⟩

/-! ### footnotes: references anywhere, repeated, to several footnotes -/

/-- **footnotes, wherever the references are placed.**  A paragraph line that starts with plain text and contains any
    number of footnote references `[^label]` — in the middle or at the end, adjacent or separated by text, to the same
    footnote several times or to different ones — followed by the definitions of the footnotes (any number ≥ 1, any
    order, labels pairwise different, every referenced label defined; a definition may remain unreferenced) converts
    to the documented structure `fnRender`: references numbered by the position of their footnote among the
    definitions, `sup` ids `fnref:ID`, `fnref2:ID`, … per footnote, the list `div.footnote > hr, ol > li#fn:ID` in
    definition order, each note followed by a no-break space and one back-link per reference.  Both output formats,
    any positive `tab_length`, with any combination of admonition, def_list, abbr, sane_lists, nl2br and wikilinks
    enabled as well. -/
theorem C16_footnotes_anywhere (x : Exts) (hx : FnCompat x) (cfg : Pipeline.Cfg)
    (hbl : cfg.blockLevel = TreeProc.defaultBlockLevel) (htab : 0 < cfg.tab) (t : Str) (segs defs : List (Str × Str))
    (ht : PlainLine t) (hs : RefsOK segs) (hd : DefsWF defs) (hk : Defined segs defs) :
    convertX x cfg (fnSrcG t segs defs) = .ok (fnRender cfg.fmt t segs defs) :=
  convertX_fnG x hx.1 hx.2.1 hx.2.2.1 hx.2.2.2.1 hx.2.2.2.2 cfg hbl htab t segs defs
    (plainLine_facts ht)
    ⟨fun s h => label_facts (hs s h).1, fun s h => (hs s h).2⟩
    ⟨fun d h => label_facts (hd.2.1 d h).1, fun d h => plainLine_facts (hd.2.1 d h).2⟩ hd.1 hd.2.2 hk

/-- the hypotheses are satisfiable … -/
example : PlainLine "See".toList ∧
    RefsOK [("1".toList, " and".toList), ("w3c".toList, []), ("1".toList, " again".toList)] ∧
    DefsWF [("w3c".toList, "Web".toList), ("1".toList, "one".toList), ("x".toList, "unused".toList)] ∧
    Defined [("1".toList, " and".toList), ("w3c".toList, []), ("1".toList, " again".toList)]
      [("w3c".toList, "Web".toList), ("1".toList, "one".toList), ("x".toList, "unused".toList)] := by decide

/-- … and exclude an undefined label, a label defined twice, markup in a note -/
example : ¬ Defined [("2".toList, [])] [("1".toList, "one".toList)] ∧
    ¬ DefsWF [("1".toList, "one".toList), ("1".toList, "two".toList)] ∧ ¬ DefsWF [("1".toList, "*one*".toList)] ∧
    ¬ RefsOK [("a b".toList, [])] := by decide

/-- an instance through the theorem (three references, two to the same footnote; three definitions, one unused) … -/
example : convertX { footnotes := true } {}
      "See[^1] and[^w3c][^1] again\n\n[^w3c]: Web\n\n[^1]: one\n\n[^x]: unused".toList =
    .ok (fnRender .xhtml "See".toList [("1".toList, " and".toList), ("w3c".toList, []), ("1".toList, " again".toList)]
      [("w3c".toList, "Web".toList), ("1".toList, "one".toList), ("x".toList, "unused".toList)]) := by
  have h := C16_footnotes_anywhere { footnotes := true } (by decide) {} rfl (by decide) "See".toList
    [("1".toList, " and".toList), ("w3c".toList, []), ("1".toList, " again".toList)]
    [("w3c".toList, "Web".toList), ("1".toList, "one".toList), ("x".toList, "unused".toList)]
    (by decide) (by decide) (by decide) (by decide)
  have e : fnSrcG "See".toList [("1".toList, " and".toList), ("w3c".toList, []), ("1".toList, " again".toList)]
      [("w3c".toList, "Web".toList), ("1".toList, "one".toList), ("x".toList, "unused".toList)] =
      "See[^1] and[^w3c][^1] again\n\n[^w3c]: Web\n\n[^1]: one\n\n[^x]: unused".toList := by decide +kernel
  rw [e] at h
  exact h

/-- … and a smaller one evaluated by the kernel on the model, independently of the theorem -/
example : convertX { footnotes := true } {} "a[^1] b[^1]\n\n[^1]: n".toList =
    .ok (fnRender .xhtml "a".toList [("1".toList, " b".toList), ("1".toList, [])] [("1".toList, "n".toList)]) := by
  decide +kernel

/-- … the same with nl2br and wikilinks (and the other compatible extensions) enabled: the rendering does not change -/
example : convertX { footnotes := true, nl2br := true, wikilinks := true, admonition := true, defList := true,
                     abbr := true, saneLists := true } { fmt := .html } "a[^1] b[^1]\n\n[^1]: n".toList =
    .ok (fnRender .html "a".toList [("1".toList, " b".toList), ("1".toList, [])] [("1".toList, "n".toList)]) := by
  decide +kernel

/-! ### the three documented shapes, spelled out -/

/-- the pieces of the spelled-out renderings -/
example (refId id num : Str) : supOut refId id num =
    "<sup id=\"".toList ++ refId ++ "\"><a class=\"footnote-ref\" href=\"#fn:".toList ++ id ++ "\">".toList ++ num ++
      "</a></sup>".toList := rfl
example (href num : Str) : backOut href num =
    "<a class=\"footnote-backref\" href=\"#".toList ++ href ++ "\" title=\"Jump back to footnote ".toList ++ num ++
      " in the text\">&#8617;</a>".toList := rfl
example (id note backs : Str) : liOut id note backs =
    "<li id=\"fn:".toList ++ id ++ "\">\n<p>".toList ++ note ++ "&#160;".toList ++ backs ++ "</p>\n</li>\n".toList := rfl
example (fmt : Ser.Fmt) (para lis : Str) : docOut fmt para lis =
    "<p>".toList ++ para ++ "</p>\n<div class=\"footnote\">\n".toList ++ hrTag fmt ++ "\n<ol>\n".toList ++ lis ++
      "</ol>\n</div>".toList := rfl

/-- **a reference in the middle of the paragraph**: `t[^id]u` + `[^id]: note` — the `sup` stands where the reference
    stood, the text `u` after it is kept as it is (`a[^1] b` ↦ `<p>a<sup …>…</sup> b</p>`). -/
theorem C16_footnote_mid (x : Exts) (hx : FnCompat x) (cfg : Pipeline.Cfg)
    (hbl : cfg.blockLevel = TreeProc.defaultBlockLevel) (htab : 0 < cfg.tab) (t id u note : Str)
    (ht : PlainLine t) (hid : Label id) (hu : TailText u) (hn : PlainLine note) :
    convertX x cfg (t ++ "[^".toList ++ id ++ "]".toList ++ u ++ "\n\n[^".toList ++ id ++ "]: ".toList ++ note) =
      .ok (docOut cfg.fmt (t ++ supOut ("fnref:".toList ++ id) id "1".toList ++ u)
        (liOut id note (backOut ("fnref:".toList ++ id) "1".toList))) := by
  have h := C16_footnotes_anywhere x hx cfg hbl htab t [(id, u)] [(id, note)] ht
    (by intro s hs; simp at hs; subst hs; exact ⟨hid, hu⟩)
    ⟨by simp, by intro d hd; simp at hd; subst hd; exact ⟨hid, hn⟩, by simp⟩
    (by intro s hs; simp at hs; subst hs; simp)
  rw [fnSrcG_one, fnRender_one] at h
  exact h

/-- **two references to the same footnote**: the second `sup` gets the id `fnref2:id`, both show the same number, and
    the note gets two back-links, to `#fnref:id` and to `#fnref2:id`. -/
theorem C16_footnote_twice (x : Exts) (hx : FnCompat x) (cfg : Pipeline.Cfg)
    (hbl : cfg.blockLevel = TreeProc.defaultBlockLevel) (htab : 0 < cfg.tab) (t id u v note : Str)
    (ht : PlainLine t) (hid : Label id) (hu : TailText u) (hv : TailText v) (hn : PlainLine note) :
    convertX x cfg (t ++ "[^".toList ++ id ++ "]".toList ++ u ++ "[^".toList ++ id ++ "]".toList ++ v ++
        "\n\n[^".toList ++ id ++ "]: ".toList ++ note) =
      .ok (docOut cfg.fmt (t ++ supOut ("fnref:".toList ++ id) id "1".toList ++ u ++
          supOut ("fnref2:".toList ++ id) id "1".toList ++ v)
        (liOut id note (backOut ("fnref:".toList ++ id) "1".toList ++ backOut ("fnref2:".toList ++ id) "1".toList))) := by
  have h := C16_footnotes_anywhere x hx cfg hbl htab t [(id, u), (id, v)] [(id, note)] ht
    (by
      intro s hs; simp at hs
      rcases hs with rfl | rfl
      · exact ⟨hid, hu⟩
      · exact ⟨hid, hv⟩)
    ⟨by simp, by intro d hd; simp at hd; subst hd; exact ⟨hid, hn⟩, by simp⟩
    (by intro s hs; simp at hs; rcases hs with rfl | rfl <;> simp)
  rw [fnSrcG_twice, fnRender_twice] at h
  exact h

/-- **two different footnotes, defined in the order of their references**: numbered 1 and 2, two list items. -/
theorem C16_footnote_two (x : Exts) (hx : FnCompat x) (cfg : Pipeline.Cfg)
    (hbl : cfg.blockLevel = TreeProc.defaultBlockLevel) (htab : 0 < cfg.tab) (t a u b v na nb : Str)
    (ht : PlainLine t) (ha : Label a) (hb : Label b) (hab : a ≠ b) (hu : TailText u) (hv : TailText v)
    (hna : PlainLine na) (hnb : PlainLine nb) :
    convertX x cfg (t ++ "[^".toList ++ a ++ "]".toList ++ u ++ "[^".toList ++ b ++ "]".toList ++ v ++
        "\n\n[^".toList ++ a ++ "]: ".toList ++ na ++ "\n\n[^".toList ++ b ++ "]: ".toList ++ nb) =
      .ok (docOut cfg.fmt (t ++ supOut ("fnref:".toList ++ a) a "1".toList ++ u ++
          supOut ("fnref:".toList ++ b) b "2".toList ++ v)
        (liOut a na (backOut ("fnref:".toList ++ a) "1".toList) ++
         liOut b nb (backOut ("fnref:".toList ++ b) "2".toList))) := by
  have h := C16_footnotes_anywhere x hx cfg hbl htab t [(a, u), (b, v)] [(a, na), (b, nb)] ht
    (by
      intro s hs; simp at hs
      rcases hs with rfl | rfl
      · exact ⟨ha, hu⟩
      · exact ⟨hb, hv⟩)
    ⟨by simp, by
      intro d hd; simp at hd
      rcases hd with rfl | rfl
      · exact ⟨ha, hna⟩
      · exact ⟨hb, hnb⟩, by simp [hab]⟩
    (by intro s hs; simp at hs; rcases hs with rfl | rfl <;> simp)
  rw [fnSrcG_two, fnRender_two cfg.fmt t a u b v (a, na) (b, nb) hab (Or.inl ⟨rfl, rfl⟩)] at h
  simp only [indexOf_first, indexOf_second a b hab] at h
  exact h

/-- **two different footnotes, defined in the opposite order**: the numbers and the order of the list follow the
    definitions — the first reference shows 2, the second 1. -/
theorem C16_footnote_two_swapped (x : Exts) (hx : FnCompat x) (cfg : Pipeline.Cfg)
    (hbl : cfg.blockLevel = TreeProc.defaultBlockLevel) (htab : 0 < cfg.tab) (t a u b v na nb : Str)
    (ht : PlainLine t) (ha : Label a) (hb : Label b) (hab : a ≠ b) (hu : TailText u) (hv : TailText v)
    (hna : PlainLine na) (hnb : PlainLine nb) :
    convertX x cfg (t ++ "[^".toList ++ a ++ "]".toList ++ u ++ "[^".toList ++ b ++ "]".toList ++ v ++
        "\n\n[^".toList ++ b ++ "]: ".toList ++ nb ++ "\n\n[^".toList ++ a ++ "]: ".toList ++ na) =
      .ok (docOut cfg.fmt (t ++ supOut ("fnref:".toList ++ a) a "2".toList ++ u ++
          supOut ("fnref:".toList ++ b) b "1".toList ++ v)
        (liOut b nb (backOut ("fnref:".toList ++ b) "1".toList) ++
         liOut a na (backOut ("fnref:".toList ++ a) "2".toList))) := by
  have hba : b ≠ a := fun e => hab e.symm
  have h := C16_footnotes_anywhere x hx cfg hbl htab t [(a, u), (b, v)] [(b, nb), (a, na)] ht
    (by
      intro s hs; simp at hs
      rcases hs with rfl | rfl
      · exact ⟨ha, hu⟩
      · exact ⟨hb, hv⟩)
    ⟨by simp, by
      intro d hd; simp at hd
      rcases hd with rfl | rfl
      · exact ⟨hb, hnb⟩
      · exact ⟨ha, hna⟩, by simp [hba]⟩
    (by intro s hs; simp at hs; rcases hs with rfl | rfl <;> simp)
  rw [fnSrcG_two, fnRender_two cfg.fmt t a u b v (b, nb) (a, na) hab (Or.inr ⟨rfl, rfl⟩)] at h
  simp only [indexOf_first, indexOf_second b a hba] at h
  exact h

example : Label "1".toList ∧ Label "w3c".toList ∧ ¬ Label "a b".toList ∧ ¬ Label [] ∧
    TailText " b".toList ∧ TailText [] ∧ TailText "b c".toList ∧ ¬ TailText " *b*".toList := by decide

/-- instances through the corollaries: `a[^1] b` … -/
example : convertX { footnotes := true } {} "a[^1] b\n\n[^1]: note".toList =
    .ok ("<p>a<sup id=\"fnref:1\"><a class=\"footnote-ref\" href=\"#fn:1\">1</a></sup> b</p>\n".toList ++
      "<div class=\"footnote\">\n<hr />\n<ol>\n<li id=\"fn:1\">\n<p>note&#160;<a class=\"footnote-backref\" ".toList ++
      "href=\"#fnref:1\" title=\"Jump back to footnote 1 in the text\">&#8617;</a></p>\n</li>\n</ol>\n</div>".toList) := by
  have h := C16_footnote_mid { footnotes := true } (by decide) {} rfl (by decide) "a".toList "1".toList " b".toList
    "note".toList (by decide) (by decide) (by decide) (by decide)
  have e1 : "a".toList ++ "[^".toList ++ "1".toList ++ "]".toList ++ " b".toList ++ "\n\n[^".toList ++ "1".toList ++
      "]: ".toList ++ "note".toList = "a[^1] b\n\n[^1]: note".toList := by decide +kernel
  rw [e1] at h
  rw [h]
  decide +kernel

/-- … two references to one footnote, html, with other extensions enabled … -/
example : convertX { footnotes := true, admonition := true, defList := true, abbr := true, saneLists := true }
      { fmt := .html } "a[^n] b[^n]\n\n[^n]: note".toList =
    .ok ("<p>a<sup id=\"fnref:n\"><a class=\"footnote-ref\" href=\"#fn:n\">1</a></sup> b".toList ++
      "<sup id=\"fnref2:n\"><a class=\"footnote-ref\" href=\"#fn:n\">1</a></sup></p>\n".toList ++
      "<div class=\"footnote\">\n<hr>\n<ol>\n<li id=\"fn:n\">\n<p>note&#160;<a class=\"footnote-backref\" ".toList ++
      "href=\"#fnref:n\" title=\"Jump back to footnote 1 in the text\">&#8617;</a><a class=\"footnote-backref\" ".toList ++
      "href=\"#fnref2:n\" title=\"Jump back to footnote 1 in the text\">&#8617;</a></p>\n</li>\n</ol>\n</div>".toList) := by
  have h := C16_footnote_twice { footnotes := true, admonition := true, defList := true, abbr := true, saneLists := true }
    (by decide) { fmt := .html } rfl (by decide) "a".toList "n".toList " b".toList [] "note".toList
    (by decide) (by decide) (by decide) (by decide) (by decide)
  have e1 : "a".toList ++ "[^".toList ++ "n".toList ++ "]".toList ++ " b".toList ++ "[^".toList ++ "n".toList ++
      "]".toList ++ [] ++ "\n\n[^".toList ++ "n".toList ++ "]: ".toList ++ "note".toList =
      "a[^n] b[^n]\n\n[^n]: note".toList := by decide +kernel
  rw [e1] at h
  rw [h]
  decide +kernel

/-- … and two footnotes defined in the opposite order: the numbers follow the order of the DEFINITIONS, not the order
    of first reference (Python-Markdown 3.7; its documentation does not fix the order) — the first reference shows 2 -/
example : convertX { footnotes := true } {} "a[^x] b[^y]\n\n[^y]: second\n\n[^x]: first".toList =
    .ok ("<p>a<sup id=\"fnref:x\"><a class=\"footnote-ref\" href=\"#fn:x\">2</a></sup> b".toList ++
      "<sup id=\"fnref:y\"><a class=\"footnote-ref\" href=\"#fn:y\">1</a></sup></p>\n".toList ++
      "<div class=\"footnote\">\n<hr />\n<ol>\n".toList ++
      "<li id=\"fn:y\">\n<p>second&#160;<a class=\"footnote-backref\" href=\"#fnref:y\" ".toList ++
        "title=\"Jump back to footnote 1 in the text\">&#8617;</a></p>\n</li>\n".toList ++
      "<li id=\"fn:x\">\n<p>first&#160;<a class=\"footnote-backref\" href=\"#fnref:x\" ".toList ++
        "title=\"Jump back to footnote 2 in the text\">&#8617;</a></p>\n</li>\n</ol>\n</div>".toList) := by
  have h := C16_footnote_two_swapped { footnotes := true } (by decide) {} rfl (by decide) "a".toList "x".toList " b".toList
    "y".toList [] "first".toList "second".toList (by decide) (by decide) (by decide) (by decide) (by decide) (by decide)
    (by decide) (by decide)
  have e1 : "a".toList ++ "[^".toList ++ "x".toList ++ "]".toList ++ " b".toList ++ "[^".toList ++ "y".toList ++
      "]".toList ++ [] ++ "\n\n[^".toList ++ "y".toList ++ "]: ".toList ++ "second".toList ++ "\n\n[^".toList ++
      "x".toList ++ "]: ".toList ++ "first".toList = "a[^x] b[^y]\n\n[^y]: second\n\n[^x]: first".toList := by
    decide +kernel
  rw [e1] at h
  rw [h]
  decide +kernel

/-- the first of these sources evaluated by the kernel on the model, independently of the theorems -/
example : convertX { footnotes := true } {} "a[^1] b\n\n[^1]: n".toList =
    .ok ("<p>a<sup id=\"fnref:1\"><a class=\"footnote-ref\" href=\"#fn:1\">1</a></sup> b</p>\n".toList ++
      "<div class=\"footnote\">\n<hr />\n<ol>\n<li id=\"fn:1\">\n<p>n&#160;<a class=\"footnote-backref\" ".toList ++
      "href=\"#fnref:1\" title=\"Jump back to footnote 1 in the text\">&#8617;</a></p>\n</li>\n</ol>\n</div>".toList) := by
  decide +kernel

/-! ## Part 2: admonition — a body of several paragraphs, paragraphs after the admonition -/

/-- a class line: plain, and without upper-case letters (the class attribute is the lower-cased class) -/
def ClassLine (l : Str) : Prop := PlainLine l ∧ ∀ c ∈ l, isAsciiUpper c = false

instance (l : Str) : Decidable (ClassLine l) := by unfold ClassLine PlainLine; infer_instance

/-- a title as written in the source: absent, or any text of letters, digits and spaces (possibly empty) -/
def TitleOK (title : Option Str) : Prop := ∀ t, title = some t → ∀ c ∈ t, DocSpec.isAlnumSp c = true

instance (title : Option Str) : Decidable (TitleOK title) := by
  unfold TitleOK
  cases title with
  | none => exact isTrue (by intro t h; cases h)
  | some t =>
    exact decidable_of_iff (∀ c ∈ t, DocSpec.isAlnumSp c = true)
      ⟨fun h t' e => by cases e; exact h, fun h => h t rfl⟩

/-- a paragraph `(first line, further lines)` of plain lines -/
def ParaWF (p : Para) : Prop := ∀ l ∈ p.1 :: p.2, PlainLine l

instance (p : Para) : Decidable (ParaWF p) := by unfold ParaWF; infer_instance

/-- the title shown: the given one; without one, the first class word capitalised; none for the empty title `""` -/
def shownTitle (kl : Str) : Option Str → Option Str
  | none => some (upperFirst (kl.takeWhile (· != ' ')))
  | some [] => none
  | some (a :: t) => some (a :: t)

example : shownTitle "danger big".toList none = some "Danger".toList ∧
    shownTitle "note".toList (some "My title".toList) = some "My title".toList ∧
    shownTitle "note".toList (some []) = none := by decide

/-- the source `admSrcG tab kl title b bs qs`: the header line and the first body paragraph `b` indented by
    `tab_length`, the further body paragraphs `bs` each in its own indented block, then the paragraphs `qs` -/
example : admSrcG 4 "note".toList (some "T".toList) ("one".toList, ["more".toList]) [("two".toList, [])]
      [("after".toList, ["it".toList])] =
    "!!! note \"T\"\n    one\n    more\n\n    two\n\nafter\nit".toList := by decide +kernel

/-- the rendering `admOutG kl ttl texts qtexts`: `div.admonition.kl` holding the title paragraph (if any) and one `<p>`
    per body paragraph, then one `<p>` per paragraph after it -/
example : admOutG "note".toList (some "T".toList) ["one\nmore".toList, "two".toList] ["after\nit".toList] =
    ("<div class=\"admonition note\">\n<p class=\"admonition-title\">T</p>\n".toList ++
     "<p>one\nmore</p>\n<p>two</p>\n</div>\n<p>after\nit</p>".toList) := by decide +kernel

/-- the extensions whose presence this proof allows together with admonition: any of def_list, abbr, footnotes,
    sane_lists, wikilinks (nl2br would turn the line feeds inside a paragraph into `br`s) -/
def AdmCompat (x : Exts) : Prop :=
  x.admonition = true ∧ x.nl2br = false ∧ x.fencedCode = false ∧ x.tables = false ∧ x.attrList = false ∧ x.toc = false

instance (x : Exts) : Decidable (AdmCompat x) := by unfold AdmCompat; infer_instance

/-- **admonition with a body of several paragraphs, followed by ordinary paragraphs.**  `!!! class`, optionally
    ` "Title"`, then the body: any number (≥ 1) of paragraphs, each a block of plain lines indented by `tab_length`,
    separated by empty lines; then any number (≥ 0) of unindented paragraphs of plain lines.  It converts to ONE
    `div` of class `admonition class` with the title paragraph (`shownTitle`) and one `<p>` per body paragraph, in
    order, followed by one `<p>` per paragraph after it: the indented blocks after the first all go INTO the
    admonition, the first unindented block ends it.  For every lower-case class line, every title form, all plain
    lines, any numbers of paragraphs and of lines; both formats, any positive `tab_length`; with any of def_list,
    abbr, footnotes, sane_lists, wikilinks enabled as well. -/
theorem C16_admonition_paragraphs (x : Exts) (hx : AdmCompat x) (cfg : Pipeline.Cfg)
    (hbl : cfg.blockLevel = TreeProc.defaultBlockLevel) (htab : 0 < cfg.tab) (kl : Str) (title : Option Str)
    (b : Para) (bs qs : List Para) (hk : ClassLine kl) (ht : TitleOK title) (hb : ParaWF b)
    (hbs : ∀ p ∈ bs, ParaWF p) (hqs : ∀ p ∈ qs, ParaWF p) :
    convertX x cfg (admSrcG cfg.tab kl title b bs qs) =
      .ok (admOutG kl (shownTitle kl title) (pText b :: bs.map pText) (qs.map pText)) := by
  have hkf : LowerFacts kl := { toPlainFacts := plainLine_facts hk.1, lower := hk.2 }
  have hcl := admClassTitle_lower kl hkf title
  have httl : ∀ c ∈ (shownTitle kl title).getD [], DocSpec.isAlnumSp c = true := by
    cases title with
    | none =>
      have hw : ∀ c ∈ kl.takeWhile (· != ' '), DocSpec.isAlnumSp c = true :=
        fun c hc => hkf.chars c ((List.takeWhile_sublist _).subset hc)
      simpa [shownTitle] using upperFirst_chars _ hw
    | some t =>
      cases t with
      | nil => simp [shownTitle]
      | cons a r => simpa [shownTitle] using ht (a :: r) rfl
  exact convertX_admG x hx.1 hx.2.1 hx.2.2.1 hx.2.2.2.1 hx.2.2.2.2.1 hx.2.2.2.2.2 cfg hbl htab kl title
    (shownTitle kl title) b bs qs hkf.toPlainFacts ht httl (fun l hl => plainLine_facts (hb l hl))
    (fun p hp l hl => plainLine_facts (hbs p hp l hl)) (fun p hp l hl => plainLine_facts (hqs p hp l hl))
    (by rw [hcl]; cases title with
      | none => rfl
      | some t => cases t <;> rfl)

/-- the hypotheses are satisfiable … -/
example : ClassLine "danger big".toList ∧ TitleOK (some "My title".toList) ∧ TitleOK none ∧ TitleOK (some []) ∧
    ParaWF ("one".toList, ["more".toList]) ∧ AdmCompat { admonition := true } ∧
    AdmCompat { admonition := true, defList := true, abbr := true, footnotes := true, saneLists := true,
                wikilinks := true } := by decide

/-- … and exclude upper case in the class, markup in a line, an indented or empty line, nl2br -/
example : ¬ ClassLine "Note".toList ∧ ¬ ParaWF ("a *b*".toList, []) ∧ ¬ ParaWF (" a".toList, []) ∧
    ¬ ParaWF ("a".toList, [[]]) ∧ ¬ AdmCompat { admonition := true, nl2br := true } := by decide

/-- **spelled out: two one-line body paragraphs and one paragraph after the admonition.** -/
theorem C16_admonition_two_paragraphs (x : Exts) (hx : AdmCompat x) (cfg : Pipeline.Cfg)
    (hbl : cfg.blockLevel = TreeProc.defaultBlockLevel) (htab : 0 < cfg.tab) (kl title b1 b2 q : Str)
    (hk : ClassLine kl) (ht : PlainLine title) (h1 : PlainLine b1) (h2 : PlainLine b2) (hq : PlainLine q) :
    convertX x cfg ("!!! ".toList ++ kl ++ " \"".toList ++ title ++ "\"\n".toList ++ Block.spaces cfg.tab ++ b1 ++
        "\n\n".toList ++ Block.spaces cfg.tab ++ b2 ++ "\n\n".toList ++ q) =
      .ok ("<div class=\"admonition ".toList ++ kl ++ "\">\n<p class=\"admonition-title\">".toList ++ title ++
        "</p>\n<p>".toList ++ b1 ++ "</p>\n<p>".toList ++ b2 ++ "</p>\n</div>\n<p>".toList ++ q ++ "</p>".toList) := by
  have htf := plainLine_facts ht
  obtain ⟨ta, tt, rfl⟩ : ∃ a t, title = a :: t := by
    cases title with
    | nil => exact absurd rfl htf.ne
    | cons a t => exact ⟨a, t, rfl⟩
  have h := C16_admonition_paragraphs x hx cfg hbl htab kl (some (ta :: tt)) (b1, []) [(b2, [])] [(q, [])] hk
    (by intro t e; cases e; exact htf.chars) (by intro l hl; simp at hl; subst hl; exact h1)
    (by intro p hp l hl; simp at hp; subst hp; simp at hl; subst hl; exact h2)
    (by intro p hp l hl; simp at hp; subst hp; simp at hl; subst hl; exact hq)
  have hne1 := (plainLine_facts h1).ne
  have hne2 := (plainLine_facts h2).ne
  have e1 : admSrcG cfg.tab kl (some (ta :: tt)) (b1, []) [(b2, [])] [(q, [])] =
      "!!! ".toList ++ kl ++ " \"".toList ++ (ta :: tt) ++ "\"\n".toList ++ Block.spaces cfg.tab ++ b1 ++
        "\n\n".toList ++ Block.spaces cfg.tab ++ b2 ++ "\n\n".toList ++ q := by
    obtain ⟨x1, y1, rfl⟩ : ∃ a t, b1 = a :: t := by cases b1 <;> simp_all
    obtain ⟨x2, y2, rfl⟩ : ∃ a t, b2 = a :: t := by cases b2 <;> simp_all
    unfold admSrcG admSrc admHeader admTitleSrc bodyBlock pText pLines CodeLaw.indentLines CodeLaw.indentLine
    generalize Block.spaces cfg.tab = SP
    simp only [List.map_cons, List.map_nil, List.isEmpty_cons, Bool.false_eq_true, if_false, DocParse.joinChunks,
      joinLines, join, List.cons_append, List.nil_append]
    simp only [String.reduceToList]
    simp only [List.cons_append, List.append_assoc, List.nil_append, List.append_nil]
  have e2 : admOutG kl (shownTitle kl (some (ta :: tt))) (pText (b1, []) :: [(b2, [])].map pText) ([(q, [])].map pText) =
      "<div class=\"admonition ".toList ++ kl ++ "\">\n<p class=\"admonition-title\">".toList ++ (ta :: tt) ++
        "</p>\n<p>".toList ++ b1 ++ "</p>\n<p>".toList ++ b2 ++ "</p>\n</div>\n<p>".toList ++ q ++ "</p>".toList := by
    unfold admOutG admHtml titleHtml shownTitle psHtml psHtml psHtml psHtmlAfter psHtmlAfter pText lV1 lV2 lV3 lT1 lP1 lP2
    simp only [List.map_cons, List.map_nil, Node.truthy, if_true, Option.getD_some, joinLines, join]
    simp only [String.reduceToList]
    simp only [List.cons_append, List.append_assoc, List.nil_append, List.append_nil]
  rw [e1, e2] at h
  exact h

/-- an instance through the theorem: no title given, two body paragraphs (the first of two lines), two paragraphs
    after the admonition … -/
example : convertX { admonition := true } {}
      "!!! danger big\n    one\n    more\n\n    two\n\nafter\n\nthe end".toList =
    .ok ("<div class=\"admonition danger big\">\n<p class=\"admonition-title\">Danger</p>\n".toList ++
      "<p>one\nmore</p>\n<p>two</p>\n</div>\n<p>after</p>\n<p>the end</p>".toList) := by
  have h := C16_admonition_paragraphs { admonition := true } (by decide) {} rfl (by decide) "danger big".toList none
    ("one".toList, ["more".toList]) [("two".toList, [])] [("after".toList, []), ("the end".toList, [])]
    (by decide) (by decide) (by decide) (by decide) (by decide)
  have e1 : admSrcG ({} : Pipeline.Cfg).tab "danger big".toList none ("one".toList, ["more".toList]) [("two".toList, [])]
      [("after".toList, []), ("the end".toList, [])] =
      "!!! danger big\n    one\n    more\n\n    two\n\nafter\n\nthe end".toList := by decide +kernel
  rw [e1] at h
  rw [h]
  decide +kernel

/-- … and a smaller one evaluated by the kernel on the model, independently of the theorem -/
example : convertX { admonition := true } {} "!!! note \"T\"\n    one\n\n    two\n\nafter".toList =
    .ok ("<div class=\"admonition note\">\n<p class=\"admonition-title\">T</p>\n".toList ++
      "<p>one</p>\n<p>two</p>\n</div>\n<p>after</p>".toList) := by decide +kernel

/-- without the indentation the second block is NOT part of the admonition (it ends at the first unindented block) -/
example : convertX { admonition := true } {} "!!! note \"T\"\n    one\n\ntwo".toList =
    .ok ("<div class=\"admonition note\">\n<p class=\"admonition-title\">T</p>\n".toList ++
      "<p>one</p>\n</div>\n<p>two</p>".toList) := by decide +kernel

/-! ### paragraphs before the admonition as well -/

/-- the source `admSrcB tab pre kl title b bs qs`: one block per paragraph of `pre`, then the blocks of
    `admSrcG tab kl title b bs qs` -/
example : admSrcB 4 [("before".toList, ["it".toList])] "note".toList none ("one".toList, []) [("two".toList, [])]
      [("after".toList, [])] = "before\nit\n\n!!! note\n    one\n\n    two\n\nafter".toList := by decide +kernel

/-- the rendering `admOutB pretexts kl ttl texts qtexts`: `<p>text</p>` and a line feed per paragraph before, then
    `admOutG kl ttl texts qtexts` -/
example (t : Str) (kl : Str) (ttl : Option Str) (texts qtexts : List Str) :
    admOutB [t] kl ttl texts qtexts = "<p>".toList ++ t ++ "</p>\n".toList ++ admOutG kl ttl texts qtexts := by
  simp [admOutB, psHtml, lP1, lP2]

/-- **admonition between ordinary paragraphs.**  Any number (≥ 0) of ordinary paragraphs of plain lines, then the
    admonition of `C16_admonition_paragraphs` (`!!! class`, optional title, a body of any number ≥ 1 of indented
    paragraphs), then any number (≥ 0) of ordinary paragraphs: one `<p>` per paragraph before, the ONE `div`, one `<p>`
    per paragraph after — the admonition does not take anything from the paragraphs around it and renders exactly as
    it does alone.  Both formats, any positive `tab_length`; with any of def_list, abbr, footnotes, sane_lists,
    wikilinks enabled as well. -/
theorem C16_admonition_between_paragraphs (x : Exts) (hx : AdmCompat x) (cfg : Pipeline.Cfg)
    (hbl : cfg.blockLevel = TreeProc.defaultBlockLevel) (htab : 0 < cfg.tab) (pre : List Para) (kl : Str)
    (title : Option Str) (b : Para) (bs qs : List Para) (hpre : ∀ p ∈ pre, ParaWF p) (hk : ClassLine kl)
    (ht : TitleOK title) (hb : ParaWF b) (hbs : ∀ p ∈ bs, ParaWF p) (hqs : ∀ p ∈ qs, ParaWF p) :
    convertX x cfg (admSrcB cfg.tab pre kl title b bs qs) =
      .ok (admOutB (pre.map pText) kl (shownTitle kl title) (pText b :: bs.map pText) (qs.map pText)) := by
  have hkf : LowerFacts kl := { toPlainFacts := plainLine_facts hk.1, lower := hk.2 }
  have hcl := admClassTitle_lower kl hkf title
  have httl : ∀ c ∈ (shownTitle kl title).getD [], DocSpec.isAlnumSp c = true := by
    cases title with
    | none =>
      have hw : ∀ c ∈ kl.takeWhile (· != ' '), DocSpec.isAlnumSp c = true :=
        fun c hc => hkf.chars c ((List.takeWhile_sublist _).subset hc)
      simpa [shownTitle] using upperFirst_chars _ hw
    | some t =>
      cases t with
      | nil => simp [shownTitle]
      | cons a r => simpa [shownTitle] using ht (a :: r) rfl
  exact convertX_admB x hx.1 hx.2.1 hx.2.2.1 hx.2.2.2.1 hx.2.2.2.2.1 hx.2.2.2.2.2 cfg hbl htab pre kl title
    (shownTitle kl title) b bs qs (fun p hp l hl => plainLine_facts (hpre p hp l hl)) hkf.toPlainFacts ht httl
    (fun l hl => plainLine_facts (hb l hl))
    (fun p hp l hl => plainLine_facts (hbs p hp l hl)) (fun p hp l hl => plainLine_facts (hqs p hp l hl)) hcl

/-- **spelled out: a paragraph, an admonition with a title and a one-line body, a paragraph.** -/
theorem C16_paragraph_admonition_paragraph (x : Exts) (hx : AdmCompat x) (cfg : Pipeline.Cfg)
    (hbl : cfg.blockLevel = TreeProc.defaultBlockLevel) (htab : 0 < cfg.tab) (p kl title b q : Str)
    (hp : PlainLine p) (hk : ClassLine kl) (ht : PlainLine title) (h1 : PlainLine b) (hq : PlainLine q) :
    convertX x cfg (p ++ "\n\n!!! ".toList ++ kl ++ " \"".toList ++ title ++ "\"\n".toList ++ Block.spaces cfg.tab ++ b ++
        "\n\n".toList ++ q) =
      .ok ("<p>".toList ++ p ++ "</p>\n<div class=\"admonition ".toList ++ kl ++
        "\">\n<p class=\"admonition-title\">".toList ++ title ++
        "</p>\n<p>".toList ++ b ++ "</p>\n</div>\n<p>".toList ++ q ++ "</p>".toList) := by
  have htf := plainLine_facts ht
  obtain ⟨ta, tt, rfl⟩ : ∃ a t, title = a :: t := by
    cases title with
    | nil => exact absurd rfl htf.ne
    | cons a t => exact ⟨a, t, rfl⟩
  have h := C16_admonition_between_paragraphs x hx cfg hbl htab [(p, [])] kl (some (ta :: tt)) (b, []) [] [(q, [])]
    (by intro p' hp' l hl; simp at hp'; subst hp'; simp at hl; subst hl; exact hp) hk
    (by intro t e; cases e; exact htf.chars) (by intro l hl; simp at hl; subst hl; exact h1)
    (by intro p' hp'; cases hp')
    (by intro p' hp' l hl; simp at hp'; subst hp'; simp at hl; subst hl; exact hq)
  have hne1 := (plainLine_facts h1).ne
  have e1 : admSrcB cfg.tab [(p, [])] kl (some (ta :: tt)) (b, []) [] [(q, [])] =
      p ++ "\n\n!!! ".toList ++ kl ++ " \"".toList ++ (ta :: tt) ++ "\"\n".toList ++ Block.spaces cfg.tab ++ b ++
        "\n\n".toList ++ q := by
    obtain ⟨x1, y1, rfl⟩ : ∃ a t, b = a :: t := by cases b <;> simp_all
    unfold admSrcB admSrc admHeader admTitleSrc pText pLines CodeLaw.indentLines CodeLaw.indentLine
    generalize Block.spaces cfg.tab = SP
    simp only [List.map_cons, List.map_nil, List.isEmpty_cons, Bool.false_eq_true, if_false, DocParse.joinChunks,
      joinLines, join, List.cons_append, List.nil_append]
    simp only [String.reduceToList]
    simp only [List.cons_append, List.append_assoc, List.nil_append, List.append_nil]
  have e2 : admOutB ([(p, [])].map pText) kl (shownTitle kl (some (ta :: tt))) (pText (b, []) :: [].map pText)
      ([(q, [])].map pText) =
      "<p>".toList ++ p ++ "</p>\n<div class=\"admonition ".toList ++ kl ++
        "\">\n<p class=\"admonition-title\">".toList ++ (ta :: tt) ++
        "</p>\n<p>".toList ++ b ++ "</p>\n</div>\n<p>".toList ++ q ++ "</p>".toList := by
    unfold admOutB admOutG admHtml titleHtml shownTitle psHtml psHtml psHtml psHtmlAfter psHtmlAfter pText lV1 lV2 lV3 lT1 lP1 lP2
    simp only [List.map_cons, List.map_nil, Node.truthy, if_true, Option.getD_some, joinLines, join]
    simp only [String.reduceToList]
    simp only [List.cons_append, List.append_assoc, List.nil_append, List.append_nil]
  rw [e1, e2] at h
  exact h

/-- an instance through the general theorem (a two-line paragraph before, no title given, two body paragraphs, one
    paragraph after) … -/
example : convertX { admonition := true } {} "before\nit\n\n!!! note\n    one\n\n    two\n\nafter".toList =
    .ok ("<p>before\nit</p>\n<div class=\"admonition note\">\n<p class=\"admonition-title\">Note</p>\n".toList ++
      "<p>one</p>\n<p>two</p>\n</div>\n<p>after</p>".toList) := by
  have h := C16_admonition_between_paragraphs { admonition := true } (by decide) {} rfl (by decide)
    [("before".toList, ["it".toList])] "note".toList none ("one".toList, []) [("two".toList, [])] [("after".toList, [])]
    (by decide) (by decide) (by decide) (by decide) (by decide) (by decide)
  have e1 : admSrcB ({} : Pipeline.Cfg).tab [("before".toList, ["it".toList])] "note".toList none ("one".toList, [])
      [("two".toList, [])] [("after".toList, [])] =
      "before\nit\n\n!!! note\n    one\n\n    two\n\nafter".toList := by decide +kernel
  rw [e1] at h
  rw [h]
  decide +kernel

/-- … and one evaluated by the kernel on the model, independently of the theorems (html format, other extensions on) -/
example : convertX { admonition := true, defList := true, footnotes := true, abbr := true, wikilinks := true }
      { fmt := .html } "p\n\n!!! tip \"T\"\n    b\n\nq".toList =
    .ok ("<p>p</p>\n<div class=\"admonition tip\">\n<p class=\"admonition-title\">T</p>\n".toList ++
      "<p>b</p>\n</div>\n<p>q</p>".toList) := by decide +kernel

/-! ## Part 3: def_list — several groups, a definition continued by indented paragraphs -/

/-- a group `⟨t0, tr, d, ds, conts⟩`: the term lines `t0 :: tr`, the one-line definitions `d :: ds`, the paragraphs
    `conts` continuing the last definition — all plain -/
def GroupWF (g : DGroup) : Prop :=
  (∀ l ∈ g.t0 :: g.tr, PlainLine l) ∧ (∀ l ∈ g.d :: g.ds, PlainLine l) ∧ ∀ p ∈ g.conts, ParaWF p

instance (g : DGroup) : Decidable (GroupWF g) := by unfold GroupWF; infer_instance

/-- the source `defSrcG tab g0 gr`: per group one block with the term lines and the lines `:   definition`, then one
    block per continuation paragraph, indented by `tab_length`; blocks separated by empty lines -/
example : defSrcG 4 ⟨"term".toList, [], "def 1".toList, ["def 2".toList], [("more".toList, ["lines".toList])]⟩
      [⟨"t 1".toList, ["t 2".toList], "other".toList, [], []⟩] =
    "term\n:   def 1\n:   def 2\n\n    more\n    lines\n\nt 1\nt 2\n:   other".toList := by decide +kernel

/-- the rendering `defOutG (allItems groups)`: ONE `dl`; per group a `dt` per term, a `dd` per definition; a definition
    continued by paragraphs becomes `<dd>`, a line feed, `<p>definition</p>`, one `<p>` per continuation paragraph,
    `</dd>` -/
example : defOutG (allItems [⟨"term".toList, [], "def 1".toList, ["def 2".toList], [("more".toList, ["lines".toList])]⟩,
      ⟨"t 1".toList, ["t 2".toList], "other".toList, [], []⟩]) =
    ("<dl>\n<dt>term</dt>\n<dd>def 1</dd>\n<dd>\n<p>def 2</p>\n<p>more\nlines</p>\n</dd>\n".toList ++
     "<dt>t 1</dt>\n<dt>t 2</dt>\n<dd>other</dd>\n</dl>".toList) := by decide +kernel

/-- the extensions whose presence this proof allows together with def_list: any of admonition, abbr, footnotes,
    sane_lists, wikilinks -/
def DefCompat (x : Exts) : Prop :=
  x.defList = true ∧ x.nl2br = false ∧ x.fencedCode = false ∧ x.tables = false ∧ x.attrList = false ∧ x.toc = false

instance (x : Exts) : Decidable (DefCompat x) := by unfold DefCompat; infer_instance

theorem groupWF_ok {g : DGroup} (h : GroupWF g) : GroupOK g :=
  ⟨fun l hl => plainLine_facts (h.1 l hl), fun l hl => plainLine_facts (h.2.1 l hl),
    fun p hp l hl => plainLine_facts (h.2.2 p hp l hl)⟩

/-- **def_list: several groups, definitions continued by paragraphs.**  Any number (≥ 1) of groups separated by
    empty lines, each with any number (≥ 1) of plain term lines and of plain one-line definitions `:   d`, the last
    definition of a group optionally continued by any number of paragraphs of plain lines indented by `tab_length`,
    converts to ONE `dl` (the later groups are added to the list the first one opened) with a `dt` per term and a `dd`
    per definition, in order; a continued definition is a `dd` holding `<p>definition</p>` and one `<p>` per
    continuation paragraph, the others hold their text directly.  Both formats, any positive `tab_length`; with any
    of admonition, abbr, footnotes, sane_lists, wikilinks enabled as well. -/
theorem C16_deflist_groups (x : Exts) (hx : DefCompat x) (cfg : Pipeline.Cfg)
    (hbl : cfg.blockLevel = TreeProc.defaultBlockLevel) (htab : 0 < cfg.tab) (g0 : DGroup) (gr : List DGroup)
    (h0 : GroupWF g0) (hr : ∀ g ∈ gr, GroupWF g) :
    convertX x cfg (defSrcG cfg.tab g0 gr) = .ok (defOutG (allItems (g0 :: gr))) :=
  convertX_defG x hx.1 hx.2.1 hx.2.2.1 hx.2.2.2.1 hx.2.2.2.2.1 hx.2.2.2.2.2 cfg hbl htab g0 gr (groupWF_ok h0)
    (fun g hg => groupWF_ok (hr g hg))

/-- the hypotheses are satisfiable … -/
example : GroupWF ⟨"term".toList, [], "def 1".toList, ["def 2".toList], [("more".toList, ["lines".toList])]⟩ ∧
    GroupWF ⟨"t 1".toList, ["t 2".toList], "other".toList, [], []⟩ ∧ DefCompat { defList := true } ∧
    DefCompat { defList := true, admonition := true, abbr := true, footnotes := true, saneLists := true,
                wikilinks := true } := by decide

/-- … and exclude markup in a term, an empty definition, nl2br -/
example : ¬ GroupWF ⟨"*term*".toList, [], "def".toList, [], []⟩ ∧ ¬ GroupWF ⟨"term".toList, [], [], [], []⟩ ∧
    ¬ DefCompat { defList := true, nl2br := true } := by decide

/-- **spelled out: a definition continued by an indented paragraph.**  `term`, `:   def`, an empty line, `more`
    indented by `tab_length` ↦ `<dd>` with the two paragraphs. -/
theorem C16_deflist_continued (x : Exts) (hx : DefCompat x) (cfg : Pipeline.Cfg)
    (hbl : cfg.blockLevel = TreeProc.defaultBlockLevel) (htab : 0 < cfg.tab) (term d more : Str)
    (ht : PlainLine term) (hd : PlainLine d) (hm : PlainLine more) :
    convertX x cfg (term ++ "\n:   ".toList ++ d ++ "\n\n".toList ++ Block.spaces cfg.tab ++ more) =
      .ok ("<dl>\n<dt>".toList ++ term ++ "</dt>\n<dd>\n<p>".toList ++ d ++ "</p>\n<p>".toList ++ more ++
        "</p>\n</dd>\n</dl>".toList) := by
  have h := C16_deflist_groups x hx cfg hbl htab ⟨term, [], d, [], [(more, [])]⟩ []
    ⟨by intro l hl; simp at hl; subst hl; exact ht, by intro l hl; simp at hl; subst hl; exact hd,
     by intro p hp l hl; simp at hp; subst hp; simp at hl; subst hl; exact hm⟩ (by intro g hg; cases hg)
  have hne := (plainLine_facts hm).ne
  have e1 : defSrcG cfg.tab ⟨term, [], d, [], [(more, [])]⟩ [] =
      term ++ "\n:   ".toList ++ d ++ "\n\n".toList ++ Block.spaces cfg.tab ++ more := by
    obtain ⟨a, b, rfl⟩ : ∃ a b, more = a :: b := by cases more <;> simp_all
    unfold defSrcG groupBlocks defSrc defLine bodyBlock pLines CodeLaw.indentLines CodeLaw.indentLine
    generalize Block.spaces cfg.tab = SP
    simp only [List.flatMap_cons, List.flatMap_nil, List.map_cons, List.map_nil, List.isEmpty_cons, Bool.false_eq_true,
      if_false, DocParse.joinChunks, joinLines, join, List.cons_append, List.nil_append, List.append_nil]
    simp only [String.reduceToList]
    simp only [List.cons_append, List.append_assoc, List.nil_append, List.append_nil]
  have e2 : defOutG (allItems [⟨term, [], d, [], [(more, [])]⟩]) =
      "<dl>\n<dt>".toList ++ term ++ "</dt>\n<dd>\n<p>".toList ++ d ++ "</p>\n<p>".toList ++ more ++
        "</p>\n</dd>\n</dl>".toList := by
    unfold defOutG allItems groupItems ddItems itemsHtml itemsHtml itemsHtml
    simp only [List.flatMap_cons, List.flatMap_nil, List.map_cons, List.map_nil, List.append_nil, List.cons_append,
      List.nil_append, pText, joinLines, join, reduceCtorEq, ↓reduceIte, DItem.html, txtOut, psHtml, lDL1, lDL2, lDD1,
      lDD2, lP1, lP2]
    simp only [String.reduceToList]
    simp only [List.cons_append, List.append_assoc, List.nil_append, List.append_nil]
  rw [e1, e2] at h
  exact h

/-- **spelled out: two groups separated by an empty line** go into one list. -/
theorem C16_deflist_two_groups (x : Exts) (hx : DefCompat x) (cfg : Pipeline.Cfg)
    (hbl : cfg.blockLevel = TreeProc.defaultBlockLevel) (htab : 0 < cfg.tab) (t1 d1 t2 d2 : Str)
    (h1 : PlainLine t1) (h2 : PlainLine d1) (h3 : PlainLine t2) (h4 : PlainLine d2) :
    convertX x cfg (t1 ++ "\n:   ".toList ++ d1 ++ "\n\n".toList ++ t2 ++ "\n:   ".toList ++ d2) =
      .ok ("<dl>\n<dt>".toList ++ t1 ++ "</dt>\n<dd>".toList ++ d1 ++ "</dd>\n<dt>".toList ++ t2 ++
        "</dt>\n<dd>".toList ++ d2 ++ "</dd>\n</dl>".toList) := by
  have h := C16_deflist_groups x hx cfg hbl htab ⟨t1, [], d1, [], []⟩ [⟨t2, [], d2, [], []⟩]
    ⟨by intro l hl; simp at hl; subst hl; exact h1, by intro l hl; simp at hl; subst hl; exact h2,
     by intro p hp; cases hp⟩
    (by
      intro g hg
      simp at hg; subst hg
      exact ⟨by intro l hl; simp at hl; subst hl; exact h3, by intro l hl; simp at hl; subst hl; exact h4,
        by intro p hp; cases hp⟩)
  have e1 : defSrcG cfg.tab ⟨t1, [], d1, [], []⟩ [⟨t2, [], d2, [], []⟩] =
      t1 ++ "\n:   ".toList ++ d1 ++ "\n\n".toList ++ t2 ++ "\n:   ".toList ++ d2 := by
    unfold defSrcG groupBlocks defSrc defLine
    simp only [List.flatMap_cons, List.flatMap_nil, List.map_cons, List.map_nil, DocParse.joinChunks, joinLines, join,
      List.cons_append, List.nil_append, List.append_nil]
    simp only [String.reduceToList]
    simp only [List.cons_append, List.append_assoc, List.nil_append, List.append_nil]
  have e2 : defOutG (allItems [⟨t1, [], d1, [], []⟩, ⟨t2, [], d2, [], []⟩]) =
      "<dl>\n<dt>".toList ++ t1 ++ "</dt>\n<dd>".toList ++ d1 ++ "</dd>\n<dt>".toList ++ t2 ++
        "</dt>\n<dd>".toList ++ d2 ++ "</dd>\n</dl>".toList := by
    unfold defOutG allItems groupItems ddItems itemsHtml itemsHtml itemsHtml itemsHtml itemsHtml
    simp only [List.flatMap_cons, List.flatMap_nil, List.map_cons, List.map_nil, List.append_nil, List.cons_append,
      List.nil_append, ↓reduceIte, DItem.html, txtOut, lDL1, lDL2]
    simp only [String.reduceToList]
    simp only [List.cons_append, List.append_assoc, List.nil_append, List.append_nil]
  rw [e1, e2] at h
  exact h

/-- an instance through the theorem: two groups, the first with a continued definition … -/
example : convertX { defList := true } {}
      "term\n:   def 1\n:   def 2\n\n    more\n    lines\n\nt 1\nt 2\n:   other".toList =
    .ok ("<dl>\n<dt>term</dt>\n<dd>def 1</dd>\n<dd>\n<p>def 2</p>\n<p>more\nlines</p>\n</dd>\n".toList ++
     "<dt>t 1</dt>\n<dt>t 2</dt>\n<dd>other</dd>\n</dl>".toList) := by
  have h := C16_deflist_groups { defList := true } (by decide) {} rfl (by decide)
    ⟨"term".toList, [], "def 1".toList, ["def 2".toList], [("more".toList, ["lines".toList])]⟩
    [⟨"t 1".toList, ["t 2".toList], "other".toList, [], []⟩] (by decide) (by decide)
  have e1 : defSrcG ({} : Pipeline.Cfg).tab
      ⟨"term".toList, [], "def 1".toList, ["def 2".toList], [("more".toList, ["lines".toList])]⟩
      [⟨"t 1".toList, ["t 2".toList], "other".toList, [], []⟩] =
      "term\n:   def 1\n:   def 2\n\n    more\n    lines\n\nt 1\nt 2\n:   other".toList := by decide +kernel
  rw [e1] at h
  rw [h]
  decide +kernel

/-- … and the documented shape evaluated by the kernel on the model, independently of the theorems -/
example : convertX { defList := true } {} "term\n:   def\n\n    more".toList =
    .ok "<dl>\n<dt>term</dt>\n<dd>\n<p>def</p>\n<p>more</p>\n</dd>\n</dl>".toList := by decide +kernel

/-- an unindented paragraph after the definition is NOT part of it -/
example : convertX { defList := true } {} "term\n:   def\n\nmore".toList =
    .ok "<dl>\n<dt>term</dt>\n<dd>def</dd>\n</dl>\n<p>more</p>".toList := by decide +kernel

/-! ### a definition list followed by ordinary paragraphs -/

/-- the source `defSrcQ tab g0 gr qs`: the blocks of `defSrcG tab g0 gr`, then one block per paragraph of `qs` -/
example : defSrcQ 4 ⟨"term".toList, [], "def".toList, [], [("more".toList, [])]⟩
      [⟨"t 2".toList, [], "other".toList, [], []⟩] [("after".toList, ["it".toList]), ("end".toList, [])] =
    "term\n:   def\n\n    more\n\nt 2\n:   other\n\nafter\nit\n\nend".toList := by decide +kernel

/-- the rendering `defOutQ items texts`: the `dl`, then a line feed and `<p>text</p>` per paragraph -/
example (items : List DItem) (t1 t2 : Str) : defOutQ items [t1, t2] =
    defOutG items ++ ("\n<p>".toList ++ t1 ++ "</p>".toList ++ ("\n<p>".toList ++ t2 ++ "</p>".toList)) := by
  simp [defOutQ, psHtmlAfter, lP1, lP2]

/-- **def_list composes with paragraphs after it.**  The groups of `C16_deflist_groups` followed by any number
    (≥ 0) of unindented paragraphs of plain lines convert to the same ONE `dl` followed by one `<p>` per paragraph:
    the first unindented block without a `:` line ends the list, nothing of it is taken into the last definition.
    Both formats, any positive `tab_length`; with any of admonition, abbr, footnotes, sane_lists, wikilinks enabled
    as well. -/
theorem C16_deflist_then_paragraphs (x : Exts) (hx : DefCompat x) (cfg : Pipeline.Cfg)
    (hbl : cfg.blockLevel = TreeProc.defaultBlockLevel) (htab : 0 < cfg.tab) (g0 : DGroup) (gr : List DGroup)
    (qs : List Para) (h0 : GroupWF g0) (hr : ∀ g ∈ gr, GroupWF g) (hqs : ∀ p ∈ qs, ParaWF p) :
    convertX x cfg (defSrcQ cfg.tab g0 gr qs) = .ok (defOutQ (allItems (g0 :: gr)) (qs.map pText)) :=
  convertX_defQ x hx.1 hx.2.1 hx.2.2.1 hx.2.2.2.1 hx.2.2.2.2.1 hx.2.2.2.2.2 cfg hbl htab g0 gr qs (groupWF_ok h0)
    (fun g hg => groupWF_ok (hr g hg)) (fun p hp l hl => plainLine_facts (hqs p hp l hl))

/-- **spelled out: a definition list followed by a paragraph.** -/
theorem C16_deflist_then_paragraph (x : Exts) (hx : DefCompat x) (cfg : Pipeline.Cfg)
    (hbl : cfg.blockLevel = TreeProc.defaultBlockLevel) (htab : 0 < cfg.tab) (term d para : Str)
    (ht : PlainLine term) (hd : PlainLine d) (hp : PlainLine para) :
    convertX x cfg (term ++ "\n:   ".toList ++ d ++ "\n\n".toList ++ para) =
      .ok ("<dl>\n<dt>".toList ++ term ++ "</dt>\n<dd>".toList ++ d ++ "</dd>\n</dl>\n<p>".toList ++ para ++
        "</p>".toList) := by
  have h := C16_deflist_then_paragraphs x hx cfg hbl htab ⟨term, [], d, [], []⟩ [] [(para, [])]
    ⟨by intro l hl; simp at hl; subst hl; exact ht, by intro l hl; simp at hl; subst hl; exact hd,
     by intro p hp; cases hp⟩ (by intro g hg; cases hg)
    (by intro p hp' l hl; simp at hp'; subst hp'; simp at hl; subst hl; exact hp)
  have e1 : defSrcQ cfg.tab ⟨term, [], d, [], []⟩ [] [(para, [])] =
      term ++ "\n:   ".toList ++ d ++ "\n\n".toList ++ para := by
    unfold defSrcQ groupBlocks defSrc defLine
    simp only [List.flatMap_cons, List.flatMap_nil, List.map_cons, List.map_nil, DocParse.joinChunks, joinLines, join,
      List.cons_append, List.nil_append, List.append_nil, pText]
    simp only [String.reduceToList]
    simp only [List.cons_append, List.append_assoc, List.nil_append, List.append_nil]
  have e2 : defOutQ (allItems [⟨term, [], d, [], []⟩]) ([(para, [])].map pText) =
      "<dl>\n<dt>".toList ++ term ++ "</dt>\n<dd>".toList ++ d ++ "</dd>\n</dl>\n<p>".toList ++ para ++
        "</p>".toList := by
    unfold defOutQ defOutG allItems groupItems ddItems itemsHtml itemsHtml itemsHtml
    simp only [List.flatMap_cons, List.flatMap_nil, List.map_cons, List.map_nil, List.append_nil, List.cons_append,
      List.nil_append, ↓reduceIte, DItem.html, txtOut, lDL1, lDL2, psHtmlAfter, lP1, lP2, pText, joinLines, join]
    simp only [String.reduceToList]
    simp only [List.cons_append, List.append_assoc, List.nil_append, List.append_nil]
  rw [e1, e2] at h
  exact h

/-- an instance through the general theorem (two groups, a continued definition, two paragraphs after) … -/
example : convertX { defList := true } {} "term\n:   def\n\n    more\n\nt 2\n:   other\n\nafter\nit\n\nend".toList =
    .ok ("<dl>\n<dt>term</dt>\n<dd>\n<p>def</p>\n<p>more</p>\n</dd>\n<dt>t 2</dt>\n<dd>other</dd>\n</dl>\n".toList ++
      "<p>after\nit</p>\n<p>end</p>".toList) := by
  have h := C16_deflist_then_paragraphs { defList := true } (by decide) {} rfl (by decide)
    ⟨"term".toList, [], "def".toList, [], [("more".toList, [])]⟩ [⟨"t 2".toList, [], "other".toList, [], []⟩]
    [("after".toList, ["it".toList]), ("end".toList, [])] (by decide) (by decide) (by decide)
  have e1 : defSrcQ ({} : Pipeline.Cfg).tab ⟨"term".toList, [], "def".toList, [], [("more".toList, [])]⟩
      [⟨"t 2".toList, [], "other".toList, [], []⟩] [("after".toList, ["it".toList]), ("end".toList, [])] =
      "term\n:   def\n\n    more\n\nt 2\n:   other\n\nafter\nit\n\nend".toList := by decide +kernel
  rw [e1] at h
  rw [h]
  decide +kernel

/-- … and one evaluated by the kernel on the model, independently of the theorems (html format, other extensions on) -/
example : convertX { defList := true, admonition := true, footnotes := true, abbr := true, wikilinks := true }
      { fmt := .html } "t\n:   d\n\np 1\n\np 2".toList =
    .ok "<dl>\n<dt>t</dt>\n<dd>d</dd>\n</dl>\n<p>p 1</p>\n<p>p 2</p>".toList := by decide +kernel

/-! ## Part 4: a definition list inside a block quote -/

/-- the source `qdSrc t0 tr d ds`: the term lines and the definition lines, every line prefixed with `> ` -/
example : qdSrc "term 1".toList ["term 2".toList] "def 1".toList ["def 2".toList] =
    "> term 1\n> term 2\n> :   def 1\n> :   def 2".toList := by decide +kernel

theorem ddItems_nil : ∀ (ds : List Str) (d : Str), ddItems d ds [] = (d :: ds).map (.txt "dd") := by
  intro ds
  induction ds with
  | nil => intro d; rfl
  | cons e es ih => intro d; simp only [ddItems, ih, List.map_cons]

/-- **a definition list inside a block quote renders as it does at top level, wrapped in `blockquote`.**  For any
    number (≥ 1) of plain term lines and of plain one-line definitions: at top level the source converts to some
    `J` (the `dl` of `C16_deflist_groups`), and the same lines each prefixed with `> ` convert to
    `<blockquote>`, a line feed, the SAME `J`, a line feed, `</blockquote>` — `BlockQuoteProcessor` strips the prefix
    and hands the lines to the block parser inside the `blockquote` element, where `DefListProcessor` sees what it sees
    at top level.  Both formats, any positive `tab_length`, any of admonition, abbr, footnotes, sane_lists, wikilinks
    enabled as well. -/
theorem C16_deflist_in_blockquote (x : Exts) (hx : DefCompat x) (cfg : Pipeline.Cfg)
    (hbl : cfg.blockLevel = TreeProc.defaultBlockLevel) (htab : 0 < cfg.tab) (t0 : Str) (tr : List Str) (d : Str)
    (ds : List Str) (ht : ∀ l ∈ t0 :: tr, PlainLine l) (hd : ∀ l ∈ d :: ds, PlainLine l) :
    convertX x cfg (defSrc (t0 :: tr) (d :: ds)) = .ok (defOutG (qdItems t0 tr d ds)) ∧
    convertX x cfg (qdSrc t0 tr d ds) =
      .ok ("<blockquote>\n".toList ++ defOutG (qdItems t0 tr d ds) ++ "\n</blockquote>".toList) := by
  constructor
  · have h := C16_deflist_groups x hx cfg hbl htab ⟨t0, tr, d, ds, []⟩ [] ⟨ht, hd, by intro p hp; cases hp⟩
      (by intro g hg; cases hg)
    have e1 : defSrcG cfg.tab ⟨t0, tr, d, ds, []⟩ [] = defSrc (t0 :: tr) (d :: ds) := by
      simp [defSrcG, groupBlocks, DocParse.joinChunks]
    have e2 : allItems [(⟨t0, tr, d, ds, []⟩ : DGroup)] = qdItems t0 tr d ds := by
      simp [allItems, groupItems, qdItems, ddItems_nil]
    rw [e1, e2] at h
    exact h
  · exact convertX_defQuote x hx.1 hx.2.1 hx.2.2.1 hx.2.2.2.1 hx.2.2.2.2.1 hx.2.2.2.2.2 cfg hbl htab t0 tr d ds
      (fun l hl => plainLine_facts (ht l hl)) (fun l hl => plainLine_facts (hd l hl))

/-- **spelled out for one term and one definition**: `> term`, `> :   def`. -/
theorem C16_deflist_in_blockquote_one (x : Exts) (hx : DefCompat x) (cfg : Pipeline.Cfg)
    (hbl : cfg.blockLevel = TreeProc.defaultBlockLevel) (htab : 0 < cfg.tab) (term d : Str)
    (ht : PlainLine term) (hd : PlainLine d) :
    convertX x cfg ("> ".toList ++ term ++ "\n> :   ".toList ++ d) =
      .ok ("<blockquote>\n<dl>\n<dt>".toList ++ term ++ "</dt>\n<dd>".toList ++ d ++
        "</dd>\n</dl>\n</blockquote>".toList) := by
  have h := (C16_deflist_in_blockquote x hx cfg hbl htab term [] d [] (by simpa using ht) (by simpa using hd)).2
  have e1 : qdSrc term [] d [] = "> ".toList ++ term ++ "\n> :   ".toList ++ d := by
    unfold qdSrc qdLines qline0 defLine
    simp only [List.map_cons, List.map_nil, List.cons_append, List.nil_append, joinLines, join]
    simp only [String.reduceToList]
    simp only [List.cons_append, List.append_assoc, List.nil_append, List.append_nil]
  have e2 : "<blockquote>\n".toList ++ defOutG (qdItems term [] d []) ++ "\n</blockquote>".toList =
      "<blockquote>\n<dl>\n<dt>".toList ++ term ++ "</dt>\n<dd>".toList ++ d ++ "</dd>\n</dl>\n</blockquote>".toList := by
    unfold defOutG qdItems itemsHtml itemsHtml itemsHtml
    simp only [List.map_cons, List.map_nil, List.cons_append, List.nil_append, DItem.html, txtOut, lDL1, lDL2]
    simp only [String.reduceToList]
    simp only [List.cons_append, List.append_assoc, List.nil_append, List.append_nil]
  rw [e1, e2] at h
  exact h

/-- an instance through the theorem: two terms, two definitions … -/
example : convertX { defList := true } {} "> term 1\n> term 2\n> :   def 1\n> :   def 2".toList =
    .ok ("<blockquote>\n<dl>\n<dt>term 1</dt>\n<dt>term 2</dt>\n<dd>def 1</dd>\n<dd>def 2</dd>\n".toList ++
      "</dl>\n</blockquote>".toList) := by
  have h := (C16_deflist_in_blockquote { defList := true } (by decide) {} rfl (by decide) "term 1".toList
    ["term 2".toList] "def 1".toList ["def 2".toList] (by decide) (by decide)).2
  have e1 : qdSrc "term 1".toList ["term 2".toList] "def 1".toList ["def 2".toList] =
      "> term 1\n> term 2\n> :   def 1\n> :   def 2".toList := by decide +kernel
  rw [e1] at h
  rw [h]
  decide +kernel

/-- … and a smaller one evaluated by the kernel on the model, independently of the theorem -/
example : convertX { defList := true } {} "> term\n> :   def".toList =
    .ok "<blockquote>\n<dl>\n<dt>term</dt>\n<dd>def</dd>\n</dl>\n</blockquote>".toList := by decide +kernel

/-! ### an admonition inside a block quote -/

/-- the source `qaSrc tab kl title b`: the header line and the body lines (indented by `tab_length`), every line
    prefixed with `> ` -/
example : qaSrc 4 "note".toList (some "T".toList) ("one".toList, ["two".toList]) =
    "> !!! note \"T\"\n>     one\n>     two".toList := by decide +kernel

/-- **an admonition inside a block quote renders as it does at top level, wrapped in `blockquote`.**  For every
    lower-case class line, every title form and any number (≥ 1) of plain body lines: at top level the source converts
    to some `J` (the `div` of `C16_admonition_paragraphs`), and the same lines each prefixed with `> ` convert to
    `<blockquote>`, a line feed, the SAME `J`, a line feed, `</blockquote>`.  Both formats, any positive `tab_length`,
    any of def_list, abbr, footnotes, sane_lists, wikilinks enabled as well. -/
theorem C16_admonition_in_blockquote (x : Exts) (hx : AdmCompat x) (cfg : Pipeline.Cfg)
    (hbl : cfg.blockLevel = TreeProc.defaultBlockLevel) (htab : 0 < cfg.tab) (kl : Str) (title : Option Str)
    (b : Para) (hk : ClassLine kl) (ht : TitleOK title) (hb : ParaWF b) :
    convertX x cfg (admSrc cfg.tab kl title (pLines b)) = .ok (admHtml kl (shownTitle kl title) [pText b]) ∧
    convertX x cfg (qaSrc cfg.tab kl title b) =
      .ok ("<blockquote>\n".toList ++ admHtml kl (shownTitle kl title) [pText b] ++ "\n</blockquote>".toList) := by
  have hkf : LowerFacts kl := { toPlainFacts := plainLine_facts hk.1, lower := hk.2 }
  have hcl := admClassTitle_lower kl hkf title
  have httl : ∀ c ∈ (shownTitle kl title).getD [], DocSpec.isAlnumSp c = true := by
    cases title with
    | none =>
      have hw : ∀ c ∈ kl.takeWhile (· != ' '), DocSpec.isAlnumSp c = true :=
        fun c hc => hkf.chars c ((List.takeWhile_sublist _).subset hc)
      simpa [shownTitle] using upperFirst_chars _ hw
    | some t =>
      cases t with
      | nil => simp [shownTitle]
      | cons a r => simpa [shownTitle] using ht (a :: r) rfl
  constructor
  · have h := C16_admonition_paragraphs x hx cfg hbl htab kl title b [] [] hk ht hb (by intro p hp; cases hp)
      (by intro p hp; cases hp)
    have e1 : admSrcG cfg.tab kl title b [] [] = admSrc cfg.tab kl title (pLines b) := by
      simp [admSrcG, DocParse.joinChunks]
    have e2 : admOutG kl (shownTitle kl title) (pText b :: ([] : List Para).map pText) (([] : List Para).map pText) =
        admHtml kl (shownTitle kl title) [pText b] := by simp [admOutG, psHtmlAfter]
    rw [e1, e2] at h
    exact h
  · exact convertX_admQuote x hx.1 hx.2.1 hx.2.2.1 hx.2.2.2.1 hx.2.2.2.2.1 hx.2.2.2.2.2 cfg hbl htab kl title
      (shownTitle kl title) b hkf.toPlainFacts ht httl (fun l hl => plainLine_facts (hb l hl))
      (by rw [hcl]; cases title with
        | none => rfl
        | some t => cases t <;> rfl)

/-- **spelled out**: `> !!! kl "Title"`, `>     body` (the body indented by `tab_length`). -/
theorem C16_admonition_in_blockquote_one (x : Exts) (hx : AdmCompat x) (cfg : Pipeline.Cfg)
    (hbl : cfg.blockLevel = TreeProc.defaultBlockLevel) (htab : 0 < cfg.tab) (kl title body : Str)
    (hk : ClassLine kl) (ht : PlainLine title) (hb : PlainLine body) :
    convertX x cfg ("> !!! ".toList ++ kl ++ " \"".toList ++ title ++ "\"\n> ".toList ++ Block.spaces cfg.tab ++ body) =
      .ok ("<blockquote>\n<div class=\"admonition ".toList ++ kl ++ "\">\n<p class=\"admonition-title\">".toList ++
        title ++ "</p>\n<p>".toList ++ body ++ "</p>\n</div>\n</blockquote>".toList) := by
  have htf := plainLine_facts ht
  obtain ⟨ta, tt, rfl⟩ : ∃ a t, title = a :: t := by
    cases title with
    | nil => exact absurd rfl htf.ne
    | cons a t => exact ⟨a, t, rfl⟩
  have h := (C16_admonition_in_blockquote x hx cfg hbl htab kl (some (ta :: tt)) (body, []) hk
    (by intro t e; cases e; exact htf.chars) (by intro l hl; simp at hl; subst hl; exact hb)).2
  have hne := (plainLine_facts hb).ne
  have e1 : qaSrc cfg.tab kl (some (ta :: tt)) (body, []) =
      "> !!! ".toList ++ kl ++ " \"".toList ++ (ta :: tt) ++ "\"\n> ".toList ++ Block.spaces cfg.tab ++ body := by
    obtain ⟨x1, y1, rfl⟩ : ∃ a t, body = a :: t := by cases body <;> simp_all
    unfold qaSrc qaLines qline0 admHeader admTitleSrc pLines CodeLaw.indentLines CodeLaw.indentLine
    generalize Block.spaces cfg.tab = SP
    simp only [List.map_cons, List.map_nil, List.isEmpty_cons, Bool.false_eq_true, if_false, joinLines, join,
      List.cons_append, List.nil_append]
    simp only [String.reduceToList]
    simp only [List.cons_append, List.append_assoc, List.nil_append, List.append_nil]
  have e2 : "<blockquote>\n".toList ++ admHtml kl (shownTitle kl (some (ta :: tt))) [pText (body, [])] ++
        "\n</blockquote>".toList =
      "<blockquote>\n<div class=\"admonition ".toList ++ kl ++ "\">\n<p class=\"admonition-title\">".toList ++
        (ta :: tt) ++ "</p>\n<p>".toList ++ body ++ "</p>\n</div>\n</blockquote>".toList := by
    unfold admHtml titleHtml shownTitle psHtml psHtml pText lV1 lV2 lV3 lT1 lP1 lP2
    simp only [Node.truthy, if_true, Option.getD_some, joinLines, join]
    simp only [String.reduceToList]
    simp only [List.cons_append, List.append_assoc, List.nil_append, List.append_nil]
  rw [e1, e2] at h
  exact h

/-- an instance through the theorem: the default title, two body lines, other extensions enabled … -/
example : convertX { admonition := true, defList := true, footnotes := true } {}
      "> !!! danger big\n>     one\n>     two".toList =
    .ok ("<blockquote>\n<div class=\"admonition danger big\">\n<p class=\"admonition-title\">Danger</p>\n".toList ++
      "<p>one\ntwo</p>\n</div>\n</blockquote>".toList) := by
  have h := (C16_admonition_in_blockquote { admonition := true, defList := true, footnotes := true } (by decide) {} rfl
    (by decide) "danger big".toList none ("one".toList, ["two".toList]) (by decide) (by decide) (by decide)).2
  have e1 : qaSrc ({} : Pipeline.Cfg).tab "danger big".toList none ("one".toList, ["two".toList]) =
      "> !!! danger big\n>     one\n>     two".toList := by decide +kernel
  rw [e1] at h
  rw [h]
  decide +kernel

/-- … and a smaller one evaluated by the kernel on the model, independently of the theorem -/
example : convertX { admonition := true } {} "> !!! note \"T\"\n>     body".toList =
    .ok ("<blockquote>\n<div class=\"admonition note\">\n<p class=\"admonition-title\">T</p>\n".toList ++
      "<p>body</p>\n</div>\n</blockquote>".toList) := by decide +kernel

/-! ## Part 2, continued: a nested admonition -/

/-- the source `nestSrc tab k1 t1 b1 k2 t2 b2`: the outer admonition with its paragraph `b1`, an empty line, the inner
    admonition (header and body `b2`) indented by `tab_length` -/
example : nestSrc 4 "note".toList (some "Outer".toList) ("one".toList, []) "warning".toList none ("in".toList, ["side".toList]) =
    "!!! note \"Outer\"\n    one\n\n    !!! warning\n        in\n        side".toList := by decide +kernel

/-- the rendering `nestOut k1 s1 x1 k2 s2 x2`: the outer `div` holding its title, its paragraph, and — as its last
    child — the inner `div` exactly as `admHtml k2 s2 [x2]` renders at top level -/
example (k1 : Str) (s1 : Option Str) (x1 k2 : Str) (s2 : Option Str) (x2 : Str) :
    nestOut k1 s1 x1 k2 s2 x2 =
      lV1 ++ k1 ++ lV2 ++ titleHtml s1 ++ psHtml [x1] ++ (admHtml k2 s2 [x2] ++ ['\n']) ++ lV3 := rfl
example : nestOut "note".toList (some "Outer".toList) "one".toList "warning".toList (some "Warning".toList)
      "in\nside".toList =
    ("<div class=\"admonition note\">\n<p class=\"admonition-title\">Outer</p>\n<p>one</p>\n".toList ++
     "<div class=\"admonition warning\">\n<p class=\"admonition-title\">Warning</p>\n<p>in\nside</p>\n".toList ++
     "</div>\n</div>".toList) := by decide +kernel

/-- **a nested admonition.**  An admonition whose body is a paragraph of plain lines followed, after an empty line,
    by another admonition indented by `tab_length` (its own body by twice that) converts to the outer `div` with its
    title and paragraph and, as last child, the inner `div` — rendered as the inner admonition renders at top level
    (`C16_admonition_paragraphs`).  For all lower-case class lines, all title forms (independently for the two), all
    plain body lines; both formats, any positive `tab_length`; with any of def_list, abbr, footnotes, sane_lists,
    wikilinks enabled as well. -/
theorem C16_admonition_nested (x : Exts) (hx : AdmCompat x) (cfg : Pipeline.Cfg)
    (hbl : cfg.blockLevel = TreeProc.defaultBlockLevel) (htab : 0 < cfg.tab) (k1 : Str) (t1 : Option Str) (b1 : Para)
    (k2 : Str) (t2 : Option Str) (b2 : Para) (hk1 : ClassLine k1) (ht1 : TitleOK t1) (hb1 : ParaWF b1)
    (hk2 : ClassLine k2) (ht2 : TitleOK t2) (hb2 : ParaWF b2) :
    convertX x cfg (nestSrc cfg.tab k1 t1 b1 k2 t2 b2) =
      .ok (nestOut k1 (shownTitle k1 t1) (pText b1) k2 (shownTitle k2 t2) (pText b2)) := by
  have facts : ∀ (kl : Str) (title : Option Str), ClassLine kl → TitleOK title →
      PlainFacts kl ∧ (∀ c ∈ (shownTitle kl title).getD [], DocSpec.isAlnumSp c = true) ∧
      BlockExt.admClassTitle kl title = (kl, shownTitle kl title) := by
    intro kl title hk ht
    have hkf : LowerFacts kl := { toPlainFacts := plainLine_facts hk.1, lower := hk.2 }
    refine ⟨hkf.toPlainFacts, ?_, ?_⟩
    · cases title with
      | none =>
        have hw : ∀ c ∈ kl.takeWhile (· != ' '), DocSpec.isAlnumSp c = true :=
          fun c hc => hkf.chars c ((List.takeWhile_sublist _).subset hc)
        simpa [shownTitle] using upperFirst_chars _ hw
      | some t =>
        cases t with
        | nil => simp [shownTitle]
        | cons a r => simpa [shownTitle] using ht (a :: r) rfl
    · rw [admClassTitle_lower kl hkf title]
      cases title with
      | none => rfl
      | some t => cases t <;> rfl
  obtain ⟨p1, q1, r1⟩ := facts k1 t1 hk1 ht1
  obtain ⟨p2, q2, r2⟩ := facts k2 t2 hk2 ht2
  exact convertX_nest x hx.1 hx.2.1 hx.2.2.1 hx.2.2.2.1 hx.2.2.2.2.1 hx.2.2.2.2.2 cfg hbl htab k1 t1
    (shownTitle k1 t1) b1 k2 t2 (shownTitle k2 t2) b2 p1 ht1 q1 (fun l hl => plainLine_facts (hb1 l hl)) r1 p2 ht2 q2
    (fun l hl => plainLine_facts (hb2 l hl)) r2

/-- an instance through the theorem … -/
example : convertX { admonition := true } {}
      "!!! note \"Outer\"\n    one\n\n    !!! warning\n        in\n        side".toList =
    .ok ("<div class=\"admonition note\">\n<p class=\"admonition-title\">Outer</p>\n<p>one</p>\n".toList ++
     "<div class=\"admonition warning\">\n<p class=\"admonition-title\">Warning</p>\n<p>in\nside</p>\n".toList ++
     "</div>\n</div>".toList) := by
  have h := C16_admonition_nested { admonition := true } (by decide) {} rfl (by decide) "note".toList
    (some "Outer".toList) ("one".toList, []) "warning".toList none ("in".toList, ["side".toList])
    (by decide) (by decide) (by decide) (by decide) (by decide) (by decide)
  have e1 : nestSrc ({} : Pipeline.Cfg).tab "note".toList (some "Outer".toList) ("one".toList, []) "warning".toList none
      ("in".toList, ["side".toList]) =
      "!!! note \"Outer\"\n    one\n\n    !!! warning\n        in\n        side".toList := by decide +kernel
  rw [e1] at h
  rw [h]
  decide +kernel

/-- … and a smaller one evaluated by the kernel on the model, independently of the theorem -/
example : convertX { admonition := true } {} "!!! a \"\"\n    x\n\n    !!! b \"\"\n        y".toList =
    .ok ("<div class=\"admonition a\">\n<p>x</p>\n<div class=\"admonition b\">\n<p>y</p>\n</div>\n</div>".toList) := by
  decide +kernel

/-! ## Part 1, continued: references in several paragraphs -/

/-- a paragraph `(t, segs)`: plain leading text, then the references with the texts after them -/
def FParaWF (p : FPara) : Prop := PlainLine p.1 ∧ RefsOK p.2

instance (p : FPara) : Decidable (FParaWF p) := by unfold FParaWF; infer_instance

/-- the source `fnSrcP p0 pr defs`: one line per paragraph, then one block per definition, separated by empty lines -/
example : fnSrcP ("One".toList, [("a".toList, " x".toList)]) [("Two".toList, []), ("Three".toList, [("a".toList, []), ("b".toList, [])])]
      [("a".toList, "first".toList), ("b".toList, "second".toList)] =
    "One[^a] x\n\nTwo\n\nThree[^a][^b]\n\n[^a]: first\n\n[^b]: second".toList := by decide +kernel

/-- the rendering `fnRenderP fmt ps defs`: one `<p>` per paragraph with its references (the `fnref` counter of a label
    runs on ACROSS the paragraphs: the reference to `a` in the third paragraph is `fnref2:a`), then the footnote list
    with one back-link per reference of the whole document -/
example : fnRenderP .xhtml [("One".toList, [("a".toList, " x".toList)]), ("Two".toList, []),
      ("Three".toList, [("a".toList, []), ("b".toList, [])])] [("a".toList, "first".toList), ("b".toList, "second".toList)] =
    ("<p>One<sup id=\"fnref:a\"><a class=\"footnote-ref\" href=\"#fn:a\">1</a></sup> x</p>\n<p>Two</p>\n".toList ++
     "<p>Three<sup id=\"fnref2:a\"><a class=\"footnote-ref\" href=\"#fn:a\">1</a></sup>".toList ++
     "<sup id=\"fnref:b\"><a class=\"footnote-ref\" href=\"#fn:b\">2</a></sup></p>\n".toList ++
     "<div class=\"footnote\">\n<hr />\n<ol>\n".toList ++
     "<li id=\"fn:a\">\n<p>first&#160;<a class=\"footnote-backref\" href=\"#fnref:a\" ".toList ++
       "title=\"Jump back to footnote 1 in the text\">&#8617;</a><a class=\"footnote-backref\" href=\"#fnref2:a\" ".toList ++
       "title=\"Jump back to footnote 1 in the text\">&#8617;</a></p>\n</li>\n".toList ++
     "<li id=\"fn:b\">\n<p>second&#160;<a class=\"footnote-backref\" href=\"#fnref:b\" ".toList ++
       "title=\"Jump back to footnote 2 in the text\">&#8617;</a></p>\n</li>\n".toList ++
     "</ol>\n</div>".toList) := by decide +kernel

/-- **footnotes, references in several paragraphs.**  Any number (≥ 1) of one-line paragraphs, each starting with
    plain text and containing any number (also none) of footnote references anywhere in the line, followed by the
    definitions (any number ≥ 1, distinct labels, every referenced label defined) converts to one `<p>` per
    paragraph with the references as in `C16_footnotes_anywhere` — the `fnref`, `fnref2`, … ids of a label counted
    across ALL the paragraphs — and ONE footnote list after the last paragraph, every note with one back-link per
    reference in the whole document.  Both formats, any positive `tab_length`, any of admonition, def_list, abbr,
    sane_lists, nl2br, wikilinks enabled as well. -/
theorem C16_footnotes_paragraphs (x : Exts) (hx : FnCompat x) (cfg : Pipeline.Cfg)
    (hbl : cfg.blockLevel = TreeProc.defaultBlockLevel) (htab : 0 < cfg.tab) (p0 : FPara) (pr : List FPara)
    (defs : List (Str × Str)) (hp : ∀ p ∈ p0 :: pr, FParaWF p) (hd : DefsWF defs)
    (hk : ∀ p ∈ p0 :: pr, Defined p.2 defs) :
    convertX x cfg (fnSrcP p0 pr defs) = .ok (fnRenderP cfg.fmt (p0 :: pr) defs) :=
  convertX_fnP x hx.1 hx.2.1 hx.2.2.1 hx.2.2.2.1 hx.2.2.2.2 cfg hbl htab p0 pr defs
    (fun p h => ⟨plainLine_facts (hp p h).1,
      ⟨fun s hs => label_facts ((hp p h).2 s hs).1, fun s hs => ((hp p h).2 s hs).2⟩⟩)
    ⟨fun d h => label_facts (hd.2.1 d h).1, fun d h => plainLine_facts (hd.2.1 d h).2⟩ hd.1 hd.2.2
    (fun p h s hs => hk p h s hs)

/-- an instance through the theorem … -/
example : convertX { footnotes := true } {} "One[^a] x\n\nTwo\n\nThree[^a][^b]\n\n[^a]: first\n\n[^b]: second".toList =
    .ok (fnRenderP .xhtml [("One".toList, [("a".toList, " x".toList)]), ("Two".toList, []),
      ("Three".toList, [("a".toList, []), ("b".toList, [])])] [("a".toList, "first".toList), ("b".toList, "second".toList)]) := by
  have h := C16_footnotes_paragraphs { footnotes := true } (by decide) {} rfl (by decide)
    ("One".toList, [("a".toList, " x".toList)]) [("Two".toList, []), ("Three".toList, [("a".toList, []), ("b".toList, [])])]
    [("a".toList, "first".toList), ("b".toList, "second".toList)] (by decide) (by decide) (by decide)
  have e : fnSrcP ("One".toList, [("a".toList, " x".toList)]) [("Two".toList, []), ("Three".toList, [("a".toList, []), ("b".toList, [])])]
      [("a".toList, "first".toList), ("b".toList, "second".toList)] =
      "One[^a] x\n\nTwo\n\nThree[^a][^b]\n\n[^a]: first\n\n[^b]: second".toList := by decide +kernel
  rw [e] at h
  exact h

/-- … and a smaller one evaluated by the kernel on the model, independently of the theorem -/
example : convertX { footnotes := true } {} "A[^1]\n\nB[^1]\n\n[^1]: n".toList =
    .ok (fnRenderP .xhtml [("A".toList, [("1".toList, [])]), ("B".toList, [("1".toList, [])])] [("1".toList, "n".toList)]) := by
  decide +kernel

/-! ### the definitions need not come last -/

/-- the source `fnSrcM p0 pr defs ps2`: the paragraph lines of `p0 :: pr`, the definition blocks, the paragraph lines
    of `ps2`; separated by empty lines -/
example : fnSrcM ("One".toList, [("a".toList, " x".toList)]) [] [("a".toList, "first".toList), ("b".toList, "second".toList)]
      [("Two".toList, [("b".toList, []), ("a".toList, [])])] =
    "One[^a] x\n\n[^a]: first\n\n[^b]: second\n\nTwo[^b][^a]".toList := by decide +kernel

/-- **footnote definitions anywhere after the first paragraph; references before AND after the definitions.**  The
    paragraphs of `C16_footnotes_paragraphs`, but with the definitions placed after the first `k ≥ 1` of them and the
    other paragraphs (any number, with references as well) FOLLOWING the definitions: the rendering is that of the
    document with all the paragraphs first — the definition blocks leave nothing in the text flow, a reference that
    comes after its definition works like one that comes before it, and the footnote list still goes to the END of
    the document.  Both formats, any positive `tab_length`, any of admonition, def_list, abbr, sane_lists, nl2br,
    wikilinks enabled as well. -/
theorem C16_footnotes_definitions_anywhere (x : Exts) (hx : FnCompat x) (cfg : Pipeline.Cfg)
    (hbl : cfg.blockLevel = TreeProc.defaultBlockLevel) (htab : 0 < cfg.tab) (p0 : FPara) (pr : List FPara)
    (defs : List (Str × Str)) (ps2 : List FPara) (hp : ∀ p ∈ p0 :: (pr ++ ps2), FParaWF p) (hd : DefsWF defs)
    (hk : ∀ p ∈ p0 :: (pr ++ ps2), Defined p.2 defs) :
    convertX x cfg (fnSrcM p0 pr defs ps2) = .ok (fnRenderP cfg.fmt (p0 :: (pr ++ ps2)) defs) := by
  have hok : ∀ p ∈ p0 :: (pr ++ ps2), FParaOK p := fun p h => ⟨plainLine_facts (hp p h).1,
      ⟨fun s hs => label_facts ((hp p h).2 s hs).1, fun s hs => ((hp p h).2 s hs).2⟩⟩
  exact convertX_fnM x hx.1 hx.2.1 hx.2.2.1 hx.2.2.2.1 hx.2.2.2.2 cfg hbl htab p0 pr defs ps2
    (fun p h => hok p (by
      rcases List.mem_cons.1 h with rfl | h
      · exact List.mem_cons_self
      · exact List.mem_cons_of_mem _ (List.mem_append_left _ h)))
    ⟨fun d h => label_facts (hd.2.1 d h).1, fun d h => plainLine_facts (hd.2.1 d h).2⟩
    (fun p h => hok p (List.mem_cons_of_mem _ (List.mem_append_right _ h)))
    hd.1 hd.2.2 (fun p h s hs => hk p h s hs)

/-- an instance through the theorem: a reference before the definitions, two after them … -/
example : convertX { footnotes := true } {} "One[^a] x\n\n[^a]: first\n\n[^b]: second\n\nTwo[^b][^a]".toList =
    .ok (fnRenderP .xhtml [("One".toList, [("a".toList, " x".toList)]), ("Two".toList, [("b".toList, []), ("a".toList, [])])]
      [("a".toList, "first".toList), ("b".toList, "second".toList)]) := by
  have h := C16_footnotes_definitions_anywhere { footnotes := true } (by decide) {} rfl (by decide)
    ("One".toList, [("a".toList, " x".toList)]) [] [("a".toList, "first".toList), ("b".toList, "second".toList)]
    [("Two".toList, [("b".toList, []), ("a".toList, [])])] (by decide) (by decide) (by decide)
  have e : fnSrcM ("One".toList, [("a".toList, " x".toList)]) [] [("a".toList, "first".toList), ("b".toList, "second".toList)]
      [("Two".toList, [("b".toList, []), ("a".toList, [])])] =
      "One[^a] x\n\n[^a]: first\n\n[^b]: second\n\nTwo[^b][^a]".toList := by decide +kernel
  rw [e] at h
  exact h

/-- … and a smaller one evaluated by the kernel on the model, independently of the theorem: the same rendering as
    with the definition last -/
example : convertX { footnotes := true } {} "A\n\n[^1]: n\n\nB[^1]".toList =
      .ok (fnRenderP .xhtml [("A".toList, []), ("B".toList, [("1".toList, [])])] [("1".toList, "n".toList)]) ∧
    convertX { footnotes := true } {} "A\n\nB[^1]\n\n[^1]: n".toList =
      .ok (fnRenderP .xhtml [("A".toList, []), ("B".toList, [("1".toList, [])])] [("1".toList, "n".toList)]) := by
  decide +kernel

/-- **footnote definitions FIRST.**  The definitions at the very beginning of the document, then any number (≥ 1) of
    paragraphs with references: again the rendering of `C16_footnotes_paragraphs` — the paragraphs, then the footnote
    list at the end.  With `C16_footnotes_paragraphs` (definitions last) and `C16_footnotes_definitions_anywhere`
    (after any `k ≥ 1` paragraphs) this covers every position of the block of definitions among the paragraphs. -/
theorem C16_footnotes_definitions_first (x : Exts) (hx : FnCompat x) (cfg : Pipeline.Cfg)
    (hbl : cfg.blockLevel = TreeProc.defaultBlockLevel) (htab : 0 < cfg.tab) (defs : List (Str × Str)) (p0 : FPara)
    (pr : List FPara) (hp : ∀ p ∈ p0 :: pr, FParaWF p) (hd : DefsWF defs) (hk : ∀ p ∈ p0 :: pr, Defined p.2 defs) :
    convertX x cfg (fnSrcF defs p0 pr) = .ok (fnRenderP cfg.fmt (p0 :: pr) defs) :=
  convertX_fnF x hx.1 hx.2.1 hx.2.2.1 hx.2.2.2.1 hx.2.2.2.2 cfg hbl htab defs p0 pr
    (fun p h => ⟨plainLine_facts (hp p h).1,
      ⟨fun s hs => label_facts ((hp p h).2 s hs).1, fun s hs => ((hp p h).2 s hs).2⟩⟩)
    ⟨fun d h => label_facts (hd.2.1 d h).1, fun d h => plainLine_facts (hd.2.1 d h).2⟩ hd.1 hd.2.2
    (fun p h s hs => hk p h s hs)

/-- the source `fnSrcF defs p0 pr`, and an instance evaluated by the kernel on the model -/
example : fnSrcF [("1".toList, "n".toList)] ("B".toList, [("1".toList, [])]) [] = "[^1]: n\n\nB[^1]".toList ∧
    convertX { footnotes := true } {} "[^1]: n\n\nB[^1]".toList =
      .ok (fnRenderP .xhtml [("B".toList, [("1".toList, [])])] [("1".toList, "n".toList)]) := by
  decide +kernel

end MdVerif.RenderG
