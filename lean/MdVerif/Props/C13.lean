/-
C13 — Registry yields items by descending priority with stable, predictable edits.

Only property statements live here.  Helper lemmas are in `MdVerif/Lemmas/Registry.lean`.

Shape: refinement.  The abstract specification is the *registration log* (`log`): registering appends an entry
(after removing an older entry of that name), deregistering removes exactly the entry of that name, reads do
nothing.  The specified iteration order is `view (log …)`: descending priority, ties in registration order
(`view_sorted`, `view_perm`, `view_stable` say that `view` is that order and nothing else).  `C13_refinement`
says that *every* observation of *every* operation history on the model of the code is the observation the
specification prescribes — so iteration, length, membership by name and by item, lookup by name / index /
slice and `get_index_for_name` all agree with that one order, for histories of any length.
-/
import MdVerif.Model.Registry
import MdVerif.Spec.Registry
import MdVerif.Lemmas.Registry

namespace MdVerif.Registry
variable {α : Type} [DecidableEq α]

/-! ### `view` is "descending priority, ties in registration order" -/

/-- the view is in descending priority order -/
theorem C13_view_sorted (l : List (Entry α)) : (view l).Pairwise (fun a b => a.prio ≥ b.prio) :=
  view_pairwise l

/-- the view contains exactly the entries of the log (as a permutation: nothing lost, nothing duplicated) -/
theorem C13_view_perm (l : List (Entry α)) : (view l).Perm l :=
  view_perm' l

/-- ties: entries of equal priority appear in the view in their registration (log) order -/
theorem C13_view_stable (l : List (Entry α)) (p : Int) :
    (view l).filter (fun e => e.prio == p) = l.filter (fun e => e.prio == p) :=
  view_filter_prio l p

/-! ### Refinement: every history, every observation -/

/-- **C13.** For every operation history, the model of `util.Registry` returns exactly the observations
    prescribed by the registration-log specification. -/
theorem C13_refinement (ops : List (Op α)) : (run (empty : Reg α) ops).2 = specRun [] ops :=
  run_refines ops

/-- after any history the registry's content, in iteration order, is the view of the log -/
theorem C13_dump (ops : List (Op α)) :
    dump (run (empty : Reg α) ops).1 = (view (log ops)).map (fun e => (e.name, e.prio, e.item)) :=
  run_dump ops

/-- names in the log are unique: a name is never held twice -/
theorem C13_names_nodup (ops : List (Op α)) : ((log ops).map (·.name)).Nodup :=
  log_nodup ops

/-- re-registration: the new entry is the most recently registered one, carrying the new priority and item;
    no other entry changes -/
theorem C13_register_log (l : List (Entry α)) (a : α) (n : Name) (p : Int) :
    logStep l (.register a n p) = l.filter (fun e => e.name != n) ++ [⟨n, p, a⟩] := rfl

/-- deregistration removes exactly the entry of that name -/
theorem C13_deregister_log (l : List (Entry α)) (n : Name) (s : Bool) :
    logStep l (.deregister n s) = l.filter (fun e => e.name != n) := rfl

/-- deregistering an unknown name leaves the registry untouched and raises iff strict -/
theorem C13_deregister_unknown (r : Reg α) (n : Name) (s : Bool) (h : containsName r n = false) :
    deregister r n s = (r, if s then .error .valueError else .ok ()) := by
  simp [deregister, indexFor, h]

/-! ### Non-vacuity: a concrete history with ties, a replacement, a removal and reads -/

example :
    (run (empty : Reg Nat)
      [.register 1 "a" 10, .register 2 "b" 20, .register 3 "c" 10, .iter, .register 4 "a" 10, .iter,
       .deregister "b" true, .iter, .deregister "zz" true, .getIdx (-1), .indexFor "a",
       .getSlice none none (some (-1))]).2
    = [.unit, .unit, .unit, .items [2, 1, 3], .unit, .items [2, 3, 4], .unit, .items [3, 4],
       .err .valueError, .item 4, .nat 1, .sliced [("a", 10, 4), ("c", 10, 3)]] := by decide

end MdVerif.Registry
