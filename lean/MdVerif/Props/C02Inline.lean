/-
C02 — conversion is total: never raises, always terminates.  The inline part: the loops of
`treeprocessors.InlineProcessor` and of the inline patterns terminate, for the reason the code relies on, and the
fuels of the model (`Model/Inline.lean`) always suffice.

Only property statements live here.  Helper lemmas are in `MdVerif/Lemmas/InlineFuel.lean`.

Measure: `tau s` = number of *trigger* characters of `s` (`` ` \ [ ! & * _ `` and the blank: the characters with which
a match of one of the 16 core patterns begins).  A placeholder `STX klzzwxh:NNNN ETX` contains none.

Shape of the argument for `__handleInline` (all proved, nothing assumed):
* `C02_match_begins_with_trigger`: whatever pattern matches, the match `[start, stop)` lies at or after `startIndex`,
  begins with a trigger character and is not empty (also when `getLink` answers the index `-1`); when the node is
  `None` the end is not negative; the texts of a new element that are handed to the nested `__handleInline` (its own
  text and tail and those of its children) have fewer triggers than the text they were cut from;
* `C02_applyPattern_progress`: one `__applyPattern` call answers and either reports no match (the pattern index
  advances), or leaves the text alone and moves `startIndex` past a trigger, or replaces the match by a placeholder,
  which lowers `tau` — provided the nested `__handleInline` answers on texts with fewer triggers;
* `C02_hiLoop_total`: hence the `while patternIndex < count` loop ends within
  `(16 - pi)·(T+1) + tau data·(T+1) + tau (data[startIndex:])` turns (`T ≥ tau data`) — quadratic, and really so:
  `"\\a"*k + "\\*"*k` needs about `k²` turns;
* `C02_handleInline_total`: `handleInlineTop` never runs out of fuel (`loopFuel n = 16·(n+2)²`, `depthFuel n = n+20`).
-/
import MdVerif.Model.Inline
import MdVerif.Model.Post
import MdVerif.Model.TreeProc
import MdVerif.Lemmas.InlineFuel
import MdVerif.Lemmas.InlineFuelVisit
import MdVerif.Props.C02Block
import MdVerif.Props.C10

namespace MdVerif.Inline
open Py

example : tau "a *b* [c](d)".toList = 5 := by decide
example : tau (placeholder 12) = 0 := by decide

/-- Every match of every core pattern starts at or after `startIndex` with a trigger character, is not empty
    (`start < stop` after Python's treatment of a negative `stop`), has a non-negative end when the node is `None`,
    and the texts of a non-atomic new element that go to the nested `__handleInline` have fewer triggers than `data`.
    `findMatch` itself always answers (the emphasis builders never run out of fuel). -/
theorem C02_match_begins_with_trigger (cfg : Cfg) (pi : Nat) (data : Str) (startIndex : Nat) (st : St) :
    ∃ r st', findMatch cfg pi data startIndex st = some (r, st') ∧
      ∀ f, r = some f →
        startIndex ≤ f.start ∧ (∃ c, data[f.start]? = some c ∧ isTrig c = true) ∧
        f.start < pyIdx data.length f.stop ∧ (f.node = PNode.none → 0 ≤ f.stop) ∧
        ∀ n, f.node = PNode.el n →
          (n.text.isSome && n.textAtomic) = true ∨ ∃ k, k < tau data ∧ Shallow k n := by
  obtain ⟨r, st', h, hs⟩ := findMatch_ok cfg pi data startIndex st
  exact ⟨r, st', h, fun f hf => ⟨(hs f hf).le, (hs f hf).trig, (hs f hf).stop, (hs f hf).nonneg, (hs f hf).small⟩⟩

example : (findMatch {} 3 "x [a](b) y".toList 0 {}).map (fun r => r.1.map (fun f => (f.start, f.stop))) =
    some (some (2, 8)) := by decide +kernel

/-- The emphasis builders (`build_single/double/double2`, `parse_sub_patterns`) answer with the fuel `len + 2`
    that `handleMatch` gives them: every nesting level works on a group that is shorter than the text it was cut
    from. -/
theorem C02_build_total (c : Char) (hc : c = '*' ∨ c = '_') (f : Nat) (groups : List Str) (item : EmItem)
    (idx : Nat) (hf : 0 < f) (hg : ∀ g ∈ groups, g.length < f) :
    (build c f groups item idx).isSome = true := by
  have hc' : isTrig c = true := by rcases hc with rfl | rfl <;> decide
  have hk : ∀ g ∈ groups, g.length < f ∧ tau g ≤ f := fun g h =>
    ⟨hg g h, Nat.le_trans (tau_le_length g) (Nat.le_of_lt (hg g h))⟩
  obtain ⟨n, hn, _⟩ := build_ok hc' f f groups item idx hf hk
  rw [hn]; rfl

example : (build '*' 5 ["a *b*".toList] ⟨[.lit 2, .lazy 1 false, .lit 2], .single, "strong", ""⟩ 3).isSome = true := by
  decide +kernel

/-- One `__applyPattern` call makes progress, if the nested `__handleInline` (`hi`) answers on every text with
    fewer than `T0` triggers. -/
theorem C02_applyPattern_progress (cfg : Cfg) (hi : HI) (T0 : Nat)
    (hhi : ∀ t pi st, tau t < T0 → (hi t pi st).isSome = true)
    (pi : Nat) (data : Str) (si : Nat) (st : St) (hT : tau data ≤ T0) :
    ∃ d m si' st', applyPattern cfg hi pi data si st = some (d, m, si', st') ∧
      ((m = false ∧ d = data ∧ si' = 0) ∨
       (m = true ∧ d = data ∧ tau (data.drop si') < tau (data.drop si)) ∨
       (m = true ∧ si' = 0 ∧ tau d < tau data)) :=
  applyPattern_ok cfg hhi pi data si st hT

/-- The pattern loop ends within `pot T0 pi data si` turns. -/
theorem C02_hiLoop_total (cfg : Cfg) (hi : HI) (T0 : Nat)
    (hhi : ∀ t pi st, tau t < T0 → (hi t pi st).isSome = true)
    (g : Nat) (data : Str) (pi si : Nat) (st : St) (hT : tau data ≤ T0)
    (hg : (patternCount - pi) * (T0 + 1) + tau data * (T0 + 1) + tau (data.drop si) < g) :
    (hiLoop (applyPattern cfg hi) g data pi si st).isSome = true :=
  hiLoop_total (applyPattern_ok cfg hhi) g data pi si st hT hg

/-- `__handleInline` with depth fuel above the number of triggers of the text never runs out of fuel, from any
    pattern index, with any stash (forged placeholders included) and any `ESCAPED_CHARS`/references. -/
theorem C02_handleInline_total_depth (cfg : Cfg) (f : Nat) (data : Str) (pi : Nat) (st : St) (h : tau data < f) :
    (handleInline cfg f data pi st).isSome = true :=
  handleInline_total cfg f data pi st h

/-- **`__handleInline` always terminates**: the model's `handleInlineTop` (depth fuel `len + 20`, loop fuel
    `16·(len+2)²`) answers for every text and every state. -/
theorem C02_handleInline_total (cfg : Cfg) (data : Str) (st : St) : (handleInlineTop cfg data st).isSome = true :=
  handleInlineTop_total cfg data st

example : (handleInlineTop {} "a *b* `c` \\* [d](e \"f\") &amp;".toList {}).isSome = true := by decide +kernel

end MdVerif.Inline

/-! ## `__processPlaceholders`: the recursion through the stash -/
namespace MdVerif.Inline
open Py

/-- a stash as the patterns build it: entry 1 (`<em>`) contains the placeholder of entry 0 -/
example : idsOf ("a ".toList ++ placeholder 0 ++ " b".toList) = ["0000".toList] := by decide

/-- **`__processPlaceholders` terminates** when ids increase (`StashOK`: a stashed element only contains
    well-formed, canonically spelt placeholders of entries made before it — which is how `__applyPattern` builds the
    stash: an element is stored after its texts went through `__handleInline`): the recursion
    `__processPlaceholders → __processElementText → __processPlaceholders` then follows strictly decreasing ids, so
    its depth is at most the size of the stash, and the model's depth fuel `len stash + 2` and loop fuel `len data + 2`
    suffice — for every text (forged placeholders of unknown ids included), parent and mode. -/
theorem C02_processPlaceholders_total (st : St) (hOK : StashOK st.stash) (data : Str) (atomic : Bool)
    (parent : Node) (isText : Bool) : (ppTop st data atomic parent isText).isSome = true :=
  ppTop_total st hOK data atomic parent isText

/-- The hypothesis cannot be dropped: an element whose text is its own placeholder (only a forged tree can produce
    it) makes the implementation recurse for ever (`RecursionError`); the model runs out of fuel. -/
example :
    let st : St := { stash := [.node { mkEl "em" with text := some (placeholder 0) }] }
    ppTop st (placeholder 0) false (mkEl "p") true = none := by decide +kernel

/-- **`stash_ids_increasing`**: `__applyPattern` keeps "ids increase".  If the stash is `StashOK` and the text only
    holds (well-formed, canonical) ids of existing entries, then after the call — whichever of the 16 patterns, whatever
    it matched, nested `__handleInline` calls included (`hi` is assumed to keep the invariant; `handleInline` does,
    next theorem) — the stash is still `StashOK`, the new text only holds ids of existing entries, and the old
    stash is a prefix of the new one.  The proof rests on: the strings of a new element are parts of the text
    (`code_escape ∘ strip` of a part for `<code>`), parts inherit the ids of the whole, a placeholder is only ever
    pasted in front of an `STX` or the end (no id can be formed across the seam), and the element is stored after
    its texts went through the nested calls. -/
theorem C02_stash_ids_increasing (cfg : Cfg) (hi : HI)
    (hhi : ∀ t pi st d st', hi t pi st = some (d, st') → StashOK st.stash → IdsLt st.stash.length t →
      StashOK st'.stash ∧ IdsLt st'.stash.length d ∧ st.stash <+: st'.stash)
    (pi : Nat) (data : Str) (si : Nat) (st : St) (d : Str) (m : Bool) (si' : Nat) (st' : St)
    (h : applyPattern cfg hi pi data si st = some (d, m, si', st')) (hs : StashOK st.stash)
    (hd : IdsLt st.stash.length data) :
    StashOK st'.stash ∧ IdsLt st'.stash.length d ∧ st.stash <+: st'.stash :=
  applyPattern_inv cfg hhi h hs hd

/-- `__handleInline` keeps "ids increase" (any depth fuel, any start pattern). -/
theorem C02_handleInline_keeps_ids_increasing (cfg : Cfg) (f : Nat) (t : Str) (pi : Nat) (st : St) (d : Str)
    (st' : St) (h : handleInline cfg f t pi st = some (d, st')) (hs : StashOK st.stash)
    (hd : IdsLt st.stash.length t) :
    StashOK st'.stash ∧ IdsLt st'.stash.length d ∧ st.stash <+: st'.stash :=
  handleInline_inv cfg f t pi st d st' h hs hd

/-- a text without `STX` (every text of a tree that comes from the block parser) holds no id at all -/
theorem C02_no_stx_no_ids (L : Nat) (s : Str) (h : STX ∉ s) : IdsLt L s := IdsLt.of_no_stx L h

example : StashOK ([] : List StashItem) := by intro i n h; simp at h
example : IdsLt 1 ("a ".toList ++ placeholder 0) := by
  intro id hid hc
  have : idsOf ("a ".toList ++ placeholder 0) = ["0000".toList] := by decide
  rw [this] at hid
  simp only [List.mem_singleton] at hid
  subst hid; decide

/-- **One visit of `run` succeeds**, stated with the shallow invariant `StashOK` (superseded by
    `C02_visit_conserves` below, which carries the invariant through `__processPlaceholders` and every revisit): if
    the stash is `StashOK` and the child's text and tail only hold ids of existing entries, then the work `run` does
    for that child never runs out of fuel, and leaves a `StashOK` stash that extends the old one. -/
theorem C02_visit_total_partial (cfg : Cfg) (child : Node) (v : Visit) (hs : StashOK v.st.stash)
    (ht : ∀ s, child.text = some s → IdsLt v.st.stash.length s)
    (htl : ∀ s, child.tail = some s → IdsLt v.st.stash.length s) :
    ∃ c tr v', visitChild cfg child v = some (c, tr, v') ∧ StashOK v'.st.stash ∧ v.st.stash <+: v'.st.stash :=
  visitChild_total cfg child v hs ht htl

/-- **More fuel never changes a result of `run`**: if the stack loop answers with fuels `(g2, g)` it gives the same
    answer with any larger fuels.  So whenever the model's `run` (fuel `16·size + 64` for both loops) answers, it
    agrees with the algorithm run on any larger — in particular on an unbounded — fuel. -/
theorem C02_run_fuel_mono (cfg : Cfg) (g2 g2' g g' : Nat) (h2 : g2 ≤ g2') (hg : g ≤ g') (root : Node)
    (stack : List Path) (st : St) (r : Node × St) (h : runLoop cfg g2 g root stack st = some r) :
    runLoop cfg g2' g' root stack st = some r :=
  runLoop_mono cfg h2 g g' root stack st r hg h

/-- the live child loop alone -/
theorem C02_visitLoop_fuel_mono (cfg : Cfg) (g g' : Nat) (todo : List (Node × Option Nat)) (v r : Visit)
    (hg : g ≤ g') (h : visitLoop cfg g todo v = some r) : visitLoop cfg g' todo v = some r :=
  visitLoop_mono cfg g g' todo v r hg h

/-! ### termination of `InlineProcessor.run`

The potential (definitions in `Lemmas/InlineFuelPot.lean`): `phiC s` counts the trigger characters of `s` and `<`, `>`;
`nuS st s = phiC s + Σ weight(id)` over the well-formed, canonically spelt placeholders of `s`, where the weight of a
stash entry is the potential of what `__processPlaceholders` makes of it (a string entry: its `phiC`; an element: the
sum over all its descendants of `1 + nuS text + nuS tail`); `potS st n` is that sum for a tree `n`.  `SOK stash`: ids
increase at every depth of a stored element, stored elements have no tail, string entries are *inert* (cannot
complete or start a placeholder when pasted back). -/

example : potS {} { tag := .name "p".toList, text := some "a *b* c".toList } = 5 := by decide
example : SOK ([] : List StashItem) := sok_nil

/-- **`__handleInline` does not increase the potential** and keeps the invariants of the stash: every stashing match
    is replaced by a placeholder whose entry weighs no more than the match (an element costs one unit, which its
    delimiters pay; `code_escape` adds no weight; what the nested calls make of the texts of a new element weighs no
    more than those texts), for all 16 patterns, any nesting, any fuel. -/
theorem C02_handleInline_potential (cfg : Cfg) (f : Nat) (t : Str) (pi : Nat) (st : St) (d : Str) (st' : St)
    (h : handleInline cfg f t pi st = some (d, st')) (hs : SOK st.stash) (hd : IdsLt st.stash.length t) :
    SOK st'.stash ∧ IdsLt st'.stash.length d ∧ st.stash <+: st'.stash ∧ nuS st' d ≤ nuS st t :=
  handleInline_spec cfg f t pi st d st' h hs hd

/-- **`__processPlaceholders` does not increase the potential**: the text left with the parent (its receiving
    string being empty before) and the elements returned weigh together no more than the text; the elements, at every
    depth, and the text left only hold ids of existing entries; only the receiving string of the parent changes.
    (This closes gap (1) of the earlier version of this file: the texts pasted back — pieces of the text and inert
    string entries — cannot form a placeholder across a seam.) -/
theorem C02_processPlaceholders_potential (st : St) (hs : SOK st.stash) (data : Str) (atomic : Bool) (parent : Node)
    (isText : Bool) (res : List Node) (p' : Node) (h : ppTop st data atomic parent isText = some (res, p'))
    (hids : IdsLt st.stash.length data) (hslot : slot isText parent = []) :
    lpot (ownW (wts st.stash)) res + nuS st (slot isText p') ≤ nuS st data ∧
      (∀ n ∈ res, Deep (IdsLt st.stash.length) n) ∧ IdsLt st.stash.length (slot isText p') ∧
      p'.children = parent.children :=
  let o := ppTop_acc st hs h hids hslot
  ⟨o.1, o.2.1, o.2.2.1, o.2.2.2.2.2⟩

/-- **One visit of a child** (its text and its tail) succeeds, keeps the invariants, and the rebuilt child together
    with the elements made from its tail weighs no more than the child did — in every state `run` can reach: this is the
    contract from which the termination of both loops follows (`VisitOK`, `Lemmas/InlineFuelRun.lean`). -/
theorem C02_visit_conserves (cfg : Cfg) (child : Node) (v : Visit) (hs : SOK v.st.stash)
    (hc : Deep (IdsLt v.st.stash.length) child) :
    ∃ c tr v', visitChild cfg child v = some (c, tr, v') ∧ SOK v'.st.stash ∧ v.st.stash <+: v'.st.stash ∧
      Deep (IdsLt v'.st.stash.length) c ∧ (∀ t ∈ tr, Deep (IdsLt v'.st.stash.length) t) ∧
      potS v'.st c + lpot (ownW (wts v'.st.stash)) tr ≤ potS v.st child :=
  (visitOK_inline cfg).visit child v hs hc

/-- the potential of a tree without placeholders is at most its size (elements + characters) -/
theorem C02_potential_le_size (tree : Node) : potS {} tree ≤ size tree := npot_le_size tree

/-- **`InlineProcessor.run` terminates on every tree without `STX`** (every tree the block parser makes of a
    normalised source: `C10_block_tree_noctl`, `C10_input_cannot_forge`) — and on every tree whose texts hold no
    placeholder:
    * the live loop over the children of a popped element needs at most `size tree + 1` turns, so the model's fuel
      `runFuel tree = 16·size + 64` suffices for it;
    * the stack loop ends within `bigFuel tree = (size+1)^(size+2) + 1` turns: each pop replaces one path of the
      stack by at most `size` strictly longer paths, and no path is longer than `size + 1`.
    The bound on the stack loop is astronomically generous; a linear one (as in the model) would need "an element is
    popped at most a bounded number of times", which is not proved — see `C02_run_total_full`. -/
theorem C02_run_total_bigfuel (cfg : Cfg) (tree : Node) (html : List Str) (h : NoCtl.TreeNoCtl tree) (g : Nat)
    (hg : bigFuel tree ≤ g) : (runLoop cfg (runFuel tree) g tree [[]] { html := html }).isSome = true :=
  run_total_big cfg tree html (deep_of_treeNoCtl h) (runFuel tree) (by unfold runFuel; omega) g hg

example : bigFuel { tag := .name "p".toList, text := some "ab".toList } = 4 ^ 5 + 1 := by decide

/-- **the model's `run` is that total function wherever it answers**: more outer fuel never changes its result
    (`C02_run_fuel_mono`), so `run cfg tree html = some r` implies the same result with `bigFuel`, for which
    termination is proved; and if the model's `run` answers `none` on a tree without `STX`, the only fuel that ran
    out is the one of the stack loop. -/
theorem C02_run_agrees_with_total (cfg : Cfg) (tree : Node) (html : List Str) (r : Node × St)
    (h : Inline.run cfg tree html = some r) (g : Nat) (hg : runFuel tree ≤ g) :
    runLoop cfg (runFuel tree) g tree [[]] { html := html } = some r :=
  runLoop_mono cfg (Nat.le_refl _) _ _ _ _ _ _ hg h

/-- every raw-HTML stash entry `run` stores is an entity reference -/
theorem C02_run_html_entries (cfg : Cfg) (tree t : Node) (st : St) (h : Inline.run cfg tree = some (t, st)) :
    ∀ e ∈ st.html, NoCtl.entityLike e = true := run_html cfg h

/-- **The one remaining gap** (a definition, not a theorem): the model's `run`, whose *stack loop* has the linear
    fuel `runFuel tree = 16·size + 64`, answers on every tree.

    Proved (this file): every `__handleInline` and every `__processPlaceholders` call inside `run` terminates within
    the model's fuels and conserves the potential (`C02_handleInline_total`, `C02_processPlaceholders_total`,
    `C02_handleInline_potential`, `C02_processPlaceholders_potential`, `C02_visit_conserves`); the live loop over the
    children terminates within the model's fuel, and the stack loop terminates within `bigFuel`
    (`C02_run_total_bigfuel`); the model's `run` equals that total function whenever it answers
    (`C02_run_agrees_with_total`).

    Not proved: that the stack loop needs at most `16·size + 64` turns.  The honest bound from the argument above is
    "an element is popped once per pop of its parent, plus once if it was made from a text", i.e. at most
    `depth + 1` times, which gives a quadratic, not a linear, number of turns; a linear bound needs that revisits do
    not cascade (true in all tests: `harness/corr/inline.py`, 20 000 documents, 5 000 arbitrary trees, the adversarial
    families of `fuel_part` with nesting depth up to 700 — the model never answered `oof`).  If a *provable* fuel is
    wanted in the model, `bigFuel` works for the stack loop (the live loop can keep `runFuel`); it is only ever
    decremented, but it is a number of about `size·log₂ size` bits. -/
def C02_run_total_full : Prop := ∀ (cfg : Cfg) (tree : Node), (Inline.run cfg tree).isSome = true

end MdVerif.Inline

/-! ## `RawHtmlPostprocessor.run`: the fix-point recursion (`Model/Post.lean`) -/
namespace MdVerif.Post
open Py

/-- the serialised text of `"a &amp; b"`: one raw-HTML placeholder, one entry -/
example : wellPh ("<p>a ".toList ++ htmlPrefix ++ ['0', ETX] ++ " b</p>".toList) = true := by decide
/-- a leaked inline placeholder (finding F-C10-2) does not break the hypothesis: its `STX` is followed by `k` -/
example : wellPh (STX :: "klzzwxh:0000\"".toList) = true := by decide

/-- **The raw-HTML restore terminates**: when no stash entry contains `STX` (true for everything the entity pattern
    stores: `&…;`) and every `STX` of the text either begins a well-formed placeholder or is followed by a character
    other than `w`, `STX`, `<`, one substitution pass reaches the fixed point — the second pass, which the
    implementation needs to notice it, changes nothing — so the recursion depth is at most 2 and the model's
    `rawHtmlFuel = len stash + 3` suffices.  The result is that one pass. -/
theorem C02_rawHtml_total (bl : List Str) (stash : List Str) (text : Str) (hst : ∀ e ∈ stash, STX ∉ e)
    (hw : wellPh text = true) :
    rawHtml bl stash (rawHtmlFuel stash) text = some (if stash.isEmpty then text else subPass bl stash 0 text) :=
  rawHtml_total bl stash text hst hw

/-- one pass is idempotent under the same hypotheses -/
theorem C02_rawHtml_one_pass (bl : List Str) (stash : List Str) (text : Str) (hst : ∀ e ∈ stash, STX ∉ e)
    (hw : wellPh text = true) :
    subPass bl stash 0 (subPass bl stash 0 text) = subPass bl stash 0 text :=
  subPass_stable bl stash _ _ (Nat.le_refl _) (subPass_makes_stable bl stash hst _ text (Nat.le_refl _) hw)

/-- The hypothesis on the text cannot be dropped, even for a single `STX`-free entry: with stray `STX`/`ETX` around
    a placeholder whose entry spells `wzxhzdk:0`, every pass re-creates a placeholder; `k` layers need `k + 1`
    passes (the implementation recurses that deep and succeeds; the model's fuel `len stash + 3 = 4` runs out for
    `k = 4`).  Such a text cannot come from the serializer: it needs `STX` in the source, which
    `normalize_whitespace` removes. -/
example :
    let entry := "wzxhzdk:0".toList
    let text := [STX, STX, STX, STX] ++ (htmlPrefix ++ ['0', ETX]) ++ [ETX, ETX, ETX, ETX]
    wellPh text = false ∧ rawHtml [] [entry] (rawHtmlFuel [entry]) text = none ∧
      rawHtml [] [entry] 6 text = some entry := by decide +kernel

end MdVerif.Post

/-! ## `UnescapeTreeprocessor`: the only way it can raise (`Model/TreeProc.lean`) -/
namespace MdVerif.TreeProc
open Py

/-- `STX 1114112 ETX` is the smallest number `chr` rejects -/
example : BadAt (STX :: ("1114112".toList ++ ETX :: "x".toList)) :=
  ⟨"1114112".toList, "x".toList, rfl, by decide, by decide, by decide⟩
example : unescapeText 0 (STX :: ("1114112".toList ++ [ETX])) = none := by decide
example : unescapeText 0 (STX :: ("1114111".toList ++ [ETX])) = some [Char.ofNat 1114111] := by decide

/-- **Exact characterisation of the `ValueError` of `UnescapeTreeprocessor.unescape`**: the model answers `none`
    (`chr(int(…))` raises) iff the text contains `STX digits ETX` — `digits` a non-empty run of `\d` of any script —
    whose number is at least `0x110000`.  (Every such occurrence is met by the scan: an occurrence contains no
    second `STX`, so it cannot lie inside another one.) -/
theorem C02_unescape_raises_iff (s : Str) :
    unescapeText 0 s = none ↔
      ∃ pre d post, s = pre ++ STX :: (d ++ ETX :: post) ∧ d ≠ [] ∧ (∀ c ∈ d, isDecimal c = true) ∧
        0x110000 ≤ decToNat d := by
  rw [unescapeText_none_iff]
  constructor
  · rintro ⟨k, d, post, h1, h2, h3, h4⟩
    exact ⟨s.take k, d, post, by rw [← h1, List.take_append_drop], h2, h3, h4⟩
  · rintro ⟨pre, d, post, h1, h2, h3, h4⟩
    exact ⟨pre.length, d, post, by rw [h1, List.drop_left], h2, h3, h4⟩

/-- The tree processor raises iff `unescape` raises on one of the strings it is applied to: the truthy texts of
    elements other than `code`, the truthy tails, the attribute values. -/
theorem C02_unescapeTree_total_iff (t : Node) :
    (unescapeTree t).isSome = true ↔ ∀ s ∈ unescInputs t, (unescapeText 0 s).isSome = true :=
  unescapeTree_isSome t

example : unescInputs
    { tag := .name "p".toList, attrs := [("k".toList, "v".toList)], text := some ("a".toList),
      children := [{ tag := .name "code".toList, text := some ("c".toList), tail := some ("t".toList) }] } =
    ["a".toList, "v".toList, "t".toList] := by decide

/-- A text without `STX` is returned as it is. -/
theorem C02_unescape_total_no_stx (s : Str) (h : STX ∉ s) : unescapeText 0 s = some s :=
  unescapeText_some_of_no_stx h

/-- What `EscapeInlineProcessor` stores for `\ch` (`STX ord(ch) ETX`) is read back as `ch`, for every character:
    the number is an `ord`, hence below `0x110000`.  (The same holds for the `STX 92 ETX` of the backtick pattern.)
    These are the only `STX digit…` sequences the inline patterns create; that no other one can arise in the tree by
    cutting and pasting (so that `Pipeline.convert` never answers `err` on `STX`-free input) is tested
    (`harness/corr/inline.py`, op `unesc`: 0 `err` in 20 000 documents), not proved. -/
theorem C02_escape_entry_roundtrip (ch : Char) :
    unescapeText 0 (STX :: natToDec ch.toNat ++ [ETX]) = some [ch] :=
  escape_entry_roundtrip ch

example : unescapeText 0 (STX :: '9' :: '2' :: [ETX]) = some ['\\'] := by decide

end MdVerif.TreeProc

/-! ## The pipeline -/
namespace MdVerif.Pipeline
open Py Inline NoCtl

/-- **`convert` can only run out of fuel in the stack loop of the inline tree processor.**  For a source without `<`:
    the block parser always answers (`C02_parseDocument_total_any_tab`), the raw-HTML restore always answers (the
    entries `run` stores are entity references: `C02_run_html_entries`, `C10_rawhtml_terminates`), so `convert = oof`
    means that the model's `Inline.run` answered `none` on the block tree — which, by `C02_run_total_bigfuel`, is an
    exhaustion of the linear fuel of its stack loop, not non-termination (`C02_run_total_full` is the missing
    inequality). -/
theorem C02_convert_oof_only_stack_loop (cfg : Cfg) (src : Str) (h : convert cfg src = .oof) :
    ∃ root refs, Block.parseDocument cfg.tab (prepare cfg src) = some (root, refs) ∧ TreeNoCtl root ∧
      Inline.run { esc := cfg.esc, refs := refs.reverse } root = none := by
  unfold convert at h
  split at h
  · cases h
  · split at h
    · cases h
    · have hp := Block.C02_parseDocument_total_any_tab cfg.tab (prepare cfg src)
      cases hpd : Block.parseDocument cfg.tab (prepare cfg src) with
      | none => rw [hpd] at hp; cases hp
      | some rr =>
        obtain ⟨root, refs⟩ := rr
        have hno := (C10_block_tree_noctl cfg.tab (C10_input_cannot_forge cfg src).2 hpd).1
        refine ⟨root, refs, rfl, hno, ?_⟩
        cases hrun : Inline.run { esc := cfg.esc, refs := refs.reverse } root with
        | none => rfl
        | some ts =>
          exfalso
          obtain ⟨t, st⟩ := ts
          unfold tree at h
          simp only [hpd, hrun] at h
          cases hu : TreeProc.unescapeTree (TreeProc.prettify t cfg.blockLevel) with
          | none => simp [hu] at h
          | some u =>
            simp only [hu] at h
            have hent := run_html _ hrun
            unfold Post.finish at h
            split at h
            · next hfin =>
              split at hfin
              · cases hfin
              · next s0 _ =>
                obtain ⟨out, hout⟩ := C10_rawhtml_terminates (bl := cfg.blockLevel) hent s0
                simp [Post.post, hout] at hfin
            · cases h
            · cases h

end MdVerif.Pipeline
