/-
C15 — "A link or image reference resolves to its definition wherever at top level the definition appears (before or
after the use, alone or next to other definitions), matching labels case-insensitively and treating a line break or
run of spaces inside the label at the place of use as one space; the rendered link carries exactly the defined
destination and title in every title spelling; definitions themselves produce no output; a reference without a
definition is left as literal text."

Continuation of `Props/C15Forms.lean`, end to end on `Pipeline.convert cfg (docOf before para after)`: ANY list of
definitions before the paragraph, ANY list after it (`DefSpec`, `docOf`: `Lemmas/InlineRefForms.lean`).

Part 1 (this section; plain text around and inside the brackets, as in `Props/C15Forms.lean`):

1. `C15_resolves_last` — *n definitions, duplicates allowed*: the reference carries the destination and title of the
   LAST definition of the document whose key is the key of the place of use, wherever that definition stands.
2. `C15_label_variant_doc` — the place of use may spell the label in any case and with any runs of spaces between
   the words (`C15_label_match`), among any other definitions.
3. `C15_title_styles` — the title attribute is the title text, in each of the three spellings `"t"`, `'t'`, `(t)`,
   whatever quotes and parentheses the text contains (kernel-checked instances with the other kinds of quote, and
   the title's own delimiter, inside).
4. `C15_undefined_literal_doc`, `C15_undefined_other_labels` — an undefined label leaves the source text literally
   (HTML-escaped as any text is), also when definitions with OTHER labels stand before or after the paragraph: no
   definition with a different key captures the reference.

Part 2 (inline markup inside and around the references; m uses of n definitions in one paragraph; xhtml):

5. `C15_text_markup` — in the vocabulary of `Spec/Doc.lean`: the paragraph is `c₀ [t₁][l₁] c₁ … [tₘ][lₘ] cₘ` where
   every `cᵢ` and every link text `tⱼ` is inline content of the `mixRun` kind (words, backslash escapes, code spans,
   `em`/`strong` around words: `Spec/DocFlat2.lean`) printed under ANY spelling (`printInlines`: fence widths,
   `*` or `_`), every label `lⱼ` resolves among the definitions of the document (`lookupRef`, so last-wins and the
   loose label matching of `C15_label_match` apply per use).  The output is `<p>`, the contents rendered as the
   syntax rules say (`specInlines`), each use as `<a href="…" title="…">` + the rendered link text + `</a>`.
6. `C15_link_text_markup` — the case of one use, spelled out.
7. `C15_mix_line` — the same at the level the proof works on (`Chunk`: escaped text and items with the text after
   each; any escapable set `cfg.esc` that satisfies `EscOK`), and `C15_mix_loop`: what `__handleInline` makes of such
   a line — the code spans of all chunks, then the escapes, then the references left to right (each with the nested
   call on its link text), then the emphases outside the links.

How part 2 is proved (`Lemmas/RefText*.lean`): the passes of the pattern loop of `Lemmas/DocParse2.lean` (C01b) are
re-proved for a chunk IN CONTEXT (arbitrary prefix and suffix of the line: `RefTextPass`); the turn of the loop at a
reference with the nested `__handleInline(text, patternIndex + 1)` (`RefTextLink`); the whole loop by induction over
the uses (`RefTextLine`, `RefTextLoop`); `__processPlaceholders` rebuilding every `<a>` element with the items of its
text as children (`RefTextPP`, `RefTextStash`); `InlineProcessor.run` visiting those children again — their tails
hold the codes `STX n ETX` of escaped characters and stay as they are (`RefTextRun`); prettify, unescape, serializer
(`RefTextBack`); front end and composition (`RefTextConv`); the bridge to `printInlines`/`specInlines` (`RefTextSpec`).

Part 3 (`Lemmas/RefTextLines.lean`): `C15_label_linebreak`, `C15_label_linebreak_variant` — "treating a LINE BREAK …
inside the label at the place of use as one space", end to end: the paragraph has two lines, the label is broken
after `l1`; the second line may be indented and starts with a plain character; the key is that of the whole label
(`normUse` collapses the line break and the indentation to one space).

Part 4 (`Lemmas/RefTextFmt.lean`, `Lemmas/RefTextFmtSpec.lean`): **either output format**.  `C15_text_markup_fmt`,
`C15_text_markup_defs_fmt`, `C15_mix_line_fmt` are the theorems of part 2 without the hypothesis `cfg.fmt = .xhtml`:
the opening tag is `<a` + `attrHtml fmt "href" url` + (`attrHtml fmt "title" title` when there is a non-empty title)
+ `>` (`C15_specUsesF_spec`; `attrHtml`: `Props/C15Forms.lean`, in the html format an attribute whose escaped value
equals its name is written as the bare name, otherwise ` name="value"` in both formats: `C15_aOpenF_plain`).
`C15_specUsesF_xhtml`: for xhtml this is the output of part 2.

Part 5 (`Lemmas/RefTextItems.lean`, `Lemmas/RefTextElem.lean`, `Lemmas/RefTextDocs.lean`): **definitions anywhere among
the blocks of a document** — "wherever at top level the definition appears (before or after the use, alone or next to
other definitions)", "definitions themselves produce no output".  `C15_document`: the document is ANY sequence of
items separated by blank lines, each a reference definition, a paragraph with reference-style uses (part 2), or a block
of the `MixDoc` kind of C01b (rule, indented code block, paragraph / ATX heading / Setext heading with words, escapes,
code spans, emphasis); every use may refer to a definition anywhere in the document — before it, after it, blocks
away; the output is the outputs of the items that are not definitions, one per line, every link carrying the
destination and title its label resolves to among ALL the definitions of the document (`sDefs`: last definition of a
key wins, loose matching).  One condition on the order, found by testing and needed: no indented code block directly
after an indented code block *even when only definitions stand between them* (`noCodeCode`: the definitions leave no
element, so the second code block is appended to the first).  `C15_document_pieces`: the same for any pieces of
`Lemmas/DocParse2.lean` (`Piece2At`), any escapable set, any tab length.  Default configuration (`{}`), xhtml.

Restrictions of part 2, found by testing or inherited: full form `[text][label]` / `[text] [label]` with a non-empty
label (the collapsed and shortcut forms look up the link TEXT, which by then holds placeholders for code spans and
escapes: `Props/C15Forms.lean` has them for plain text); the line starts with a character that starts no block
construct (`startPlain`: in particular not with `*`/`_` emphasis or a digit), consists of ordinary document
characters (`lineCh`: no `&`, `<`, control characters, line break) and is not itself a reference definition
(`refMatchAt … = none`: automatic when it does not start with `[`, `C15_noref_of_start`).
-/
import MdVerif.Props.C15Forms
import MdVerif.Lemmas.RefTextDoc
import MdVerif.Lemmas.RefTextSpec
import MdVerif.Lemmas.RefTextLines
import MdVerif.Lemmas.RefTextFmtSpec
import MdVerif.Lemmas.RefTextDocs

namespace MdVerif.RefText
open Py Inline RefDef InlineRef

/-! ### 1. n definitions, duplicates: the last one wins -/

/-- the key of a definition and what it stores -/
theorem entry_eq (d : DefSpec) : d.entry = (normDef d.label, (d.url, storedTitle d.title)) := rfl

/-- **Several definitions, duplicates allowed: the last one wins, wherever it stands.**  The definitions of the
    document in document order are `L1 ++ d :: L2` (split in any way into those before and those after the paragraph)
    and no definition after `d` has the key of `d`; the place of use has the key of `d`: the link carries the
    destination and the title of `d` — whatever `L1` holds, other definitions of the same label included. -/
theorem C15_resolves_last (cfg : Pipeline.Cfg) (hbl : cfg.blockLevel = TreeProc.defaultBlockLevel)
    (htab : 0 < cfg.tab) (before after L1 L2 : List DefSpec) (d : DefSpec) (harr : before ++ after = L1 ++ d :: L2)
    (hb : ∀ d ∈ before, d.ok cfg.tab = true) (ha : ∀ d ∈ after, d.ok cfg.tab = true)
    (hlast : ∀ d' ∈ L2, normDef d'.label ≠ normDef d.label) (pre text sp label post : Str)
    (hpre : PlainText pre = true) (htext : PlainText text = true) (hpost : PlainText post = true)
    (hstart : ParaStartOK pre = true) (hsp : sp = [] ∨ sp = [' ']) (hul : UseLabelOK label = true)
    (hlnl : '\n' ∉ label) (hlc : label.all docCh = true) (hkey : useKey text label = normDef d.label) :
    Pipeline.convert cfg (docOf before (refSrc pre text sp label post) after) =
      .ok ("<p>".toList ++ (pre ++ (linkHtmlF cfg.fmt d.url (storedTitle d.title) text ++ post)) ++ "</p>".toList) := by
  have hlook : Block.lookupRef ((before ++ after).map DefSpec.entry) (useKey text label) =
      some (d.url, storedTitle d.title) := by
    rw [harr, hkey, List.map_append, List.map_cons, entry_eq d]
    apply C15_lookup_last_wins
    simp only [refKeys, List.map_map, List.mem_map, Function.comp, not_exists, not_and]
    intro d' hd' e
    exact hlast d' hd' e
  exact C15_end_to_end_full cfg hbl htab before after hb ha pre text sp label post hpre htext hpost hstart hsp hul hlnl
    hlc _ _ hlook

/-- two definitions of the same label (the second one wins), one of another label, on both sides of the paragraph -/
example : Pipeline.convert {} "[a]: /first\n\n[b]: /other\n\nsee [x][A].\n\n[A]: /second 'T'".toList =
    .ok "<p>see <a href=\"/second\" title=\"T\">x</a>.</p>".toList := by decide +kernel

/-! ### 2. case and white-space variants of the label, among any definitions -/

/-- **Loose label matching at document level.**  The definition `d` has the label `labelOf (w0 :: ws)` (words joined
    by single spaces); the place of use writes any case variant of the words, separated by any runs of spaces
    (`useVariant`, `C15_label_match`).  Among any other definitions (none after `d` with the same key) the link
    carries the destination and title of `d`. -/
theorem C15_label_variant_doc (cfg : Pipeline.Cfg) (hbl : cfg.blockLevel = TreeProc.defaultBlockLevel)
    (htab : 0 < cfg.tab) (before after L1 L2 : List DefSpec) (d : DefSpec) (harr : before ++ after = L1 ++ d :: L2)
    (hb : ∀ d ∈ before, d.ok cfg.tab = true) (ha : ∀ d ∈ after, d.ok cfg.tab = true)
    (hlast : ∀ d' ∈ L2, normDef d'.label ≠ normDef d.label) (pre text sp post : Str)
    (w0 : Str) (ws : List Str) (w0' : Str) (vs : List (Str × Str)) (hdl : d.label = labelOf (w0 :: ws))
    (hw : ∀ w ∈ w0 :: ws, isWord w = true) (h0 : sameLower w0 w0' = true) (hv : variantOK ws vs = true)
    (hpre : PlainText pre = true) (htext : PlainText text = true) (hpost : PlainText post = true)
    (hstart : ParaStartOK pre = true) (hsp : sp = [] ∨ sp = [' '])
    (hul : UseLabelOK (useVariant w0' vs) = true) (hlnl : '\n' ∉ useVariant w0' vs)
    (hlc : (useVariant w0' vs).all docCh = true) :
    Pipeline.convert cfg (docOf before (refSrc pre text sp (useVariant w0' vs) post) after) =
      .ok ("<p>".toList ++ (pre ++ (linkHtmlF cfg.fmt d.url (storedTitle d.title) text ++ post)) ++ "</p>".toList) := by
  have hne : (useVariant w0' vs).isEmpty = false := by
    have h0ne : w0 ≠ [] := ((isWord_iff w0).mp (hw w0 (by simp))).1
    cases w0' with
    | nil => cases w0 with
      | nil => exact absurd rfl h0ne
      | cons a b => simp [sameLower] at h0
    | cons a b => simp [useVariant]
  have hkey : useKey text (useVariant w0' vs) = normDef d.label := by
    unfold useKey
    rw [hne, hdl]
    exact C15_label_match w0 ws w0' vs hw h0 hv
  exact C15_resolves_last cfg hbl htab before after L1 L2 d harr hb ha hlast pre text sp _ post hpre htext hpost hstart
    hsp hul hlnl hlc hkey

/-- `[x][FOO   bar]` finds `[Foo Bar]: …` among other definitions -/
example : Pipeline.convert {} "[q]: /q\n\nsee [x][FOO   bar].\n\n[Foo Bar]: /u\n\n[r]: /r".toList =
    .ok "<p>see <a href=\"/u\">x</a>.</p>".toList := by decide +kernel

/-! ### 3. the three title spellings -/

/-- **Every title spelling.**  The definition `d` (the last one with its key) has the title text `t` (not empty) in
    the spelling `style` — `"t"`, `'t'` or `(t)`, on the line of the destination or on the next line; `t` is any text
    without line break made of ordinary document characters (`DefSpec.ok`): it may contain double quotes, single
    quotes and parentheses, also the delimiter of its own spelling.  The link carries `title="t"` (escaped for an
    attribute value), the same in all three spellings.  (xhtml; in the html format the same unless the escaped title
    is the word `title`: `C15_link_html_format`.) -/
theorem C15_title_styles (cfg : Pipeline.Cfg) (hfmt : cfg.fmt = .xhtml)
    (hbl : cfg.blockLevel = TreeProc.defaultBlockLevel)
    (htab : 0 < cfg.tab) (before after L1 L2 : List DefSpec) (d : DefSpec) (harr : before ++ after = L1 ++ d :: L2)
    (hb : ∀ d ∈ before, d.ok cfg.tab = true) (ha : ∀ d ∈ after, d.ok cfg.tab = true)
    (hlast : ∀ d' ∈ L2, normDef d'.label ≠ normDef d.label)
    (style : TitleStyle) (t : Str) (ht : t ≠ []) (hdt : d.title = some (style, t))
    (pre text sp label post : Str)
    (hpre : PlainText pre = true) (htext : PlainText text = true) (hpost : PlainText post = true)
    (hstart : ParaStartOK pre = true) (hsp : sp = [] ∨ sp = [' ']) (hul : UseLabelOK label = true)
    (hlnl : '\n' ∉ label) (hlc : label.all docCh = true) (hkey : useKey text label = normDef d.label) :
    Pipeline.convert cfg (docOf before (refSrc pre text sp label post) after) =
      .ok ("<p>".toList ++ (pre ++ (("<a href=\"".toList ++ Ser.escAttrHtml d.url ++ "\" title=\"".toList ++
        Ser.escAttrHtml t ++ "\">".toList ++ text ++ "</a>".toList) ++ post)) ++ "</p>".toList) := by
  have h := C15_resolves_last cfg hbl htab before after L1 L2 d harr hb ha hlast pre text sp label post hpre htext hpost
    hstart hsp hul hlnl hlc hkey
  rw [h, hfmt, C15_link_html_format .xhtml _ _ _ (Or.inl rfl), hdt, (C15_storedTitle_spec.2.1 style t ht)]
  obtain ⟨c, r, rfl⟩ : ∃ c r, t = c :: r := by
    cases t with
    | nil => exact absurd rfl ht
    | cons c r => exact ⟨c, r, rfl⟩
  simp [titleAttr, Node.truthy, List.append_assoc]

/-- a double-quoted title with single quotes, parentheses and its own delimiter inside -/
example : Pipeline.convert {} "[x][l]\n\n[l]: /u \"it's (a) \"quoted\" title\"".toList =
    .ok "<p><a href=\"/u\" title=\"it's (a) &quot;quoted&quot; title\">x</a></p>".toList := by decide +kernel
/-- a single-quoted title with double quotes, parentheses and its own delimiter inside -/
example : Pipeline.convert {} "[x][l]\n\n[l]: /u 'say \"hi\" (it's me)'".toList =
    .ok "<p><a href=\"/u\" title=\"say &quot;hi&quot; (it's me)\">x</a></p>".toList := by decide +kernel
/-- a parenthesised title with both kinds of quote and parentheses inside, on the next line -/
example : Pipeline.convert {} "[x][l]\n\n[l]: /u\n    (a \"b\" 'c' (d))".toList =
    .ok "<p><a href=\"/u\" title=\"a &quot;b&quot; 'c' (d)\">x</a></p>".toList := by decide +kernel
/-- these definitions satisfy the hypotheses -/
example : (⟨0, "l".toList, "/u".toList, some (.dq, "it's (a) \"quoted\" title".toList), false⟩ : DefSpec).ok 4 = true ∧
    (⟨0, "l".toList, "/u".toList, some (.sq, "say \"hi\" (it's me)".toList), false⟩ : DefSpec).ok 4 = true ∧
    (⟨0, "l".toList, "/u".toList, some (.paren, "a \"b\" 'c' (d)".toList), true⟩ : DefSpec).ok 4 = true := by decide

/-! ### 4. an undefined reference among definitions of other labels -/

/-- **Undefined reference, end to end.**  Any definitions before and after the paragraph; neither the key of the
    label nor the key of the text in brackets (or `[text]` alone would be a short reference) is defined: the
    paragraph is rendered as its source text, the brackets included — HTML-escaped as any text is (`escCdata`; the
    text is returned unchanged when the label contains no `>`). -/
theorem C15_undefined_literal_doc (cfg : Pipeline.Cfg) (hbl : cfg.blockLevel = TreeProc.defaultBlockLevel)
    (htab : 0 < cfg.tab) (before after : List DefSpec) (hb : ∀ d ∈ before, d.ok cfg.tab = true)
    (ha : ∀ d ∈ after, d.ok cfg.tab = true) (pre text sp label post : Str)
    (hpre : PlainText pre = true) (htext : PlainText text = true) (hpost : PlainText post = true)
    (hstart : ParaStartOK pre = true) (hsp : sp = [] ∨ sp = [' ']) (hl : QuietLabel label = true)
    (hlc : label.all docCh = true)
    (hf1 : Block.lookupRef ((before ++ after).map DefSpec.entry) (normUse text) = none)
    (hf2 : Block.lookupRef ((before ++ after).map DefSpec.entry) (normUse label) = none) :
    Pipeline.convert cfg (docOf before (refSrc pre text sp label post) after) =
      .ok ("<p>".toList ++ Ser.escCdata (refSrc pre text sp label post) ++ "</p>".toList) :=
  convert_undefined cfg hbl htab before after hb ha pre text sp label post hpre htext hpost hstart hsp hl hlc hf1 hf2

/-- **A definition with a different label does not capture the reference.**  Every definition of the document has a
    key different from the key of the label and from the key of the text: the reference stays literal text. -/
theorem C15_undefined_other_labels (cfg : Pipeline.Cfg) (hbl : cfg.blockLevel = TreeProc.defaultBlockLevel)
    (htab : 0 < cfg.tab) (before after : List DefSpec) (hb : ∀ d ∈ before, d.ok cfg.tab = true)
    (ha : ∀ d ∈ after, d.ok cfg.tab = true) (pre text sp label post : Str)
    (hpre : PlainText pre = true) (htext : PlainText text = true) (hpost : PlainText post = true)
    (hstart : ParaStartOK pre = true) (hsp : sp = [] ∨ sp = [' ']) (hl : QuietLabel label = true)
    (hlc : label.all docCh = true)
    (hother : ∀ d ∈ before ++ after, normDef d.label ≠ normUse text ∧ normDef d.label ≠ normUse label) :
    Pipeline.convert cfg (docOf before (refSrc pre text sp label post) after) =
      .ok ("<p>".toList ++ Ser.escCdata (refSrc pre text sp label post) ++ "</p>".toList) := by
  have hnone : ∀ key, (∀ d ∈ before ++ after, normDef d.label ≠ key) →
      Block.lookupRef ((before ++ after).map DefSpec.entry) key = none := by
    intro key h
    rw [C15_undefined_none]
    intro e he
    obtain ⟨d, hd, rfl⟩ := List.mem_map.1 he
    exact h d hd
  exact C15_undefined_literal_doc cfg hbl htab before after hb ha pre text sp label post hpre htext hpost hstart hsp hl
    hlc (hnone _ (fun d hd => (hother d hd).1)) (hnone _ (fun d hd => (hother d hd).2))

/-- definitions of other labels on both sides; the label at the place of use is not defined -/
example : Pipeline.convert {} "[a]: /1\n\nsee [x][b], ok\n\n[c]: /3 'T'".toList =
    .ok "<p>see [x][b], ok</p>".toList := by decide +kernel

/-- the text is unchanged when it has none of `&`, `<`, `>` -/
theorem C15_escCdata_id (s : Str) (h : ∀ c ∈ s, c ≠ '&' ∧ c ≠ '<' ∧ c ≠ '>') : Ser.escCdata s = s := by
  rw [Ser.onepass_cdata']
  induction s with
  | nil => rfl
  | cons c r ih =>
    have hc := h c (by simp)
    simp [Ser.esc1, hc, ih (fun x hx => h x (by simp [hx]))]

example : ∀ c ∈ "see [x][b], ok".toList, c ≠ '&' ∧ c ≠ '<' ∧ c ≠ '>' := by decide

/-! ## Part 2: inline markup inside and around the references, m uses of n definitions -/

open Escape CodeLaw DocParse DocParse2 DocSpec in
/-- **Mixed inline content around and inside reference-style links, in the vocabulary of `Spec/Doc.lean`.**
    The document: any definitions, the paragraph `c₀ [t₁][l₁] c₁ … [tₘ][lₘ] cₘ`, any definitions (`docOf`).  `c₀`, the
    link texts `tⱼ` and the contents `cⱼ` are of the `mixRun` kind (`mixOK`: words, escapes, code spans, `em`/`strong`
    around words; neighbours that may touch), printed under any spelling state `st`; a link text starts with something
    visible; the labels are not empty and have no `]`, backtick, backslash, line break (`MUse.ok`); every label
    resolves among all the definitions of the document to `(url, title)` (`hlook`: `lookupRef` — wherever the
    definition stands, last definition of a key wins, case and runs of spaces in the label do not matter).  Then
    `convert` returns `<p>`, `specInlines c₀`, and for each use `<a href="url" title="title">` + `specInlines tⱼ` +
    `</a>` + `specInlines cⱼ` (`specUses`). -/
theorem C15_text_markup (cfg : Pipeline.Cfg) (hfmt : cfg.fmt = .xhtml)
    (hbl : cfg.blockLevel = TreeProc.defaultBlockLevel) (htab : 0 < cfg.tab) (hesc : cfg.esc = ESC)
    (before after : List DefSpec) (hb : ∀ d ∈ before, d.ok cfg.tab = true)
    (ha : ∀ d ∈ after, d.ok cfg.tab = true) (c0 : List DocSpec.Inline) (us : List MUse) (st : PSt)
    (hne : us ≠ []) (h0 : mixOK c0 = true) (hus : ∀ u ∈ us, u.ok = true)
    (hlook : ∀ u ∈ us, Block.lookupRef ((before ++ after).map DefSpec.entry) (normUse u.label) = some (u.url, u.title))
    (hstart : startPlain (printLine c0 us st) = true) (hchars : (printLine c0 us st).all lineCh = true)
    (hnoref : Block.refMatchAt (printLine c0 us st) 0 = none) :
    Pipeline.convert cfg (docOf before (printLine c0 us st) after) =
      .ok ("<p>".toList ++ (specInlines c0 ++ specUses us) ++ "</p>".toList) :=
  convert_mixLine cfg hfmt hbl htab hesc before after hb ha c0 us st hne h0 hus hlook hstart hchars hnoref

/-- what ties a use to a definition of the document: the definitions in document order are `L1 ++ d :: L2`, none
    after `d` has its key (so `d` wins over earlier definitions of the same label), the label of `d` is the words
    `w0 :: ws` joined by single spaces, the label at the place of use is any case / white-space variant of it, and the
    use carries the destination and the stored title of `d` -/
structure UseOfDef (defs : List DefSpec) (u : MUse) : Prop where
  split : ∃ (L1 L2 : List DefSpec) (d : DefSpec) (w0 : Str) (ws : List Str) (w0' : Str) (vs : List (Str × Str)),
    defs = L1 ++ d :: L2 ∧ (∀ d' ∈ L2, normDef d'.label ≠ normDef d.label) ∧ d.label = labelOf (w0 :: ws) ∧
    (∀ w ∈ w0 :: ws, isWord w = true) ∧ sameLower w0 w0' = true ∧ variantOK ws vs = true ∧
    u.label = useVariant w0' vs ∧ u.url = d.url ∧ u.title = storedTitle d.title

/-- such a use resolves to its definition: last definition of the key wins, loose label matching -/
theorem C15_useOfDef_lookup {defs : List DefSpec} {u : MUse} (h : UseOfDef defs u) :
    Block.lookupRef (defs.map DefSpec.entry) (normUse u.label) = some (u.url, u.title) := by
  obtain ⟨L1, L2, d, w0, ws, w0', vs, hd, hlast, hdl, hw, h0, hv, hl, hu, ht⟩ := h.split
  rw [hd, hl, hu, ht, C15_label_match w0 ws w0' vs hw h0 hv, ← hdl, List.map_append, List.map_cons, entry_eq d]
  apply C15_lookup_last_wins
  simp only [refKeys, List.map_map, List.mem_map, Function.comp, not_exists, not_and]
  intro d' hd' e
  exact hlast d' hd' e

open Escape CodeLaw DocParse DocParse2 DocSpec in
/-- **m uses of n definitions, spelled out**: every use is tied to a definition of the document (`UseOfDef`: loose
    label matching, the last definition of a key wins, wherever the definitions stand); then the paragraph renders
    with every link carrying the destination and title of ITS definition. -/
theorem C15_text_markup_defs (cfg : Pipeline.Cfg) (hfmt : cfg.fmt = .xhtml)
    (hbl : cfg.blockLevel = TreeProc.defaultBlockLevel) (htab : 0 < cfg.tab) (hesc : cfg.esc = ESC)
    (before after : List DefSpec) (hb : ∀ d ∈ before, d.ok cfg.tab = true)
    (ha : ∀ d ∈ after, d.ok cfg.tab = true) (c0 : List DocSpec.Inline) (us : List MUse) (st : PSt)
    (hne : us ≠ []) (h0 : mixOK c0 = true) (hus : ∀ u ∈ us, u.ok = true)
    (hdef : ∀ u ∈ us, UseOfDef (before ++ after) u)
    (hstart : startPlain (printLine c0 us st) = true) (hchars : (printLine c0 us st).all lineCh = true)
    (hnoref : Block.refMatchAt (printLine c0 us st) 0 = none) :
    Pipeline.convert cfg (docOf before (printLine c0 us st) after) =
      .ok ("<p>".toList ++ (specInlines c0 ++ specUses us) ++ "</p>".toList) :=
  C15_text_markup cfg hfmt hbl htab hesc before after hb ha c0 us st hne h0 hus
    (fun u hu => C15_useOfDef_lookup (hdef u hu)) hstart hchars hnoref

/-- the pieces of the rendering, spelled out -/
theorem C15_specUses_spec (u : MUse) (r : List MUse) :
    specUses [] = [] ∧
    specUses (u :: r) = ("<a href=\"".toList ++ Ser.escAttrHtml u.url ++ ['"'] ++ titleAttr u.title ++ ['>']) ++
      (DocSpec.specInlines u.text ++ ("</a>".toList ++ DocSpec.specInlines u.after)) ++ specUses r :=
  ⟨rfl, rfl⟩

open DocSpec in
/-- **One link whose text carries inline markup**, between contents with inline markup: `pre [text][label] post`
    renders as `<p>` `pre` `<a …>` `text` `</a>` `post` `</p>`, every part rendered as the syntax rules say. -/
theorem C15_link_text_markup (cfg : Pipeline.Cfg) (hfmt : cfg.fmt = .xhtml)
    (hbl : cfg.blockLevel = TreeProc.defaultBlockLevel) (htab : 0 < cfg.tab) (hesc : cfg.esc = DocParse2.ESC)
    (before after : List DefSpec) (hb : ∀ d ∈ before, d.ok cfg.tab = true)
    (ha : ∀ d ∈ after, d.ok cfg.tab = true) (pre : List DocSpec.Inline) (u : MUse) (st : PSt)
    (h0 : mixOK pre = true) (hu : u.ok = true)
    (hlook : Block.lookupRef ((before ++ after).map DefSpec.entry) (normUse u.label) = some (u.url, u.title))
    (hstart : startPlain (printLine pre [u] st) = true) (hchars : (printLine pre [u] st).all lineCh = true)
    (hnoref : Block.refMatchAt (printLine pre [u] st) 0 = none) :
    Pipeline.convert cfg (docOf before (printLine pre [u] st) after) =
      .ok ("<p>".toList ++ (specInlines pre ++ (("<a href=\"".toList ++ Ser.escAttrHtml u.url ++ ['"'] ++
        InlineRef.titleAttr u.title ++ ['>']) ++ (specInlines u.text ++ ("</a>".toList ++ specInlines u.after)))) ++
        "</p>".toList) := by
  have := C15_text_markup cfg hfmt hbl htab hesc before after hb ha pre [u] st (by simp) h0
    (by intro x hx; simp at hx; subst hx; exact hu) (by intro x hx; simp at hx; subst hx; exact hlook)
    hstart hchars hnoref
  rw [this, (C15_specUses_spec u []).2, (C15_specUses_spec u []).1, List.append_nil]

/-- when the line starts with a visible character other than `[`, it is not a reference definition -/
theorem C15_noref_of_start (s : Str) (c : Char) (r : Str) (hs : s = c :: r) (h1 : c ≠ ' ') (h2 : c ≠ '[') :
    Block.refMatchAt s 0 = none := by
  subst hs
  have h0 : countPrefix ' ' (some 3) (c :: r) = 0 := by simp [countPrefix, h1]
  simp [Block.refMatchAt, h0, h2]

/-- **The same at chunk level, any escapable set.**  `C0` and, for every use, the link text `T` and the content after
    it `C` are chunks (`Chunk`: escaped text, then items — code span or emphasised words — each followed by escaped
    text) that satisfy `ChunkOK` (shapes of the items, no backslash before a code span, `_` emphasis between
    non-word characters, no `&`/line break/STX in the texts); `UseSpec`: the link text shows something, the label
    resolves among the definitions.  `lineRaw` is the source line, `Chunk.out`/`usOut` the rendering. -/
theorem C15_mix_line (cfg : Pipeline.Cfg) (hfmt : cfg.fmt = .xhtml)
    (hbl : cfg.blockLevel = TreeProc.defaultBlockLevel) (htab : 0 < cfg.tab) (hE : DocParse.EscOK cfg.esc)
    (hrb : ']' ∈ cfg.esc) (before after : List DefSpec) (hb : ∀ d ∈ before, d.ok cfg.tab = true)
    (ha : ∀ d ∈ after, d.ok cfg.tab = true) (C0 : Chunk) (us : List RUse) (hne : us ≠ [])
    (h0 : ChunkOK cfg.esc C0) (hus : ∀ u ∈ us, UseSpec cfg.esc (before ++ after) u)
    (hstart : startPlain (lineRaw cfg.esc C0 us) = true) (hchars : (lineRaw cfg.esc C0 us).all lineCh = true)
    (hnoref : Block.refMatchAt (lineRaw cfg.esc C0 us) 0 = none) :
    Pipeline.convert cfg (docOf before (lineRaw cfg.esc C0 us) after) =
      .ok ("<p>".toList ++ (C0.out ++ usOut us) ++ "</p>".toList) :=
  convert_line_defs cfg hfmt hbl htab hE hrb before after hb ha C0 us hne h0 hus hstart hchars hnoref

/-- **What `__handleInline` makes of such a line**: every item and every use a placeholder (`lineRes`), the stash
    extended by the code spans of all chunks, the escapes of all chunks, for each use the emphases of its link text
    and its `<a>` element (whose text is the link text with every item a placeholder), the `*` emphases and the `_`
    emphases of the contents outside the links (`lineStash`). -/
theorem C15_mix_loop (cfg : Inline.Cfg) (hE : DocParse.EscOK cfg.esc) (hrb : ']' ∈ cfg.esc) (C0 : Chunk)
    (us : List RUse) (st : St) (h0 : ChunkOK cfg.esc C0) (hus : ∀ u ∈ us, UseOK cfg u) :
    handleInlineTop cfg (lineRaw cfg.esc C0 us) st =
      some (lineRes cfg.esc st.stash.length C0 us,
        { st with stash := st.stash ++ lineStash cfg.esc st.stash.length C0 us }) :=
  handleInlineTop_line cfg hE hrb C0 us st h0 hus

/-! ## Part 3: a line break inside the label at the place of use -/

/-- **The label broken over two lines.**  The paragraph is `pre[text][l1` ⏎ `l2]post` (plain text around and in the
    brackets as in `Props/C15Forms.lean`; `l2` — the rest of the label on the second line — may be indented and starts
    with a character that starts no block construct and is not `[`).  When the key of the WHOLE label
    `l1 ++ "\n" ++ l2` is looked up to `(url, title)` among the definitions of the document, the link is rendered
    as for a label on one line. -/
theorem C15_label_linebreak (cfg : Pipeline.Cfg) (hbl : cfg.blockLevel = TreeProc.defaultBlockLevel)
    (htab : 0 < cfg.tab) (before after : List DefSpec) (hb : ∀ d ∈ before, d.ok cfg.tab = true)
    (ha : ∀ d ∈ after, d.ok cfg.tab = true) (pre text sp l1 l2 post : Str)
    (hpre : PlainText pre = true) (htext : PlainText text = true) (hpost : PlainText post = true)
    (hstart : ParaStartOK pre = true) (hsp : sp = [] ∨ sp = [' '])
    (hu1 : UseLabelOK l1 = true) (hu2 : UseLabelOK l2 = true)
    (h1n : '\n' ∉ l1) (h2n : '\n' ∉ l2) (h1c : l1.all docCh = true) (h2c : l2.all docCh = true)
    (h2 : ∃ n c r, l2 = Block.spaces n ++ c :: r ∧ Block.plainCh c = true ∧ c ≠ '[')
    (url : Str) (title : Option Str)
    (hlook : Block.lookupRef ((before ++ after).map DefSpec.entry) (useKey text (l1 ++ '\n' :: l2)) = some (url, title)) :
    Pipeline.convert cfg (docOf before (refSrc pre text sp (l1 ++ '\n' :: l2) post) after) =
      .ok ("<p>".toList ++ (pre ++ (linkHtmlF cfg.fmt url title text ++ post)) ++ "</p>".toList) :=
  convert_link_break cfg hbl htab before after hb ha pre text sp l1 l2 post hpre htext hpost hstart hsp hu1 hu2 h1n h2n
    h1c h2c h2 url title hlook

/-- **… it matches the definition whose label has the same words.**  The definition `d` (the last one with its key)
    has the label `labelOf (w0 :: ws)`; the label at the place of use is a variant `useVariant w0' vs` of it (case of
    any characters changed, the words separated by any runs of white space) that is broken over two lines:
    `useVariant w0' vs = l1 ++ "\n" ++ l2`.  The link carries the destination and title of `d`. -/
theorem C15_label_linebreak_variant (cfg : Pipeline.Cfg) (hbl : cfg.blockLevel = TreeProc.defaultBlockLevel)
    (htab : 0 < cfg.tab) (before after L1 L2 : List DefSpec) (d : DefSpec) (harr : before ++ after = L1 ++ d :: L2)
    (hb : ∀ d ∈ before, d.ok cfg.tab = true) (ha : ∀ d ∈ after, d.ok cfg.tab = true)
    (hlast : ∀ d' ∈ L2, normDef d'.label ≠ normDef d.label) (pre text sp l1 l2 post : Str)
    (w0 : Str) (ws : List Str) (w0' : Str) (vs : List (Str × Str)) (hdl : d.label = labelOf (w0 :: ws))
    (hw : ∀ w ∈ w0 :: ws, isWord w = true) (h0 : sameLower w0 w0' = true) (hv : variantOK ws vs = true)
    (hdec : useVariant w0' vs = l1 ++ '\n' :: l2)
    (hpre : PlainText pre = true) (htext : PlainText text = true) (hpost : PlainText post = true)
    (hstart : ParaStartOK pre = true) (hsp : sp = [] ∨ sp = [' '])
    (hu1 : UseLabelOK l1 = true) (hu2 : UseLabelOK l2 = true)
    (h1n : '\n' ∉ l1) (h2n : '\n' ∉ l2) (h1c : l1.all docCh = true) (h2c : l2.all docCh = true)
    (h2 : ∃ n c r, l2 = Block.spaces n ++ c :: r ∧ Block.plainCh c = true ∧ c ≠ '[') :
    Pipeline.convert cfg (docOf before (refSrc pre text sp (l1 ++ '\n' :: l2) post) after) =
      .ok ("<p>".toList ++ (pre ++ (linkHtmlF cfg.fmt d.url (storedTitle d.title) text ++ post)) ++ "</p>".toList) := by
  have hkey : useKey text (l1 ++ '\n' :: l2) = normDef d.label := by
    have hne : (l1 ++ '\n' :: l2).isEmpty = false := by cases l1 <;> rfl
    unfold useKey
    rw [hne, ← hdec, hdl]
    exact C15_label_match w0 ws w0' vs hw h0 hv
  have hlook : Block.lookupRef ((before ++ after).map DefSpec.entry) (useKey text (l1 ++ '\n' :: l2)) =
      some (d.url, storedTitle d.title) := by
    rw [harr, hkey, List.map_append, List.map_cons, entry_eq d]
    apply C15_lookup_last_wins
    simp only [refKeys, List.map_map, List.mem_map, Function.comp, not_exists, not_and]
    intro d' hd' e
    exact hlast d' hd' e
  exact C15_label_linebreak cfg hbl htab before after hb ha pre text sp l1 l2 post hpre htext hpost hstart hsp hu1 hu2
    h1n h2n h1c h2c h2 _ _ hlook

/-- the label `Foo` ⏎ `   BAR` (line break and indentation) finds `[foo bar]: …`; evaluated by the kernel on the model
    (same on the implementation) -/
example : Pipeline.convert {} "see [x][Foo\n   BAR] end\n\n[foo bar]: /u 'T'".toList =
    .ok "<p>see <a href=\"/u\" title=\"T\">x</a> end</p>".toList := by decide +kernel

/-- … and through the theorem -/
example : Pipeline.convert {} (docOf [] (refSrc "see ".toList "x".toList [] ("Foo".toList ++ '\n' :: "   BAR".toList)
      " end".toList) [⟨0, "foo bar".toList, "/u".toList, some (.sq, "T".toList), false⟩]) =
    .ok ("<p>".toList ++ ("see ".toList ++ (linkHtmlF .xhtml "/u".toList (some "T".toList) "x".toList ++ " end".toList)) ++
      "</p>".toList) :=
  C15_label_linebreak_variant {} rfl (by decide) [] _ [] [] _ rfl (by simp) (by decide) (by simp)
    "see ".toList "x".toList [] "Foo".toList "   BAR".toList " end".toList "foo".toList ["bar".toList] "Foo".toList
    [("\n   ".toList, "BAR".toList)] rfl (by decide) (by decide) (by decide) (by decide) (by decide) (by decide)
    (by decide) (by decide) (Or.inl rfl) (by decide) (by decide) (by decide) (by decide) (by decide) (by decide)
    ⟨3, 'B', "AR".toList, by decide, by decide, by decide⟩

/-! ## Part 4: either output format -/

open Escape CodeLaw DocParse DocParse2 DocSpec in
/-- **`C15_text_markup` for either output format.**  Same document, same conditions, no condition on `cfg.fmt`; the
    opening tags are written in the spelling of the format (`specUsesF cfg.fmt`, `C15_specUsesF_spec`). -/
theorem C15_text_markup_fmt (cfg : Pipeline.Cfg)
    (hbl : cfg.blockLevel = TreeProc.defaultBlockLevel) (htab : 0 < cfg.tab) (hesc : cfg.esc = ESC)
    (before after : List DefSpec) (hb : ∀ d ∈ before, d.ok cfg.tab = true)
    (ha : ∀ d ∈ after, d.ok cfg.tab = true) (c0 : List DocSpec.Inline) (us : List MUse) (st : PSt)
    (hne : us ≠ []) (h0 : mixOK c0 = true) (hus : ∀ u ∈ us, u.ok = true)
    (hlook : ∀ u ∈ us, Block.lookupRef ((before ++ after).map DefSpec.entry) (normUse u.label) = some (u.url, u.title))
    (hstart : startPlain (printLine c0 us st) = true) (hchars : (printLine c0 us st).all lineCh = true)
    (hnoref : Block.refMatchAt (printLine c0 us st) 0 = none) :
    Pipeline.convert cfg (docOf before (printLine c0 us st) after) =
      .ok ("<p>".toList ++ (specInlines c0 ++ specUsesF cfg.fmt us) ++ "</p>".toList) :=
  convert_mixLine_fmt cfg hbl htab hesc before after hb ha c0 us st hne h0 hus hlook hstart hchars hnoref

open Escape CodeLaw DocParse DocParse2 DocSpec in
/-- **`C15_text_markup_defs` for either output format**: m uses, each tied to a definition of the document
    (`UseOfDef`). -/
theorem C15_text_markup_defs_fmt (cfg : Pipeline.Cfg)
    (hbl : cfg.blockLevel = TreeProc.defaultBlockLevel) (htab : 0 < cfg.tab) (hesc : cfg.esc = ESC)
    (before after : List DefSpec) (hb : ∀ d ∈ before, d.ok cfg.tab = true)
    (ha : ∀ d ∈ after, d.ok cfg.tab = true) (c0 : List DocSpec.Inline) (us : List MUse) (st : PSt)
    (hne : us ≠ []) (h0 : mixOK c0 = true) (hus : ∀ u ∈ us, u.ok = true)
    (hdef : ∀ u ∈ us, UseOfDef (before ++ after) u)
    (hstart : startPlain (printLine c0 us st) = true) (hchars : (printLine c0 us st).all lineCh = true)
    (hnoref : Block.refMatchAt (printLine c0 us st) 0 = none) :
    Pipeline.convert cfg (docOf before (printLine c0 us st) after) =
      .ok ("<p>".toList ++ (specInlines c0 ++ specUsesF cfg.fmt us) ++ "</p>".toList) :=
  C15_text_markup_fmt cfg hbl htab hesc before after hb ha c0 us st hne h0 hus
    (fun u hu => C15_useOfDef_lookup (hdef u hu)) hstart hchars hnoref

/-- the pieces of the rendering in format `fmt`, spelled out -/
theorem C15_specUsesF_spec (fmt : Ser.Fmt) (u : MUse) (r : List MUse) :
    specUsesF fmt [] = [] ∧
    specUsesF fmt (u :: r) = ("<a".toList ++ attrHtml fmt "href".toList u.url ++
        (if Node.truthy u.title then attrHtml fmt "title".toList (u.title.getD []) else []) ++ ['>']) ++
      (DocSpec.specInlines u.text ++ ("</a>".toList ++ DocSpec.specInlines u.after)) ++ specUsesF fmt r :=
  ⟨rfl, rfl⟩

/-- when no attribute is boolean — always so in xhtml — the opening tag is `<a href="…" title="…">` as in part 2 -/
theorem C15_aOpenF_plain (fmt : Ser.Fmt) (url : Str) (title : Option Str)
    (h : fmt = .xhtml ∨ ("href".toList ≠ Ser.escAttrHtml url ∧
      ∀ s, title = some s → "title".toList ≠ Ser.escAttrHtml s)) :
    "<a".toList ++ attrHtml fmt "href".toList url ++
        (if Node.truthy title then attrHtml fmt "title".toList (title.getD []) else []) ++ ['>'] =
      "<a href=\"".toList ++ Ser.escAttrHtml url ++ ['"'] ++ titleAttr title ++ ['>'] :=
  aOpenF_eq fmt url title h

/-- in xhtml the output of part 4 is the output of part 2 -/
theorem C15_specUsesF_xhtml (us : List MUse) : specUsesF .xhtml us = specUses us := specUsesF_xhtml us

/-- **`C15_mix_line` for either output format** (chunk level, any escapable set) -/
theorem C15_mix_line_fmt (cfg : Pipeline.Cfg)
    (hbl : cfg.blockLevel = TreeProc.defaultBlockLevel) (htab : 0 < cfg.tab) (hE : DocParse.EscOK cfg.esc)
    (hrb : ']' ∈ cfg.esc) (before after : List DefSpec) (hb : ∀ d ∈ before, d.ok cfg.tab = true)
    (ha : ∀ d ∈ after, d.ok cfg.tab = true) (C0 : Chunk) (us : List RUse) (hne : us ≠ [])
    (h0 : ChunkOK cfg.esc C0) (hus : ∀ u ∈ us, UseSpec cfg.esc (before ++ after) u)
    (hstart : startPlain (lineRaw cfg.esc C0 us) = true) (hchars : (lineRaw cfg.esc C0 us).all lineCh = true)
    (hnoref : Block.refMatchAt (lineRaw cfg.esc C0 us) 0 = none) :
    Pipeline.convert cfg (docOf before (lineRaw cfg.esc C0 us) after) =
      .ok ("<p>".toList ++ (C0.out ++ usOutF cfg.fmt us) ++ "</p>".toList) :=
  convert_line_fmt cfg hbl htab hE hrb before after hb ha C0 us hne h0 hus hstart hchars hnoref

/-! ## Part 5: definitions anywhere among the blocks of a document -/

open DocSpec DocParse DocParse2 in
/-- **Reference definitions work from anywhere in a document.**  `ss` is any sequence of items (`SItem`) separated by
    blank lines: `.defn d` a reference definition, `.links c₀ us st` a paragraph `c₀ [t₁][l₁] c₁ … [tₘ][lₘ] cₘ` with
    uses (as in `C15_text_markup`), `.block b st` a block of the `MixDoc` kind printed under the spelling state `st`.
    `SItem.ok (sDefs ss)`: the definitions satisfy `DefSpec.ok`; the paragraphs with uses satisfy the hypotheses of
    `C15_text_markup`, every label resolving among ALL the definitions of the document `sDefs ss` — wherever they
    stand; the blocks are well-formed `MixDoc` blocks.  At least one item is not a definition; no code block directly
    follows a code block, definitions between them not counting (`noCodeCode`).  Then `convert` returns the expected
    outputs of the items that are not definitions, one per line (`sOuts`, `joinOutS`); the definitions print
    nothing. -/
theorem C15_document (ss : List SItem) (hne : sOuts ss ≠ []) (hok : ∀ s ∈ ss, s.ok (sDefs ss))
    (hadj : noCodeCode (sCodes ss)) :
    Pipeline.convert {} (joinLines (flatLines (ss.map SItem.lines))) = .ok (joinOutS (sOuts ss)) :=
  convert_sitems ss hne hok hadj

/-- the vocabulary of `C15_document`, spelled out: source lines, definitions, expected outputs, code flags -/
theorem C15_document_spec (d : DefSpec) (c0 : List DocSpec.Inline) (us : List MUse) (b : DocSpec.Block)
    (st : DocSpec.PSt) (r : List SItem) :
    (SItem.defn d).lines = RefDef.defLines d.indent d.label d.url false d.title d.titleOnNextLine ∧
    d.src = joinLines (SItem.defn d).lines ∧
    (SItem.links c0 us st).lines = [printLine c0 us st] ∧
    (SItem.block b st).lines = (DocSpec.printBlock true b st).1 ∧
    sDefs (.defn d :: r) = d :: sDefs r ∧ sDefs (.links c0 us st :: r) = sDefs r ∧ sDefs (.block b st :: r) = sDefs r ∧
    sOuts (.defn d :: r) = sOuts r ∧
    sOuts (.links c0 us st :: r) =
      ("<p>".toList ++ (DocSpec.specInlines c0 ++ specUses us) ++ "</p>".toList) :: sOuts r ∧
    sOuts (.block b st :: r) = DocSpec.specBlock b :: sOuts r ∧
    sCodes (.defn d :: r) = sCodes r ∧ sCodes (.links c0 us st :: r) = false :: sCodes r ∧
    sCodes (.block b st :: r) = DocSpec.isCode b :: sCodes r :=
  ⟨rfl, src_eq_joinLines d, rfl, rfl, rfl, rfl, rfl, rfl, rfl, rfl, rfl, rfl, rfl⟩

/-- the conditions of `C15_document` on each kind of item, spelled out -/
theorem C15_document_ok (defs : List DefSpec) (d : DefSpec) (c0 : List DocSpec.Inline) (us : List MUse)
    (b : DocSpec.Block) (st : DocSpec.PSt) :
    ((SItem.defn d).ok defs ↔ d.ok 4 = true) ∧
    ((SItem.links c0 us st).ok defs ↔ (us ≠ [] ∧ mixOK c0 = true ∧ (∀ u ∈ us, u.ok = true) ∧
      (∀ u ∈ us, Block.lookupRef (defs.map DefSpec.entry) (normUse u.label) = some (u.url, u.title)) ∧
      startPlain (printLine c0 us st) = true ∧ (printLine c0 us st).all lineCh = true ∧
      Block.refMatchAt (printLine c0 us st) 0 = none)) ∧
    ((SItem.block b st).ok defs ↔ (DocSpec.isMixBlock b = true ∧ DocSpec.wfBlock none b = true)) :=
  ⟨Iff.rfl, Iff.rfl, Iff.rfl⟩

open DocParse DocParse2 in
/-- **The same for any pieces**: a document of pieces (`Piece2`: block-parser piece + element at every later stage,
    `Lemmas/DocParse2.lean`) and definitions in any order.  Every piece is correct for the references of ALL the
    definitions (`Piece2At`; the pieces of C01b are correct for any references: `Piece2OK.at`; a paragraph with uses
    is one when its labels resolve among the definitions `defs` of the document: `C15_linePiece`). -/
theorem C15_document_pieces (cfg : Pipeline.Cfg) (hbl : cfg.blockLevel = TreeProc.defaultBlockLevel)
    (hfmt : cfg.fmt = .xhtml) (is : List DItem) (hne : blksOf is ≠ [])
    (hD : ∀ d ∈ dfnsOf is, d.ok cfg.tab = true)
    (hP : ∀ p ∈ blksOf is, Piece2At cfg (((dfnsOf is).map DefSpec.entry).reverse) p)
    (hadj : noCodeAfterCode ((blksOf is).map (·.b))) :
    Pipeline.convert cfg (joinLines (flatLines (is.map DItem.lines))) =
      .ok (joinOutS ((blksOf is).map (·.elem.out))) :=
  convert_items cfg hbl hfmt is hne hD hP hadj

/-- a paragraph with uses (chunk level, any escapable set) is a piece of a document whose definitions are `defs` -/
theorem C15_linePiece (cfg : Pipeline.Cfg) (htab : 0 < cfg.tab) (hE : DocParse.EscOK cfg.esc) (hrb : ']' ∈ cfg.esc)
    (defs : List DefSpec) (hd : ∀ d ∈ defs, d.ok cfg.tab = true) (C0 : Chunk) (us : List RUse) (hne : us ≠ [])
    (h0 : ChunkOK cfg.esc C0) (hus : ∀ u ∈ us, UseSpec cfg.esc defs u)
    (hstart : startPlain (lineRaw cfg.esc C0 us) = true) (hchars : (lineRaw cfg.esc C0 us).all lineCh = true)
    (hnoref : Block.refMatchAt (lineRaw cfg.esc C0 us) 0 = none) :
    Piece2At cfg ((defs.map DefSpec.entry).reverse) (linePiece cfg.esc C0 us) ∧
    (linePiece cfg.esc C0 us).b.g = [lineRaw cfg.esc C0 us] ∧
    (linePiece cfg.esc C0 us).elem.out = "<p>".toList ++ (C0.out ++ usOut us) ++ "</p>".toList :=
  ⟨linePiece_at cfg htab hE hrb defs hd C0 us hne h0 hus hstart hchars hnoref, rfl, rfl⟩

/-! ### instances: the hypotheses are satisfiable; evaluated by the kernel on the model as well -/

section examples
open DocSpec

/-- content before the first link: words, emphasis, a code span with brackets, an escape -/
def sampleC0 : List DocSpec.Inline :=
  [.text (S "see "), .em [.text (S "it")], .text (S " and "), .code (S "a[b]"), .esc '!', .text (S " ")]

/-- a link whose text has `strong`, words, a code span with `*` and an escaped `_`; label in another case and with two
    spaces; followed by words and an escaped `*` -/
def sampleU1 : MUse :=
  ⟨[.strong [.text (S "the docs")], .text (S " of "), .code (S "x*y"), .esc '_'], [], S "Foo  BAR", S "/u?a=b",
    some (S "T"), [.text (S " then "), .esc '*']⟩

/-- a second link, written `[text] [label]`, followed by an escape and a code span that is a backtick -/
def sampleU2 : MUse := ⟨[.text (S "plain 2")], [' '], S "x", S "/v", none, [.esc '.', .code (S "`")]⟩

def sampleSt : PSt := ⟨[1, 1, 0, 1, 1, 2, 1, 0, 1], 1, []⟩

example : mixOK sampleC0 = true ∧ sampleU1.ok = true ∧ sampleU2.ok = true := by decide

example : printLine sampleC0 [sampleU1, sampleU2] sampleSt =
    ("see _it_ and ``a[b]``\\! [**the docs** of ``x*y``\\_][Foo  BAR] then \\*[plain 2] [x]\\.``` ` ```").toList := by
  decide +kernel

example : specInlines sampleC0 ++ specUses [sampleU1, sampleU2] =
    ("see <em>it</em> and <code>a[b]</code>! <a href=\"/u?a=b\" title=\"T\"><strong>the docs</strong> of " ++
     "<code>x*y</code>_</a> then *<a href=\"/v\">plain 2</a>.<code>`</code>").toList := by decide +kernel

/-- the theorem applied: one definition before the paragraph (with another definition of the same label before it:
    the later one wins), one after it -/
example : Pipeline.convert {}
    (docOf [⟨0, S "foo bar", S "/old", none, false⟩, ⟨0, S "Foo Bar", S "/u?a=b", some (.dq, S "T"), false⟩]
      (printLine sampleC0 [sampleU1, sampleU2] sampleSt) [⟨1, S "X", S "/v", none, false⟩]) =
    .ok ("<p>".toList ++ (specInlines sampleC0 ++ specUses [sampleU1, sampleU2]) ++ "</p>".toList) :=
  C15_text_markup {} rfl rfl (by decide) rfl _ _ (by decide) (by decide) sampleC0 [sampleU1, sampleU2] sampleSt
    (by simp) (by decide) (by decide) (by decide +kernel) (by decide +kernel) (by decide +kernel) (by decide +kernel)

/-- the same instance evaluated by the kernel on the model, independently of the theorem -/
example : Pipeline.convert {}
    (docOf [⟨0, S "foo bar", S "/old", none, false⟩, ⟨0, S "Foo Bar", S "/u?a=b", some (.dq, S "T"), false⟩]
      (printLine sampleC0 [sampleU1, sampleU2] sampleSt) [⟨1, S "X", S "/v", none, false⟩]) =
    .ok ("<p>see <em>it</em> and <code>a[b]</code>! <a href=\"/u?a=b\" title=\"T\"><strong>the docs</strong> of " ++
      "<code>x*y</code>_</a> then *<a href=\"/v\">plain 2</a>.<code>`</code></p>").toList := by decide +kernel

/-- the html format, with a boolean attribute: the definition `[b]: href "title"` gives `<a href title>` -/
def sampleU3 : MUse := ⟨[.em [.text (S "go")]], [], S "B", S "href", some (S "title"), []⟩

example : sampleU3.ok = true := by decide

example : Pipeline.convert { fmt := .html }
    (docOf [⟨0, S "Foo Bar", S "/u?a=b", some (.dq, S "T"), false⟩, ⟨0, S "b", S "href", some (.dq, S "title"), false⟩]
      (printLine sampleC0 [sampleU1, sampleU3] sampleSt) []) =
    .ok ("<p>".toList ++ (specInlines sampleC0 ++ specUsesF .html [sampleU1, sampleU3]) ++ "</p>".toList) :=
  C15_text_markup_fmt { fmt := .html } rfl (by decide) rfl _ _ (by decide) (by decide) sampleC0 [sampleU1, sampleU3]
    sampleSt (by simp) (by decide) (by decide) (by decide +kernel) (by decide +kernel) (by decide +kernel)
    (by decide +kernel)

example : specInlines sampleC0 ++ specUsesF .html [sampleU1, sampleU3] =
    ("see <em>it</em> and <code>a[b]</code>! <a href=\"/u?a=b\" title=\"T\"><strong>the docs</strong> of " ++
     "<code>x*y</code>_</a> then *<a href title><em>go</em></a>").toList := by decide +kernel

/-- the same instance evaluated by the kernel on the model -/
example : Pipeline.convert { fmt := .html }
    (docOf [⟨0, S "Foo Bar", S "/u?a=b", some (.dq, S "T"), false⟩, ⟨0, S "b", S "href", some (.dq, S "title"), false⟩]
      (printLine sampleC0 [sampleU1, sampleU3] sampleSt) []) =
    .ok ("<p>see <em>it</em> and <code>a[b]</code>! <a href=\"/u?a=b\" title=\"T\"><strong>the docs</strong> of " ++
     "<code>x*y</code>_</a> then *<a href title><em>go</em></a></p>").toList := by decide +kernel

/-- a document: heading, definition, code block (whose first line looks like a definition), paragraph with two uses
    (one of the definition before it, one of the definition after the rule), rule, definition, paragraph -/
def sampleDoc : List SItem :=
  [ .block (.atx 2 [.text (S "Title "), .em [.text (S "one")]]) ⟨[0, 3], 1, []⟩,
    .defn ⟨0, S "Foo Bar", S "/u?a=b", some (.dq, S "T"), false⟩,
    .block (.code [S "[x]: /not-a-definition", S "", S "code *here*"]) ⟨[], 1, []⟩,
    .links sampleC0 [sampleU1, sampleU2] sampleSt,
    .block .rule ⟨[2], 1, []⟩,
    .defn ⟨1, S "X", S "/v", none, false⟩,
    .block (.para [.text (S "the end"), .esc '!']) ⟨[1], 1, []⟩ ]

example : joinLines (DocParse.flatLines (sampleDoc.map SItem.lines)) =
    ("## Title _one_\n\n[Foo Bar]: /u?a=b \"T\"\n\n    [x]: /not-a-definition\n\n    code *here*\n\n" ++
     "see _it_ and ``a[b]``\\! [**the docs** of ``x*y``\\_][Foo  BAR] then \\*[plain 2] [x]\\.``` ` ```\n\n" ++
     "  ***\n\n [X]: /v\n\n the end\\!").toList := by decide +kernel

example : DocParse2.joinOutS (sOuts sampleDoc) =
    ("<h2>Title <em>one</em></h2>\n<pre><code>[x]: /not-a-definition\n\ncode *here*\n</code></pre>\n" ++
     "<p>see <em>it</em> and <code>a[b]</code>! <a href=\"/u?a=b\" title=\"T\"><strong>the docs</strong> of " ++
     "<code>x*y</code>_</a> then *<a href=\"/v\">plain 2</a>.<code>`</code></p>\n<hr />\n<p>the end!</p>").toList := by
  decide +kernel

/-- the theorem applied -/
example : Pipeline.convert {} (joinLines (DocParse.flatLines (sampleDoc.map SItem.lines))) =
    .ok (DocParse2.joinOutS (sOuts sampleDoc)) := by
  refine C15_document sampleDoc (by simp [sampleDoc, sOuts]) ?_ (by simp [sampleDoc, sCodes, noCodeCode, DocSpec.isCode])
  intro s hs
  simp only [sampleDoc, List.mem_cons, List.not_mem_nil, or_false] at hs
  rcases hs with rfl | rfl | rfl | rfl | rfl | rfl | rfl
  · exact ⟨by decide, by decide⟩
  · show DefSpec.ok 4 _ = true; decide
  · exact ⟨by decide, by decide⟩
  · exact ⟨by simp, by decide, by decide, by decide +kernel, by decide +kernel, by decide +kernel, by decide +kernel⟩
  · exact ⟨by decide, by decide⟩
  · show DefSpec.ok 4 _ = true; decide
  · exact ⟨by decide, by decide⟩

/-- the same document evaluated by the kernel on the model, independently of the theorem -/
example : Pipeline.convert {} (joinLines (DocParse.flatLines (sampleDoc.map SItem.lines))) =
    .ok ("<h2>Title <em>one</em></h2>\n<pre><code>[x]: /not-a-definition\n\ncode *here*\n</code></pre>\n" ++
     "<p>see <em>it</em> and <code>a[b]</code>! <a href=\"/u?a=b\" title=\"T\"><strong>the docs</strong> of " ++
     "<code>x*y</code>_</a> then *<a href=\"/v\">plain 2</a>.<code>`</code></p>\n<hr />\n<p>the end!</p>").toList := by
  decide +kernel

/-- why `noCodeCode`: with only a definition between two indented code blocks the second is appended to the first
    (same on the implementation) -/
example : Pipeline.convert {} "    a\n\n[l]: /u\n\n    b".toList = .ok "<pre><code>a\n\nb\n</code></pre>".toList := by
  decide +kernel

/-- outside the domain, recorded: the collapsed form looks up the link text as it is when pattern 2 runs — with a code
    span in it the key holds a placeholder and finds nothing; the text stays literal, its markup rendered
    (same on the implementation) -/
example : Pipeline.convert {} "see [a `b`][]\n\n[a `b`]: /u".toList =
    .ok "<p>see [a <code>b</code>][]</p>".toList := by decide +kernel

end examples

end MdVerif.RefText
