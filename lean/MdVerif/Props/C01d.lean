/-
C01, lists — Canonical Markdown renders to the prescribed structure; nesting and spelling never change the rendering.

`C01_list`: for every well-formed document of the sub-grammar `ListDoc` (`Spec/DocList.lean`) and EVERY spelling,

    Pipeline.convert {} (print d sp) = .ok (spec d).

`ListDoc`: every top-level block is
* a flat block (thematic break, paragraph, ATX or Setext heading of words and backslash escapes), or a block quote of
  flat blocks and quotes nested to any depth (`isQuoteBlock`, the sub-grammar of `C01_quote`);
* a TIGHT list (`isTightList`), bullet or ordered, nested to ANY depth: every item is a paragraph of words and escapes,
  optionally followed by one tight list (bullet or ordered, independently of the enclosing list);
* a LOOSE list (`isLooseList`), bullet or ordered, nested to ANY depth: every item is a paragraph of words and escapes
  followed by any number of flat blocks and loose lists (as `WF` requires: no two lists next to each other; a loose
  list has two items or an item with two blocks).
This is rungs 1, 2 and 3 of the ladder, and the part of rung 4 in which lists stand beside flat blocks and quotes at the
top level.

The spelling decides: for each bullet list its marker `*`, `+` or `-`; for each ordered list the first number 0–9 and
the step 0–2 (`3. 3. 3.`, `1. 2. 3.`, `0. 2. 4.`, …: `core` never emits `start`, so every numbering renders the same);
and everything it decides for the flat blocks and quotes.  Nested blocks are indented by four spaces per level; the
items of a loose list and the blocks of its items are separated by blank lines.

Milestones (helper lemmas: `Lemmas/DocParseListTree.lean`, `DocParseList.lean`, `DocParseListLoose.lean`,
`DocParseListDoc.lean`):
* `C01_list_get_items`     `get_items` on the lines of a tight list: one entry per item text, one entry per nested
                           list (its indented lines joined);
* `C01_list_recognised`    the chunk reaches `OListProcessor` / `UListProcessor` (hash, Setext and rule recognisers
                           fail on marker lines and on indented lines);
* `C01_list_effect`        the chunk of a tight list appends the `ul`/`ol` element with its `li` children — item texts
                           parsed in the state `list` (the text goes to `li.text`), nested lists through
                           `ListIndentProcessor` (`get_level`, `looseDetab`, state `detabbed`) — to any parent that is
                           not a list and whose last child is not a list, in any non-list state; by induction over
                           the list tree;
* `C01_loose_routing`      `ListIndentProcessor` on a chunk indented by as many levels as there are open lists:
                           `get_level` walks down the chain of last children (list, item, list, item, …) to the
                           innermost open item, whose text is moved into a `p`; the chunk is parsed into it without
                           its indentation, in the state `detabbed`;
* `C01_loose_next_item`    the "sibling" branch of `OListProcessor.run`: a marker chunk after a list moves the text of
                           the previous item into a `p` and parses the new item in the state `looselist`;
* `C01_loose_effect`       the chunks of a loose list nested to any depth, one after the other, append the
                           `ul`/`ol` element in which every item holds `p` and block children (`LL`, `OkB`); by
                           induction over the list tree, in an arbitrary context of open lists;
* `C01_tree_inline`, `C01_tree_render`   element trees of any shape over the tags `hr p h1…h6 blockquote ul ol li`,
                           an element possibly having a text and children (the item of a nested tight list) or the
                           empty text `''` and children (the first item of a loose list), through the inline
                           processor and through all later stages;
* `C01_ulist_tight_flat`, `C01_olist_tight_flat`, `C01_list_tight_nested`, `C01_list_loose`, `C01_list`.
Fuel: the effects are stated for "some fuel"; `parseDocument`'s own fuel suffices by totality (`parseDocument_total`)
and monotonicity.

Not proved here: lists inside quotes; quotes, code blocks and tight lists inside list items (a tight list inside a loose
item is not `WF`); inline markup in items.
-/
import MdVerif.Model.Pipeline
import MdVerif.Spec.Doc
import MdVerif.Spec.DocList
import MdVerif.Lemmas.DocParseListDoc

namespace MdVerif.DocParse
open Py Block DocSpec Escape Inline

/-! ### the block stage -/

/-- **`get_items`.**  The lines of a tight list (each item: marker and escaped text, then the lines of its nested list
    indented by four spaces) are split into the item texts and, for an item with a nested list, one more entry holding
    the indented lines. -/
theorem C01_list_get_items (esc : List Char) (hE : EscOK esc) (o : Bool) (items : List LItem) (hne : items ≠ [])
    (h : ∀ it ∈ items, LItemShape esc o it) :
    getItems 4 (joinLines (listLines esc items)) = items.flatMap (LItem.entries esc) :=
  getItems_list hE items hne h

/-- **A list chunk is recognised as a list** of the right kind, in any state. -/
theorem C01_list_recognised (esc : List Char) (hE : EscOK esc) (o : Bool) (items : List LItem) (hne : items ≠ [])
    (h : ∀ it ∈ items, LItemShape esc o it) (pb : PB) (state : List BState) (refs : Refs) (parent : Node)
    (rest : List Str) :
    dispatch 4 pb state refs parent (joinLines (listLines esc items)) rest =
      listP 4 pb state refs parent (joinLines (listLines esc items)) rest (if o then "ol" else "ul") :=
  dispatch_list hE o items hne h pb state refs parent rest

/-- **A tight list nested to any depth**: its chunk appends the `ul`/`ol` element whose `li` children carry the item
    texts and the nested lists (`LItemOK`: the nested list of each item is itself such an effect). -/
theorem C01_list_effect (esc : List Char) (hE : EscOK esc) (o : Bool) (items : List LItem) (hne : items ≠ [])
    (h : ∀ it ∈ items, LItemOK esc o it) :
    EffX [joinLines (listLines esc items)] ((listTree o items).src esc) :=
  effX_list hE o items hne h

/-! ### loose lists in the block parser -/

/-- **Routing of an indented chunk.**  The parent is `X` (not an item) whose last child is the list `U`; below it a
    chain `C` of items and lists, each the last child of the one before, down to the open item `T`.  A chunk whose
    lines are indented by one level per list of the chain is parsed — without the indentation, in the state
    `detabbed` — into `T`, whose text is first moved into a `p` (`textToP`); the result replaces `T`. -/
theorem C01_loose_routing (X U : Node) (C : List (Node × Node)) (hC : FramesOK C) (hU : isListTag U = true)
    (hX : isItemTag X = false) (T : Node) (hT : isItemTag T = true) (st : List BState)
    (hl : isstate st .list = false) (hd : isstate st .detabbed = false)
    (d : Char) (l0 : Str) (gr : List Str) (hnl : ∀ l ∈ (d :: l0) :: gr, '\n' ∉ l) (hsp : d ≠ ' ')
    (pb : PB) (refs : Refs) (rest : List Str) :
    dispatch 4 pb st refs (plug ((X, U) :: C) T) (joinLines (ind (C.length + 1) ((d :: l0) :: gr))) rest =
      match parseChunk pb (st ++ [.detabbed]) refs (textToP T) (joinLines ((d :: l0) :: gr)) with
      | some (T', refs') => some (plug ((X, U) :: C) T', refs', rest)
      | none => none :=
  dispatch_routed X U C hC hU hX T hT st hl hd d l0 gr hnl hsp pb refs rest

/-- **A later item of a loose list.**  The parent `Q` ends with the list `Uq` whose last item is `cur`: the chunk
    `marker text` moves the text of `cur` into a `p` and appends the item `<li><p>text</p></li>`. -/
theorem C01_loose_next_item (esc : List Char) (hE : EscOK esc) (o : Bool) (m : Str) (hm : IsMarker o m) (t : Str)
    (ht : lineText t = true) (Q Uq cur : Node) (hUq : isListTag Uq = true)
    (htl : ∀ c, (textToP cur).last? = some c → Node.truthy c.tail = false)
    (st : List BState) (refs : Refs) (rest : List Str) (f : Nat) :
    dispatch 4 (parseBlocks 4 (f + 1)) st refs (Q.append (Uq.append cur)) (m ++ escAll esc t) rest =
      some (Q.append ((Uq.append (textToP cur)).append (liN false [pN esc t])), refs, rest) :=
  dispatch_next_item hE hm t ht Q Uq cur hUq htl st refs rest f

/-- **A loose list nested to any depth** (`OkB`: markers of one kind, item texts of words, further blocks that are
    one-chunk blocks with a known effect or loose lists, no two lists next to each other, two items or an item with
    two blocks): its chunks append the `ul`/`ol` element with all its items to a parent that is neither a list nor an
    item, in a state that is neither `list` nor `detabbed`. -/
theorem C01_loose_effect (esc : List Char) (hE : EscOK esc) (o : Bool) (items : List LL)
    (h : OkB esc (.l o items)) :
    EffN (((LL.l o items).groups esc 0).map joinLines) (((LL.l o items).tree false).src esc) :=
  effN_loose hE o items h

/-! ### the later stages on general element trees -/

/-- **Inline stage** on a `<div>` of element trees (`GT`): every text is processed where it sits — also the text of
    an element that has children —, the shape stays, the HTML stash is untouched. -/
theorem C01_tree_inline (cfg : Inline.Cfg) (hE : EscOK cfg.esc) (ts : List GT) (hok : GT.oks ts = true)
    (html : List Str) :
    ∃ st', st'.html = html ∧
      Inline.run cfg (divOf (ts.map (GT.src cfg.esc))) html = some (divOf (ts.map (GT.mid cfg.esc)), st') :=
  run_gt cfg hE ts hok html

/-- **Rendering** of such trees: start tag, the text (or a line feed when there is none but there are children), the
    children each followed by a line feed, end tag; `<hr />` for a rule. -/
theorem C01_tree_render (cfg : Pipeline.Cfg) (hE : EscOK cfg.esc) (hbl : cfg.blockLevel = TreeProc.defaultBlockLevel)
    (hfmt : cfg.fmt = .xhtml) (refs : List (Str × Str × Option Str)) (ts : List GT) (hne : ts ≠ [])
    (hok : GT.oks ts = true) :
    Probe.render cfg refs (divOf (ts.map (GT.src cfg.esc))) = .ok (join ['\n'] (GT.outs ts)) :=
  render_gt cfg hE hbl hfmt refs ts hne hok

/-! ### C01 on the sub-grammar -/

/-- **C01 for documents with lists.**  `d` well-formed and in `ListDoc`: under EVERY spelling the converter
    returns `spec d`. -/
theorem C01_list (d : Doc) (sp : Spelling) (hwf : WF d = true) (hq : ListDoc d = true) :
    Pipeline.convert {} (print d sp) = .ok (spec d) :=
  convert_list d sp hwf hq

/-- items of one plain paragraph each are tight items -/
theorem tightItems_paras (cs : List (List Inline)) (hp : ∀ c ∈ cs, plainRun c = true) :
    tightItems (cs.map (fun c => [.para c])) = true := by
  induction cs with
  | nil => rfl
  | cons c r ih =>
    rw [List.map_cons, tightItems_cons]
    simp [isPlainPara, hp c List.mem_cons_self, tightLists, ih (fun x hx => hp x (List.mem_cons_of_mem _ hx))]

/-- **Rung 1a.**  A single tight bullet list whose items are one paragraph of words and escapes each: every marker. -/
theorem C01_ulist_tight_flat (cs : List (List Inline)) (sp : Spelling)
    (hwf : WF [.ulist false (cs.map (fun c => [.para c]))] = true) (hp : ∀ c ∈ cs, plainRun c = true) :
    Pipeline.convert {} (print [.ulist false (cs.map (fun c => [.para c]))] sp) =
      .ok (spec [.ulist false (cs.map (fun c => [.para c]))]) := by
  apply C01_list _ _ hwf
  have := tightItems_paras cs hp
  simp [ListDoc, isListDocBlock, isTightList_ulist, this]

/-- **Rung 1b.**  The same for an ordered list, every numbering that `print` draws. -/
theorem C01_olist_tight_flat (cs : List (List Inline)) (sp : Spelling)
    (hwf : WF [.olist false (cs.map (fun c => [.para c]))] = true) (hp : ∀ c ∈ cs, plainRun c = true) :
    Pipeline.convert {} (print [.olist false (cs.map (fun c => [.para c]))] sp) =
      .ok (spec [.olist false (cs.map (fun c => [.para c]))]) := by
  apply C01_list _ _ hwf
  have := tightItems_paras cs hp
  simp [ListDoc, isListDocBlock, isTightList_olist, this]

/-- **Rung 2.**  A single tight list nested to any depth. -/
theorem C01_list_tight_nested (l : DocSpec.Block) (sp : Spelling) (hwf : WF [l] = true) (ht : isTightList l = true) :
    Pipeline.convert {} (print [l] sp) = .ok (spec [l]) :=
  C01_list [l] sp hwf (by simp [ListDoc, isListDocBlock, ht])

/-- **Rung 3.**  A single loose list nested to any depth. -/
theorem C01_list_loose (l : DocSpec.Block) (sp : Spelling) (hwf : WF [l] = true) (hl : isLooseList l = true) :
    Pipeline.convert {} (print [l] sp) = .ok (spec [l]) :=
  C01_list [l] sp hwf (by simp [ListDoc, isListDocBlock, hl])

/-- documents of flat blocks and quotes are in the sub-grammar: `C01_quote` is an instance -/
theorem C01_list_covers_quote (d : Doc) (h : QuoteDoc d = true) : ListDoc d = true := by
  induction d with
  | nil => rfl
  | cons b r ih =>
    rw [QuoteDoc, isQuoteBlocks_cons] at h
    simp only [Bool.and_eq_true] at h
    simp only [ListDoc, List.all_cons, Bool.and_eq_true, isListDocBlock, Bool.or_eq_true]
    exact ⟨Or.inl (Or.inl h.1), by simpa [ListDoc, isListDocBlock] using ih h.2⟩

/-! ### the hypotheses are satisfiable; instances evaluated by the kernel -/

/-- lists three deep, bullet and ordered mixed, beside a paragraph and a quote -/
def sampleList : Doc :=
  [.para [.text (S "intro")],
   .ulist false [[.para [.text (S "one "), .esc '*']],
                 [.para [.text (S "two")],
                  .olist false [[.para [.text (S "deep")], .ulist false [[.para [.esc '#', .text (S " deeper")]]]],
                                [.para [.text (S "deep 2")]]]],
                 [.para [.text (S "three")]]],
   .quote [.para [.text (S "q")]],
   .olist false [[.para [.text (S "x")]]]]

example : WF sampleList = true ∧ ListDoc sampleList = true := by decide

example : print sampleList ⟨[0, 1, 7, 2, 1, 0, 1, 3, 1]⟩ =
    ("intro\n\n+ one \\*\n+ two\n    1. deep\n        * \\# deeper\n    1. deep 2\n+ three\n\n> q\n\n0. x").toList := by
  decide +kernel

example : spec sampleList =
    ("<p>intro</p>\n<ul>\n<li>one *</li>\n<li>two<ol>\n<li>deep<ul>\n<li># deeper</li>\n</ul>\n</li>\n" ++
      "<li>deep 2</li>\n</ol>\n</li>\n<li>three</li>\n</ul>\n<blockquote>\n<p>q</p>\n</blockquote>\n<ol>\n" ++
      "<li>x</li>\n</ol>").toList := by decide +kernel

example : Pipeline.convert {} (print sampleList ⟨[0, 1, 7, 2, 1, 0, 1, 3, 1]⟩) = .ok (spec sampleList) :=
  C01_list _ _ (by decide) (by decide)

/-- the same instance evaluated by the kernel on the model, independently of the theorem -/
example : Pipeline.convert {} (print sampleList ⟨[0, 1, 7, 2, 1, 0, 1, 3, 1]⟩) = .ok (spec sampleList) := by
  decide +kernel

/-- loose lists three deep with headings, a rule and paragraphs in the items, beside a paragraph and a second list -/
def sampleLoose : Doc :=
  [.olist true [[.para [.text (S "one")],
                 .atx 2 [.text (S "head")],
                 .ulist true [[.para [.text (S "in "), .esc '_'], .rule],
                              [.para [.text (S "in 2")],
                               .olist true [[.para [.text (S "deep")]], [.para [.text (S "deep 2")]]],
                               .setext 1 [.text (S "title")]]],
                 .para [.text (S "after")]],
                [.para [.text (S "two")]]],
   .para [.text (S "end")],
   .ulist true [[.para [.text (S "x")]], [.para [.text (S "y")]]]]

example : WF sampleLoose = true ∧ ListDoc sampleLoose = true := by decide

example : print sampleLoose ⟨[3, 2, 1, 0, 1, 5, 6, 7, 8, 2, 1, 1, 0, 2, 3, 4, 5, 6]⟩ =
    ("3. one\n\n    ## head\n\n    + in \\_\n\n        -  -  -  -  - \n\n    + in 2\n\n        0. deep\n\n" ++
     "        2. deep 2\n\n        title\n        =======\n\n    after\n\n5. two\n\nend\n\n* x\n\n* y").toList := by
  decide +kernel

example : spec sampleLoose =
    ("<ol>\n<li>\n<p>one</p>\n<h2>head</h2>\n<ul>\n<li>\n<p>in _</p>\n<hr />\n</li>\n<li>\n<p>in 2</p>\n<ol>\n" ++
     "<li>\n<p>deep</p>\n</li>\n<li>\n<p>deep 2</p>\n</li>\n</ol>\n<h1>title</h1>\n</li>\n</ul>\n<p>after</p>\n</li>\n" ++
     "<li>\n<p>two</p>\n</li>\n</ol>\n<p>end</p>\n<ul>\n<li>\n<p>x</p>\n</li>\n<li>\n<p>y</p>\n</li>\n</ul>").toList := by
  decide +kernel

example : Pipeline.convert {} (print sampleLoose ⟨[3, 2, 1, 0, 1, 5, 6, 7, 8, 2, 1, 1, 0, 2, 3, 4, 5, 6]⟩) =
    .ok (spec sampleLoose) :=
  C01_list _ _ (by decide) (by decide)

/-- the same instance evaluated by the kernel on the model, independently of the theorem -/
example : Pipeline.convert {} (print sampleLoose ⟨[3, 2, 1, 0, 1, 5, 6, 7, 8, 2, 1, 1, 0, 2, 3, 4, 5, 6]⟩) =
    .ok (spec sampleLoose) := by
  decide +kernel

/-- a loose list with a single one-block item is not well-formed (it would print as a tight list) -/
example : WF [.ulist true [[.para [.text (S "a")]]]] = false := by decide

/-- a tight list inside a loose item is not well-formed -/
example : WF [.ulist true [[.para [.text (S "a")], .ulist false [[.para [.text (S "b")]]]],
    [.para [.text (S "c")]]]] = false := by decide

/-- two lists next to each other are not well-formed (the second would continue the first) -/
example : WF [.ulist false [[.para [.text (S "a")]]], .olist false [[.para [.text (S "b")]]]] = false := by decide

end MdVerif.DocParse
