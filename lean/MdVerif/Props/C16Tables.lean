/-
C16 (tables clause) — "every row has exactly the header's number of cells, pipes inside code spans or escaped do
not split cells, alignment comes from the delimiter row".

Only property statements live here.  The model of `markdown/extensions/tables.py` is
`MdVerif/Model/Ext/Tables.lean` (`split` = `_split`, `splitRow` = `_split_row`, `buildRow` = the cell texts of
`_build_row`, `alignOf` = the alignment loop of `run`, `tableTest` = `test`, `tableRun` = `run`); the vocabulary of
the statements (`Plain`, `EscCell`, `CodeBody`, `ticks`, `escBackslashes`, `dashes`, `spaces`, `joinPipe`) is
`MdVerif/Spec/Tables.lean`;
helper lemmas are in `MdVerif/Lemmas/Tables.lean`.  Model and code are compared by `harness/corr/tables.py`.

What is proved, for inputs of any length:
* rows: `_build_row` makes exactly as many cells as there are columns (short rows padded with empty cells, long rows
  cut), and in a block accepted by `test` that number is the number of cells of the header row;
* splitting: in a row whose cells hold plain characters, escaped pipes `\|` and escaped backslashes `\\`, the row
  splits exactly at the unescaped pipes, with or without border pipes, and the escaped backslashes that end the last
  cell of a bordered row stay in that cell (F-C16-1, repaired in the code by commit cfd4612: `RE_END_BORDER` now
  captures the run of backslashes before the closing pipe and `_split_row` puts it back; before the repair
  `|a|b\\|` lost the `\\` of its last cell); the pipes inside one code span (`n` ticks … `n` ticks, no tick or
  backslash inside) do not split;
* alignment: `:--` left, `--:` right, `:-:` center, `---` none, for every number of dashes ≥ 1 and any padding.

What is *not* claimed (and false for the code, see the examples at the end): that the separator row needs a dash.
-/
import MdVerif.Model.Ext.Tables
import MdVerif.Spec.Tables
import MdVerif.Lemmas.Tables

namespace MdVerif.Tables
open MdVerif MdVerif.Py

/-! ### every row has the header's number of cells -/

/-- **C16 (row width).** For an alignment list of `n` columns `_build_row` creates exactly `n` cells, whatever
    the row is. -/
theorem C16_row_width (n : Nat) (row : Str) (border : Nat) : (buildRow n row border).length = n :=
  buildRow_length n row border

/-- the `i`-th of these cells is the `i`-th piece of the split row, stripped of spaces, or empty when the row
    is short; pieces beyond column `n` are dropped -/
theorem C16_row_cells (n : Nat) (row : Str) (border : Nat) (i : Nat) (h : i < n) :
    (buildRow n row border)[i]? =
      some (match (splitRow border row)[i]? with
            | some c => stripC ' ' c
            | none => []) :=
  buildRow_getElem n row border i h

example : (2 : Nat) < 3 := by decide
example : buildRow 3 "a | b".toList 0 = ["a".toList, "b".toList, []] := by decide
example : buildRow 1 "a | b".toList 0 = ["a".toList] := by decide

/-- **C16 (table width).** When `test` accepts a block (leaving `border` and `sep` on the processor), the table
    `run` builds has one alignment per header cell, and the header row and every body row have exactly the
    number of cells of the split header line. -/
theorem C16_table_width {block : Str} {border : Nat} {sep : List Str}
    (h : tableTest block = some (border, sep)) :
    let t := tableRun border sep block
    let w := (splitRow border (stripC ' ' ((splitC '\n' block).headD []))).length
    t.align.length = w ∧ t.head.length = w ∧ ∀ r ∈ t.body, r.length = w := by
  have hw := tableTest_some h
  have := tableRun_widths border sep block
  simp only [hw] at this
  exact this

example : tableTest "|a|b|\n|-|:-|\n|1|2|3|\n|4|".toList = some (3, ["-".toList, ":-".toList]) := by decide
example : tableRun 3 ["-".toList, ":-".toList] "|a|b|\n|-|:-|\n|1|2|3|\n|4|".toList =
    { align := [none, some .left], head := ["a".toList, "b".toList],
      body := [[some "1".toList, some "2".toList], [some "4".toList, some []]] } := by decide

/-! ### pipes split, escaped pipes do not -/

/-- plain text is a special case of "plain characters and escaped pipes" -/
theorem C16_plain_is_escCell {s : Str} (h : Plain s) : EscCell s := EscCell.of_plain h

/-- `escCellB` decides `EscCell` (used by the examples) -/
theorem C16_escCellB_sound (s : Str) (h : escCellB s = true) : EscCell s := escCellB_sound s h

/-- **C16 (no pipe).** A row without pipe, backtick and backslash is one cell: itself. -/
theorem C16_no_pipe_plain (row : Str) (h : Plain row) : split row = [row] := by
  have := split_join [row] (by simp) (by intro c hc; simp at hc; subst hc; exact EscCell.of_plain h)
  simpa [joinPipe, join] using this

example : Plain "one cell, no pipe".toList := by decide

/-- **C16 (pipes split).** Cells without pipe, backtick and backslash, joined by pipes: the row splits exactly
    into these cells. -/
theorem C16_split_plain (cs : List Str) (hne : cs ≠ []) (h : ∀ c ∈ cs, Plain c) : split (joinPipe cs) = cs :=
  split_join cs hne (fun c hc => EscCell.of_plain (h c hc))

example : ["a".toList, [], " b c ".toList] ≠ [] := by decide
example : ∀ c ∈ ["a".toList, [], " b c ".toList], Plain c := by decide
example : joinPipe ["a".toList, [], " b c ".toList] = "a|| b c ".toList := by decide

/-- **C16 (escaped pipes).** Cells made of plain characters, escaped pipes `\|` and escaped backslashes `\\`, joined
    by pipes: the row splits exactly into these cells — an escaped pipe never splits, every other pipe does (also
    the one after an escaped backslash). -/
theorem C16_escaped_pipe (cs : List Str) (hne : cs ≠ []) (h : ∀ c ∈ cs, EscCell c) :
    split (joinPipe cs) = cs :=
  split_join cs hne h

example : EscCell "a\\|b \\|".toList := escCellB_sound _ (by decide +kernel)
example : ∀ c ∈ ["a\\|b \\|".toList, "\\|".toList, "c".toList], EscCell c := by
  intro c hc; apply escCellB_sound; revert c; decide +kernel
example : split "a\\|b \\||\\||c".toList = ["a\\|b \\|".toList, "\\|".toList, "c".toList] := by decide
example : EscCell "a\\\\\\|b\\\\".toList := escCellB_sound _ (by decide +kernel)

/-- the same with border pipes, as `_split_row` sees a row `|c1|…|cn|` once the header had a border -/
theorem C16_bordered_row (cs : List Str) (hne : cs ≠ []) (h : ∀ c ∈ cs, EscCell c) (border : Nat)
    (hb : border ≠ 0) : splitRow border ('|' :: (joinPipe cs ++ ['|'])) = cs :=
  splitRow_bordered cs hne h border hb

example : (3 : Nat) ≠ 0 := by decide
example : splitRow 3 "|a\\|b|c|".toList = ["a\\|b".toList, "c".toList] := by decide

/-- **C16 (the closing border keeps escaped backslashes).** A bordered row whose last cell ends with `k` escaped
    backslashes: `_split_row` yields the cells, the last one *with* its `k` escaped backslashes — only the border
    pipe is removed.  (False before the repair of F-C16-1: the run of backslashes was deleted with the pipe.) -/
theorem C16_end_border_keeps_backslashes (cs : List Str) (last : Str) (k : Nat) (border : Nat)
    (h : ∀ c ∈ cs, EscCell c) (hl : EscCell last) (hb : border ≠ 0) :
    splitRow border ('|' :: (joinPipe (cs ++ [last ++ escBackslashes k]) ++ ['|'])) =
      cs ++ [last ++ escBackslashes k] :=
  splitRow_bordered _ (by simp) (by
    intro c hc
    rcases List.mem_append.1 hc with hc | hc
    · exact h c hc
    · simp only [List.mem_singleton] at hc
      subst hc; exact hl.append (EscCell.escBackslashes k)) border hb

example : ∀ c ∈ ["a".toList, "x\\|y".toList], EscCell c := by
  intro c hc; apply escCellB_sound; revert c; decide +kernel
example : EscCell "b".toList := escCellB_sound _ (by decide +kernel)
example : joinPipe (["a".toList] ++ ["b".toList ++ escBackslashes 2]) = "a|b\\\\\\\\".toList := by decide

/-! ### pipes inside a code span do not split -/

/-- **C16 (code span).** A cell `pre ++ n ticks ++ body ++ n ticks ++ post` (`n ≥ 1`) whose `body` has no backtick
    and no backslash but any number of pipes, `pre` and `post` made of plain characters, escaped pipes and escaped
    backslashes, between two such cells `a` and `b`: the row splits into exactly `a`, the cell, `b` — no pipe of `body` splits. -/
theorem C16_code_pipe (a pre body post b : Str) (n : Nat) (hn : 1 ≤ n)
    (ha : EscCell a) (hpre : EscCell pre) (hbody : CodeBody body) (hpost : EscCell post) (hb : EscCell b) :
    split (a ++ ['|'] ++ (pre ++ ticks n ++ body ++ ticks n ++ post) ++ ['|'] ++ b) =
      [a, pre ++ ticks n ++ body ++ ticks n ++ post, b] := by
  obtain ⟨m, rfl⟩ : ∃ m, n = m + 1 := ⟨n - 1, by omega⟩
  have := split_codeRow m ha hpre hpost hb hbody
  simpa [codeRow, List.append_assoc] using this

example : (1 : Nat) ≤ 2 := by decide
example : CodeBody "x | y || z".toList := by decide
example : EscCell "see ".toList := escCellB_sound _ (by decide +kernel)
example : split "a|see ``x | y || z`` \\|!|b".toList = ["a".toList, "see ``x | y || z`` \\|!".toList, "b".toList] := by
  decide

/-! ### alignment comes from the delimiter row -/

/-- **C16 (alignment).** The alignment `run` gives a column, from its cell of the separator row (surrounded by any
    number of spaces): `:--…` left, `--…:` right, `:--…:` center (any number of dashes, none included),
    `--…` none; in the first, second and fourth form for every number of dashes ≥ 1.  (`test` only requires the
    separator cells to consist of `|`, `:`, `-` and spaces; `:` alone is centered, not left or right.) -/
theorem C16_align (i j k : Nat) (hk : 1 ≤ k) :
    alignOf (spaces i ++ ([':'] ++ dashes k) ++ spaces j) = some .left ∧
    alignOf (spaces i ++ (dashes k ++ [':']) ++ spaces j) = some .right ∧
    alignOf (spaces i ++ ([':'] ++ dashes k ++ [':']) ++ spaces j) = some .center ∧
    alignOf (spaces i ++ dashes k ++ spaces j) = none := by
  obtain ⟨m, rfl⟩ : ∃ m, k = m + 1 := ⟨k - 1, by omega⟩
  refine ⟨?_, alignOf_right i j m, ?_, alignOf_none i j m⟩
  · simpa using alignOf_left i j m
  · simpa using alignOf_center i j (m + 1)

/-- centered also without any dash: `::`, and a single `:` -/
theorem C16_align_center0 (i j : Nat) :
    alignOf (spaces i ++ [':', ':'] ++ spaces j) = some .center ∧ alignOf [':'] = some .center := by
  refine ⟨?_, by decide⟩
  simpa [dashes] using alignOf_center i j 0

/-- every column of the table takes its alignment from its separator cell -/
theorem C16_align_columns (border : Nat) (sep : List Str) (block : Str) :
    (tableRun border sep block).align = sep.map alignOf := rfl

example : (1 : Nat) ≤ 3 := by decide
example : alignOf " :--- ".toList = some .left ∧ alignOf "---:".toList = some .right ∧
    alignOf ":-:".toList = some .center ∧ alignOf "-".toList = none := by decide

/-! ### boundaries of the statements (behaviour of the unchanged code) -/

/-- an escaped backslash does not escape the pipe after it: the row splits there -/
example : split "a\\\\|b".toList = ["a\\\\".toList, "b".toList] := by decide

/-- tick runs of different lengths do not make a code span: the pipe splits -/
example : split "a|x`p|q``y|b".toList = ["a".toList, "x`p".toList, "q``y".toList, "b".toList] := by decide

/-- an escaped tick run `\`` followed by ticks opens a code span with one tick less (the escaped one is text) -/
example : split "a|x\\``p|q`y|b".toList = ["a".toList, "x\\``p|q`y".toList, "b".toList] := by decide

/-- F-C16-1 (repaired): with a border, the escaped backslash `\\` that ends the last cell stays in the cell; only
    the closing border pipe is removed.  (Before the repair the value was `["a", "b"]`.) -/
example : splitRow 3 "|a|b\\\\|".toList = ["a".toList, "b\\\\".toList] := by decide

/-- an odd run of backslashes before the last pipe escapes it: no closing border, the pipe stays in the cell -/
example : splitRow 3 "|a|b\\|".toList = ["a".toList, "b\\|".toList] := by decide

/-- the separator row needs no dash: `a|b` over a lone `|` is accepted as a table -/
example : tableTest "a|b\n|".toList = some (0, [[], []]) := by decide

end MdVerif.Tables
