/-
C16, documented-rendering clause — "each bundled extension renders its documented syntax as documented".  This
file: **fenced code blocks**, end to end on the extension pipeline model (`Model/PipelineX.lean`, `convertX` with
`fencedCode := true`, every other extension off, both output formats).

`Spec/FenceDoc.lean` says how a block is written (`printFence n ch lang b`: `n` backticks or tildes, the language
name, the body lines, the same fence) and which HTML it stands for (`specFence lang b`:
`<pre><code class="language-lang">` + the body with its final newline, `&` `<` `>` `"` escaped, + `</code></pre>`;
without a language no `class`).  Helper lemmas: `Lemmas/FenceRender.lean` (the recogniser on an opening line with a
language, the preprocessors, the placeholder paragraph through block parser, inline processor — settled, via
`TableRender2` —, prettify, serializer, and the raw-HTML postprocessor that puts the stored block back in place of
`<p>placeholder</p>`).  Core Lean only.

Well-formedness (`FenceOK`, decidable): the fence character is a backtick or a tilde, at least three of them; the
language name is over `[\w#.+-]` and does not start with `.`; no line of the body closes the fence; the body has no
`<` (raw HTML is outside the model), no STX, ETX, tab or carriage return (rewritten by the first preprocessor) and
no line made of spaces only (emptied by the first preprocessor).  The body may contain anything else: `&`, quotes,
Markdown syntax, fences of the other kind or shorter fences — all literal.  Kernel-checked examples of the
boundaries at the end (same on the implementation).
-/
import MdVerif.Spec.FenceDoc
import MdVerif.Lemmas.FenceRender

namespace MdVerif.FenceDoc
open Py Fenced

/-! ### examples of the vocabulary -/

example : printFence 3 '`' "py".toList "x > 1\n\ny & \"z\"".toList = "```py\nx > 1\n\ny & \"z\"\n```".toList := by decide
example : printFence 4 '~' [] "```\n*a*".toList = "~~~~\n```\n*a*\n~~~~".toList := by decide
example : specFence "py".toList "x > 1\n\ny & \"z\"".toList =
    "<pre><code class=\"language-py\">x &gt; 1\n\ny &amp; &quot;z&quot;\n</code></pre>".toList := by decide
example : specFence [] "```\n*a*".toList = "<pre><code>```\n*a*\n</code></pre>".toList := by decide
example : FenceOK 3 '`' "py".toList "x > 1\n\ny & \"z\"".toList = true := by decide
example : FenceOK 4 '~' "c++".toList "```\n*a*".toList = true := by decide
example : LangOK "c++".toList = true := by decide
example : LangOK ".py".toList = false := by decide
/-- a line that closes the fence inside the body -/
example : FenceOK 3 '`' [] "a\n```\nb".toList = false := by decide
/-- a line of spaces inside the body -/
example : FenceOK 3 '`' [] "a\n  \nb".toList = false := by decide
example : lineOK [] = true := by decide
example : lineOK "  ".toList = false := by decide

/-! ### the steps -/

/-- **`FencedBlockPreprocessor.run`** on the normalised document of one block: the block is replaced by the
    placeholder of stash entry 0, which holds the HTML -/
theorem C16_fence_stashed (n : Nat) (ch : Char) (lang b : Str) (h : FenceOK n ch lang b = true) :
    fencedRunA (printFence n ch lang b ++ ['\n', '\n']) =
      .ok ('\n' :: (placeholder 0 ++ ['\n', '\n', '\n'])) [specFence lang b] := by
  obtain ⟨hch, hn, hl, hb, _, _⟩ := fenceOK_facts h
  rw [fencedRunA_block n ch lang b hch hn hl hb, blockHtml_spec (langOK_facts hl).1]

/-- the stored HTML has no markup character left from the body: between `<pre><code…>` and `</code></pre>` there is
    no `<`, `>` or `"` -/
theorem C16_fence_body_escaped (s : Str) : ∀ c ∈ Code.fenceEscape1 s, c ≠ '<' ∧ c ≠ '>' ∧ c ≠ '"' :=
  Code.mem_fenceEscape1 s

/-- a body without `&`, `<`, `>`, `"` is copied -/
theorem C16_fence_body_plain (s : Str) (h : ∀ c ∈ s, c ≠ '&' ∧ c ≠ '<' ∧ c ≠ '>' ∧ c ≠ '"') :
    Code.fenceEscape1 s = s := by
  induction s with
  | nil => rfl
  | cons c r ih =>
    obtain ⟨h1, h2, h3, h4⟩ := h c List.mem_cons_self
    simp [Code.fenceEscape1, Code.fesc1Char, h1, h2, h3, h4, ih (fun d hd => h d (List.mem_cons_of_mem _ hd))]

/-! ### end to end -/

/-- **C16, fenced code blocks render as documented.**  For every well-formed block
    `Markdown(extensions=['fenced_code']).convert` returns exactly the documented HTML — in both output formats
    (`cfg.fmt` is arbitrary), for every tab length `> 0`, for backtick and tilde fences of any length `≥ 3`, with or
    without a language. -/
theorem C16_fence_renders (cfg : Pipeline.Cfg) (hbl : cfg.blockLevel = TreeProc.defaultBlockLevel)
    (htab : 0 < cfg.tab) (n : Nat) (ch : Char) (lang b : Str) (h : FenceOK n ch lang b = true) :
    PipelineX.convertX { fencedCode := true } cfg (printFence n ch lang b) = .ok (specFence lang b) :=
  convertX_fence cfg hbl htab h

/-- concrete instances, evaluated by the kernel on the model (same on the implementation) -/
example : PipelineX.convertX { fencedCode := true } {} "```py\nx > 1\n\ny & \"z\"\n```".toList =
    .ok "<pre><code class=\"language-py\">x &gt; 1\n\ny &amp; &quot;z&quot;\n</code></pre>".toList := by decide +kernel
example : PipelineX.convertX { fencedCode := true } { fmt := .html } "~~~~c++\n```\n*a*\n~~~~".toList =
    .ok "<pre><code class=\"language-c++\">```\n*a*\n</code></pre>".toList := by decide +kernel

/-! ### boundaries of the statement (behaviour of the code) -/

/-- a line of spaces in the body is emptied (by the first preprocessor, before the block is recognised) -/
example : PipelineX.convertX { fencedCode := true } {} "```\na\n  \nb\n```".toList =
    .ok "<pre><code>a\n\nb\n</code></pre>".toList := by decide +kernel

/-- a leading `.` is not part of the language name -/
example : PipelineX.convertX { fencedCode := true } {} "```.py\nx\n```".toList =
    .ok "<pre><code class=\"language-py\">x\n</code></pre>".toList := by decide +kernel

/-- the first line that closes the fence ends the block -/
example : PipelineX.convertX { fencedCode := true } {} "```\na\n```\nb\n```".toList =
    .ok "<pre><code>a\n</code></pre>\n<p>b\n```</p>".toList := by decide +kernel

/-- a block with no body line at all (not of the form `printFence`: its body would be the empty line) -/
example : PipelineX.convertX { fencedCode := true } {} "```\n```".toList = .ok "<pre><code></code></pre>".toList := by
  decide +kernel

end MdVerif.FenceDoc
