/-
C05, ampersand half — the entity references of the source are put back without breaking the output.

C05: "When the input contains no `<` character, the output is a well-formed XHTML fragment built only from Markdown's
element vocabulary … every `>` and bare `&` coming from the text is escaped …".

`Props/C05.lean` shows that the string `Markdown.convert` hands to the postprocessors is always a well-formed
fragment of the vocabulary (`C05_before_post`).  For text with `&` the inline entity pattern has replaced every
entity reference of the source (`&amp;`, `&#38;`, `&nbsp;` …) by a placeholder `STX wzxhzdk:N ETX` and stored the
reference in the raw-HTML stash; `RawHtmlPostprocessor` puts it back *after* serialisation, unescaped.  Here:

1. `C05_html_stash_entities` — every stash entry is one entity reference that the serializer's `RE_AMP` accepts
   (`entRef`, `Spec/VocabInline.lean`); for `<`-free text the entity pattern is the only producer.
2. `C05_restore_one_pass`, `C05_restore_strict`, `C05_post_preserves_readable` — on such a stash the restore is a
   single substitution pass, it keeps strictly readable text strictly readable (in character data *and* in attribute
   values: a placeholder can sit in an `href`/`title`, see `ampSrc`), and applied to the serialisation of a vocabulary
   tree it yields the serialisation of a vocabulary tree (same elements, attribute names and nesting).
3. `C05_no_amp_created` — the restore creates no ampersand substitute `STX amp ETX`.  That the serialisation itself
   contains none is NOT derived from the source: it needs the provenance of every `STX` in every text and attribute
   value, which fails to be an invariant in the presence of the placeholder leaks F-C10-1/2 (a leaked inline
   placeholder is an `STX` of the output); it stays the explicit, decidable hypothesis of `C05_partial2`, and
   `C05_upto_ampsub` says what holds without it.
4. `C05_upto_ampsub` (no hypothesis beyond `'<' ∉ src`), `C05_partial2` (one residual hypothesis).

Only property statements live here; proofs in `MdVerif/Lemmas/StashEntities.lean`.
-/
import MdVerif.Lemmas.StashEntities

namespace MdVerif.C05
open Py Vocab2 Ser

/-! ### 1. the raw-HTML stash holds entity references -/

/-- **every pattern leaves the HTML stash alone or appends one entity reference** (pattern 12; autolink, automail and
    inline html — the other users of the stash — need a `<`). -/
theorem C05_pattern_html_stash (cfg : Inline.Cfg) (pi : Nat) (data : Str) (si : Nat) (st st' : Inline.St)
    (fo : Option Inline.Found) (h : Inline.findMatch cfg pi data si st = some (fo, st')) :
    st'.html = st.html ∨ ∃ raw, st'.html = st.html ++ [raw] ∧ entRef raw = true :=
  findMatch_html cfg pi data si st st' fo h

/-- **the HTML stash after the inline stage** (started with an empty stash, as `Markdown.convert` does for text
    without `<`) consists of single entity references `&…;` accepted by `Ser.entLen`, for every tree. -/
theorem C05_inline_html_stash (cfg : Inline.Cfg) (root t : Node) (st : Inline.St)
    (h : Inline.run cfg root [] = some (t, st)) : ∀ e ∈ st.html, entRef e = true :=
  run_ent cfg root t st h

/-- the same for the whole pipeline, every configuration and source -/
theorem C05_html_stash_entities (cfg : Pipeline.Cfg) (src : Str) (u : Node) (html : List Str)
    (h : Pipeline.tree cfg src = some (some (u, html))) : ∀ e ∈ html, entRef e = true :=
  tree_ent cfg src u html h

/-- an entity reference has the shape the restore lemmas of C10 ask for (`&…;` without STX) -/
theorem C05_entRef_entityLike (e : Str) (h : entRef e = true) : NoCtl.entityLike e = true := entRef_entityLike h

/-! ### 2. the restore keeps the output readable -/

/-- **one pass.**  On a stash of entity references `RawHtmlPostprocessor.run` is a single substitution pass (the
    second pass finds nothing), for every text — in particular it terminates within the model's fuel. -/
theorem C05_restore_one_pass (bl stash : List Str) (he : ∀ e ∈ stash, entRef e = true) (text : Str) :
    Post.rawHtml bl stash (Post.rawHtmlFuel stash) text = some (Post.subPass bl stash 0 text) :=
  rawHtml_eq bl he text

/-- **strict readability is kept**, at string level and in both positions: if the strict reader accepts `Y` as
    character data (`m = cdata`) or as an attribute value (`m = attr`: no raw `"` either), it accepts `Y` after the
    restore — an entity reference is a legal token, and it neither ends an attribute nor starts a tag. -/
theorem C05_restore_strict (bl stash : List Str) (he : ∀ e ∈ stash, entRef e = true) (m : Mode) (Y : Str)
    (h : (strict m 0 Y).isSome = true) : (strict m 0 (Post.subPass bl stash 0 Y)).isSome = true :=
  strict_sub bl he m Y.length Y (Nat.le_refl _) h

/-- **the restore commutes with the serializer**: the pass over the serialisation of a vocabulary element is the
    serialisation of a vocabulary element — the same tags, attribute names and nesting; only texts, tails and
    attribute values change (`subTree`: each becomes the restored escaped string, which escaping leaves alone). -/
theorem C05_restore_commutes (bl stash : List Str) (he : ∀ e ∈ stash, entRef e = true) (fmt : Fmt) (n : Node)
    (h : Good n = true) :
    ∃ n', Good n' = true ∧ Post.subPass bl stash 0 (serialize fmt n) = serialize fmt n' := by
  refine ⟨subTree (subC bl stash) (subA bl stash) n, subTree_good _ _ n h, ?_⟩
  have := sub_serialize bl he fmt n h [] delimStart_nil
  simpa [sub_nil] using this

/-- **postprocessing preserves readability.**  For a document tree `u` and a stash of entity references:
    `RawHtmlPostprocessor` applied to what `convert` cut out of the serialisation yields a string accepted by the
    strict reader, made of text and vocabulary elements only. -/
theorem C05_post_preserves_readable (bl stash : List Str) (he : ∀ e ∈ stash, entRef e = true) (fmt : Fmt) (u : Node)
    (hd : DocOk u = true) :
    ∃ t t' forest, Post.topLevelStrip (serialize fmt u) = some t ∧
      Post.rawHtml bl stash (Post.rawHtmlFuel stash) t = some t' ∧
      readForest fmt t' = some forest ∧ RGoodList forest = true := by
  obtain ⟨e1, hd1⟩ := strip_inner fmt u hd
  obtain ⟨e2, hd2⟩ := sub_inner bl he fmt _ hd1
  refine ⟨_, _, _, topLevelStrip_doc fmt u hd, rawHtml_eq bl he _, ?_, (inner_reads fmt _ hd2).2⟩
  rw [e1, e2]
  exact (inner_reads fmt _ hd2).1

/-! ### 3. the ampersand substitute -/

/-- **the restore creates no ampersand substitute**: if `STX amp ETX` does not occur in a text, it does not occur
    after the restore (entity references contain no STX, and a dead placeholder continues with `w`). -/
theorem C05_no_amp_created (bl stash : List Str) (he : ∀ e ∈ stash, entRef e = true) (X : Str)
    (h : contains X Post.ampSubstitute = false) :
    contains (Post.subPass bl stash 0 X) Post.ampSubstitute = false :=
  sub_no_amp bl he X.length X (Nat.le_refl _) h

/-! ### 4. the output of `convert` -/

/-- **C05 up to the ampersand substitute** — no hypothesis besides `'<' ∉ src`, every configuration: whatever
    `Markdown.convert` returns is `AndSubstitutePostprocessor` followed by `.strip()` applied to a string `X` that the
    strict reader accepts and that consists of text and vocabulary elements with `href`/`title`/`src`/`alt`
    attributes only.  (`AndSubstitutePostprocessor` replaces `STX amp ETX` by a raw `&`; core Markdown writes that
    token only for `<`-mail autolinks.) -/
theorem C05_upto_ampsub (cfg : Pipeline.Cfg) (src out : Str) (hlt : '<' ∉ src)
    (hc : Pipeline.convert cfg src = .ok out) :
    ∃ X forest, out = strip (Post.ampSub X) ∧ readForest cfg.fmt X = some forest ∧ RGoodList forest = true :=
  convert_shape cfg src out (by simpa using hlt) hc

/-- **C05, with one residual hypothesis.**  For every configuration and every source text without `<` — with or
    without `&`, entity references, bare ampersands — such that the serialised document tree does not contain the
    ampersand substitute `STX amp ETX` (`hamp`, decidable by evaluation; never violated in 30 000 random documents):
    the output of `Markdown.convert` is accepted by the strict reader — every element closed and properly nested,
    every attribute value quoted, no raw `<`/`>` in text, no raw `"` in an attribute value, every `&` the start of an
    entity reference — and consists of text and vocabulary elements with `href`/`title`/`src`/`alt` attributes only. -/
theorem C05_partial2 (cfg : Pipeline.Cfg) (src out : Str) (hlt : '<' ∉ src)
    (hamp : ∀ u html, Pipeline.tree cfg src = some (some (u, html)) →
      contains (inner cfg.fmt u) Post.ampSubstitute = false)
    (hc : Pipeline.convert cfg src = .ok out) :
    ∃ forest, readForest cfg.fmt out = some forest ∧ RGoodList forest = true :=
  convert_reads cfg src out (by simpa using hlt) hamp hc

/-! ### non-vacuity -/

/-- entity references (named, numeric, unknown name), bare ampersands (in text and in a destination), an entity in a
    code span, a paragraph that is one entity, and a link inside the text of a link whose destination and title are
    entities: these two reach the attribute values as placeholders -/
def ampSrc : Str := "a &amp; b & c &#38; [*[x](&lt; \"&gt;\")*](u&v) `&amp;`\n\n&nbsp;".toList

def ampTree : Node × List Str := ((Pipeline.tree {} ampSrc).getD none).getD (Node.el "none", [])

example : '<' ∉ ampSrc := by decide

/-- the stash, the placeholders in character data and in attribute values, the hypothesis `hamp`, the result -/
example : ampTree.2 = ["&lt;", "&gt;", "&amp;", "&#38;", "&nbsp;"].map String.toList ∧
    inner .xhtml ampTree.1 =
      ("\n<p>a \x02wzxhzdk:2\x03 b &amp; c \x02wzxhzdk:3\x03 <a href=\"u&amp;v\"><em><a href=\"\x02wzxhzdk:0\x03\" " ++
       "title=\"\x02wzxhzdk:1\x03\">x</a></em></a> <code>&amp;amp;</code></p>\n<p>\x02wzxhzdk:4\x03</p>\n").toList ∧
    contains (inner .xhtml ampTree.1) Post.ampSubstitute = false ∧
    Pipeline.convert {} ampSrc = .ok
      ("<p>a &amp; b &amp; c &#38; <a href=\"u&amp;v\"><em><a href=\"&lt;\" title=\"&gt;\">x</a></em></a> " ++
       "<code>&amp;amp;</code></p>\n<p>&nbsp;</p>").toList := by decide +kernel

example : ∀ e ∈ ["&lt;", "&gt;", "&amp;", "&#38;", "&#x1F;", "&nbsp;"].map String.toList, entRef e = true := by decide

/-- `entRef` is not trivially true -/
example : entRef "&amp".toList = false ∧ entRef "&amp;x".toList = false ∧ entRef "amp;".toList = false ∧
    entRef "&a b;".toList = false ∧ entRef "&;".toList = false ∧ entRef "&lt;&gt;".toList = false := by decide

/-- the hypothesis of `C05_restore_strict` and its conclusion on a text with a bare placeholder; and why the entries
    must be entity references: a stashed `<b>` is restored verbatim into character data -/
example : (strict cdata 0 ("x \x02wzxhzdk:0\x03 &amp;".toList)).isSome = true ∧
    Post.subPass [] ["&nbsp;".toList] 0 "x \x02wzxhzdk:0\x03 &amp;".toList = "x &nbsp; &amp;".toList ∧
    (strict cdata 0 (Post.subPass [] ["<b>".toList] 0 "x \x02wzxhzdk:0\x03".toList)).isSome = false := by decide

/-- `hamp` is needed as far as the model goes: `AndSubstitutePostprocessor` turns the token into a raw `&` -/
example : Post.ampSub "a \x02amp\x03 b".toList = "a & b".toList ∧
    (readForest .xhtml "a & b".toList).isNone = true := by decide

end MdVerif.C05
