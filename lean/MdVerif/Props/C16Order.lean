/-
C16 — order facts about the registries when bundled extensions are loaded.

The documented behaviour of several extensions rests on WHERE their processors stand in the registry order relative
to the core ones (a footnote reference `[^1]` must be recognised before the core reference-link pattern sees the
brackets; a fenced block must be taken out before raw-HTML extraction; a table must be tried before the hash-header
and paragraph processors; …).  The orders below are computed, with the registry model of C13, from the registration
table that the translator regenerates from the source on every run (`Generated.registrations`), and decided by the
kernel: a changed priority that flips one of these relations breaks this file.
-/
import MdVerif.Model.Dispatch

namespace MdVerif.Dispatch

/-- footnotes: the reference pattern runs after code spans and escapes but before every core link/reference pattern;
    the definition processor runs before the core reference-definition and paragraph processors; the footnote tree
    processor runs before the inline tree processor, the duplicate-handling one after it; its postprocessor runs after
    raw HTML is restored -/
theorem C16_order_footnotes :
    before (order ["core", "footnotes"] "inlinePatterns") "escape" "footnote" = true ∧
    before (order ["core", "footnotes"] "inlinePatterns") "footnote" "reference" = true ∧
    before (order ["core", "footnotes"] "inlinePatterns") "footnote" "link" = true ∧
    before (order ["core", "footnotes"] "inlinePatterns") "footnote" "short_reference" = true ∧
    before (order ["core", "footnotes"] "blockprocessors") "footnote" "reference" = true ∧
    before (order ["core", "footnotes"] "blockprocessors") "quote" "footnote" = true ∧
    before (order ["core", "footnotes"] "treeprocessors") "footnote" "inline" = true ∧
    before (order ["core", "footnotes"] "treeprocessors") "inline" "footnote-duplicate" = true ∧
    before (order ["core", "footnotes"] "postprocessors") "raw_html" "footnote" = true ∧
    before (order ["core", "footnotes"] "postprocessors") "footnote" "amp_substitute" = true := by decide

/-- fenced_code: the fence preprocessor runs after whitespace normalisation and before raw-HTML extraction;
    meta runs after normalisation and before both -/
theorem C16_order_preprocessors :
    order ["core", "fenced_code"] "preprocessors" = ["normalize_whitespace", "fenced_code_block", "html_block"] ∧
    before (order ["core", "fenced_code", "meta"] "preprocessors") "normalize_whitespace" "meta" = true ∧
    before (order ["core", "fenced_code", "meta"] "preprocessors") "meta" "fenced_code_block" = true := by decide

/-- block-level extensions: admonition before everything (even the empty-block processor), tables before the
    hash-header processor, definition lists after lists and before quote…paragraph, abbreviations after the footnote
    and before the reference processor, `defindent` between `indent` and `code` -/
theorem C16_order_blocks :
    (order ["core", "admonition"] "blockprocessors").head? = some "admonition" ∧
    before (order ["core", "tables"] "blockprocessors") "code" "table" = true ∧
    before (order ["core", "tables"] "blockprocessors") "table" "hashheader" = true ∧
    before (order ["core", "def_list"] "blockprocessors") "indent" "defindent" = true ∧
    before (order ["core", "def_list"] "blockprocessors") "defindent" "code" = true ∧
    before (order ["core", "def_list"] "blockprocessors") "ulist" "deflist" = true ∧
    before (order ["core", "def_list"] "blockprocessors") "deflist" "quote" = true ∧
    before (order ["core", "abbr", "footnotes"] "blockprocessors") "footnote" "abbr" = true ∧
    before (order ["core", "abbr", "footnotes"] "blockprocessors") "abbr" "reference" = true ∧
    (order ["core", "abbr", "footnotes", "tables", "def_list", "admonition"] "blockprocessors").getLast? = some "paragraph" := by decide

/-- inline/tree-level extensions: wikilinks after the core link patterns and before emphasis; nl2br last;
    attr_list, abbr, toc tree processors after prettify…: attr_list (8) and abbr (7) run after `prettify` (10) and
    before `unescape` (0), toc (5) after both -/
theorem C16_order_inline_tree :
    before (order ["core", "wikilinks"] "inlinePatterns") "link" "wikilink" = true ∧
    before (order ["core", "wikilinks"] "inlinePatterns") "wikilink" "not_strong" = true ∧
    (order ["core", "nl2br"] "inlinePatterns").getLast? = some "nl" ∧
    before (order ["core", "attr_list", "abbr", "toc"] "treeprocessors") "prettify" "attr_list" = true ∧
    before (order ["core", "attr_list", "abbr", "toc"] "treeprocessors") "attr_list" "abbr" = true ∧
    before (order ["core", "attr_list", "abbr", "toc"] "treeprocessors") "abbr" "toc" = true ∧
    before (order ["core", "attr_list", "abbr", "toc"] "treeprocessors") "toc" "unescape" = true := by decide

/-- sane_lists replaces the two core list processors in place (same names, same priorities) -/
theorem C16_order_sane_lists :
    order ["core", "sane_lists"] "blockprocessors" = order ["core"] "blockprocessors" := by decide

end MdVerif.Dispatch
