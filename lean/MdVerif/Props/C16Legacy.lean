/-
C16 for the `legacy_attrs` extension (`markdown/extensions/legacy_attrs.py`), on the models
`Model/Ext/LegacyAttrs.lean` (the tree processor `LegacyAttrs`, tied by `harness/corr/legacyattrs.py`: op `legacy.sub`
vs `ATTR_RE.sub`, op `legacy.run` vs `LegacyAttrs(md).run` on the trees of the real inline stage) and
`Model/PipelineL.lean` (`convertL on` = `markdown.Markdown(extensions=['legacy_attrs'] if on else []).convert`,
op `convertl`).  The same file carries the facts the other properties need about this processor
(C03/C18: code and `AtomicString`s untouched on ANY tree; C10: the kernel-checked leak F-C10-9).

Part 1.  "changes nothing else":
         `C16_legacy_off` (without the extension `convertL` IS the core pipeline),
         `C16_legacy_run_id` (ANY tree in which `ATTR_RE` matches nowhere in what the processor reads — `alt`
         attributes, non-atomic texts and tails; the EXACT trigger — comes back unchanged),
         `C16_legacy_noninterference_tree` (end to end, every configuration and source: when the tree the inline stage
         hands over is trigger-free, the output with the extension is the output without it; tree-level trigger as for
         toc — the character-provenance lemmas of the core inline stage (`DeepC`) do not cover attribute values, so
         the source-level form "no `{@` in the source" is NOT proved; it is exercised by the correspondence),
         `C16_legacy_quiet_of_no_brace`, `_of_no_at` (a string without `{`, or without `@`, is trigger-free),
         necessity: kernel-checked examples where the outputs differ.
Part 2.  "renders as documented", recogniser level, every text: `C16_legacy_definition` (`a {@k=v} b` — no `{` in `a`,
         no `}` in `k` and `v`, no `=` in `v`, no match in `b` — loses exactly the definition and calls the callback once
         with `(k, v)`; `k` may contain `=`: the LAST `=` separates), `C16_legacy_text_sublist`, `_pairs_wf`, `_match_shape`
         (EVERY text: the result is a sublist of the text; every pair the callback sees is well formed), `C16_legacy_sets_attribute` (on an element with text
         `a {@k=v} b`: the text becomes `a  b`… exactly `a ++ b`, and the element gets `k = v` with line feeds as
         blanks); document level: kernel-checked instances on `convertL` (paragraph, heading, emphasis tail, image `alt`,
         line feed in a value).  These instances are tests of the model, labelled as such.
Part 3.  on ANY tree: `C18_legacy_keeps_atomic` (every `AtomicString`, in document order, is the same string),
         `C03_legacy_keeps_code` (the texts of the `code` elements), `C16_legacy_shape` (tags and the child structure
         are kept: the processor only sets attributes and rewrites non-atomic text / tail).
Part 4.  registry position decided over the regenerated registration table: `C18_legacy_stage_order`
         (`inline` 20 > `legacyattrs` 15 > `prettify` 10 > `unescape` 0).
Part 6.  legacy_em at recogniser level: the five patterns of `LegacyUnderscoreProcessor` ARE the asterisk patterns run with `_`
         (`C16_legacy_em_patterns`); `_connected_words_` for every spelling (`C16_legacy_em_connected`).
Part 5.  F-C10-9, kernel-checked on the model: an escaped character inside the KEY of a definition leaves its
         placeholder `STX 95 ETX` in an attribute NAME of the output (`UnescapeTreeprocessor` restores texts, tails
         and attribute VALUES, never names); the value position is restored (`C10_legacy_value_restored`).
-/
import MdVerif.Model.PipelineL
import MdVerif.Model.Dispatch
import MdVerif.Lemmas.LegacyAttrs
import MdVerif.Lemmas.LegacyEm

namespace MdVerif.PipelineL
open Py Pipeline LegacyAttrs

/-! ### Part 1: changes nothing else -/

/-- without the extension, `convertL` is the core pipeline -/
theorem treeL_off (cfg : Cfg) (src : Str) : treeL false cfg src = tree cfg src := by
  unfold treeL tree
  cases Block.parseDocument cfg.tab (prepare cfg src) with
  | none => rfl
  | some r =>
    obtain ⟨root, refs⟩ := r
    simp only
    cases Inline.run { esc := cfg.esc, refs := refs.reverse } root with
    | none => rfl
    | some q => rfl

theorem C16_legacy_off (cfg : Cfg) (src : Str) : convertL false cfg src = convert cfg src := by
  unfold convertL convert
  rw [treeL_off]
  rfl

/-- **`LegacyAttrs.run` is the identity on a tree without its trigger** — `ATTR_RE` matches at no position of any
    `alt` attribute, non-atomic text or non-atomic tail (`treeQuiet`, decidable; the attribute list is dict-like at
    `alt`) -/
theorem C16_legacy_run_id (t : Node) (h : treeQuiet t = true) : LegacyAttrs.run t = t := run_quiet t h

theorem C16_legacy_quiet_of_no_brace (s : Str) (h : '{' ∉ s) : quiet s = true := quiet_of_no_brace s h
theorem C16_legacy_quiet_of_no_at (s : Str) (h : '@' ∉ s) : quiet s = true := quiet_of_no_at s h

/-- the trigger of the extension on the tree the inline stage hands over (true when that stage does not answer) -/
def legacyTriggerFree (cfg : Cfg) (src : Str) : Bool :=
  match Block.parseDocument cfg.tab (prepare cfg src) with
  | none => true
  | some (root, refs) =>
    match Inline.run { esc := cfg.esc, refs := refs.reverse } root with
    | none => true
    | some (t, _) => treeQuiet t

/-- **legacy_attrs is inert, end to end, on a source whose inline tree is trigger-free**: every configuration (tab
    length, format, escaped characters, block-level elements), every source — same output or the same
    `ood` / `err` / `oof` answer -/
theorem C16_legacy_noninterference_tree (cfg : Cfg) (src : Str) (h : legacyTriggerFree cfg src = true) :
    convertL true cfg src = convert cfg src := by
  rw [← C16_legacy_off]
  have ht : treeL true cfg src = treeL false cfg src := by
    unfold legacyTriggerFree at h
    unfold treeL
    cases hb : Block.parseDocument cfg.tab (prepare cfg src) with
    | none => rfl
    | some r =>
      obtain ⟨root, refs⟩ := r
      rw [hb] at h
      simp only at h ⊢
      cases hi : Inline.run { esc := cfg.esc, refs := refs.reverse } root with
      | none => rfl
      | some q =>
        obtain ⟨t, st⟩ := q
        rw [hi] at h
        simp only at h
        simp only [if_true, Bool.false_eq_true, if_false, run_quiet t h]
  unfold convertL
  rw [ht]

-- the hypothesis is satisfiable by a non-trivial document (emphasis, code, a link, a lone `{`, a lone `@`)
example : legacyTriggerFree {} "# h {x}\n\n*a* `{@c=d}` [l](u@v) {@ no close".toList = true := by decide +kernel
-- necessity: with a definition the outputs differ
example : convertL true {} "para {@id=x} t".toList ≠ convert {} "para {@id=x} t".toList := by decide +kernel

/-! ### Part 2: renders as documented -/

/-- **one definition in a text** (`ATTR_RE.sub` with the callback): the text loses exactly the definition, the callback
    sees `(k, v)` once.  `k` may contain `=` (the last `=` separates key and value), `a` must not contain `{`
    (otherwise an earlier `{@…` could swallow this definition into its own key: `C16_legacy_definition_swallowed`) -/
theorem C16_legacy_definition (a k v b : Str) (ha : '{' ∉ a) (hk : '}' ∉ k) (hv : '}' ∉ v) (hv2 : '=' ∉ v)
    (hb : quiet b = true) :
    scan 0 (a ++ '{' :: '@' :: (k ++ '=' :: v ++ '}' :: b)) = (a ++ b, [(k, v)]) :=
  scan_single a k v b ha hk hv hv2 hb

example : scan 0 "x {@id=a=b} y".toList = ("x  y".toList, [("id=a".toList, "b".toList)]) := by decide +kernel
/-- an unterminated opener before the definition takes it into its key -/
theorem C16_legacy_definition_swallowed :
    scan 0 "{@x={@k=v} y".toList = (" y".toList, [("x={@k".toList, "v".toList)]) := by decide +kernel

/-- **`handleAttributes` on an element**: text `a {@k=v} b` — the element gets the attribute `k` with the value `v`,
    line feeds as blanks, (replacing the value of an existing `k` in place, otherwise appended), and the text
    returned is `a ++ b` -/
theorem C16_legacy_sets_attribute (n : Node) (a k v b : Str) (ha : '{' ∉ a) (hk : '}' ∉ k) (hv : '}' ∉ v)
    (hv2 : '=' ∉ v) (hb : quiet b = true) :
    handle n (a ++ '{' :: '@' :: (k ++ '=' :: v ++ '}' :: b)) = (n.setAttr k (nlToSp v), a ++ b) := by
  simp only [handle, scan_single a k v b ha hk hv hv2 hb, List.foldl_cons, List.foldl_nil]

/-- **nothing is added or reordered, for EVERY text**: what `ATTR_RE.sub` returns is the text with pieces cut out -/
theorem C16_legacy_text_sublist (s : Str) : List.Sublist (scan 0 s).1 s := scan_sublist s 0

/-- **what the callback can be given, for EVERY text**: a key and a value without `}`, a value without `=` (so a
    value can never close the brace group or carry a second assignment) -/
theorem C16_legacy_pairs_wf (s : Str) (kv : Str × Str) (h : kv ∈ (scan 0 s).2) :
    '}' ∉ kv.1 ∧ '}' ∉ kv.2 ∧ '=' ∉ kv.2 := scan_pairs_wf s 0 kv h

/-- a match of `ATTR_RE` is literally `{@key=value}` -/
theorem C16_legacy_match_shape (s k v rest : Str) (h : matchAt s = some (k, v, rest)) :
    s = '{' :: '@' :: (k ++ '=' :: v ++ '}' :: rest) := (matchAt_spec s k v rest h).1

-- document level, kernel-checked instances of the model (tests, not the unbounded claim)
example : convertL true {} "para {@id=x} t".toList = .ok "<p id=\"x\">para  t</p>".toList := by decide +kernel
example : convertL true {} "# h {@id=hh}\n\ntext\n{@class=c}".toList =
    .ok "<h1 id=\"hh\">h </h1>\n<p class=\"c\">text\n</p>".toList := by decide +kernel
-- a definition in the TAIL of an inline element is set on that element
example : convertL true {} "x *em*{@id=q} y".toList = .ok "<p>x <em id=\"q\">em</em> y</p>".toList := by decide +kernel
-- `alt` of an image
example : convertL true {} "![a {@id=z}](u) t".toList = .ok "<p><img alt=\"a \" id=\"z\" src=\"u\" /> t</p>".toList := by
  decide +kernel
-- a line feed inside the value becomes a blank
example : convertL true {} "a {@x=1\n2} b".toList = .ok "<p x=\"1 2\">a  b</p>".toList := by decide +kernel
-- code is literal: the definition inside the span stays, the one after it is set on the `code` element (its tail)
example : convertL true {} "`{@id=x}` y {@k=v}".toList = .ok "<p><code k=\"v\">{@id=x}</code> y </p>".toList := by
  decide +kernel

/-! ### Part 3: ANY tree -/

/-- **every `AtomicString` of ANY tree survives `LegacyAttrs.run`**: same strings, same document order -/
theorem C18_legacy_keeps_atomic (t : Node) : AtomicX.atomicTexts (LegacyAttrs.run t) = AtomicX.atomicTexts t :=
  atomicTexts_run t

/-- **code is literal under legacy_attrs**: on ANY tree the texts of the `code` elements are what they were -/
theorem C03_legacy_keeps_code (t : Node) : CodeX.codeTexts (LegacyAttrs.run t) = CodeX.codeTexts t :=
  codeTexts_run t

/-- the step on one element keeps tag, children and the atomic flags; an atomic text / tail is the same string -/
theorem C16_legacy_shape (n : Node) :
    (step n).tag = n.tag ∧ (step n).children = n.children ∧ (step n).textAtomic = n.textAtomic ∧
      (step n).tailAtomic = n.tailAtomic ∧ (n.textAtomic = true → (step n).text = n.text) ∧
      (n.tailAtomic = true → (step n).tail = n.tail) := step_keeps n

-- non-vacuity: a tree with an atomic code text holding a definition, a plain tail holding one
def codeNode : Node :=
  { tag := .name "code".toList, text := some "{@id=x}".toList, textAtomic := true, tail := some " y {@k=v}".toList }

example : (LegacyAttrs.run codeNode).attrs = [("k".toList, "v".toList)] ∧
    (LegacyAttrs.run codeNode).text = some "{@id=x}".toList ∧ (LegacyAttrs.run codeNode).tail = some " y ".toList := by
  decide +kernel

/-! ### Part 4: registry position -/

/-- `legacyattrs` runs after `inline` and before `prettify` and `unescape` — decided over the regenerated table -/
theorem C18_legacy_stage_order :
    Dispatch.order ["core", "legacy_attrs"] "treeprocessors" = ["inline", "legacyattrs", "prettify", "unescape"] := by
  decide +kernel

/-! ### Part 5: F-C10-9 -/

def hasCtl (o : Outcome) : Bool :=
  match o with
  | .ok s => s.contains (Char.ofNat 2) || s.contains (Char.ofNat 3)
  | _ => false

/-- **F-C10-9 (genuine defect of the unchanged tree, kernel-checked on the model, replayed on the code by the C10
    check)**: an escaped character in the KEY of a `{@key=value}` definition leaves its placeholder in an attribute
    name of the output -/
theorem C10_legacy_key_leak :
    convertL true {} "para {@a\\_b=1} x".toList = .ok ("<p a".toList ++ [Char.ofNat 2] ++ "95".toList ++ [Char.ofNat 3] ++ "b=\"1\">para  x</p>".toList) := by
  decide +kernel

example : hasCtl (convertL true {} "para {@a\\_b=1} x".toList) = true := by decide +kernel
/-- in the VALUE the placeholder is restored -/
theorem C10_legacy_value_restored :
    convertL true {} "para {@id=a\\_b} x".toList = .ok "<p id=\"a_b\">para  x</p>".toList := by decide +kernel
/-- without the extension the same source is leak-free -/
example : hasCtl (convert {} "para {@a\\_b=1} x".toList) = false := by decide +kernel

end MdVerif.PipelineL

/-! ### Part 6: legacy_em, recogniser level (`Model/Ext/LegacyEm.lean`, tied by the unit op `re.legacyem`) -/

namespace MdVerif.LegacyEm
open Inline

/-- the five patterns of `LegacyUnderscoreProcessor` are, step for step, the five ASTERISK patterns run with `_`:
    "legacy" emphasis is asterisk-style emphasis, without the word-boundary look-arounds of the smart patterns -/
theorem C16_legacy_em_patterns : legacyUnderPatterns = starPatterns := legacy_patterns_are_star_shapes

/-- **`_connected_words_`** for every spelling: in `a_b_c` — ANY `a` (it may end in a letter), ANY `c`, `b` non-empty
    without `_` — the legacy EMPHASIS pattern matches at the first underscore, ends after the second, captures `b` -/
theorem C16_legacy_em_connected (a b c : Str) (hb : '_' ∉ b) (hne : b ≠ []) :
    legacyMatch 4 (a ++ '_' :: (b ++ '_' :: c)) a.length = some (some (a.length + 1 + b.length + 1, [b])) :=
  legacy_emphasis_connected a b c hb hne

-- the default (smart) EMPHASIS pattern refuses the same spot inside a word; the legacy one takes it
example : seqMatch "snake_case_name".toList 5 '_' ((underPatterns[4]?).map (·.steps) |>.getD []) = none := by
  decide +kernel
example : legacyMatch 4 "snake_case_name".toList 5 = some (some (11, ["case".toList])) := by decide +kernel
example : legacyMatch 3 "a__b__c".toList 1 = some (some (6, ["b".toList])) := by decide +kernel

end MdVerif.LegacyEm
