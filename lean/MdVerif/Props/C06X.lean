/-
C06 on the EXTENSION pipeline — "Every letter of running text in the source appears in the rendered text exactly once
and in the same order: conversion only removes markup characters and adds tags, it never drops, repeats or moves the
reader's words, whatever markup surrounds them."

Subject: the extended block parser `BlockExt.parseDocumentXT tables cfg tab text` (`Model/BlockExt.lean`,
`Model/BlockExtT.lean`: the core processors plus admonition, def_list, footnotes, abbr, sane_lists, tables) and the
end-to-end model `PipelineX.convertX x cfg src` (`Model/PipelineX.lean`).  Definitions of `letters`, `docLetters`,
`plain` (the domain: none of `[`, `&`, `<`), `inv`, `TurnConserves`, `ConservesPB`: `Spec/Letters.lean`, exactly as in
`Props/C06Block.lean` (core block parser); `LetterClass L` is the only assumption on "letter".

What is proved here

1. block stage, per processor:
   * `C06X_saneOList_conserves`, `C06X_saneUList_conserves` — the `sane_lists` processors conserve letters like the core
     list processors (the `start` attribute a `SaneOListProcessor` writes is not text);
   * `C06X_footnote_inert`, `C06X_abbr_inert` — footnote definitions `[^id]: …` and abbreviation definitions
     `*[X]: T` need a `[`: on the domain of C06 these processors never fire.  (With a `[` they REMOVE the definition
     from the running text — abbr — or MOVE it to the end of the document — footnotes: that is the "text consumed as
     a definition" the property's quantifier excludes; kernel-checked examples below.)
2. `C06X_dispatch_conserves`, `C06X_parseBlocks_conserves`, `C06X_block_stage` — for EVERY flag set with `admonition`
   and `def_list` off (sane_lists, footnotes, abbr in any combination), table processor off, every tab length, every
   `plain` text: the tree `parseDocumentXT` builds has exactly the letters of the text, each once, in order.
2b. exact accounting for the two extension processors whose output is NOT the letters of the block:
   * `C06X_admonition_conserves` — `AdmonitionProcessor.run` on a header `!!! class "title"`, outside a tight list
     item: tree and queue afterwards have the letters of the text before the header, then of the TITLE
     (`admClassTitle`: the explicit title; none given: the first class word, lower-cased then capitalised — a COPY;
     `""`: nothing), then of the text after the header line; no letter of the class words is visible (attribute);
   * `C06X_table_conserves` — `TableProcessor.run`: the block is replaced by exactly the cell texts of
     `Tables.tableRun`, row by row (`cellsOf`); `C06X_table_row_cells`: the cells of a row are the first `n` cells of
     `_split_row` (`n` = header width), stripped — cells beyond the header width are dropped, missing cells are empty;
     the delimiter row is not among the cells.  (That `_split_row` itself only removes `|` is not proved here.)
3. `C06X_unused` — end to end: for every flag set without footnotes, wikilinks, nl2br, toc, and every source of the
   C06 domain in which no ENABLED extension finds its trigger (`Unused`, decidable; abbr: `*[` is excluded by the
   domain itself), `convertX x cfg src = .ok out` ⇒ the strict reader accepts `out` and
   `visibleLetters L cfg.fmt out = letters L src`.  (From the C16 non-interference theorems and `C06`.)

What is NOT true, and therefore not stated (each with a kernel-checked counterexample below; all three reproduce on the
real implementation, reported as findings):
   * def_list REORDERS: `DefListProcessor` parses the content of a `dd` in state `list`; a remainder it re-queues (a
     line that starts with `:` but is no definition) goes to `ParagraphProcessor`, which in state `list` writes it to
     the TAIL of the last child — the inner `dl`; a later indented block is then appended INSIDE that `dl`, before the
     tail.  The invariant of the core proof (`Letters.inv`: no letters on the tail of an element that later blocks are
     added into) cannot be extended to `dl` / `dd`.
   * admonition REORDERS in the same way inside a tight list item (tail of the admonition `div`).
   * tables DROP the cells of a body row beyond the width of the header row.
   For admonition in addition: the class words of `!!! class "title"` go into an attribute, the title into a `p`;
   without a title the first class word is COPIED, capitalised, into the visible title (`demoAdmonition`).
-/
import MdVerif.Lemmas.ConserveXTable
import MdVerif.Props.C06
import MdVerif.Props.C16Pipeline
import MdVerif.Lemmas.PipelineX

namespace MdVerif.C06X
open Py Block BlockExt Letters MdVerif.ConserveX

variable {L : Char → Bool} {tab : Nat} {pb : PB} {state : List BState} {refs refs' : Refs}
  {parent parent' : Node} {b : Str} {rest blocks' : List Str} {cfg : XCfg}

/-! ### the hypotheses are satisfiable -/

/-- a letter class: the ASCII letters -/
def alpha (c : Char) : Bool := c.isAlpha && stdLetter c

theorem alpha_class : LetterClass alpha :=
  stdLetter_class.mono (fun c hc => by simp only [alpha, Bool.and_eq_true] at hc; exact hc.2)

/-- flag sets of part 2: any combination of sane_lists, footnotes, abbr -/
example : listFlags { saneLists := true, footnotes := true, abbr := true } := ⟨rfl, rfl⟩

/-- a `plain` document with an ordered list that starts at 7, a bullet line directly after it (for `sane_lists` a
    continuation line of the item, not a new item), emphasis, a code block, a quote -/
def demoSane : Str := "7. a\n8. b\n* c *d*\n\n      e > f\n\n> 1. g".toList

example : plain demoSane = true := by decide +kernel

/-! ### 1. the `sane_lists` processors; footnotes and abbr on the domain -/

/-- `SaneOListProcessor` (`SIBLING_TAGS = ['ol']`, `CHILD_RE` = ordered markers only, `LAZY_OL = False`: a `start`
    attribute): the items have the letters of the block, each is parsed into its `li` -/
theorem C06X_saneOList_conserves (hL : LetterClass L) (hpb : ConservesPB L tab pb)
    (hinv : inv L tab state parent (b :: rest) = true) (hns : startsWith b (spaces tab) = false)
    (hm : (listItemMatch tab true false b).isSome = true)
    (hr : listPX .saneOl tab pb state refs parent b rest "ol" = some (parent', refs', blocks')) :
    TurnConserves L tab state parent b rest parent' blocks' :=
  (listPX_step hL .saneOl (conserves_iff.mpr hpb) (Or.inl rfl) hinv hns hm hr).turn

/-- `SaneUListProcessor` (`SIBLING_TAGS = ['ul']`, `CHILD_RE` = bullet markers only) -/
theorem C06X_saneUList_conserves (hL : LetterClass L) (hpb : ConservesPB L tab pb)
    (hinv : inv L tab state parent (b :: rest) = true) (hns : startsWith b (spaces tab) = false)
    (hm : (listItemMatch tab false true b).isSome = true)
    (hr : listPX .saneUl tab pb state refs parent b rest "ul" = some (parent', refs', blocks')) :
    TurnConserves L tab state parent b rest parent' blocks' :=
  (listPX_step hL .saneUl (conserves_iff.mpr hpb) (Or.inr rfl) hinv hns hm hr).turn

/-- `FootnoteBlockProcessor` consumes a definition `[^id]: …` — outside the domain: on a `plain` block it never
    fires -/
theorem C06X_footnote_inert (hp : plain b = true) : footnoteP refs b rest = none := footnoteP_plain hp refs rest

/-- `AbbrBlockprocessor` consumes a definition `*[X]: T` — outside the domain: on a `plain` block it never fires -/
theorem C06X_abbr_inert (hp : plain b = true) : abbrSearch b = none := abbrSearch_plain hp

/-! ### 2. the loop and the document -/

/-- **One turn of the loop of the extended parser conserves letters**, for every flag set with `admonition` and
    `def_list` off, table processor off: whichever processor `dispatchXT` runs on the first pending block. -/
theorem C06X_dispatch_conserves (hL : LetterClass L) (hc : listFlags cfg) (hpb : ConservesPB L tab pb)
    (hinv : inv L tab state parent (b :: rest) = true)
    (hr : dispatchXT false cfg tab pb state refs parent b rest = some (parent', refs', blocks')) :
    TurnConserves L tab state parent b rest parent' blocks' :=
  (dispatchXT_step hL hc (conserves_iff.mpr hpb) hinv hr).turn

/-- **`parseBlocksXT` conserves letters**, with any fuel, whenever it returns -/
theorem C06X_parseBlocks_conserves (hL : LetterClass L) (hc : listFlags cfg) (tab fuel : Nat) :
    ConservesPB L tab (parseBlocksXT false cfg tab fuel) :=
  conserves_iff.mp (parseBlocksXT_conserves hL hc tab fuel)

/-- **C06 for the extended block parser** (`sane_lists`, `footnotes`, `abbr` in any combination).  For every class of
    letters, every `tab_length` and every text of the domain (no `[`, `&`, `<`): the element tree that
    `parseDocumentXT` builds has exactly the letters of the text, each once, in the order of the text (and is
    `treeOk`). -/
theorem C06X_block_stage (hL : LetterClass L) (hc : listFlags cfg) {text : Str} (hp : plain text = true) {root : Node}
    {log : Refs} (hr : parseDocumentXT false cfg tab text = some (root, log)) :
    docLetters L root = letters L text ∧ treeOk L root = true :=
  parseDocumentXT_conserves hL hc hp hr

def blockLetters (tables : Bool) (cfg : XCfg) (src : String) : Option String :=
  (parseDocumentXT tables cfg 4 src.toList).map (fun r => String.ofList (docLetters alpha r.1))

/-- the theorem at work: the letters once, in order -/
example : blockLetters false { saneLists := true, footnotes := true, abbr := true } (String.ofList demoSane) =
    some "abcdefg" := by decide +kernel

/-- `7.` starts an `ol start="7"`, `* c` after a blank line a NEW `ul` (sane_lists) -/
example : (parseDocumentXT false { saneLists := true } 4 "7. a\n\n* c".toList).map
    (fun r => r.1.children.map (fun c => (c.isTag "ol", c.isTag "ul", c.attrs.map (fun kv => String.ofList kv.2)))) =
    some [(true, false, ["7"]), (false, true, [])] := by decide +kernel

/-! ### 2b. admonition header and table: exact accounting -/

/-- **`AdmonitionProcessor.run` on a header line `!!! class "title"`** (`admSearch b = some (st, en, g1, g2)`), when
    the parser is not in a tight list item: afterwards tree and queue have, in this order, the letters of the tree
    before, of the text before the header, of the visible title `(admClassTitle g1 g2).2`, of the text after the
    header line, of the rest of the queue; the invariant holds again.  The class words `g1` are not visible. -/
theorem C06X_admonition_conserves (hL : LetterClass L) (hpb : ConservesPB L tab pb)
    (hinv : inv L tab state parent (b :: rest) = true) (hnl : isstate state .list = false)
    {st en : Nat} {g1 : Str} {g2 : Option Str}
    (hr : admonitionP tab pb state refs parent b rest (.re st en g1 g2) = some (parent', refs', blocks')) :
    docLetters L parent' ++ queueLetters L blocks' =
        docLetters L parent ++
          (letters L (b.take st) ++ optLetters L (admClassTitle g1 g2).2 ++ letters L (b.drop en)) ++
          queueLetters L rest ∧
      inv L tab state parent' blocks' = true ∧ parent'.tag = parent.tag ∧ parent'.tail = parent.tail :=
  let s := admonitionP_re_step hL (conserves_iff.mpr hpb) hinv hnl hr
  ⟨s.doc, s.inv, s.tag, s.tail⟩

/-- the hypotheses on a concrete block; the title: explicit, or the first class word capitalised -/
example : inv alpha 4 [] (Node.el "div") ["x\n!!! note warn \"Ti\"\n    y\nz".toList] = true ∧
    admSearch "x\n!!! note warn \"Ti\"\n    y\nz".toList = some (1, 21, "note warn".toList, some "Ti".toList) ∧
    (admClassTitle "note warn".toList (some "Ti".toList)).2 = some "Ti".toList ∧
    (admClassTitle "note warn".toList none).2 = some "Note".toList ∧
    (admClassTitle "note warn".toList (some [])).2 = none := by decide +kernel

/-- **`TableProcessor.run`**: afterwards the tree has, after the letters it had, exactly the letters of the cell
    texts of `Tables.tableRun` row by row (`cellsOf`: header cells, then the cells of each body row), the queue is the
    rest of the queue; the invariant holds again. -/
theorem C06X_table_conserves (hinv : inv L tab state parent (b :: rest) = true) {bs : Nat × List Str}
    (hr : tableP refs parent b rest bs = (parent', refs', blocks')) :
    docLetters L parent' ++ queueLetters L blocks' =
        docLetters L parent ++ queueLetters L (cellsOf (Tables.tableRun bs.1 bs.2 b)) ++ queueLetters L rest ∧
      inv L tab state parent' blocks' = true ∧ parent'.tag = parent.tag ∧ parent'.tail = parent.tail :=
  let s := tableP_step hinv hr
  ⟨s.doc, s.inv, s.tag, s.tail⟩

/-- **the cells of a table row** (`_build_row` for a header of width `n`): the letters of the first `n` cells of
    `_split_row` — a cell beyond the header width is dropped, a missing cell is empty -/
theorem C06X_table_row_cells (hL : LetterClass L) (n : Nat) (row : Str) (border : Nat) :
    queueLetters L (Tables.buildRow n row border) = queueLetters L ((Tables.splitRow border row).take n) :=
  buildRow_letters hL n row border

/-- header `a | b`, delimiter row (not a cell), a row with a surplus cell `e` (dropped), a short row (padded) -/
example : Tables.tableTest "a | b\n--- | ---\nc | d | e\nf".toList = some (0, ["--- ".toList, " ---".toList]) ∧
    (cellsOf (Tables.tableRun 0 ["--- ".toList, " ---".toList] "a | b\n--- | ---\nc | d | e\nf".toList)).map
      String.ofList = ["a", "b", "c", "d", "f", ""] := by decide +kernel

/-! ### what the domain excludes: definitions are removed / moved (kernel-checked) -/

/-- abbr: the definition is REMOVED from the tree (it goes to the table of abbreviations) -/
example : blockLetters false { abbr := true } "x\n\n*[HTML]: Hyper Text\n\ny" = some "xy" := by decide +kernel

/-- footnotes: the definition is removed from the tree by the block processor (the tree processor appends it at the
    END of the document) -/
example : blockLetters false { footnotes := true } "x\n\n[^a]: note\n\ny" = some "xy" := by decide +kernel

/-! ### def_list, admonition, tables: plain conservation is FALSE (kernel-checked; findings) -/

/-- def_list reorders: `z` is rendered before `c` -/
example : blockLetters false { defList := true } "t\n:   a\n    :   b\n    :c\n\n        z" = some "tabzc" ∧
    letters alpha "t\n:   a\n    :   b\n    :c\n\n        z".toList = "tabcz".toList := by decide +kernel

/-- admonition reorders inside a tight list item: `z` is rendered before `y`; the class `note` is not rendered -/
example : blockLetters false { admonition := true } "- !!! note \"T\"\n      x\n  y\n\n        z" = some "Txzy" ∧
    letters alpha "- !!! note \"T\"\n      x\n  y\n\n        z".toList = "noteTxyz".toList := by decide +kernel

/-- admonition, no title given: the class word is COPIED, capitalised, into the visible title; with an explicit
    title the class is not visible; with the empty title `""` neither -/
def demoAdmonition : List (String × Option String) :=
  [("!!! note\n    x", some "Notex"), ("!!! note \"Tt\"\n    x", some "Ttx"), ("!!! note \"\"\n    x", some "x")]

example : demoAdmonition.all (fun p => blockLetters false { admonition := true } p.1 == p.2) = true := by
  decide +kernel

/-- tables drop the cell `e` beyond the header width; a row as wide as the header is conserved -/
example : blockLetters true {} "a | b\n--- | ---\nc | d | e" = some "abcd" ∧
    blockLetters true {} "a | b\n--- | ---\nc | d" = some "abcd" := by decide +kernel

/-! ### 3. end to end, when no enabled extension finds its syntax -/

open PipelineX Pipeline in
/-- no ENABLED extension of `x` finds its trigger in the normalised source (the triggers of the C16 non-interference
    theorems; abbr needs no clause: its trigger `*[` contains `[`); footnotes, wikilinks, nl2br, toc off -/
structure Unused (x : Exts) (cfg : Cfg) (src : Str) : Prop where
  footnotes : x.footnotes = false
  wikilinks : x.wikilinks = false
  nl2br : x.nl2br = false
  toc : x.toc = false
  fencedCode : x.fencedCode = true → Fenced.noFenceLine (normText cfg src) = true
  tables : x.tables = true → '|' ∉ normText cfg src
  admonition : x.admonition = true → lacksN "!!!" cfg src
  defList : x.defList = true → lacksN ": " cfg src
  saneLists : x.saneLists = true → noListMarker (normText cfg src)
  attrList : x.attrList = true → OkAttr (normText cfg src)

open PipelineX Pipeline in
theorem convertX_unused {x : Exts} {cfg : Cfg} {src : Str} (hd : C06.C06DomainWide src = true)
    (hu : Unused x cfg src) : convertX x cfg src = convert cfg src := by
  have habbr : lacksN "*[" cfg src :=
    not_contains_of_plain (C06.normalize_plain cfg.tab hd) (by decide)
  obtain ⟨fc, tb, ad, df, ab, fn, sl, nl, wk, al, tc⟩ := x
  obtain ⟨h1, h2, h3, h4, h5, h6, h7, h8, h9, h10⟩ := hu
  simp only at h1 h2 h3 h4 h5 h6 h7 h8 h9 h10
  subst h1 h2 h3 h4
  rw [← convertX_core]
  have e1 : convertX ⟨fc, tb, ad, df, ab, false, sl, false, false, al, false⟩ cfg src =
      convertX ⟨false, tb, ad, df, ab, false, sl, false, false, al, false⟩ cfg src := by
    cases fc with
    | false => rfl
    | true => exact C16_noninterference_fencedCode ⟨false, tb, ad, df, ab, false, sl, false, false, al, false⟩ cfg src (h5 rfl)
  have e2 : convertX ⟨false, tb, ad, df, ab, false, sl, false, false, al, false⟩ cfg src =
      convertX ⟨false, false, ad, df, ab, false, sl, false, false, al, false⟩ cfg src := by
    cases tb with
    | false => rfl
    | true => exact C16_noninterference_tables ⟨false, false, ad, df, ab, false, sl, false, false, al, false⟩ cfg src (h6 rfl)
  have e3 : convertX ⟨false, false, ad, df, ab, false, sl, false, false, al, false⟩ cfg src =
      convertX ⟨false, false, false, df, ab, false, sl, false, false, al, false⟩ cfg src := by
    cases ad with
    | false => rfl
    | true => exact C16_noninterference_admonition ⟨false, false, false, df, ab, false, sl, false, false, al, false⟩ cfg src (h7 rfl)
  have e4 : convertX ⟨false, false, false, df, ab, false, sl, false, false, al, false⟩ cfg src =
      convertX ⟨false, false, false, false, ab, false, sl, false, false, al, false⟩ cfg src := by
    cases df with
    | false => rfl
    | true => exact C16_noninterference_defList ⟨false, false, false, false, ab, false, sl, false, false, al, false⟩ cfg src (h8 rfl)
  have e5 : convertX ⟨false, false, false, false, ab, false, sl, false, false, al, false⟩ cfg src =
      convertX ⟨false, false, false, false, false, false, sl, false, false, al, false⟩ cfg src := by
    cases ab with
    | false => rfl
    | true => exact C16_noninterference_abbr ⟨false, false, false, false, false, false, sl, false, false, al, false⟩ cfg src habbr
  have e6 : convertX ⟨false, false, false, false, false, false, sl, false, false, al, false⟩ cfg src =
      convertX ⟨false, false, false, false, false, false, false, false, false, al, false⟩ cfg src := by
    cases sl with
    | false => rfl
    | true => exact C16_noninterference_saneLists ⟨false, false, false, false, false, false, false, false, false, al, false⟩ cfg src (h9 rfl)
  have e7 : convertX ⟨false, false, false, false, false, false, false, false, false, al, false⟩ cfg src =
      convertX {} cfg src := by
    cases al with
    | false => rfl
    | true => exact C16_noninterference_attrList {} cfg src (h10 rfl)
  rw [e1, e2, e3, e4, e5, e6, e7]

/-- **C06 on the extension pipeline when the enabled extensions are not used.**  For every flag set `x` without
    footnotes, wikilinks, nl2br, toc, every source without `<`, `&`, `[`, `>` in which no enabled extension finds its
    trigger: whatever `convertX x` returns is a well-formed fragment whose text content has exactly the letters of the
    source, each once, in the order of the source. -/
theorem C06X_unused {x : PipelineX.Exts} {cfg : Pipeline.Cfg} (hL : C06.Letter L cfg.esc) {src out : Str}
    (hd : C06.C06Domain src = true) (hu : Unused x cfg src) (hc : PipelineX.convertX x cfg src = .ok out) :
    (Ser.readForest cfg.fmt out).isSome = true ∧ C06.visibleLetters L cfg.fmt out = letters L src := by
  rw [convertX_unused (C06.wide_of_domain hd) hu] at hc
  exact C06.C06 hL hd hc

/-- a document with a header, emphasis, a code span; abbr, def_list, tables, admonition, fenced_code enabled and unused -/
def demoUnused : Str := "# T\n\na *b* `c`\n\nd".toList

instance (x : PipelineX.Exts) (cfg : Pipeline.Cfg) (src : Str) : Decidable (Unused x cfg src) :=
  decidable_of_iff
    (x.footnotes = false ∧ x.wikilinks = false ∧ x.nl2br = false ∧ x.toc = false ∧
      (x.fencedCode = true → Fenced.noFenceLine (PipelineX.normText cfg src) = true) ∧
      (x.tables = true → '|' ∉ PipelineX.normText cfg src) ∧
      (x.admonition = true → PipelineX.lacksN "!!!" cfg src) ∧
      (x.defList = true → PipelineX.lacksN ": " cfg src) ∧
      (x.saneLists = true → noListMarker (PipelineX.normText cfg src)) ∧
      (x.attrList = true → PipelineX.OkAttr (PipelineX.normText cfg src)))
    ⟨fun ⟨a, b, c, d, e, f, g, h, i, j⟩ => ⟨a, b, c, d, e, f, g, h, i, j⟩,
     fun ⟨a, b, c, d, e, f, g, h, i, j⟩ => ⟨a, b, c, d, e, f, g, h, i, j⟩⟩

example : C06.C06Domain demoUnused = true ∧
    Unused { abbr := true, defList := true, tables := true, admonition := true, fencedCode := true } {} demoUnused := by
  decide +kernel

end MdVerif.C06X
