/-
C10 on the extension model with ALL ELEVEN EXTENSIONS — "The output never contains the STX/ETX control characters or
any of the placeholder tokens the converter uses internally …" for `PipelineX.convertX`
(`Markdown(extensions=[…]).convert`): fenced_code, footnotes, tables, admonition, def_list, abbr, sane_lists, nl2br,
wikilinks, attr_list and toc on or off, in every combination.

fenced_code is the last extension of the model.  `FencedBlockPreprocessor` (priority 25, BEFORE the block parser)
replaces every fenced block by a raw-HTML placeholder `STX wzxhzdk:N ETX` and stores `<pre><code…>…</code></pre>` in the
raw-HTML stash; `RawHtmlPostprocessor` puts the entries back after serialisation.  So the block parser, the footnote
tree processor, the inline stage and every later tree processor see texts with a THIRD kind of foreign token (after the
two footnote tokens of `Props/C10XFn.lean`), and the serialised string must contain only LIVE placeholders (number below
the length of the stash), which `RawHtmlPostprocessor` replaces by entries free of STX/ETX.

The token grammar `WF` of `Spec/F/NoCtl.lean` has two parameters (`Spec/F/HtmlBound.lean`: the length of the raw-HTML
stash, the footnotes flag) and admits exactly the foreign tokens that the postprocessors will remove; the whole
invariant chain `Lemmas/F/Placeholders*.lean` holds for every value of the parameters.  New for fenced_code:

* the preprocessor (worker fc2, `Lemmas/F/PlaceholdersXTFence.lean`): every placeholder is a BLOCK of its own
  (`NoCtlF.OwnBlock`), the ordinary part of the text stays in the domain, no stash entry holds STX/ETX;
* the block stage on such a text (worker fc2, `Lemmas/F/PlaceholdersXTBlock*.lean`, `XT.block_stage_own`): a placeholder
  block becomes a paragraph whose text is the placeholder; nothing of it reaches the log or an attribute;
* abbr: an abbreviation can cut a placeholder between two word boundaries (`STX|w`, `k|:`, `:|N`, `N|ETX`): the keys
  `wzxhzdk`, `wzxhzdk:`, `wzxhzdk:N`, `:`, `:N` and `N` (`htmlCutKey`, `segs_htmlToken`) — F-C10-6, second form;
* attr_list / footnote back-links never cut at the `:` of a placeholder (`Cut`, `FNodeA`);
* `RawHtmlPostprocessor`: one pass replaces every placeholder of a well-formed string, the second pass finds nothing
  (`Lemmas/F/PlaceholdersXRawF.lean`: `subPass_fnOut`, `rawHtml_fnOut`), then `FootnotePostprocessor`,
  `AndSubstitutePostprocessor`, `strip`.

1. `C10X_partial_all`: end to end, all eleven flags.
2. `C10X_leak_colon_abbr_rawhtml`: the hypothesis on the abbreviations is needed for the new keys as well.

(Worker amp: the chain now has a third parameter, `HtmlBound.amp` — does the character domain admit `&`? —, and its
`HtmlBound.h` is the length of the raw-HTML stash BEHIND the inline stage.  This theorem is the instance `amp = false`, where
the inline stage leaves the raw-HTML stash alone; `Props/C10XAllAmp.lean` has the theorem for sources with ampersands,
`C10X_partial_all_amp`, where the entity pattern writes raw-HTML placeholders of its own.)

Vocabulary: `Spec/F/*.lean`; helper lemmas: `Lemmas/F/Placeholders*.lean` (composition: `Lemmas/F/PlaceholdersXAllF.lean`).
Core Lean only.
-/
import MdVerif.Lemmas.F.PlaceholdersXAllF

namespace MdVerif.NoCtlXF
open MdVerif.NoCtl (NoCtl)
open MdVerif.NoCtlX (C10DomainW)
open Py

/-! ## 1. End to end -/

/-- **End to end with all eleven extensions** (`C10X_partial_all`).  **fenced_code, footnotes, tables, admonition,
    def_list, abbr, sane_lists, nl2br, wikilinks, attr_list and toc are on or off, in every combination.**  For a
    source without `<`, `&` whose normalised text has none of the adjacencies backslash–backtick, `![`, `](` and — when
    wikilinks is on — no `[` immediately followed by a blank (`C10DomainW`, the domain of `C10X_partial_footnotes`), and
    in which — when abbr is on — no abbreviation definition `*[key]: title`, in the document or inside a footnote body,
    has a key made of ASCII digits only (F-C10-6), with footnotes a key equal to the body of a footnote token, with
    fenced_code one of the keys `wzxhzdk`, `wzxhzdk:`, `wzxhzdk:`+digits, `:`, `:`+digits, which cut a raw-HTML
    placeholder (`AbbrKeysOKA`, decidable; read off the log of the block stage and of `FootnoteTreeprocessor`), whatever
    `convertX` returns (any tab length — positive when fenced_code is on —, output format, block-level set; escapable characters ordinary ones that
    occur in no token — `NoCtlF.EscOK`: neither STX nor ETX nor a digit nor one of `k l z w x h : q d`) contains neither
    STX nor ETX.  (The model answers `ood` — nothing to prove — for fenced_code + attr_list when a fenced block carries
    options, and for admonition + `!!!` before a non-ASCII character.) -/
theorem C10X_partial_all (x : PipelineX.Exts) (cfg : Pipeline.Cfg) (hcfg : NoCtlF.EscOK cfg.esc)
    (htab : x.fencedCode = true → 0 < cfg.tab)
    {src out : Str} (hd : C10DomainW x.wikilinks cfg.tab src) (habbr : AbbrKeysOKA x cfg src)
    (h : PipelineX.convertX x cfg src = .ok out) : NoCtl out :=
  convertX_noctl_eleven hcfg htab hd.1 hd.2 habbr h

/-- the default configuration satisfies the hypotheses on `cfg` -/
example (x : PipelineX.Exts) : NoCtlF.EscOK ({} : Pipeline.Cfg).esc ∧ (x.fencedCode = true → 0 < ({} : Pipeline.Cfg).tab) :=
  ⟨escOK_default0, fun _ => by decide⟩

/-- without fenced_code the hypothesis on the abbreviations of `C10X_partial_footnotes` implies the one used here: the
    theorem subsumes `C10X_partial_footnotes` and `C10X_partial_all_but_footnotes_fenced` -/
example {x : PipelineX.Exts} (hfc : x.fencedCode = false) {cfg : Pipeline.Cfg} {src : Str}
    (h : AbbrKeysOKF x cfg src) : AbbrKeysOKA x cfg src := abbrKeysOKA_of_F hfc h

/-- all eleven extensions -/
def allExts : PipelineX.Exts :=
  { fencedCode := true, footnotes := true, tables := true, admonition := true, defList := true, abbr := true,
    saneLists := true, nl2br := true, wikilinks := true, attrList := true, toc := true }

/-- the hypotheses on a source with a heading with an attribute list, a footnote reference, an abbreviation, a fenced
    block with a language (backticks and emphasis markers in the code), a footnote with a code span, `[TOC]`; all
    eleven extensions on -/
example :
    let src := ("# H {: #i }\n\nA[^n] HTML\n\n```python\nx = `1` *a*\n```\n\n[^n]: see HTML `x`\n\n" ++
      "*[HTML]: Hyper Text\n\n[TOC]").toList
    C10DomainW allExts.wikilinks 4 src ∧ AbbrKeysOKA allExts {} src :=
  ⟨by decide +kernel, by decide +kernel⟩

/-- … and what `convertX` answers on it -/
example : PipelineX.convertX allExts {}
      ("# H {: #i }\n\nA[^n] HTML\n\n```python\nx = `1` *a*\n```\n\n[^n]: see HTML `x`\n\n" ++
        "*[HTML]: Hyper Text\n\n[TOC]").toList =
    .ok ("<h1 id=\"i\">H</h1>\n<p>A<sup id=\"fnref:n\"><a class=\"footnote-ref\" href=\"#fn:n\">1</a></sup> <abbr " ++
      "title=\"Hyper Text\">HTML</abbr></p>\n<pre><code class=\"language-python\">x = `1` *a*\n</code></pre>\n" ++
      "<div class=\"toc\">\n<ul>\n<li><a href=\"#i\">H</a></li>\n</ul>\n</div>\n<div class=\"footnote\">\n<hr />\n<ol>\n" ++
      "<li id=\"fn:n\">\n<p>see <abbr title=\"Hyper Text\">HTML</abbr> <code>x</code>&#160;<a class=\"footnote-backref\" " ++
      "href=\"#fnref:n\" title=\"Jump back to footnote 1 in the text\">&#8617;</a></p>\n</li>\n</ol>\n</div>").toList := by
  decide +kernel

/-- a fenced block inside a multi-line code span (it is replaced first: the backticks end up in two paragraphs), and a
    block with `{.class #id}` options -/
example : PipelineX.convertX { fencedCode := true } {} "a `\n```\nx\n```\n` b\n\n~~~ {.py #i}\ny\n~~~".toList =
    .ok ("<p>a `</p>\n<pre><code>x\n</code></pre>\n<p>` b</p>\n<pre id=\"i\"><code class=\"language-py\">y\n" ++
      "</code></pre>").toList := by
  decide +kernel

/-- a fenced block next to a footnote -/
example : PipelineX.convertX { fencedCode := true, footnotes := true } {} "A[^1]\n\n[^1]: n\n\n```\nc\n```".toList =
    .ok ("<p>A<sup id=\"fnref:1\"><a class=\"footnote-ref\" href=\"#fn:1\">1</a></sup></p>\n<pre><code>c\n</code></pre>\n" ++
      "<div class=\"footnote\">\n<hr />\n<ol>\n<li id=\"fn:1\">\n<p>n&#160;<a class=\"footnote-backref\" href=\"#fnref:1\" " ++
      "title=\"Jump back to footnote 1 in the text\">&#8617;</a></p>\n</li>\n</ol>\n</div>").toList := by
  decide +kernel

/-! ## 2. The hypothesis on the abbreviations is needed -/

/-- **An abbreviation `:` cuts a raw-HTML placeholder** (F-C10-6, second form, with a key that is neither a number nor
    `wzxhzdk`): `\b:\b` matches between `wzxhzdk` and the number.  The source is in the domain; `AbbrKeysOKA` fails; the
    output holds STX and ETX.  (The implementation does the same:
    `markdown.markdown("a\n\n```\nx\n```\n\n*[:]: T", extensions=['fenced_code', 'abbr'])`.) -/
theorem C10X_leak_colon_abbr_rawhtml :
    C10DomainW false 4 "a\n\n```\nx\n```\n\n*[:]: T".toList ∧
    ¬ AbbrKeysOKA { fencedCode := true, abbr := true } {} "a\n\n```\nx\n```\n\n*[:]: T".toList ∧
    PipelineX.convertX { fencedCode := true, abbr := true } {} "a\n\n```\nx\n```\n\n*[:]: T".toList =
      .ok "<p>a</p>\n<p>\x02wzxhzdk<abbr title=\"T\">:</abbr>0\x03</p>".toList :=
  ⟨by decide +kernel, by decide +kernel, by decide +kernel⟩

/-- proper parts of the placeholder body that do not lie between two word boundaries are harmless: such keys satisfy
    the hypothesis -/
example : AbbrKeysOKA { fencedCode := true, abbr := true } {}
    "a\n\n```\nx\n```\n\n*[zdk]: T\n*[k]: U\n*[wzxhzd]: V\n*[wzxhzdk:a]: W".toList := by
  decide +kernel

end MdVerif.NoCtlXF
