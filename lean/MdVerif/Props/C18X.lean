/-
C18 — Extension API contracts with the bundled extensions loaded: AtomicString, htmlStash and priorities on the
extension pipeline model (`PipelineX.convertX`: `InlineX.runX` over the pattern table with the footnote, wikilink and
nl2br patterns; the tree processors `FootnotesTree`, `AttrListTree`, `AbbrTree`, `TocTree`; the postprocessors), for
ANY tree — what a third-party extension may build — not only for the trees the block parser builds.

Only property statements live here.  Vocabulary: `Probe.Emb` (`Spec/Probe.lean`), `atomicTexts`, `atomicKept`,
`cleanTails` (`Lemmas/AtomicXRun.lean`); helper lemmas: `Lemmas/AtomicX*.lean`.

Part 1.  `InlineProcessor.run` over any pattern table keeps every `AtomicString` of any tree:
         `C18X_atomic_untouched_runX`, `C18X_atomic_everywhere_runX`.
Part 2.  The tree processors and the atomic strings of ANY tree.  Positive: `C18X_abbr_keeps_atomic`,
         `C18X_unescape_atomic` (every string but the text of `code` is unescaped, atomic or not; an `STX`-free one is
         unchanged), `C18X_attr_list_keeps_atomic`, `C18X_toc_keeps_atomic`, `C18X_footnotes_keeps_atomic`.
         Negative, the exact conditions of the known defects, none of which mentions the type of the string:
         F-C18-1 `C18X_attr_list_reads_atomic_text`, `C18X_attr_list_reads_atomic_child_tail`,
         `C18X_attr_list_reads_atomic_tail`, `C18X_attr_list_only_loses`; F-C18-2 `C18X_toc_replaces_marker_element` (the tail of the replaced
         element is lost as well); F-C18-4 `C18X_footnotes_place_marker`; each with its kernel-checked witness.
Part 3.  The HTML stash, from a preprocessor to the output, every flag set: `C18X_convertX_from_prepared` (`convertX` is
         `convertFromX` — the pipeline from the block parser on — applied to what the preprocessors hand over),
         `C18X_stash_roundtrip`, `C18X_stash_roundtrip_exact` (an entry stored before the block parser and referenced by
         a placeholder paragraph comes out verbatim, once, where the placeholder was), `C18X_stash_roundtrip_inline`
         (the placeholder among the words of a paragraph), the boundary
         `C18X_stash_roundtrip_needs_no_stx`.
Part 4.  Priority order on the extension registries, every flag set: `C18X_stage_order` (the iteration order of the
         five registries built from the generated registration table, with the priorities), `C18X_treeX_runs_in_registry_order`,
         `C18X_postX_runs_in_registry_order` (`treeX` / `postX` ARE the folds of the named stages over that order).
-/
import MdVerif.Lemmas.AtomicXRun
import MdVerif.Lemmas.AtomicXStages
import MdVerif.Lemmas.AtomicXTree
import MdVerif.Lemmas.AtomicXStash

namespace MdVerif.C18X
open Py Probe AtomicX

/-! ### Part 1: the inline tree processor with the extension patterns -/

/-- **`InlineProcessor.run` with the patterns of the extensions leaves every `AtomicString` alone.**  For EVERY
    pattern table (`xc.table`: in particular the eight tables `InlineX.table footnotes wikilinks nl2br` of the
    extension pipeline, core patterns plus footnote 175, wikilink 75, nl 5 — but the statement does not depend on which
    patterns are registered), any footnote keys, reference definitions and `ESCAPED_CHARS`, any tree and any HTML
    stash, when the run ends (the model's fuel is not exhausted):

    * the input tree is still there inside the result (`Probe.Emb`, unfolded by `C18_emb_unfold`): every element keeps
      its tag, its attributes and its place among its siblings; what the run may do AROUND an atomic string is: insert
      new elements between the old children (the elements made from a non-atomic text go in front of the children, the
      elements made from a non-atomic tail go after the element) and rewrite the non-atomic texts and tails; every
      text that was an `AtomicString` is the same string, in text position of the same element, still an
      `AtomicString`, and so is every `AtomicString` tail that does not contain the inline-placeholder prefix
      `STX klzzwxh:`;
    * hence the list of atomic strings of the input in document order (`atomicKept`: atomic tails holding a placeholder
      prefix apart) is a subsequence of the list of atomic strings of the result (`atomicTexts`; the result has more of
      them: the texts of the `code` elements the backtick pattern makes);
    * when no atomic tail of the input holds the prefix (`cleanTails`: always so for text that comes from a document,
      `STX` is removed by `normalize_whitespace`), that is the full list `atomicTexts tree`. -/
theorem C18X_atomic_untouched_runX (xc : InlineX.XCfg) (tree : Node) (html : List Str) (t : Node) (x : InlineX.XSt)
    (h : InlineX.runX xc tree html = some (t, x)) :
    Emb tree t ∧ List.Sublist (atomicKept tree) (atomicTexts t) ∧
    (cleanTails tree = true → List.Sublist (atomicTexts tree) (atomicTexts t)) := by
  have he := runX_emb xc tree html t x h
  refine ⟨he, emb_atomic tree t he, fun hc => ?_⟩
  rw [← atomicKept_of_clean tree hc]
  exact emb_atomic tree t he

/-- **…at every depth, element by element.**  Every element `a` of the input tree has a counterpart `b` in the output
    tree with the same tag and attributes, the same text still atomic when the text of `a` was atomic, and the same
    tail still atomic when the tail of `a` was atomic and free of the placeholder prefix. -/
theorem C18X_atomic_everywhere_runX (xc : InlineX.XCfg) (tree : Node) (html : List Str) (t : Node) (x : InlineX.XSt)
    (h : InlineX.runX xc tree html = some (t, x)) :
    ∀ a ∈ elems tree, ∃ b ∈ elems t, b.tag = a.tag ∧ b.attrs = a.attrs ∧
      (a.textAtomic = true → b.text = a.text ∧ b.textAtomic = true) ∧
      (a.tailAtomic = true → contains (a.tail.getD []) Inline.phPrefix = false →
        b.tail = a.tail ∧ b.tailAtomic = true) := by
  intro a ha
  obtain ⟨b, hb, hab⟩ := StashAtomic.emb_elems tree t (runX_emb xc tree html t x h) a ha
  obtain ⟨h1, h2, h3, h4, _⟩ := (StashAtomic.emb_iff a b).1 hab
  exact ⟨b, hb, h1, h2, h3, h4⟩

/-- a tree with atomic and non-atomic strings side by side, each full of the syntax of the three inline extensions
    (`[^1]` with footnote `1` defined, `[[w]]`, a line feed) -/
def probeTreeX : Node :=
  { tag := .name "div".toList, children := [
      { tag := .name "p".toList, text := some "*a* [^1] [[w]]\nz".toList, textAtomic := true, children := [
        { tag := .name "span".toList, text := some "[[b]]".toList, tail := some "*c* [^1]\n[[w]]".toList, tailAtomic := true },
        { tag := .name "i".toList, text := some "[d](e)[^1]".toList, textAtomic := true,
          tail := some "[[f]] [^1]\ng".toList }] }] }

/-- non-vacuity: on `probeTreeX`, with every inline extension on, the run ends; the three atomic strings are
    unchanged and still atomic (they are all the atomic strings of the result), the non-atomic text of the `span`
    became a wiki link, the non-atomic tail of the `i` a wiki link, a footnote reference and a line break -/
example :
    (match InlineX.runX { table := InlineX.table true true true, fnKeys := ["1".toList] } probeTreeX with
     | some (t, _) =>
       atomicTexts t == ["*a* [^1] [[w]]\nz".toList, "*c* [^1]\n[[w]]".toList, "[d](e)[^1]".toList] &&
       atomicTexts probeTreeX == atomicTexts t && cleanTails probeTreeX &&
       (t.children.map (fun p => p.children.map (fun c => (c.tag, c.children.map (·.tag))))) ==
         [[(.name "span".toList, [.name "a".toList]), (.name "i".toList, []), (.name "a".toList, []),
           (.name "sup".toList, [.name "a".toList]), (.name "br".toList, [])]]
     | none => false) = true := by decide +kernel

/-- boundary (tails only, as in the core engine): an atomic tail that contains the placeholder prefix goes through the
    placeholder splitting of `__processPlaceholders` and comes back as a plain `str` (`cleanTails` is false) -/
example :
    (match InlineX.runX { table := InlineX.table true true true }
        { tag := .name "div".toList, children := [{ tag := .name "p".toList, children := [
          { tag := .name "span".toList, tail := some ("x".toList ++ Inline.phPrefix ++ "y".toList), tailAtomic := true }] }] } with
     | some (⟨_, _, _, _, [⟨_, _, _, _, [span], _, _⟩], _, _⟩, _) =>
       span.tail == some ("x".toList ++ Inline.phPrefix ++ "y".toList) && span.tailAtomic == false
     | _ => false) = true ∧
    cleanTails { tag := .name "div".toList, children := [{ tag := .name "p".toList, children := [
          { tag := .name "span".toList, tail := some ("x".toList ++ Inline.phPrefix ++ "y".toList), tailAtomic := true }] }] }
      = false := by decide +kernel

/-! ### Part 2: the tree processors of the extensions and `unescape`, any tree -/

section treeprocs
open PipelineX

/-- **`AbbrTreeprocessor` keeps every `AtomicString`** (abbr skips them: `isinstance(text, AtomicString)`).  With ANY
    table of abbreviations, on ANY tree: the input tree is still there inside the result (`Probe.Emb`: same tags and
    attributes, `abbr` elements only inserted between the old children; every atomic text and tail the same string
    in the same place, still atomic), and the atomic strings of the input are, in order, among those of the result
    (which has more: the texts of the new `abbr` elements are atomic). -/
theorem C18X_abbr_keeps_atomic (abbrs : List (Str × Str)) (root : Node) :
    Emb root (AbbrTree.run abbrs root) ∧
    List.Sublist (atomicTexts root) (atomicTexts (AbbrTree.run abbrs root)) :=
  ⟨abbr_emb abbrs root, abbr_sub abbrs root⟩

-- `HTML` is an abbreviation; it occurs in an atomic text, an atomic tail and a plain tail: only the last is wrapped
example :
    atomicTexts (AbbrTree.run [("HTML".toList, "Hyper".toList)]
      { tag := .name "div".toList, children := [
        { tag := .name "p".toList, text := some "the HTML".toList, textAtomic := true, children := [
          { tag := .name "i".toList, tail := some " HTML".toList, tailAtomic := true },
          { tag := .name "b".toList, tail := some " HTML!".toList }] }] }) =
      ["the HTML".toList, " HTML".toList, "HTML".toList] := by decide +kernel

/-- **`UnescapeTreeprocessor` and atomic strings: what holds.**  `UnescapeTreeprocessor.run` unescapes
    (`STX digits ETX` ↦ the character) EVERY text except the text of a `code` element and every tail — it does not ask
    whether a string is an `AtomicString` — and assigns the result of `re.sub`, a plain `str`.  So the type is lost
    (no later stage reads it: unescape is the last tree processor) and the content is changed exactly when the string
    holds an escape placeholder.  On ANY tree: when no atomic string contains `STX`, every atomic string of the input
    is, as a string, in the same order, among the strings of the result (`allStrings`: every text and tail, `None`
    counted as `''`).  (`code` texts: `C03X_unescape_keeps_code`.) -/
theorem C18X_unescape_atomic (n n' : Node) (h : TreeProc.unescapeTree n = some n')
    (hs : ∀ s ∈ atomicTexts n, TreeProc.STX ∉ s) : List.Sublist (atomicTexts n) (allStrings n') :=
  unescapeTree_sub n n' h hs

-- the excluded point: an atomic text `STX 65 ETX b` comes out as `Ab`, a plain `str`; the same text in `code` stays
example :
    (TreeProc.unescapeTree { tag := .name "p".toList, text := some ([TreeProc.STX] ++ "65".toList ++ [TreeProc.ETX] ++ "b".toList), textAtomic := true }).map
      (fun n => (n.text, n.textAtomic)) = some (some "Ab".toList, false) ∧
    (TreeProc.unescapeTree { tag := .name "code".toList, text := some ([TreeProc.STX] ++ "65".toList ++ [TreeProc.ETX] ++ "b".toList), textAtomic := true }).map
      (fun n => (n.text, n.textAtomic)) =
      some (some ([TreeProc.STX] ++ "65".toList ++ [TreeProc.ETX] ++ "b".toList), true) := by
  decide +kernel

/-! #### attr_list (F-C18-1) -/

/-- **F-C18-1, exactly, for the text of a block-level element.**  After `AttrListTreeprocessor` has visited a
    block-level element (`md.is_block_level(tag)`), its text is `textCut tag attrs text` — the text with the attribute
    list at its end removed (`HEADER_RE` for `h1`–`h6`, `dt`, `td`, `th`, else `BLOCK_RE`; trailing `#`s removed for
    headings), a plain `str` — exactly when (1) the rule reads the text (`readsText`: the element has no children, or
    its last child has no tail; for an `li`: see `readsText`), (2) the text is not empty and (3) an attribute list is
    found and applied (`textCut … ≠ text`); otherwise text and type are unchanged.  `ta` — whether the text is an
    `AtomicString` — does not occur in the condition: the processor never asks. -/
theorem C18X_attr_list_reads_atomic_text (bl : List Str) (ov : Option Str) (tag : Tag) (attrs : List (Str × Str))
    (text : Option Str) (ta : Bool) (children : List Node) (tail : Option Str) (tla : Bool)
    (hb : TreeProc.isBlockLevel bl tag = true) :
    ((AttrListTree.attrNode bl ov ⟨tag, attrs, text, ta, children, tail, tla⟩).text,
     (AttrListTree.attrNode bl ov ⟨tag, attrs, text, ta, children, tail, tla⟩).textAtomic) =
      if readsText tag children && Node.truthy text && decide ((textCut tag attrs (text.getD [])).2 ≠ text.getD [])
      then (some (textCut tag attrs (text.getD [])).2, false) else (text, ta) :=
  attrNode_block_text bl ov tag attrs text ta children tail tla hb

/-- **…for the tail of a child of a block-level element.**  When the rule of a block-level element cuts the tail of
    its child `j` (`blockRule … = (_, _, some (j, t))`: the child then gets `t` as a plain `str`), that child has a
    non-empty tail at whose end an attribute list was found: `t = textCut tag attrs tail ≠ tail` — again whatever the
    type of the tail. -/
theorem C18X_attr_list_reads_atomic_child_tail (tag : Tag) (attrs : List (Str × Str)) (text : Option Str)
    (children : List Node) (j : Nat) (t : Str)
    (h : (AttrListTree.blockRule tag attrs text children).2.2 = some (j, t)) :
    ∃ c, children[j]? = some c ∧ Node.truthy c.tail = true ∧ t = (textCut tag attrs (c.tail.getD [])).2 ∧
      t ≠ c.tail.getD [] :=
  blockRule_tail tag attrs text children j t h

/-- **…for the tail of an inline element.**  After the visit of an element that is not block-level (and whose tail
    its parent did not cut): the tail is `tail[m.end():] + remainder`, a plain `str`, exactly when it is not empty and
    `INLINE_RE` matches at its start; otherwise tail and type are unchanged.  `tla` does not occur in the condition. -/
theorem C18X_attr_list_reads_atomic_tail (bl : List Str) (tag : Tag) (attrs : List (Str × Str)) (text : Option Str)
    (ta : Bool) (children : List Node) (tail : Option Str) (tla : Bool)
    (hb : TreeProc.isBlockLevel bl tag = false) :
    ((AttrListTree.attrNode bl none ⟨tag, attrs, text, ta, children, tail, tla⟩).tail,
     (AttrListTree.attrNode bl none ⟨tag, attrs, text, ta, children, tail, tla⟩).tailAtomic) =
      if Node.truthy tail && (AttrList.inlineMatch (tail.getD [])).isSome
      then (some (AttrList.inlineApply attrs (tail.getD [])).2, false) else (tail, tla) :=
  attrNode_inline_tail bl tag attrs text ta children tail tla hb

/-- **the positive complement: `AttrListTreeprocessor` leaves every atomic string alone when none of them holds an
    attribute list.**  On ANY tree, with any set of block-level tags: if for every atomic string `s` of the tree
    neither `BLOCK_RE` nor `HEADER_RE` finds an attribute list at its end and `INLINE_RE` does not match at its start
    (`attrInert s`; in particular when `s` contains no `{`), then the atomic strings of the result are exactly those
    of the input, in the same order (the processor never makes one, so none was lost or changed). -/
theorem C18X_attr_list_keeps_atomic (bl : List Str) (root : Node)
    (h : ∀ s ∈ atomicTexts root, attrInert s = true) :
    atomicTexts (AttrListTree.run bl root) = atomicTexts root :=
  attrList_inert bl root h

/-- **…and it never corrupts one.**  On ANY tree, with no hypothesis: the atomic strings of the result are, in the
    same order, among those of the input.  `AttrListTreeprocessor` makes no atomic string, and a string it cuts
    becomes a plain `str`: an `AtomicString` either survives unchanged or stops being one (F-C18-1) — it is never
    still marked atomic with a different content.  With `C18X_attr_list_keeps_atomic`: equality when every atomic
    string is `attrInert`; `C18X_attr_list_witness`: strict loss otherwise. -/
theorem C18X_attr_list_only_loses (bl : List Str) (root : Node) :
    List.Sublist (atomicTexts (AttrListTree.run bl root)) (atomicTexts root) :=
  attrList_sub bl root

/-- …in particular when no atomic string contains a brace -/
theorem C18X_attr_list_keeps_atomic_no_brace (bl : List Str) (root : Node)
    (h : ∀ s ∈ atomicTexts root, '{' ∉ s) :
    atomicTexts (AttrListTree.run bl root) = atomicTexts root :=
  attrList_inert bl root (fun s hs => attrInert_of_no_brace (h s hs))

-- the hypothesis on concrete strings: braces that are no attribute list at the end / start are inert
example : attrInert "*x* {: .c } y & z".toList = true ∧ attrInert "a {b} c".toList = true ∧
    attrInert "x\n{: .c }".toList = false ∧ attrInert "{: .k } rest".toList = false ∧
    attrInert "T {: #i }".toList = false := by decide +kernel

/-- **F-C18-1, the witnesses** (the real implementation gives the same trees): an atomic text `x⏎{: .c }` of a `p`, an
    atomic tail `{: .k } rest` of a `span`, an atomic tail ` T {: #i }` of the last child of an `h2`: the attribute
    list is consumed and applied, the rest is a plain `str`, no atomic string is left -/
theorem C18X_attr_list_witness :
    AttrListTree.run TreeProc.defaultBlockLevel
        { tag := .name "div".toList, children := [{ tag := .name "p".toList, text := some "x\n{: .c }".toList, textAtomic := true }] } =
      { tag := .name "div".toList, children := [
        { tag := .name "p".toList, attrs := [("class".toList, "c".toList)], text := some "x".toList, textAtomic := false }] } ∧
    AttrListTree.run TreeProc.defaultBlockLevel
        { tag := .name "div".toList, children := [{ tag := .name "p".toList, children :=
          [{ tag := .name "span".toList, tail := some "{: .k } rest".toList, tailAtomic := true }] }] } =
      { tag := .name "div".toList, children := [{ tag := .name "p".toList, children :=
          [{ tag := .name "span".toList, attrs := [("class".toList, "k".toList)], tail := some " rest".toList, tailAtomic := false }] }] } ∧
    AttrListTree.run TreeProc.defaultBlockLevel
        { tag := .name "div".toList, children := [{ tag := .name "h2".toList, children :=
          [{ tag := .name "em".toList, text := some "t".toList, tail := some " T {: #i }".toList, tailAtomic := true }] }] } =
      { tag := .name "div".toList, children := [{ tag := .name "h2".toList, attrs := [("id".toList, "i".toList)], children :=
          [{ tag := .name "em".toList, text := some "t".toList, tail := some " T".toList, tailAtomic := false }] }] } :=
  ⟨sameTree_eq _ _ (by decide +kernel), sameTree_eq _ _ (by decide +kernel), sameTree_eq _ _ (by decide +kernel)⟩

/-! #### toc (F-C18-2) -/

/-- **F-C18-2, exactly.**  `replace_marker` looks at every child `c` of every element it reaches (it does not go
    below headings, `pre` and `code`): `c` is replaced by the table of contents exactly when `isMarkerEl c` — `c` is no
    heading, `pre` or `code`, has no children, and its text, stripped, is the marker `[TOC]`.  Neither `c.textAtomic`
    nor `c.tailAtomic` occurs in the condition; the whole element goes, its TAIL included (`p[i] = elem`), so a text
    that follows an inline element whose text is `[TOC]` is lost, atomic or not. -/
theorem C18X_toc_replaces_marker_element (div c : Node) (r : List Node) :
    TocTree.replKids div (c :: r) =
      (if isMarkerEl c then div
       else if TocTree.isHeaderTag c.tag || c.tag == .name "pre".toList || c.tag == .name "code".toList then c
       else TocTree.replNode div c) :: TocTree.replKids div r :=
  replKids_cons div c r

/-- **the positive complement: `TocTreeprocessor` leaves every atomic string alone when no element is replaced.**
    Whenever it answers, on ANY tree in which no element below the root is a marker element (`markerFree`: in
    particular when no text, stripped, equals `[TOC]`), the atomic strings of the result are exactly those of the
    input, in the same order (headings only get ids). -/
theorem C18X_toc_keeps_atomic (env : TocTree.Env) (bl : List Str) (root r : Node)
    (h : TocTree.run env bl root = .ok r) (hf : markerFree root = true) : atomicTexts r = atomicTexts root :=
  toc_free env bl root r h hf

-- the hypothesis on a concrete tree: `[TOC]` with other text around it, or as the text of `code`, is no marker
example : markerFree { tag := .name "div".toList, children := [
      { tag := .name "p".toList, text := some "see [TOC] below".toList, textAtomic := true },
      { tag := .name "pre".toList, children := [{ tag := .name "code".toList, text := some "[TOC]".toList, textAtomic := true }] }] }
    = true := by decide +kernel

/-- **F-C18-2, the witnesses** (the real implementation gives the same trees): a `p` whose atomic text is `[TOC]` is
    replaced by the table of contents; an `em` with the plain text `[TOC]` is replaced and its atomic tail ` more` is
    gone (`*[TOC]* more text` loses ` more text` in `Markdown.convert`) -/
theorem C18X_toc_witness :
    (match TocTree.run { fmt := .xhtml, post := fun s => some s } TreeProc.defaultBlockLevel
        { tag := .name "div".toList, children := [{ tag := .name "p".toList, text := some "[TOC]".toList, textAtomic := true }] } with
     | .ok r => Ser.serialize .xhtml r == "<div><div class=\"toc\">\n<ul></ul>\n</div>\n</div>".toList && atomicTexts r == []
     | _ => false) = true ∧
    (match TocTree.run { fmt := .xhtml, post := fun s => some s } TreeProc.defaultBlockLevel
        { tag := .name "div".toList, children := [{ tag := .name "p".toList, children :=
          [{ tag := .name "em".toList, text := some "[TOC]".toList, tail := some " more".toList, tailAtomic := true }] }] } with
     | .ok r => Ser.serialize .xhtml r == "<div><p><div class=\"toc\">\n<ul></ul>\n</div>\n</p></div>".toList &&
         atomicTexts r == []
     | _ => false) = true := by
  decide +kernel

/-! #### footnotes (F-C18-4) -/

/-- **F-C18-4, exactly.**  `findFootnotesPlaceholder` goes through the children of every element in document order;
    for a child `c`: when its text is not empty and contains `///Footnotes Go Here///` the child — with its children
    and its tail — is replaced by the footnote block; else when its tail contains the marker the block is put after
    the child and the tail is dropped.  `hasMarker` is a plain substring test: `c.textAtomic` / `c.tailAtomic` do not
    occur. -/
theorem C18X_footnotes_place_marker (div c : Node) (r : List Node) :
    (FootnotesTree.hasMarker c.text = true → FootnotesTree.placeKids div (c :: r) = some (div :: r)) ∧
    (FootnotesTree.hasMarker c.text = false → FootnotesTree.hasMarker c.tail = true →
      FootnotesTree.placeKids div (c :: r) = some ({ c with tail := none, tailAtomic := false } :: div :: r)) :=
  ⟨placeKids_text div c r, placeKids_tail div c r⟩

/-- **the positive complement: `FootnoteTreeprocessor` leaves the tree alone when no text or tail contains the place
    marker** (`fnFree`): the footnote block is appended to the root and nothing else changes; the atomic strings of
    the result are those of the input with those of the block (there are none in the block `makeFootnotesDiv` builds
    from parsed text) after the children of the root. -/
theorem C18X_footnotes_keeps_atomic (root div : Node) (h : fnFree root = true) :
    FootnotesTree.placeDiv root div = root.append div ∧
    atomicTexts (FootnotesTree.placeDiv root div) =
      (if root.textAtomic then [root.text.getD []] else []) ++ atomicTextsKids root.children ++ atomicTexts div ++
        (if root.tailAtomic then [root.tail.getD []] else []) := by
  rw [placeDiv_free root div h]
  exact ⟨rfl, atomicTexts_append_child root div⟩

example : fnFree { tag := .name "div".toList, children := [
      { tag := .name "p".toList, text := some "// Footnotes Go Here //".toList, textAtomic := true }] } = true := by
  decide +kernel

/-- **F-C18-4, the witness** (the real implementation does the same): a `p` whose atomic text contains the place
    marker is replaced by the footnote block -/
theorem C18X_footnotes_witness :
    FootnotesTree.placeDiv
        { tag := .name "div".toList, children := [
          { tag := .name "p".toList, text := some "a ///Footnotes Go Here/// b".toList, textAtomic := true },
          { tag := .name "p".toList, text := some "z".toList }] }
        { tag := .name "div".toList, attrs := [("class".toList, "footnote".toList)] } =
      { tag := .name "div".toList, children := [
          { tag := .name "div".toList, attrs := [("class".toList, "footnote".toList)] },
          { tag := .name "p".toList, text := some "z".toList }] } :=
  sameTree_eq _ _ (by decide +kernel)

end treeprocs

/-! ### Part 3: the HTML stash from a preprocessor to the output -/

section stash
open PipelineX StashX FencedPipe

/-- every modelled extension enabled -/
def allExts : Exts :=
  { fencedCode := true, tables := true, admonition := true, defList := true, abbr := true, footnotes := true,
    saneLists := true, nl2br := true, wikilinks := true, attrList := true, toc := true }

/-- **`convertX` from the block parser on.**  `convertFromX x cfg text stash` is everything `Markdown.convert` does
    after the preprocessors — block parser, the tree processors of `treeX`, serializer, the postprocessors of
    `finishX` — as a function of the text the preprocessors hand to the block parser and of what they stored in
    `md.htmlStash`.  `convertX` is `convertFromX` applied to the result of `prepareX` (normalize_whitespace,
    fenced_code_block, html_block); a third-party preprocessor that stores an entry and leaves its placeholder in the
    text changes `text` and `stash` and nothing else. -/
theorem C18X_convertX_from_prepared (x : Exts) (cfg : Pipeline.Cfg) (src : Str) :
    convertX x cfg src =
      if src.contains '<' then .ood
      else if x.unsupported then .ood
      else if Normalize.isBlankDoc src then .ok []
      else
        match prepareX x cfg src with
        | .oof => .oof
        | .ood => .ood
        | .ok (text, stash) => convertFromX x cfg text stash :=
  convertX_eq_from x cfg src

/-- **An entry stored in the HTML stash before the block parser reaches the output verbatim, exactly once, where its
    placeholder was put — with ANY of the 2048 sets of extensions enabled.**  The mechanism of `fenced_code`, for any
    preprocessor: it stores `raw` (`md.htmlStash.store(raw)` returns the placeholder of index `i`: `stash[i] = raw`;
    the stash may hold any other entries) and leaves the placeholder as a paragraph of its own among the paragraphs
    of the document (`paras`: blocks separated by blank lines; `pre`, `post`: any number of one-line paragraphs of
    letters and spaces).  Then `Markdown.convert` returns the paragraphs as `<p>…</p>` lines and, at the place of the
    placeholder, `restored raw`: the entry itself — not escaped, not inline-processed, not touched by attr_list,
    abbr, toc, footnotes, nl2br, wikilinks — without the `<p>` wrapper when it is block-level HTML
    (`RawHtmlPostprocessor.isblocklevel`), inside the wrapper otherwise; the final `.strip()` of `convert` applies to
    the whole document.  Hypothesis on the entry: it contains no `STX` (so no placeholder and no `STX…ETX` token of a
    later postprocessor; `C18X_stash_roundtrip_needs_no_stx`).  Nothing else: the "API-hazard" entries of
    `C10X_rawhtml_entry_conditions_needed`, the empty string and `<p>`, are covered — they only bite together with
    texts that hold `STX` (instances below). -/
theorem C18X_stash_roundtrip (x : Exts) (tab : Nat) (htab : 0 < tab) (fmt : Ser.Fmt) (pre post : List Str)
    (stash : List Str) (i : Nat) (raw : Str) (hpre : pre.all isParaLine = true) (hpost : post.all isParaLine = true)
    (hi : stash[i]? = some raw) (hraw : Post.STX ∉ raw) :
    convertFromX x { tab := tab, fmt := fmt } (paras (pre ++ htmlPlaceholder i :: post)) stash =
      .ok (strip (docHtml pre (restored raw) post)) :=
  convertFromX_stash x tab htab fmt pre post stash i raw (fun p hp => List.all_eq_true.1 hpre p hp)
    (fun p hp => List.all_eq_true.1 hpost p hp) hi hraw

/-- **…character for character** when the entry is markup from `<` to `>` (as every block-level entry that
    `fenced_code` or the raw-HTML preprocessor stores), or is not block-level (then it sits in `<p>`…`</p>`): the
    final strip removes nothing, the output is exactly the paragraphs and the entry, one per line. -/
theorem C18X_stash_roundtrip_exact (x : Exts) (tab : Nat) (htab : 0 < tab) (fmt : Ser.Fmt) (pre post : List Str)
    (stash : List Str) (i : Nat) (raw : Str) (hpre : pre.all isParaLine = true) (hpost : post.all isParaLine = true)
    (hi : stash[i]? = some raw) (hraw : Post.STX ∉ raw)
    (hshape : Post.isBlockLevelHtml TreeProc.defaultBlockLevel raw = false ∨ ∃ r, raw = '<' :: r ++ ['>']) :
    convertFromX x { tab := tab, fmt := fmt } (paras (pre ++ htmlPlaceholder i :: post)) stash =
      .ok (docHtml pre (restored raw) post) := by
  rw [C18X_stash_roundtrip x tab htab fmt pre post stash i raw hpre hpost hi hraw]
  congr 1
  apply strip_docHtml
  unfold restored
  rcases hshape with h | ⟨r, rfl⟩
  · rw [h]
    simp only [Bool.false_eq_true, if_false]
    exact ⟨"p>".toList ++ raw ++ "</p>".toList, by simp [par], "p>".toList ++ raw ++ "</p".toList, by simp⟩
  · split
    · exact ⟨r ++ ['>'], rfl, r, rfl⟩
    · exact ⟨"p>".toList ++ ('<' :: r ++ ['>']) ++ "</p>".toList, by simp [par],
        "p>".toList ++ ('<' :: r ++ ['>']) ++ "</p".toList, by simp⟩

/-- **…and exactly where the placeholder was put, inside running text.**  The same with the placeholder among the
    words of a paragraph: `a` + placeholder + `b` (`slot a i b`; `a`, `b` letters and spaces, not both empty, `a` not
    starting with a space).  With ANY set of extensions enabled the output is that paragraph with the entry between
    `a` and `b` — verbatim, once, nothing escaped or added, block-level or not (the `<p>` wrapper stays: the
    placeholder is not alone in it) — and the other paragraphs around it. -/
theorem C18X_stash_roundtrip_inline (x : Exts) (tab : Nat) (htab : 0 < tab) (fmt : Ser.Fmt) (pre post : List Str)
    (stash : List Str) (i : Nat) (raw a b : Str) (hpre : pre.all isParaLine = true) (hpost : post.all isParaLine = true)
    (ha : CodeLaw.isSpanContext a = true) (hb : b.all CodeLaw.isWordSp = true) (hab : a ≠ [] ∨ b ≠ [])
    (hi : stash[i]? = some raw) (hraw : Post.STX ∉ raw) :
    convertFromX x { tab := tab, fmt := fmt } (paras (pre ++ slot a i b :: post)) stash =
      .ok (docHtml pre (par (a ++ raw ++ b)) post) :=
  convertFromX_slot x tab htab fmt pre post stash i raw a b (fun p hp => List.all_eq_true.1 hpre p hp)
    (fun p hp => List.all_eq_true.1 hpost p hp) ha hb hab hi hraw

-- the hypotheses on a concrete input, and what the model computes there with every extension on (by the kernel)
example : CodeLaw.isSpanContext "see ".toList = true ∧ " here".toList.all CodeLaw.isWordSp = true ∧
    ("see ".toList ≠ [] ∨ " here".toList ≠ []) ∧ ["<b title=\"&\">*x*</b>".toList][0]? = some "<b title=\"&\">*x*</b>".toList ∧
    Post.STX ∉ "<b title=\"&\">*x*</b>".toList ∧
    slot "see ".toList 0 " here".toList = "see ".toList ++ htmlPlaceholder 0 ++ " here".toList := by
  refine ⟨by decide, by decide, Or.inl (by simp), rfl, by decide, by simp [slot]⟩
example : convertFromX allExts {} (paras ["Some text".toList, slot "see ".toList 0 " here".toList])
      ["<b title=\"&\">*x*</b>".toList] =
    .ok "<p>Some text</p>\n<p>see <b title=\"&\">*x*</b> here</p>".toList := by decide +kernel

-- the hypotheses on a concrete input: every extension on; two paragraphs around the placeholder of entry 1; the entry
-- is block-level HTML full of Markdown, `&`, an attribute list, the toc marker, the footnote place marker
example : 0 < 4 ∧ ["Some text".toList].all isParaLine = true ∧ ["More".toList].all isParaLine = true ∧
    ["<i>d</i>".toList, "<div>*x* & [TOC] {: .c }\n///Footnotes Go Here///</div>".toList][1]? =
      some "<div>*x* & [TOC] {: .c }\n///Footnotes Go Here///</div>".toList ∧
    Post.STX ∉ "<div>*x* & [TOC] {: .c }\n///Footnotes Go Here///</div>".toList ∧
    restored "<div>*x* & [TOC] {: .c }\n///Footnotes Go Here///</div>".toList =
      "<div>*x* & [TOC] {: .c }\n///Footnotes Go Here///</div>".toList ∧
    restored "*x*".toList = "<p>*x*</p>".toList := by decide +kernel
-- … and what the model computes there (by the kernel, not by the theorem)
example : convertFromX allExts {} (paras ["Some text".toList, htmlPlaceholder 1, "More".toList])
      ["<i>d</i>".toList, "<div>*x* & [TOC] {: .c }\n///Footnotes Go Here///</div>".toList] =
    .ok "<p>Some text</p>\n<div>*x* & [TOC] {: .c }\n///Footnotes Go Here///</div>\n<p>More</p>".toList := by
  decide +kernel

/-- the "API-hazard" entries — the empty string, `<p>` — in this setting: they come out as stored (every extension
    on; `Markdown.convert` of the implementation with a probe preprocessor answers the same) -/
example :
    convertFromX allExts {} (paras [htmlPlaceholder 0]) [[]] = .ok "<p></p>".toList ∧
    convertFromX allExts {} (paras ["a".toList, htmlPlaceholder 0]) ["<p>".toList] = .ok "<p>a</p>\n<p>".toList := by
  decide +kernel

/-- **why the entry must be free of `STX`** (kernel-checked, every extension on): an entry that holds the placeholder
    of another entry is expanded again (this is how nested raw HTML is put back) — what reaches the output is not
    what was stored; an entry `STX amp ETX` is rewritten by `AndSubstitutePostprocessor`.  With `STX` in entries and
    text together the restore can even stop at a fixed point that still holds placeholders
    (`C10X_rawhtml_entry_conditions_needed`: there the empty entry and `<p>` are needed). -/
theorem C18X_stash_roundtrip_needs_no_stx :
    convertFromX allExts {} (paras ["a".toList, htmlPlaceholder 1])
        ["<b>".toList, "x".toList ++ htmlPlaceholder 0] = .ok "<p>a</p>\n<p>x<b></p>".toList ∧
    convertFromX allExts {} (paras ["a".toList, htmlPlaceholder 0]) [Post.ampSubstitute] =
      .ok "<p>a</p>\n<p>&</p>".toList := by
  decide +kernel

/-- the mechanism at work in `fenced_code` (kernel-checked): what the preprocessors hand over for a fenced block
    between two paragraphs, and the output with every extension on -/
example :
    (match prepareX { fencedCode := true } {} "Some text\n\n```\n*x*\n```\n\nMore".toList with
     | .ok (text, stash) => text == "Some text\n\n\n".toList ++ htmlPlaceholder 0 ++ "\n\n\nMore\n\n".toList &&
         stash == ["<pre><code>*x*\n</code></pre>".toList]
     | _ => false) = true ∧
    convertX allExts {} "Some text\n\n```\n*x*\n```\n\nMore".toList =
      .ok "<p>Some text</p>\n<pre><code>*x*\n</code></pre>\n<p>More</p>".toList := by
  decide +kernel

end stash

/-! ### Part 4: processors run in registry priority order, every flag set -/

section order
open PipelineX StagesX Dispatch

/-- **The stage order of the extension pipeline is the descending-priority order of the registries, for every one of
    the 2048 flag sets.**  `originsOf x` = the core and the module names of the enabled extensions;
    `Dispatch.order origins reg` / `StagesX.prios origins reg` = the iteration order (names / names with priorities)
    of the registry `reg` built, with the registry model of C13, from the registration table that the translator
    regenerates from the source (`Generated.registrations`).  For every flag set `x`:

    * tree processors: footnote 50 · inline 20 · footnote-duplicate 15 · prettify 10 · attr_list 8 · abbr 7 · toc 5 ·
      unescape 0, each present exactly when its extension is enabled (`treePrios x`) — strictly descending priorities;
      this is the order in which `treeX` applies them (`treeNames x`, `C18X_treeX_runs_in_registry_order`);
    * postprocessors: raw_html 30 · footnote 25 · amp_substitute 20 (`postPrios x`), strictly descending — the order
      of `postX` (`C18X_postX_runs_in_registry_order`);
    * preprocessors: normalize_whitespace · fenced_code_block · html_block (`preNames x`, the order of `prepareX`);
    * block processors: `blockNames x` (admonition first, paragraph last; the order the dispatcher of
      `parseBlocksXT` asks them, header of `Model/PipelineX.lean`);
    * inline patterns: read off the registry (`tableOf`, names to table entries), the order is the pattern table
      `InlineX.table footnotes wikilinks nl2br` that `treeX` hands to `runX`.

    A changed priority or a new registration in the source changes `Generated.registrations` and breaks this
    theorem. -/
theorem C18X_stage_order (x : Exts) :
    (prios (originsOf x) "treeprocessors" = treePrios x ∧
      order (originsOf x) "treeprocessors" = treeNames x ∧
      List.Pairwise (fun p q : String × Int => p.2 > q.2) (treePrios x)) ∧
    (prios (originsOf x) "postprocessors" = postPrios x ∧
      order (originsOf x) "postprocessors" = postNames x ∧
      List.Pairwise (fun p q : String × Int => p.2 > q.2) (postPrios x)) ∧
    order (originsOf x) "preprocessors" = preNames x ∧
    order (originsOf x) "blockprocessors" = blockNames x ∧
    tableOf (order (originsOf x) "inlinePatterns") = InlineX.table x.footnotes x.wikilinks x.nl2br :=
  ⟨⟨prios_tree x, order_tree x, treePrios_desc x⟩, ⟨prios_post x, order_post x, postPrios_desc x⟩,
   order_pre x, order_block x, order_inline x⟩

/-- **`treeX` runs the tree processors in registry order.**  For every flag set, configuration and source: the stages
    of `treeX` after the block parser are exactly the FOLD (`runStages`: each processor applied to the result of the
    previous one, `for treeprocessor in self.treeprocessors`) of the named processors (`treeStage`: `"footnote"` ↦
    `FootnoteTreeprocessor`, `"inline"` ↦ `InlineProcessor` with the pattern table read off the `inlinePatterns`
    registry, `"footnote-duplicate"`, `"prettify"`, `"attr_list"`, `"abbr"`, `"toc"`, `"unescape"`) over the iteration
    order of the `treeprocessors` registry of the enabled extensions.  Which stages run and in which order is
    decided by the registry alone; the flags only configure the processors. -/
theorem C18X_treeX_runs_in_registry_order (x : Exts) (cfg : Pipeline.Cfg) (src : Str) :
    treeX x cfg src =
      match prepareX x cfg src with
      | .oof => .oof
      | .ood => .ood
      | .ok (text, stash) =>
        match BlockExt.parseDocumentXT x.tables x.blockCfg cfg.tab text with
        | none => .oof
        | some (root, log) =>
          toTreeResult (runStages ((order (originsOf x) "treeprocessors").map
            (treeStage x cfg (tableOf (order (originsOf x) "inlinePatterns"))))
            (.ok ⟨root, log, stash, Footnotes.State.empty⟩)) :=
  treeX_eq_stages x cfg src

/-- **`postX` runs the postprocessors in registry order**: it is the fold of `"raw_html"` ↦ `RawHtmlPostprocessor`,
    `"footnote"` ↦ `FootnotePostprocessor`, `"amp_substitute"` ↦ `AndSubstitutePostprocessor` over the iteration order
    of the `postprocessors` registry of the enabled extensions -/
theorem C18X_postX_runs_in_registry_order (x : Exts) (cfg : Pipeline.Cfg) (stash : List Str) (text : Str) :
    postX x cfg stash text =
      runPost ((order (originsOf x) "postprocessors").map (postStage cfg stash)) (some text) :=
  postX_eq_stages x cfg stash text

-- the orders on a concrete flag set (footnotes, attr_list, toc, fenced_code, wikilinks), by the kernel from the
-- generated table
example :
    order (originsOf { footnotes := true, attrList := true, toc := true, fencedCode := true, wikilinks := true })
      "treeprocessors" = ["footnote", "inline", "footnote-duplicate", "prettify", "attr_list", "toc", "unescape"] ∧
    order (originsOf { footnotes := true, attrList := true, toc := true, fencedCode := true, wikilinks := true })
      "postprocessors" = ["raw_html", "footnote", "amp_substitute"] ∧
    order (originsOf { footnotes := true, attrList := true, toc := true, fencedCode := true, wikilinks := true })
      "preprocessors" = ["normalize_whitespace", "fenced_code_block", "html_block"] := by decide +kernel

-- a stage name that is not in the registry order is not run: with every extension off the fold has three stages
example : (order (originsOf {}) "treeprocessors").map (fun n => n) = ["inline", "prettify", "unescape"] := by
  decide +kernel

end order

end MdVerif.C18X
