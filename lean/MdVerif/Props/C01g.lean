/-
C01 — Canonical Markdown renders to the prescribed structure; nesting and spelling never change the rendering.
Part g: hard breaks.  A paragraph of several lines, the lines separated by hard breaks (`.br`, printed as two spaces
and a newline, rendered `<br />` and a newline), each line made of words, escapes, code spans and two levels of
emphasis — the content of `C01_em_nested` (`Props/C01b.lean`).  `WF` allows `.br` in paragraphs only (not in headings),
not first, not last, not twice in a row, not before a word that starts with a space; `BrDoc` (`Spec/DocFlat2.lean`) is
`Deep2Doc` with hard breaks at the top level of paragraphs, and contains it (`C01_br_covers_deep2`).  Outside: hard
breaks inside emphasis (well-formed, not in `BrDoc`).

    WF d → BrDoc d → Pipeline.convert {} (print d sp) = .ok (spec d)      for ALL spellings `sp`   (`C01_hard_breaks`).

What is new against `C01_em_nested` (lemmas in `Lemmas/DocParse4.lean`):
* the block stage on a paragraph of SEVERAL lines (`C01g_para_lines`): every line after the first may start with
  anything a first line may start with — an escaped `#`, `>`, `-`, `+`, `*`, `_`, digits with an escaped `.`, a code
  span, an emphasis delimiter — and no block processor takes the block or cuts it (no line of a printed paragraph is a
  rule, a Setext underline, a list item, a quote, a reference definition or a heading);
* the inline stage: the line break pattern (index 10, `C01g_break_match`) runs after backtick and escape and before
  the emphasis patterns, so the code spans and escapes of ALL lines are in the stash before the first `<br />`, and the
  emphases of all lines after the last one; `*` emphases of all lines come before `_` emphases of all lines
  (`C01g_para_loop`); every emphasis is closed on its own line, and when the emphasis patterns run the placeholder of
  the `<br />` stands between the lines;
* `__processPlaceholders` on the result: children `<br />` with the next line's plain text as tail, between the
  children of the lines (`C01g_para_resolve`); prettify puts the newline after `<br />` — the tail of a `<br />` is
  `'\n' ++ tail` — and the serializer prints it (`C01g_para_out`).

Tested before proving: `harness/corr/brdoc.py` (generator of such documents; model = spec = real implementation).
-/
import MdVerif.Props.C01b
import MdVerif.Lemmas.DocParse4

namespace MdVerif.DocParse2
open Py Inline Escape DocSpec CodeLaw DocParse Block

/-- **The line break pattern** (index 10 of the inline patterns) on a text whose first `"  \n"` is after `A` (no
    newline in `A`): the three characters become the placeholder of a new stash entry, the element `<br />`; the
    pattern is applied again from the start. -/
theorem C01g_break_match (cfg : Inline.Cfg) (hi : HI) (A R : Str) (hA : '\n' ∉ A) (st : St) :
    applyPattern cfg hi 10 (A ++ (brS ++ R)) 0 st =
      some (A ++ (placeholder st.stash.length ++ R), true, 0,
        { st with stash := st.stash ++ [.node (mkEl "br")] }) :=
  applyPattern_br cfg hi A R hA st

/-- **The block parser on a paragraph of several lines.**  `Ls` non-empty, every line without newline and starting
    like paragraph text (`LineStart`: a visible first character other than `=`, and not one of `# - _ * + > [` unless
    the line starts with an emphasis delimiter followed by something that is neither the delimiter nor a space), the
    whole text not starting with digits and a dot, the first line indented by at most three spaces: the block is one
    paragraph with all the lines as its text — no line is taken for a heading, a Setext underline, a rule, a list
    item, a quote or a reference definition. -/
theorem C01g_para_lines (i : Nat) (hi3 : i ≤ 3) (Ls : List Str) (hne : Ls ≠ [])
    (hL : ∀ l ∈ Ls, LineStart l ∧ '\n' ∉ l) (hol : olMarker (joinLines Ls) = none) :
    Produces 4 (spaces i ++ joinLines Ls) { tag := .name "p".toList, text := some (joinLines Ls) } :=
  produces_para_multi i hi3 Ls hne hL hol

/-- **The pattern loop on a paragraph with hard breaks.**  First line `t0`, `segs`; further lines `more` (each after a
    hard break): the text left is placeholders and plain text, and the stash gets, in this order, the code spans of all
    lines, the escapes of all lines, one `<br />` per further line, the `*` emphases of all lines and the `_`
    emphases of all lines. -/
theorem C01g_para_loop (cfg : Inline.Cfg) (hE : EscOK cfg.esc) (hs : EscSup cfg.esc) (t0 : Str)
    (segs : List Seg2) (more : List Ln) (st : St) (hok : Segs2OK cfg.esc segs) (hmore : ∀ l ∈ more, LnOK cfg.esc l)
    (hF : FSegsOK (flatten2 segs ++ flatLs more)) (hj : junctionsF t0 false (flatten2 segs ++ flatLs more))
    (hu : UnderOK2 cfg.esc (lastW cfg.esc t0) segs)
    (hplain : ∀ c, (c ∈ t0 ∨ ∃ s ∈ segs, c ∈ s.t) → plainCh c) :
    ∃ n0 ne m1 nb n1 n2 mL nL, n0 = st.stash.length ∧ ne = n0 + (codesF (flatten2 segs ++ flatLs more)).length ∧
      m1 = ne + escCount cfg.esc t0 ∧ nb = m1 + escCountF cfg.esc (flatten2 segs ++ flatLs more) ∧
      n1 = nb + more.length ∧ n2 = n1 + starsT segs + (nodesSLs cfg.esc mL nL (n1 + starsT segs) more).length ∧
      mL = m1 + escT cfg.esc segs ∧ nL = n0 + codesT segs ∧
    handleInlineTop cfg (escAll cfg.esc t0 ++ stageF cfg.esc false false 0 0 (flatten2 segs ++ flatLs more)) st =
      some (resid cfg.esc ne t0 ++ (stage2L cfg.esc 3 m1 n0 n1 n2 segs ++
          stageLs cfg.esc true 3 mL nL nb (n1 + starsT segs) (n2 + undersT segs) more),
        { st with stash := st.stash ++ (codesF (flatten2 segs ++ flatLs more) ++
            (stashOf cfg.esc t0 ++ stashOfF cfg.esc (flatten2 segs ++ flatLs more)) ++ brItems more.length ++
            (nodesS cfg.esc m1 n0 n1 segs ++ nodesSLs cfg.esc mL nL (n1 + starsT segs) more) ++
            (nodesU cfg.esc m1 n0 n1 segs ++ nodesULs cfg.esc mL nL (n1 + starsT segs) more)) }) :=
  handleInlineTop_P cfg hE hs t0 segs more st hok hmore hF hj hu hplain

/-- **The inline processor on the paragraph** (the visit of the `<p>` element): its text becomes the plain text before
    the first child, its children the elements of the first line followed, per further line, by `<br />` (tail: the
    line's plain text) and the line's elements; all children are pushed to be visited. -/
theorem C01g_para_resolve (cfg : Inline.Cfg) (hE : EscOK cfg.esc) (hs : EscSup cfg.esc) (t0 : Str) (segs : List Seg2)
    (more : List Ln) (h : PTxtOK cfg.esc t0 segs more) (v : Visit) :
    visitChild cfg (pSrc cfg.esc t0 segs more) v =
      some (pMid cfg.esc t0 segs more, [],
        { v with pushes := ((List.range (segs.map (tailed2 cfg.esc) ++ linesKids cfg.esc more).length).map
                   (fun k => [v.done.length, k])).reverse ++ v.pushes,
                 st := { v.st with stash := v.st.stash ++ pItems cfg.esc t0 segs more v.st.stash.length } }) :=
  visitChild_P cfg hE hs t0 segs more h v

/-- **Through the tree stages**: the paragraph element satisfies the contract of `C01b_render_elems` (second visit of
    the children without effect, prettify, unescape, serializer), with output `pOut`. -/
theorem C01g_para_elem (cfg : Inline.Cfg) (hE : EscOK cfg.esc) (hs : EscSup cfg.esc) (t0 : Str) (segs : List Seg2)
    (more : List Ln) (h : PTxtOK cfg.esc t0 segs more) (hstx : NoStx2 segs) (hstxL : NoStxLs more) :
    ElemOK cfg (pElem cfg.esc t0 segs more) :=
  pElem_ok cfg hE hs t0 segs more h hstx hstxL

/-- **The printed form.**  Content of a well-formed paragraph of the sub-grammar prints as the lines `paraLines`:
    every line but the last ends with two spaces; the lines satisfy what the stages above need (`PContentOK`). -/
theorem C01g_para_print (c : List DocSpec.Inline) (hp : brRun c = true)
    (hw : wfInlines false .none true c = true) (st : PSt) :
    ∃ (t0 : Str) (segs : List Seg2) (more : List Ln) (st' : PSt),
      printContent c st = (paraLines t0 segs more, st') ∧ st'.defs = st.defs ∧ PContentOK c t0 segs more :=
  printContent_P c hp hw st

/-- **The output is the specification's**: `<p>`, the first line, then `<br />`, a newline and the line for every
    further line, `</p>`. -/
theorem C01g_para_out {c : List DocSpec.Inline} {t0 : Str} {segs : List Seg2} {more : List Ln}
    (h : PContentOK c t0 segs more) : pOut t0 segs more = specBlock (.para c) :=
  pOut_eq h

/-- **`BrDoc` contains `Deep2Doc`.** -/
theorem C01_br_covers_deep2 (d : Doc) (h : DocSpec.Deep2Doc d = true) : DocSpec.BrDoc d = true := by
  simp only [DocSpec.Deep2Doc, DocSpec.BrDoc, List.all_eq_true] at h ⊢
  intro b hb
  have := h b hb
  cases b with
  | para c =>
    simp only [isDeep2Block, deep2Run, Bool.and_eq_true, List.all_eq_true] at this
    simp only [isBrBlock, brRun, Bool.and_eq_true, List.all_eq_true]
    refine ⟨fun x hx => ?_, this.2⟩
    have hx' := this.1 x hx
    cases x <;> simp_all [isBrItem, isDeep2Item]
  | rule => exact this
  | code _ => exact this
  | atx _ _ => exact this
  | setext _ _ => exact this
  | quote _ => exact this
  | ulist _ _ => exact this
  | olist _ _ => exact this

/-- **Hard breaks.**  `d` well-formed, every block a rule, an indented code block without `<`, an ATX or Setext heading
    of `Deep2Doc` (words, escapes, code spans without `<`, two levels of emphasis), or a paragraph whose content is such
    items and hard breaks (no escaped backslash directly before a code span): under EVERY spelling the converter returns
    `spec d`. -/
theorem C01_hard_breaks (d : Doc) (sp : Spelling) (hwf : WF d = true) (hs : DocSpec.BrDoc d = true) :
    Pipeline.convert {} (print d sp) = .ok (spec d) :=
  convert_brDoc d sp hwf hs

/-- **Spelling never changes the rendering** on `BrDoc`. -/
theorem C01_br_spelling (d : Doc) (sp sp' : Spelling) (hwf : WF d = true) (hs : DocSpec.BrDoc d = true) :
    Pipeline.convert {} (print d sp) = Pipeline.convert {} (print d sp') := by
  rw [C01_hard_breaks d sp hwf hs, C01_hard_breaks d sp' hwf hs]

/-! ### the hypotheses are satisfiable; instances evaluated by the kernel -/

/-- five lines: emphasis at the end of a line and at the start of the next, a line that starts with an escaped `#`, one
    that starts with a code span and has digits and an escaped dot, one that starts with digits and an escaped dot;
    a second paragraph whose second line starts with an escaped `>` -/
def sampleBr : Doc :=
  [.para [.text (S "first line "), .em [.text (S "a "), .strong [.text (S "b")]], .br,
     .strong [.text (S "second")], .text (S " line "), .code (S "k"), .br,
     .esc '#', .text (S " not a heading"), .br,
     .code (S "*c*"), .text (S " 4"), .esc '.', .text (S " x"), .br,
     .text (S "2"), .esc '.', .text (S " last "), .em [.code (S "q")]],
   .atx 2 [.em [.text (S "t")]],
   .para [.text (S "one"), .br, .esc '>', .text (S " two")],
   .code [S "raw"]]

example : WF sampleBr = true ∧ DocSpec.BrDoc sampleBr = true ∧ DocSpec.Deep2Doc sampleBr = false := by decide

example : print sampleBr ⟨[0, 1, 1, 3, 1, 5, 7, 2, 1, 1, 9, 3, 1, 1, 1, 1, 1, 1, 3, 3, 3, 1, 1, 1, 1, 1]⟩ =
    ("first line _a **b**_  \n__second__ line ``k``  \n\\# not a heading  \n```*c*``` 4\\. x  \n2\\. last _```q```_\n\n" ++
     "## _t_ #\n\n one  \n\\> two\n\n    raw").toList := by decide +kernel

example : print sampleBr ⟨[2, 0, 0, 2, 0, 4, 6, 2, 0, 2, 8, 2, 0, 0, 2, 0, 0, 2, 2, 2, 2, 0, 0]⟩ =
    ("  first line *a __b__*  \n**second** line `k`  \n\\# not a heading  \n``*c*`` 4\\. x  \n2\\. last *```q```*\n\n" ++
     "## *t*\n\none  \n\\> two\n\n    raw").toList := by decide +kernel

example : spec sampleBr =
    ("<p>first line <em>a <strong>b</strong></em><br />\n<strong>second</strong> line <code>k</code><br />\n" ++
     "# not a heading<br />\n<code>*c*</code> 4. x<br />\n2. last <em><code>q</code></em></p>\n<h2><em>t</em></h2>\n" ++
     "<p>one<br />\n&gt; two</p>\n<pre><code>raw\n</code></pre>").toList := by decide +kernel

example : Pipeline.convert {} (print sampleBr ⟨[0, 1, 1, 3, 1, 5, 7, 2, 1, 1, 9, 3, 1, 1, 1, 1, 1, 1, 3, 3, 3, 1, 1, 1, 1, 1]⟩) =
    .ok (spec sampleBr) :=
  C01_hard_breaks _ _ (by decide) (by decide)

/-- the same instances evaluated by the kernel on the model, independently of the theorem -/
example : Pipeline.convert {} (print sampleBr ⟨[0, 1, 1, 3, 1, 5, 7, 2, 1, 1, 9, 3, 1, 1, 1, 1, 1, 1, 3, 3, 3, 1, 1, 1, 1, 1]⟩) =
    .ok (spec sampleBr) := by decide +kernel

example : Pipeline.convert {} (print sampleBr ⟨[2, 0, 0, 2, 0, 4, 6, 2, 0, 2, 8, 2, 0, 0, 2, 0, 0, 2, 2, 2, 2, 0, 0]⟩) =
    .ok (spec sampleBr) := by decide +kernel

/-- what is outside: a hard break in a heading, first, last, doubled, or before a space is not well-formed; a hard
    break inside emphasis is well-formed and not in `BrDoc` -/
example : WF [.atx 1 [.text (S "a"), .br, .text (S "b")]] = false ∧
    (WF [.para [.em [.text (S "a"), .br, .text (S "b")]]] = true ∧
      DocSpec.BrDoc [.para [.em [.text (S "a"), .br, .text (S "b")]]] = false) ∧
    WF [.para [.br, .text (S "b")]] = false ∧ WF [.para [.text (S "a"), .br]] = false ∧
    WF [.para [.text (S "a"), .br, .br, .text (S "b")]] = false ∧
    WF [.para [.text (S "a"), .br, .text (S " b")]] = false := by decide

end MdVerif.DocParse2
