/-
C01 — Canonical Markdown renders to the prescribed structure; nesting and spelling never change the rendering.
Second part: the sub-grammars beyond `FlatDoc` (`Props/C01.lean`), on the model of `Markdown.convert`
(`Pipeline.convert`).  Every theorem has the form

    WF d → (d in a sub-grammar) → Pipeline.convert {} (print d sp) = .ok (spec d)      for ALL spellings `sp`.

The specification side (`Doc`, `Spelling`, `print`, `spec`, `WF`) is `Spec/Doc.lean`; the sub-grammar predicates are in
`Spec/DocFlat2.lean`; the helper lemmas in `Lemmas/DocParse2.lean` (on top of `Lemmas/DocParse.lean` — flat documents —
and `Lemmas/CodePipe.lean` — C03, code through the pipeline).

Domain restriction: no `<` inside code (`noLt`): `Pipeline.convert` answers `ood` on any source with `<`.  The other
restriction of the C03 theorems (closed numeric character references, known defect F-C03-1) is part of `WF` already
(`noAmpHash`).

Rung A (`C01_code_block`, `C01_flat_code`): indented code blocks — alone, and as members of documents whose other
blocks are rules and paragraphs / ATX / Setext headings of words and escapes, in any number and order that `WF` allows.

Rung B (`C01_code_span`): paragraphs, ATX and Setext headings whose content is words, escapes and code spans (any
number of spans, every fence width and padding `print` can choose), together with rules and code blocks
(`SpanDoc`).  One case is excluded by the sub-grammar predicate: an escaped backslash directly before a code span
(`noBsBeforeCode`), which the implementation treats by another alternative of `BACKTICK_RE`; tested equal, not proved.

Rung C (`C01_em_strong`): additionally paragraphs, ATX and Setext headings whose content is words, escapes and ONE
level of emphasis around words — `.em [.text w]`, `.strong [.text w]`, any number of them, adjacent or not, with
either delimiter character wherever `print` may choose it (`EmDoc`).  Code spans and emphasis are not mixed within one
paragraph or heading (they may be in different blocks of the same document); deeper nesting is outside the predicate.
The proof follows the emphasis engine's positive path: the five patterns of `AsteriskProcessor` / `UnderscoreProcessor`
at a delimiter (`C01b_em_match`: which of them fail, which one matches, what `build`/`parse_sub_patterns` make of the
group), the whole pattern loop on such a line (`C01b_em_loop`: escapes first, then the `*` emphases, then the `_`
ones, each taken out of the text into the stash), `__processPlaceholders` putting them back as children with tails,
the tree stages (`C01b_em_elem`), and the block stage on lines that start with emphasis delimiters (`C01b_em_line`).

Rung C grown (`C01_inline_mix`): paragraphs, ATX and Setext headings whose content is words, escapes, code spans AND
one level of emphasis around words, in any order and number (`MixDoc`, which contains `SpanDoc` and `EmDoc`:
`C01b_mix_contains`).  Still excluded: an escaped backslash directly before a code span (`noBsBeforeCode`), `<` in
code, emphasis around anything but one run of words.

Rung C grown further (`C01_em_content`): the content of an `em` / `strong` may be words, escapes and code spans
(`DeepDoc`, which contains `MixDoc`: `C01b_deep_contains`); emphasis inside emphasis is still outside.  There the
emphasis element is stashed with placeholders in its text — its stash entry depends on how many entries precede it,
hence `Elem.items : Nat → List StashItem` — and `__processPlaceholders` resolves them when the element comes out of the
stash (`procNode_em1`); the inline processor then visits the code spans inside the emphasis once more and changes
nothing (`Still`).  Patterns 0 and 1 do not see the nesting: they are proved on a flat list of tokens (`code_passF`,
`esc_passF`) into which the line is flattened.

Rung C grown again (`C01_em_nested`): emphasis inside emphasis — the content of an `em` / `strong` may itself contain
`em` / `strong` around words, escapes and code spans (`Deep2Doc`, which contains `DeepDoc`: `C01b_nested_contains`).
That is all the nesting `WF` allows (`em` in `strong`, `strong` in `em`, two deep, the inner ones between spaces or at
the ends of the content); `print` gives the inner emphasis the other delimiter character.  The lemmas are in
`Lemmas/DocParse3.lean`.  An outer `*` emphasis is matched at pattern 14 with its inner `_` emphases still in the text;
the nested `__handleInline` call on the content, from pattern 15 on, takes them out (`C01b_nested_call`), so the stash
gets the inner elements first and then the outer one.  An outer `_` emphasis waits for pattern 15: pattern 14 first
takes the `*` emphases out of its content, inside the delimiters.  `__processPlaceholders` then resolves two levels
(`C01b_nested_resolve`, fuel three deep), and the inline processor visits children and grandchildren again without
effect.

How it is proved: `C01_chunks`/`C01_leaves` of `Props/C01.lean` are generalised to
* `Elem`/`ElemOK` (`C01b_render_elems`): one child of the root through inline processor, prettify, unescape, serializer
  — with what it adds to the stash and pushes on the inline processor's stack; the leaves of `Props/C01.lean` and
  `<pre><code>` elements (atomic text: `C03_inline_skips_atomic`, `preRule`: `C03_prettify_code`) are instances;
* `BPiece`/`BPieceOK` (`C01b_parse_pieces`): one top-level block at the block stage, which `text.split("\n\n")` may cut
  into several blocks (a code block with blank lines inside), with the parent condition a code block needs (no code
  block or list before it — `okNext` of `WF`) and what the empty block that ends the document does to it.
-/
import MdVerif.Props.C01
import MdVerif.Lemmas.DocParse2
import MdVerif.Lemmas.DocParse3

namespace MdVerif.DocParse2
open Py DocSpec CodeLaw DocParse Block

/-! ### the generalised composition -/

/-- **Blocks compose (inline stage to output), generalised.**  A `<div>` whose children are elements each of which
    goes through the stages as its `ElemOK` says renders to the elements' outputs, one per line. -/
theorem C01b_render_elems (cfg : Pipeline.Cfg) (hbl : cfg.blockLevel = TreeProc.defaultBlockLevel)
    (hfmt : cfg.fmt = .xhtml) (refs : List (Str × Str × Option Str)) (L : List Elem) (hne : L ≠ [])
    (hL : ∀ e ∈ L, ElemOK { esc := cfg.esc, refs := refs } e) :
    Probe.render cfg refs (divOf (L.map (·.src))) = .ok (joinOutS (L.map (·.out))) :=
  render_elems cfg hbl hfmt refs L hne hL

/-- a `<pre><code>` element with any STX-free text is such an element; so is every leaf of `C01_leaves` -/
theorem C01b_code_elem (cfg : Inline.Cfg) (t : Str) (hstx : Post.STX ∉ t) : ElemOK cfg (codeElem t) :=
  codeElem_ok cfg t hstx

example : Post.STX ∉ "*a* &amp;amp; `b`\n".toList := by decide

theorem C01b_leaf_elem (cfg : Inline.Cfg) (hE : EscOK cfg.esc) (l : Leaf) (hl : l.ok = true) :
    ElemOK cfg (leafElem cfg.esc l) :=
  leafElem_ok cfg hE l hl

example : EscOK Generated.escapedChars ∧ (Leaf.txt "p".toList "a * b".toList).ok = true :=
  ⟨escOK_generated, by decide⟩

/-- **Blocks compose (block stage), generalised.**  Pieces none of which is a code block directly after a code block:
    the document in which they are separated by blank lines parses to the `<div>` of their elements in order (the last
    one as the final empty block leaves it), no references. -/
theorem C01b_parse_pieces (tab : Nat) (ps : List BPiece) (hne : ps ≠ []) (hP : ∀ p ∈ ps, BPieceOK tab p)
    (hadj : noCodeAfterCode ps) :
    parseDocument tab (joinChunks (ps.map (fun p => joinLines p.g)) ++ "\n\n".toList) =
      some (divOf (finalNodes ps), []) :=
  parseDocument_pieces tab ps hne hP hadj

/-- an indented code block of runs of lines is such a piece (its blocks: the first run, then what the blank lines and
    the further runs give) -/
theorem C01b_code_piece (tab : Nat) (first : List Str) (more : List (Nat × List Str)) (h1 : RunOk first)
    (h : ∀ er ∈ more, RunOk er.2) : BPieceOK tab (codePiece tab first more) :=
  codePiece_ok tab first more h1 h

example : RunOk ["a".toList, "  b".toList] ∧ ∀ er ∈ [(1, ["c".toList])], RunOk er.2 := by
  refine ⟨⟨by simp, by decide⟩, ?_⟩
  intro er her
  have : er = (1, ["c".toList]) := by simpa using her
  subst this
  exact ⟨by simp, by decide⟩

/-! ### rung A -/

/-- **Rung A, one block.**  An indented code block (lines printable, no trailing space, blank lines empty, first and
    last line not blank, no `&#`: `WF`; no `<`: `noLt`), with any number of blank lines inside, converts to
    `<pre><code>` + the lines, HTML-escaped, + `</code></pre>` — for every spelling (the printer has no choice here:
    four spaces of indentation). -/
theorem C01_code_block (ls : List Str) (sp : Spelling) (hwf : WF [.code ls] = true) (hlt : ls.all noLt = true) :
    Pipeline.convert {} (print [.code ls] sp) = .ok (spec [.code ls]) :=
  convert_code_block ls sp hwf hlt

/-- **Rung A.**  `d` well-formed, every block a rule, a paragraph / ATX heading / Setext heading of words and escapes,
    or an indented code block without `<` (`FlatCodeDoc`): under EVERY spelling the converter returns `spec d`. -/
theorem C01_flat_code (d : Doc) (sp : Spelling) (hwf : WF d = true) (hflat : FlatCodeDoc d = true) :
    Pipeline.convert {} (print d sp) = .ok (spec d) :=
  convert_flatCode d sp hwf hflat

/-! ### rung B -/

/-- **Spans: the backtick pattern, one span per turn of the pattern loop.**  Escaped text `U` that does not end with a
    backslash, then code spans each followed by escaped text (`SegsOK`: a fence the padded body does not close,
    non-empty text without final backslash between two spans): the pattern loop replaces the spans left to right by
    placeholders and stashes their `<code>` elements (atomic, escaped, stripped). -/
theorem C01b_backtick_pass (cfg : Inline.Cfg) (hi : Inline.HI) (hb : '\\' ∈ cfg.esc) (ht : '`' ∈ cfg.esc)
    (hph : ∀ c ∈ cfg.esc, Escape.phChar c = false) (segs : List SpanSeg) (U : Str) (st : Inline.St) (g : Nat)
    (hok : SegsOK segs) (hU : segs ≠ [] → U.getLast? ≠ some '\\') :
    Inline.hiLoop (Inline.applyPattern cfg hi) (g + segs.length) (Escape.escAll cfg.esc U ++ rawSegs cfg.esc segs) 0 0 st =
      Inline.hiLoop (Inline.applyPattern cfg hi) g (Escape.escAll cfg.esc (U ++ embed st.stash.length segs)) 0 0
        { st with stash := st.stash ++ spanNodes segs } :=
  pattern0_pass cfg hi hb ht hph segs U st g hok hU

/-- **Spans: one element through all the stages.**  A `p`/`h1`–`h6` element whose text is escaped text and code spans
    (`SpanTxtOK`) goes through the inline processor (spans and escapes stashed, `__processPlaceholders` rebuilding
    text, `<code>` children and tails), prettify, unescape and the serializer as `spanTxtElem` says. -/
theorem C01b_span_elem (cfg : Inline.Cfg) (hE : EscOK cfg.esc) (hph : ∀ c ∈ cfg.esc, Escape.phChar c = false)
    (tag t0 : Str) (segs : List SpanSeg) (h : SpanTxtOK cfg.esc tag t0 segs) :
    ElemOK cfg (spanTxtElem cfg.esc tag t0 segs) :=
  spanTxtElem_ok cfg hE hph tag t0 segs h

/-- **Spans: the block stage.**  Content `X` that `RawOK` describes (one line, visible at both ends, starting with no
    block marker, walkable by the lazy header group) is taken as paragraph text, Setext heading text and ATX heading
    text; a line of escaped text and code spans is such content. -/
theorem C01b_span_line (esc : List Char) (hE : EscOK esc) (t0 : Str) (segs : List SpanSeg) (h : LineOK t0 segs) :
    RawOK (Escape.escAll esc t0 ++ rawSegs esc segs) :=
  rawOK_line hE t0 segs h

/-- **Rung B.**  `d` well-formed, every block a rule, an indented code block without `<`, or a paragraph / ATX heading /
    Setext heading of words, escapes and code spans without `<` (no escaped backslash directly before a span):
    under EVERY spelling — fence widths and paddings of the spans included — the converter returns `spec d`. -/
theorem C01_code_span (d : Doc) (sp : Spelling) (hwf : WF d = true) (hs : DocSpec.SpanDoc d = true) :
    Pipeline.convert {} (print d sp) = .ok (spec d) :=
  convert_spanDoc d sp hwf hs

/-! ### rung C: one level of emphasis around words -/

/-- **The emphasis patterns at a delimiter.**  In `A ++ d…d w d…d ++ Z` (one or two `d`, `d` = `*` or `_`, `w` letters,
    digits and spaces, at least one) `handleMatch` at the first delimiter yields the element `<em>w</em>` /
    `<strong>w</strong>` and the end of the closing delimiter: the patterns tried before the matching one fail
    (`EM_STRONG`, `STRONG_EM`, `STRONG_EM3` / their `SMART_` forms), the matching one is `EMPHASIS_RE` / `STRONG_RE` /
    `SMART_EMPHASIS` / `SMART_STRONG`.  For `_` the characters around must not be word characters and `___` must not
    occur further on (which `SMART_STRONG_EM` would need). -/
theorem C01b_em_match (s : EmSeg) (hd : s.d = '*' ∨ s.d = '_') (hw : WordOK s.w) (A Z : Str)
    (hb : s.d = '_' → Inline.isW (lastOr none A) = false ∧ Inline.isW Z.head? = false ∧ NoTriple '_' Z) :
    Inline.emHandle (A ++ (emSrc s ++ Z)) A.length s.d (Inline.emPatterns s.d) 0 =
      some (some (emEl s.strong s.w, A.length + (emSrc s).length)) :=
  emHandle_seg s hd hw A Z hb

/-- **The pattern loop on a line with emphasis.**  On `escaped t0 ++ (d…d w d…d ++ escaped t)*` the sixteen patterns
    leave the texts with their escapes as placeholders and a placeholder for every emphasis; the stash gets the escape
    codes, then the `*` emphases, then the `_` ones. -/
theorem C01b_em_loop (cfg : Inline.Cfg) (hE : EscOK cfg.esc) (t0 : Str) (segs : List EmSeg) (st : Inline.St)
    (hok : EmOK segs) (hu : UnderOK cfg.esc (lastW cfg.esc t0) segs)
    (hplain : ∀ c, (c ∈ t0 ∨ ∃ s ∈ segs, c ∈ s.t) → c ≠ '&' ∧ c ≠ '\n') :
    Inline.handleInlineTop cfg (Escape.escAll cfg.esc t0 ++ rawEm cfg.esc segs) st =
      some (Escape.resid cfg.esc st.stash.length t0 ++
          stage3 cfg.esc (st.stash.length + Escape.escCount cfg.esc t0)
            (st.stash.length + Escape.escCount cfg.esc t0 + escCountEm cfg.esc segs)
            (st.stash.length + Escape.escCount cfg.esc t0 + escCountEm cfg.esc segs + (starNodes segs).length) segs,
        { st with stash := st.stash ++ (Escape.stashOf cfg.esc t0 ++ stashOfEm cfg.esc segs ++ starNodes segs ++
            underNodes segs) }) :=
  handleInlineTop_em cfg hE t0 segs st hok hu hplain

/-- **A paragraph or heading with emphasis is an element of the composition**: source `escaped t0 ++ …`, output
    `<tag>t0<em>w</em>t…</tag>` (texts escaped for HTML). -/
theorem C01b_em_elem (cfg : Inline.Cfg) (hE : EscOK cfg.esc) (tag t0 : Str) (segs : List EmSeg)
    (h : EmTxtOK cfg.esc tag t0 segs) : ElemOK cfg (emTxtElem cfg.esc tag t0 segs) :=
  emTxtElem_ok cfg hE tag t0 segs h

/-- **The block stage on such a line**: it may start with one or two `*` / `_` followed by a letter or digit — no rule,
    no list item. -/
theorem C01b_em_line (esc : List Char) (hE : EscOK esc) (t0 : Str) (segs : List EmSeg) (h : EmLineOK t0 segs) :
    RawOK (Escape.escAll esc t0 ++ rawEm esc segs) :=
  rawOK_emLine hE t0 segs h

/-- **The printed form**: whatever the spelling draws, the content is printed as escaped text and words between `*` or
    `_`, and `_` is used only where the characters on both sides are not word characters. -/
theorem C01b_em_print (c : List DocSpec.Inline) (h : emItemsOK c = true) (st : PSt) :
    ∃ (segs : List EmSeg) (st' : PSt),
      printInlines none true true c st = (Escape.escAll ESC (splitEm c).1 ++ rawEm ESC segs, st') ∧
      st'.defs = st.defs ∧ segs.map (fun s => (s.strong, s.w, s.t)) = (splitEm c).2 ∧
      (∀ s ∈ segs, s.d = '*' ∨ s.d = '_') ∧ UnderOK ESC (lastW ESC (splitEm c).1) segs := by
  obtain ⟨segs, st', h1, h2, h3, h4, h5⟩ := printInlines_em c h true true st
  exact ⟨segs, st', h1, h2, h3, h4, by rw [← pwOf_true]; exact h5⟩

/-- **Rung C.**  `d` well-formed, every block a block of rung B or a paragraph / ATX heading / Setext heading of words,
    escapes and `em` / `strong` around words: under EVERY spelling — `*` or `_` for each emphasis, wherever `print` may
    choose — the converter returns `spec d`. -/
theorem C01_em_strong (d : Doc) (sp : Spelling) (hwf : WF d = true) (hs : DocSpec.EmDoc d = true) :
    Pipeline.convert {} (print d sp) = .ok (spec d) :=
  convert_emDoc d sp hwf hs

/-! ### rung C grown: code spans and emphasis in one paragraph or heading -/

/-- **The pattern loop on a mixed line.**  On `escaped t0 ++ (item ++ escaped t)*`, the items being code spans and
    emphasised words in any order: pattern 0 takes the code spans out, pattern 1 the escapes, pattern 14 the `*`
    emphases, pattern 15 the `_` emphases; what is left is the texts with placeholders, and the stash holds the
    elements in that order. -/
theorem C01b_mix_loop (cfg : Inline.Cfg) (hE : EscOK cfg.esc) (t0 : Str) (segs : List MSeg) (st : Inline.St)
    (hok : MSegsOK segs) (hj : junctionsOK t0 false segs) (hu : UnderOKM cfg.esc (lastW cfg.esc t0) segs)
    (hplain : ∀ c, (c ∈ t0 ∨ ∃ s ∈ segs, c ∈ s.t) → c ≠ '&' ∧ c ≠ '\n') :
    Inline.handleInlineTop cfg (Escape.escAll cfg.esc t0 ++ rawM cfg.esc segs) st =
      some (Escape.resid cfg.esc (st.stash.length + (nodesOf 0 segs).length) t0 ++
          stageM cfg.esc 3 true (st.stash.length + (nodesOf 0 segs).length + Escape.escCount cfg.esc t0)
            st.stash.length
            (st.stash.length + (nodesOf 0 segs).length + Escape.escCount cfg.esc t0 + escCountM cfg.esc segs)
            (st.stash.length + (nodesOf 0 segs).length + Escape.escCount cfg.esc t0 + escCountM cfg.esc segs +
              (nodesOf 1 segs).length) segs,
        { st with stash := st.stash ++ (nodesOf 0 segs ++ (Escape.stashOf cfg.esc t0 ++ stashOfM cfg.esc segs) ++
            nodesOf 1 segs ++ nodesOf 2 segs) }) :=
  handleInlineTop_mix cfg hE t0 segs st hok hj hu hplain

/-- **A mixed paragraph or heading is an element of the composition.** -/
theorem C01b_mix_elem (cfg : Inline.Cfg) (hE : EscOK cfg.esc) (tag t0 : Str) (segs : List MSeg)
    (h : MixTxtOK cfg.esc tag t0 segs) : ElemOK cfg (mixTxtElem cfg.esc tag t0 segs) :=
  mixTxtElem_ok cfg hE tag t0 segs h

/-- **The printed form of mixed content**: escaped text, code spans with a fence their body does not contain,
    emphasised words between `*` or `_`, and `_` only between characters that are not word characters. -/
theorem C01b_mix_print (c : List DocSpec.Inline) (h : mixItemsOK c = true) (st : PSt) :
    ∃ (segs : List MSeg) (st' : PSt),
      printInlines none true true c st = (Escape.escAll ESC (splitMix c).1 ++ rawM ESC segs, st') ∧
      st'.defs = st.defs ∧ segs.map (fun s => (s.k.q, s.t)) = (splitMix c).2 ∧
      (∀ s ∈ segs, KPrinted s.k) ∧ UnderOKM ESC (lastW ESC (splitMix c).1) segs := by
  obtain ⟨segs, st', h1, h2, h3, h4, h5⟩ := printInlines_mix c h true true st
  exact ⟨segs, st', h1, h2, h3, h4, by rw [← pwOf_true]; exact h5⟩

theorem noBs_of_emRun (c : List DocSpec.Inline) (h : c.all isEmItem = true) : noBsBeforeCode c = true := by
  induction c with
  | nil => rfl
  | cons x r ih =>
    simp only [List.all_cons, Bool.and_eq_true] at h
    have ihr := ih h.2
    cases x with
    | esc ch =>
      cases r with
      | nil => rfl
      | cons y r' =>
        cases y with
        | code b => simp [isEmItem] at h
        | _ => simpa [noBsBeforeCode] using ihr
    | _ => simpa [noBsBeforeCode] using ihr

/-- **`MixDoc` contains the sub-grammars of rungs B and C.** -/
theorem C01b_mix_contains (d : Doc) (h : DocSpec.EmDoc d = true) : DocSpec.MixDoc d = true := by
  simp only [DocSpec.EmDoc, DocSpec.MixDoc, List.all_eq_true] at h ⊢
  intro b hb
  have hs : ∀ c : List DocSpec.Inline, spanRun c = true → mixRun c = true := by
    intro c hc
    simp only [spanRun, mixRun, Bool.and_eq_true, List.all_eq_true] at hc ⊢
    refine ⟨fun x hx => ?_, hc.2⟩
    have := hc.1 x hx
    cases x <;> simp_all [isSpanItem, isMixItem]
  have he : ∀ c : List DocSpec.Inline, emRun c = true → mixRun c = true := by
    intro c hc
    simp only [mixRun, Bool.and_eq_true]
    refine ⟨?_, noBs_of_emRun c hc⟩
    simp only [emRun, List.all_eq_true] at hc ⊢
    intro x hx
    have := hc x hx
    cases x with
    | em l => cases l with
      | nil => simp [isEmItem] at this
      | cons y l' => cases l' <;> cases y <;> simp_all [isEmItem, isMixItem]
    | strong l => cases l with
      | nil => simp [isEmItem] at this
      | cons y l' => cases l' <;> cases y <;> simp_all [isEmItem, isMixItem]
    | _ => simp_all [isEmItem, isMixItem]
  have := h b hb
  cases b with
  | para c =>
    simp only [isEmBlock, Bool.or_eq_true] at this
    rcases this with h' | h'
    · exact hs c h'
    · exact he c h'
  | atx l c =>
    simp only [isEmBlock, Bool.or_eq_true] at this
    rcases this with h' | h'
    · exact hs c h'
    · exact he c h'
  | setext l c =>
    simp only [isEmBlock, Bool.or_eq_true] at this
    rcases this with h' | h'
    · exact hs c h'
    · exact he c h'
  | rule => rfl
  | code ls => simpa [isEmBlock, isSpanBlock, isMixBlock] using this
  | quote _ => simp [isEmBlock, isSpanBlock] at this
  | ulist _ _ => simp [isEmBlock, isSpanBlock] at this
  | olist _ _ => simp [isEmBlock, isSpanBlock] at this

/-- **Rung C grown.**  `d` well-formed, every block a rule, an indented code block without `<`, or a paragraph / ATX
    heading / Setext heading of words, escapes, code spans without `<` and `em` / `strong` around words, in any order
    (no escaped backslash directly before a code span): under EVERY spelling the converter returns `spec d`. -/
theorem C01_inline_mix (d : Doc) (sp : Spelling) (hwf : WF d = true) (hs : DocSpec.MixDoc d = true) :
    Pipeline.convert {} (print d sp) = .ok (spec d) :=
  convert_mixDoc d sp hwf hs

/-! ### rung C grown further: emphasis around words, escapes and code spans -/

/-- **The pattern loop on a line whose emphases contain words, escapes and code spans.**  `flatten1` is the flat view
    of the line (delimiters as ordinary characters); the result has every item as a placeholder, and the stash holds
    the code elements (those inside emphasis too), the escape codes, then the `*` and the `_` emphasis elements, each
    with the placeholders of its content in its text. -/
theorem C01b_deep_loop (cfg : Inline.Cfg) (hE : EscOK cfg.esc) (hs : EscSup cfg.esc) (t0 : Str)
    (segs : List Seg1) (st : Inline.St) (hok : Segs1OK segs) (hF : FSegsOK (flatten1 segs))
    (hj : junctionsF t0 false (flatten1 segs)) (hu : UnderOK1 cfg.esc (lastW cfg.esc t0) segs)
    (hplain : ∀ c, (c ∈ t0 ∨ ∃ s ∈ segs, c ∈ s.t) → c ≠ '&' ∧ c ≠ '\n') :
    ∃ data st', Inline.handleInlineTop cfg (Escape.escAll cfg.esc t0 ++ stageF cfg.esc false false 0 0 (flatten1 segs)) st =
      some (data, st') :=
  ⟨_, _, handleInlineTop_L1 cfg hE hs t0 segs st hok hF hj hu hplain⟩

/-- **An emphasis element comes out of the stash with its content resolved**: text, and the code spans as children. -/
theorem C01b_deep_nested (esc : List Char) (hs : EscSup esc) (S : List Inline.StashItem) (f : Nat) (hf : 0 < f)
    (st : Bool) (β : Body0) (hβ : Body0OK β) (m n0 : Nat) (rest : List Inline.StashItem)
    (hdrop : S.drop m = Escape.stashOf esc β.u0 ++ stashOfSegs esc β.spans ++ rest) (hst : SegStash S n0 β.spans)
    (hclean : ∀ s ∈ β.spans, Inline.STX ∉ Code.codeEscape s.b) :
    Inline.procNode (fun d a p i => Inline.processPlaceholders S (f + 1) d a p i) (emEl st (body0R esc m n0 β)) =
      some (emFull esc st β) :=
  procNode_em1 esc hs S f hf st β hβ m n0 rest hdrop hst hclean

/-- **Such a paragraph or heading is an element of the composition.** -/
theorem C01b_deep_elem (cfg : Inline.Cfg) (hE : EscOK cfg.esc) (hs : EscSup cfg.esc) (tag t0 : Str)
    (segs : List Seg1) (h : L1TxtOK cfg.esc tag t0 segs) : ElemOK cfg (l1Elem cfg.esc tag t0 segs) :=
  l1Elem_ok cfg hE hs tag t0 segs h

/-- **`DeepDoc` contains `MixDoc`.** -/
theorem C01b_deep_contains (d : Doc) (h : DocSpec.MixDoc d = true) : DocSpec.DeepDoc d = true := by
  simp only [DocSpec.MixDoc, DocSpec.DeepDoc, List.all_eq_true] at h ⊢
  intro b hb
  have hr : ∀ c : List DocSpec.Inline, mixRun c = true → deepRun c = true := by
    intro c hc
    simp only [mixRun, deepRun, Bool.and_eq_true, List.all_eq_true] at hc ⊢
    refine ⟨fun x hx => ?_, hc.2⟩
    have := hc.1 x hx
    cases x with
    | em l => cases l with
      | nil => simp [isMixItem] at this
      | cons y l' => cases l' <;> cases y <;> simp_all [isMixItem, isDeepItem, isSpanItem, noBsBeforeCode]
    | strong l => cases l with
      | nil => simp [isMixItem] at this
      | cons y l' => cases l' <;> cases y <;> simp_all [isMixItem, isDeepItem, isSpanItem, noBsBeforeCode]
    | _ => simp_all [isMixItem, isDeepItem]
  have := h b hb
  cases b with
  | para c => exact hr c this
  | atx l c => exact hr c this
  | setext l c => exact hr c this
  | rule => rfl
  | code ls => exact this
  | quote _ => simp [isMixBlock] at this
  | ulist _ _ => simp [isMixBlock] at this
  | olist _ _ => simp [isMixBlock] at this

/-- **Rung C grown further.**  `d` well-formed, every block a rule, an indented code block without `<`, or a paragraph /
    ATX heading / Setext heading of words, escapes, code spans without `<` and `em` / `strong` around words, escapes and
    code spans (no escaped backslash directly before a code span, at either level): under EVERY spelling the converter
    returns `spec d`. -/
theorem C01_em_content (d : Doc) (sp : Spelling) (hwf : WF d = true) (hs : DocSpec.DeepDoc d = true) :
    Pipeline.convert {} (print d sp) = .ok (spec d) :=
  convert_deepDoc d sp hwf hs

/-! ### rung C grown again: emphasis inside emphasis -/

/-- **The nested `__handleInline` call on the content of an outer `*` emphasis.**  The content `u0 item t item t …`
    (code spans and escapes placeholders already, no `*` emphasis in it, the `_` emphases between characters that are
    not word characters) is handed to the pattern loop from pattern 15 on: every `_` emphasis becomes a placeholder, in
    order, and its element is stashed. -/
theorem C01b_nested_call (cfg : Inline.Cfg) (f : Nat) (hs : EscSup cfg.esc) (h1 : '*' ∈ cfg.esc) (h2 : '_' ∈ cfg.esc)
    (u0 : Str) (segs : List Seg1) (m m' n0 a b : Nat) (st : Inline.St) (hok : Segs1OK segs)
    (hnostar : ∀ s ∈ segs, s.k.cls ≠ 1) (hu : UnderOK1 cfg.esc (lastW cfg.esc u0) segs) :
    Inline.handleInline cfg (f + 2) (Escape.resid cfg.esc m u0 ++ stageL1 cfg.esc 1 m' n0 a b segs) 15 st =
      some (Escape.resid cfg.esc m u0 ++ stageL1 cfg.esc 3 m' n0 a st.stash.length segs,
        { st with stash := st.stash ++ nodes1 2 cfg.esc m' n0 segs }) :=
  hi15_line1 cfg f hs h1 h2 u0 segs m m' n0 a b st hok hnostar hu

/-- **The pattern loop on a line with emphasis inside emphasis.**  `flatten2` is the flat view of the line; the result
    has every top-level item as a placeholder, and the stash holds the code elements, the escape codes, what pattern 14
    stashed (`nodesS`: per outer `*` emphasis its inner `_` elements and then itself, per outer `_` emphasis its inner
    `*` elements) and what pattern 15 stashed (`nodesU`: the outer `_` elements). -/
theorem C01b_nested_loop (cfg : Inline.Cfg) (hE : EscOK cfg.esc) (hs : EscSup cfg.esc) (t0 : Str)
    (segs : List Seg2) (st : Inline.St) (hok : Segs2OK cfg.esc segs) (hF : FSegsOK (flatten2 segs))
    (hj : junctionsF t0 false (flatten2 segs)) (hu : UnderOK2 cfg.esc (lastW cfg.esc t0) segs)
    (hplain : ∀ c, (c ∈ t0 ∨ ∃ s ∈ segs, c ∈ s.t) → c ≠ '&' ∧ c ≠ '\n') :
    ∃ data st', Inline.handleInlineTop cfg (Escape.escAll cfg.esc t0 ++ stageF cfg.esc false false 0 0 (flatten2 segs)) st =
      some (data, st') :=
  ⟨_, _, handleInlineTop_L2 cfg hE hs t0 segs st hok hF hj hu hplain⟩

/-- **An outer emphasis element comes out of the stash with its content resolved**: text, and the items of its content
    as children — code spans, and emphasis elements that are themselves resolved. -/
theorem C01b_nested_resolve (esc : List Char) (hs : EscSup esc) (S : List Inline.StashItem) (f : Nat) (st : Bool)
    (d : Char) (hd : d = '*' ∨ d = '_') (β : Body1) (hβ : Body1OK esc d β) (hf : β.segs ≠ [] → 0 < f) (m n0 n1 : Nat)
    (rest : List Inline.StashItem) (hdrop : S.drop m = Escape.stashOf esc β.u0 ++ escs1 esc β.segs ++ rest)
    (hcode : CodeLay S n0 β.segs) (hem : EmLay esc S (m + Escape.escCount esc β.u0) n0 n1 n1 β.segs)
    (hclean : ∀ s ∈ β.segs, s.k.clean) :
    Inline.procNode (fun d a p i => Inline.processPlaceholders S (f + 1 + 1) d a p i)
        (emEl st (body2 esc 3 m n0 n1 β)) = some (emFull2 esc st β) :=
  procNode_em2 esc hs S f st d hd β hβ hf m n0 n1 rest hdrop hcode hem hclean

/-- **Such a paragraph or heading is an element of the composition.** -/
theorem C01b_nested_elem (cfg : Inline.Cfg) (hE : EscOK cfg.esc) (hs : EscSup cfg.esc) (tag t0 : Str)
    (segs : List Seg2) (h : L2TxtOK cfg.esc tag t0 segs) (hstx : NoStx2 segs) :
    ElemOK cfg (l2Elem cfg.esc tag t0 segs) :=
  l2Elem_ok cfg hE hs tag t0 segs h hstx

/-- **`Deep2Doc` contains `DeepDoc`.** -/
theorem C01b_nested_contains (d : Doc) (h : DocSpec.DeepDoc d = true) : DocSpec.Deep2Doc d = true := by
  simp only [DocSpec.DeepDoc, DocSpec.Deep2Doc, List.all_eq_true] at h ⊢
  intro b hb
  have hsp : ∀ y : DocSpec.Inline, isSpanItem y = true → isDeepItem y = true := by
    intro y hy; cases y <;> simp_all [isSpanItem, isDeepItem]
  have hr : ∀ c : List DocSpec.Inline, deepRun c = true → deep2Run c = true := by
    intro c hc
    simp only [deepRun, deep2Run, Bool.and_eq_true, List.all_eq_true] at hc ⊢
    refine ⟨fun x hx => ?_, hc.2⟩
    have := hc.1 x hx
    cases x with
    | em l =>
      simp only [isDeepItem, isDeep2Item, Bool.and_eq_true, List.all_eq_true] at this ⊢
      exact ⟨fun y hy => hsp y (this.1 y hy), this.2⟩
    | strong l =>
      simp only [isDeepItem, isDeep2Item, Bool.and_eq_true, List.all_eq_true] at this ⊢
      exact ⟨fun y hy => hsp y (this.1 y hy), this.2⟩
    | _ => simp_all [isDeepItem, isDeep2Item]
  have := h b hb
  cases b with
  | para c => exact hr c this
  | atx l c => exact hr c this
  | setext l c => exact hr c this
  | rule => rfl
  | code ls => exact this
  | quote _ => simp [isDeepBlock] at this
  | ulist _ _ => simp [isDeepBlock] at this
  | olist _ _ => simp [isDeepBlock] at this

/-- **Rung C grown again.**  `d` well-formed, every block a rule, an indented code block without `<`, or a paragraph /
    ATX heading / Setext heading of words, escapes, code spans without `<` and `em` / `strong` whose content is words,
    escapes, code spans and again `em` / `strong` around words, escapes and code spans (no escaped backslash directly
    before a code span, at any level): under EVERY spelling the converter returns `spec d`.  With `WF` this is every
    nesting of emphasis there is in the specification language. -/
theorem C01_em_nested (d : Doc) (sp : Spelling) (hwf : WF d = true) (hs : DocSpec.Deep2Doc d = true) :
    Pipeline.convert {} (print d sp) = .ok (spec d) :=
  convert_deep2Doc d sp hwf hs

/-- **Spelling never changes the rendering** (on the largest sub-grammar of this file): two spellings of the same
    well-formed document of `Deep2Doc` convert to the same HTML. -/
theorem C01_nested_spelling (d : Doc) (sp sp' : Spelling) (hwf : WF d = true) (hs : DocSpec.Deep2Doc d = true) :
    Pipeline.convert {} (print d sp) = Pipeline.convert {} (print d sp') := by
  rw [C01_em_nested d sp hwf hs, C01_em_nested d sp' hwf hs]

/-- every sub-grammar of this file and `FlatCodeDoc`'s paragraphs are inside `Deep2Doc`: the chain of containments -/
theorem C01b_chain (d : Doc) (h : DocSpec.EmDoc d = true ∨ DocSpec.MixDoc d = true ∨ DocSpec.DeepDoc d = true) :
    DocSpec.Deep2Doc d = true := by
  rcases h with h | h | h
  · exact C01b_nested_contains d (C01b_deep_contains d (C01b_mix_contains d h))
  · exact C01b_nested_contains d (C01b_deep_contains d h)
  · exact C01b_nested_contains d h

/-! ### the hypotheses are satisfiable; instances evaluated by the kernel -/

/-- `strong` in `em` in the middle of words, two `em` in a `strong` (the first with an escaped delimiter and a code span),
    `strong` alone in an `em` with a code span that looks like emphasis, nested emphasis in both kinds of heading, an
    escaped backslash as the whole content of an inner `strong` -/
def sampleNest : Doc :=
  [.para [.em [.text (S "a "), .strong [.text (S "b")], .text (S " c")], .text (S " x "),
     .strong [.em [.esc '*', .code (S "k")], .text (S " "), .em [.text (S "z")]], .esc '_',
     .em [.strong [.code (S "_q_"), .text (S "w")]]],
   .atx 3 [.strong [.text (S "S "), .em [.text (S "e"), .esc '`']], .text (S " and "), .code (S "*")],
   .setext 2 [.em [.strong [.text (S "in")], .text (S " "), .code (S "c"), .text (S " "), .strong [.esc '\\']], .text (S " t")],
   .code [S "__raw__"]]

example : WF sampleNest = true ∧ DocSpec.Deep2Doc sampleNest = true ∧ DocSpec.DeepDoc sampleNest = false := by decide

/-- outer `_` / `__` with inner `**` / `*` … -/
example : print sampleNest ⟨[0, 1, 1, 3, 1, 5, 7, 2, 1, 1, 9, 3, 1, 1, 1, 1, 1, 1, 3, 3, 3, 1, 1, 1, 1, 1]⟩ =
    ("_a **b** c_ x __*\\*```k```* *z*__\\_*__``_q_``w__*\n\n### __S *e\\`*__ and ``*``\n\n" ++
     " _**in** `c` **\\\\**_ t\n--\n\n    __raw__").toList := by decide +kernel

/-- … and outer `*` / `**` with inner `__` / `_` -/
example : print sampleNest ⟨[2, 0, 0, 2, 0, 4, 6, 2, 0, 2, 8, 2, 0, 0, 2, 0, 0, 2, 2, 2, 2, 0, 0]⟩ =
    ("  *a __b__ c* x **_\\*``k``_ _z_**\\_*__```_q_```w__*\n\n### **S _e\\`_** and `*` ###\n\n" ++
     "  *__in__ ```c``` __\\\\__* t\n-\n\n    __raw__").toList := by decide +kernel

example : spec sampleNest =
    ("<p><em>a <strong>b</strong> c</em> x <strong><em>*<code>k</code></em> <em>z</em></strong>_" ++
     "<em><strong><code>_q_</code>w</strong></em></p>\n<h3><strong>S <em>e`</em></strong> and <code>*</code></h3>\n" ++
     "<h2><em><strong>in</strong> <code>c</code> <strong>\\</strong></em> t</h2>\n" ++
     "<pre><code>__raw__\n</code></pre>").toList := by decide +kernel

example : Pipeline.convert {} (print sampleNest ⟨[0, 1, 1, 3, 1, 5, 7, 2, 1, 1, 9, 3, 1, 1, 1, 1, 1, 1, 3, 3, 3, 1, 1, 1, 1, 1]⟩) =
    .ok (spec sampleNest) :=
  C01_em_nested _ _ (by decide) (by decide)

/-- the same instance evaluated by the kernel on the model, independently of the theorem -/
example : Pipeline.convert {} (print sampleNest ⟨[0, 1, 1, 3, 1, 5, 7, 2, 1, 1, 9, 3, 1, 1, 1, 1, 1, 1, 3, 3, 3, 1, 1, 1, 1, 1]⟩) =
    .ok (spec sampleNest) := by decide +kernel

example : Pipeline.convert {} (print sampleNest ⟨[2, 0, 0, 2, 0, 4, 6, 2, 0, 2, 8, 2, 0, 0, 2, 0, 0, 2, 2, 2, 2, 0, 0]⟩) =
    .ok (spec sampleNest) := by decide +kernel

/-- what is outside: three levels and `em` directly in `em` are not well-formed; an inner emphasis that touches a word is
    not well-formed either; the escaped backslash before a code span stays excluded by the predicate, at every level -/
example : WF [.para [.em [.strong [.em [.text (S "a")]]]]] = false ∧
    WF [.para [.em [.em [.text (S "a")]]]] = false ∧
    WF [.para [.em [.text (S "a"), .strong [.text (S "b")]]]] = false ∧
    DocSpec.Deep2Doc [.para [.em [.strong [.esc '\\', .code (S "x")]]]] = false := by decide

/-- emphasis around escapes (also an escaped delimiter and a backslash), around code spans only, around words with
    code spans in the middle; code spans that contain delimiters; everything touching -/
def sampleDeep : Doc :=
  [.para [.em [.text (S "one "), .esc '*', .code (S "a*b"), .text (S " x")], .code (S "c"), .text (S " and "),
     .strong [.esc '_', .text (S "two"), .esc '\\'], .esc '*', .em [.code (S "`q`")], .text (S " "),
     .strong [.code (S "_"), .esc '*', .code (S "**")]],
   .atx 2 [.strong [.esc '#', .text (S " Bold")], .em [.text (S "it"), .esc '`'], .text (S " tail")],
   .setext 1 [.text (S "A "), .em [.text (S "b "), .code (S "k"), .text (S " c")], .text (S " "), .strong [.text (S "d")]],
   .code [S "*raw*"]]

example : WF sampleDeep = true ∧ DocSpec.DeepDoc sampleDeep = true ∧ DocSpec.MixDoc sampleDeep = false := by decide

example : print sampleDeep ⟨[0, 1, 1, 3, 1, 5, 7, 2, 1, 1, 9, 3, 1, 1, 1, 1, 1, 1, 3, 3, 3, 1, 1]⟩ =
    ("_one \\*``a*b`` x_`c` and __\\_two\\\\__\\*_``` `q` ```_ **``_``\\*``**``**\n\n## **\\# Bold**_it\\`_ tail\n\n" ++
     " A _b ``k`` c_ __d__\n==\n\n    *raw*").toList := by decide +kernel

example : spec sampleDeep =
    ("<p><em>one *<code>a*b</code> x</em><code>c</code> and <strong>_two\\</strong>*<em><code>`q`</code></em> " ++
     "<strong><code>_</code>*<code>**</code></strong></p>\n<h2><strong># Bold</strong><em>it`</em> tail</h2>\n" ++
     "<h1>A <em>b <code>k</code> c</em> <strong>d</strong></h1>\n<pre><code>*raw*\n</code></pre>").toList := by
  decide +kernel

example : Pipeline.convert {} (print sampleDeep ⟨[0, 1, 1, 3, 1, 5, 7, 2, 1, 1, 9, 3, 1, 1, 1, 1, 1, 1, 3, 3, 3, 1, 1]⟩) =
    .ok (spec sampleDeep) :=
  C01_em_content _ _ (by decide) (by decide)

/-- the same instance evaluated by the kernel on the model, independently of the theorem -/
example : Pipeline.convert {} (print sampleDeep ⟨[0, 1, 1, 3, 1, 5, 7, 2, 1, 1, 9, 3, 1, 1, 1, 1, 1, 1, 3, 3, 3, 1, 1]⟩) =
    .ok (spec sampleDeep) := by decide +kernel


/-- code spans and emphasis touching each other in every order, with escapes in between; code bodies that look like
    emphasis -/
def sampleMix : Doc :=
  [.para [.em [.text (S "one")], .code (S "a*b"), .text (S " and "), .strong [.text (S "two words")], .esc '*',
     .code (S "`x`"), .em [.text (S "y")], .esc '_', .code (S "_z_")],
   .atx 3 [.code (S "f"), .strong [.text (S "Bold")], .em [.text (S "it")], .text (S " tail "), .code (S "\\")],
   .setext 1 [.text (S "A "), .em [.text (S "b c")], .text (S " "), .code (S "**"), .strong [.text (S "d")]],
   .code [S "*raw*"]]

example : WF sampleMix = true ∧ DocSpec.MixDoc sampleMix = true ∧ DocSpec.EmDoc sampleMix = false := by decide

example : print sampleMix ⟨[0, 1, 1, 3, 1, 5, 7, 2, 1, 1, 9, 3, 1, 1, 1, 1, 1, 1, 3, 3, 3]⟩ =
    ("_one_``a*b`` and __two words__\\*``` `x` ```_y_\\_``_z_``\n\n### ``f``**Bold**_it_ tail `\\` ###\n\n" ++
     " A _b c_ ``**``__d__\n==\n\n    *raw*").toList := by decide +kernel

example : spec sampleMix =
    ("<p><em>one</em><code>a*b</code> and <strong>two words</strong>*<code>`x`</code><em>y</em>_<code>_z_</code></p>\n" ++
     "<h3><code>f</code><strong>Bold</strong><em>it</em> tail <code>\\</code></h3>\n" ++
     "<h1>A <em>b c</em> <code>**</code><strong>d</strong></h1>\n<pre><code>*raw*\n</code></pre>").toList := by
  decide +kernel

example : Pipeline.convert {} (print sampleMix ⟨[0, 1, 1, 3, 1, 5, 7, 2, 1, 1, 9, 3, 1, 1, 1, 1, 1, 1, 3, 3, 3]⟩) =
    .ok (spec sampleMix) :=
  C01_inline_mix _ _ (by decide) (by decide)

/-- the same instance evaluated by the kernel on the model, independently of the theorem -/
example : Pipeline.convert {} (print sampleMix ⟨[0, 1, 1, 3, 1, 5, 7, 2, 1, 1, 9, 3, 1, 1, 1, 1, 1, 1, 3, 3, 3]⟩) =
    .ok (spec sampleMix) := by decide +kernel


/-- emphasis at the start, the end and in the middle of paragraphs and headings, adjacent emphases, emphasis next to
    escapes (also an escaped `*` and `_`), words with spaces, and blocks of rung B in the same document -/
def sampleEm : Doc :=
  [.para [.em [.text (S "one")], .text (S " and "), .strong [.text (S "two words")], .esc '*', .em [.text (S "x")],
     .text (S " "), .em [.text (S "y")], .esc '_'],
   .atx 1 [.strong [.text (S "Bold")], .em [.text (S "it")], .text (S " tail "), .strong [.text (S "end 2")]],
   .setext 2 [.text (S "A "), .em [.text (S "b c")], .text (S " "), .strong [.text (S "d")]],
   .para [.text (S "code "), .code (S "a*b")],
   .code [S "*raw*"]]

example : WF sampleEm = true ∧ DocSpec.EmDoc sampleEm = true ∧ DocSpec.SpanDoc sampleEm = false := by decide

example : print sampleEm ⟨[0, 1, 1, 3, 1, 5, 7, 2, 1, 1, 9, 3, 1, 1, 1, 1, 1, 1]⟩ =
    ("_one_ and __two words__\\*_x_ _y_\\_\n\n# **Bold***it* tail __end 2__ #\n\n A _b c_ __d__\n--\n\n" ++
     " code ``a*b``\n\n    *raw*").toList := by decide +kernel

example : spec sampleEm =
    ("<p><em>one</em> and <strong>two words</strong>*<em>x</em> <em>y</em>_</p>\n" ++
     "<h1><strong>Bold</strong><em>it</em> tail <strong>end 2</strong></h1>\n<h2>A <em>b c</em> <strong>d</strong></h2>\n" ++
     "<p>code <code>a*b</code></p>\n<pre><code>*raw*\n</code></pre>").toList := by decide +kernel

example : Pipeline.convert {} (print sampleEm ⟨[0, 1, 1, 3, 1, 5, 7, 2, 1, 1, 9, 3, 1, 1, 1, 1, 1, 1]⟩) =
    .ok (spec sampleEm) :=
  C01_em_strong _ _ (by decide) (by decide)

/-- the same instance evaluated by the kernel on the model, independently of the theorem -/
example : Pipeline.convert {} (print sampleEm ⟨[0, 1, 1, 3, 1, 5, 7, 2, 1, 1, 9, 3, 1, 1, 1, 1, 1, 1]⟩) =
    .ok (spec sampleEm) := by decide +kernel

/-- outside the predicate: emphasis and a code span in one paragraph (the converter is right there too, by the kernel
    on the model), and emphasis inside emphasis -/
example : DocSpec.EmDoc [.para [.em [.text (S "a")], .code (S "x")]] = false ∧
    Pipeline.convert {} (print [.para [.em [.text (S "a")], .code (S "x")]] ⟨[1, 1]⟩) =
      .ok (spec [.para [.em [.text (S "a")], .code (S "x")]]) ∧
    DocSpec.EmDoc [.para [.em [.strong [.text (S "a")]]]] = false := by decide +kernel


/-- headings and paragraphs with several spans, spans next to escapes, a body of two backticks, a body that is a
    backslash, digits before a span, a code block in between -/
def sampleSpan : Doc :=
  [.atx 2 [.text (S "Use "), .code (S "a*b"), .text (S " and "), .esc '#'],
   .para [.code (S "`x` &amp; tt"), .text (S " then "), .esc '*', .code (S "\\"), .esc '_', .text (S " end")],
   .code [S "raw `code`"],
   .setext 1 [.text (S "T "), .code (S "``")],
   .para [.text (S "2024 "), .code (S "1.")]]

example : WF sampleSpan = true ∧ DocSpec.SpanDoc sampleSpan = true := by decide

example : print sampleSpan ⟨[1, 2, 0, 1, 3, 2, 1, 1, 5, 2, 2, 7]⟩ =
    ("## Use ```a*b``` and \\# #\n\n``` `x` &amp; tt ``` then \\*`\\`\\_ end\n\n    raw `code`\n\n  T ``` `` ```\n==\n\n" ++
     " 2024 ```1.```").toList := by decide +kernel

example : spec sampleSpan =
    ("<h2>Use <code>a*b</code> and #</h2>\n<p><code>`x` &amp;amp; tt</code> then *<code>\\</code>_ end</p>\n" ++
     "<pre><code>raw `code`\n</code></pre>\n<h1>T <code>``</code></h1>\n<p>2024 <code>1.</code></p>").toList := by
  decide +kernel

example : Pipeline.convert {} (print sampleSpan ⟨[1, 2, 0, 1, 3, 2, 1, 1, 5, 2, 2, 7]⟩) = .ok (spec sampleSpan) :=
  C01_code_span _ _ (by decide) (by decide)

example : Pipeline.convert {} (print sampleSpan ⟨[1, 2, 0, 1, 3, 2, 1, 1, 5, 2, 2, 7]⟩) = .ok (spec sampleSpan) := by
  decide +kernel

/-- the excluded case: an escaped backslash directly before a span is outside `SpanDoc` (the converter is right there
    too, by the kernel on the model) -/
example : DocSpec.SpanDoc [.para [.esc '\\', .code (S "x")]] = false ∧
    Pipeline.convert {} (print [.para [.esc '\\', .code (S "x")]] ⟨[]⟩) =
      .ok (spec [.para [.esc '\\', .code (S "x")]]) := by decide +kernel


/-- a document with code blocks between the other kinds of block; Markdown, entities and blank lines inside the code -/
def sampleCode : Doc :=
  [.code [S "*not em* &amp; `x`", S "", S "", S "  # no heading", S "> no quote"],
   .para [.text (S "a "), .esc '*', .text (S " b")],
   .code [S "- no list"],
   .rule,
   .code [S "[l](u) \\*", S "", S "1. x"],
   .atx 3 [.text (S "End")]]

example : WF sampleCode = true ∧ FlatCodeDoc sampleCode = true := by decide

example : print sampleCode ⟨[1, 2, 2, 1, 1, 2]⟩ =
    ("    *not em* &amp; `x`\n\n\n      # no heading\n    > no quote\n\n a \\* b\n\n    - no list\n\n" ++
     "  _ _ _ _  \n\n    [l](u) \\*\n\n    1. x\n\n### End").toList := by decide +kernel

example : spec sampleCode =
    ("<pre><code>*not em* &amp;amp; `x`\n\n\n  # no heading\n&gt; no quote\n</code></pre>\n<p>a * b</p>\n" ++
     "<pre><code>- no list\n</code></pre>\n<hr />\n<pre><code>[l](u) \\*\n\n1. x\n</code></pre>\n<h3>End</h3>").toList := by
  decide +kernel

example : Pipeline.convert {} (print sampleCode ⟨[1, 2, 2, 1, 1, 2]⟩) = .ok (spec sampleCode) :=
  C01_flat_code _ _ (by decide) (by decide)

/-- the same instance evaluated by the kernel on the model, independently of the theorem -/
example : Pipeline.convert {} (print sampleCode ⟨[1, 2, 2, 1, 1, 2]⟩) = .ok (spec sampleCode) := by decide +kernel

/-- outside the domain: `<` in code makes the pipeline model answer `ood` (the real converter is fine there) -/
example : FlatCodeDoc [.code [S "a < b"]] = false ∧
    Pipeline.convert {} (print [.code [S "a < b"]] ⟨[]⟩) = .ood := by decide +kernel

/-- two code blocks in a row are not well-formed: they would be one code block -/
example : WF [.code [S "a"], .code [S "b"]] = false := by decide

end MdVerif.DocParse2
