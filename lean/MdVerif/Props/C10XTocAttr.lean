/-
C10 on the extension model (`PipelineX.convertX`), part: toc together with attr_list, end to end.

C10 — "The output never contains the STX/ETX control characters or any of the placeholder tokens the converter uses
internally, provided the input does not itself spell those tokens."

Only property statements live here.  The stage theorems are in `Props/C10XToc.lean` (toc: `C10X_toc_stage`) and
`Props/C10XTree.lean` (attr_list, worker t1); the composition and the predicate `TocAttrFlagsOnly`:
`MdVerif/Lemmas/PlaceholdersXTocAttr.lean`.  Core Lean only.

With attr_list a heading can carry escape tokens in attribute VALUES when toc reads it
(`# T {: data-toc-label="L \_" title="\#" #my\-id }`): toc unescapes the label and the id for its tokens, and the
serialised heading (with its attributes) for the name.
-/
import MdVerif.Lemmas.PlaceholdersXTocAttr

namespace MdVerif.NoCtlX
open MdVerif.NoCtl Py

/-- **End to end with toc and attr_list** (and the inline-stage extensions nl2br, wikilinks; the seven other
    extensions off: `TocAttrFlagsOnly`).  For a source without `<`, `&` whose normalised text has none of the
    adjacencies backslash–backtick, `![`, `](` (`C10DomainL`, the domain of `C10_partial_links`) and — when wikilinks is
    on — no `[` immediately followed by a blank (`C10DomainW`), whatever `convertX` returns (any tab length, output
    format, block-level set; escapable characters ordinary ones) contains neither STX nor ETX. -/
theorem C10X_partial_toc_attr_list {x : PipelineX.Exts} (hx : TocAttrFlagsOnly x)
    (cfg : Pipeline.Cfg) (hcfg : EscOK cfg.esc) {src out : Str} (hd : C10DomainW x.wikilinks cfg.tab src)
    (h : PipelineX.convertX x cfg src = .ok out) : NoCtl out := convertX_noctl_toc_attr hx hcfg hd.1 hd.2 h

example : TocAttrFlagsOnly { toc := true, attrList := true, nl2br := true, wikilinks := true } ∧
    EscOK ({} : Pipeline.Cfg).esc ∧
    C10DomainW true 4 "[TOC]\n\n# T \\* x {: data-toc-label=\"L \\_ 1\" title=\"\\#\" }".toList ∧
    C10DomainW true 4 "## c `d` {: #my\\-id }\n\n## e *f*{: .k } [[W]]".toList :=
  ⟨by decide, escOK_default, by decide, by decide⟩

/-- conversions of the model with attr_list and toc on (equal to
    `markdown.markdown(src, extensions=['attr_list', 'toc'])`): label, title and id spelt with backslash escapes -/
example : PipelineX.convertX { attrList := true, toc := true } {}
    "[TOC]\n\n# T \\* x {: data-toc-label=\"L \\_ 1\" title=\"\\#\" }\n\n## c `d` {: #my\\-id }\n\n## e *f*{: .k }".toList =
    .ok ("<div class=\"toc\">\n<ul>\n<li><a href=\"#t-x\">L _ 1</a><ul>\n<li><a href=\"#my-id\">c d</a></li>\n" ++
      "<li><a href=\"#e-f\">e f</a></li>\n</ul>\n</li>\n</ul>\n</div>\n<h1 id=\"t-x\" title=\"#\">T * x</h1>\n" ++
      "<h2 id=\"my-id\">c <code>d</code></h2>\n<h2 id=\"e-f\">e <em class=\"k\">f</em></h2>").toList := by
  decide +kernel

example : PipelineX.convertX { attrList := true, toc := true } {} "# a \\* b {: data-toc-label='\\*' }\n\n[TOC]".toList =
    .ok ("<h1 id=\"a-b\">a * b</h1>\n<div class=\"toc\">\n<ul>\n<li><a href=\"#a-b\">*</a></li>\n</ul>\n</div>").toList := by
  decide +kernel

end MdVerif.NoCtlX
