/-
C10 on the extension model (`PipelineX.convertX`), part: the raw-HTML stash (fenced code blocks, entities).

C10 — "The output never contains … any of the placeholder tokens the converter uses internally (for stashed inline
elements, raw HTML, …).  Everything that is stashed during conversion is restored before the result is returned."

`fenced_code` replaces each fenced block by the raw-HTML placeholder `STX wzxhzdk:N ETX` and stores `<pre><code…` in
the HTML stash; the entity pattern of the inline stage stores `&…;` entries the same way.  `RawHtmlPostprocessor`
(`Post.rawHtml`: the substitution pass `Post.subPass`, repeated until nothing changes) puts the entries back.
`hasLiveHtmlPh stash s` (`Spec/NoCtl.lean`): some `STX wzxhzdk:N ETX` whose number `N` is a key of the stash occurs
in `s`.

Only property statements live here.  Helper lemmas and the predicate `entryOK`: `MdVerif/Lemmas/PlaceholdersXRaw.lean`.
Core Lean only.

1. `C10X_rawhtml_fixed_point`, `C10X_rawhtml_restores_all`: what `RawHtmlPostprocessor.run` returns is a fixed point of
   the substitution pass, and a fixed point holds no placeholder of the stash — for EVERY text and every stash whose
   entries are `entryOK` (non-empty, not starting with STX, a block-level one not compatible with `<p>` STX).
   `C10X_rawhtml_entry_conditions_needed`: each of the three conditions is needed (kernel-checked fixed points that
   keep their placeholders; the real `RawHtmlPostprocessor` behaves the same).
2. `C10X_later_postprocessors_keep`: footnote 25, amp_substitute 20 and `.strip()` create no placeholder of the stash.
3. `C10X_stash_entries`: the stash `convertX` builds holds `<pre…` entries (fenced_code), then `&…;` entries (entity
   pattern) — for every source and every set of extensions; `C10X_stash_entries_ok`: all of them are `entryOK`.
4. `C10X_stash_restored_output`: END TO END, for every source, configuration and set of extensions, no placeholder
   of an entry that was stashed is left in the output of `convertX`.  Boundary: this is about placeholders that are
   still intact; F-C10-6 (second form) cuts a placeholder in the tree, the pieces stay and the entry is lost
   (`C10X_cut_placeholder_is_not_restored`).
-/
import MdVerif.Lemmas.PlaceholdersXRaw

namespace MdVerif.NoCtlX
open MdVerif.NoCtl Py

/-! ## 1. `RawHtmlPostprocessor` -/

/-- **`RawHtmlPostprocessor.run` returns a fixed point of its substitution pass** (`pattern.sub(substitute_match, …)`
    leaves the returned text as it is), unless the stash is empty and the text is returned untouched. -/
theorem C10X_rawhtml_fixed_point {bl stash : List Str} {f : Nat} {text out : Str}
    (h : Post.rawHtml bl stash f text = some out) : Post.subPass bl stash 0 out = out ∨ stash = [] :=
  rawHtml_fix h

example : Post.rawHtml [] ["&amp;".toList] 4 "a \x02wzxhzdk:0\x03".toList = some "a &amp;".toList ∧
    Post.subPass [] ["&amp;".toList] 0 "a &amp;".toList = "a &amp;".toList := by decide

/-- **Every stashed raw-HTML block is restored.**  When every entry of the stash is `entryOK` — it is not empty, does
    not start with STX, and if it is block level (so that `<p>` placeholder `</p>` is replaced by the bare entry) it
    is neither a prefix of `<p>` STX nor starts with `<p>` STX — then the text `RawHtmlPostprocessor.run` returns
    holds no placeholder whose number is a key of the stash: for EVERY text, entries that mention other entries
    included.  (At the first such placeholder of a fixed point the pass would write the entry, or `<p>` + entry, whose
    first character differs from the STX, resp. `<p>` STX, the text has there.)  `<pre…`, `&…;` and every entry
    whose first character is neither `<` nor STX are `entryOK`. -/
theorem C10X_rawhtml_restores_all {bl stash : List Str} (he : ∀ e ∈ stash, entryOK bl e = true) {f : Nat}
    {text out : Str} (h : Post.rawHtml bl stash f text = some out) : hasLiveHtmlPh stash out = false :=
  rawHtml_no_live he h

/-- a stash as `convertX` builds it, with an entry that mentions another entry, and an unrelated placeholder number -/
example :
    let stash : List Str := ["<pre><code>x\x02wzxhzdk:1\x03</code></pre>".toList, "&amp;".toList]
    (∀ e ∈ stash, entryOK ({} : Pipeline.Cfg).blockLevel e = true) ∧
    Post.rawHtml ({} : Pipeline.Cfg).blockLevel stash (Post.rawHtmlFuel stash)
        "<p>\x02wzxhzdk:0\x03</p>\n<p>a \x02wzxhzdk:1\x03 \x02wzxhzdk:2\x03</p>".toList =
      some "<pre><code>x&amp;</code></pre>\n<p>a &amp; \x02wzxhzdk:2\x03</p>".toList := by decide +kernel

/-- **Each condition of `entryOK` is needed** (kernel-checked; `RawHtmlPostprocessor` of the implementation returns
    the same texts).  (1) An EMPTY entry — "does not start with STX" alone is not enough: in `ph0 STX wzx ph1` the
    placeholder `ph0` vanishes and entry 1 = `hzdk:0 ETX STX wzx ph1` completes `STX wzx` to `ph0` again; the text is a
    fixed point that holds both placeholders.  (2) A block-level entry that is a prefix of `<p>` STX, here `<p>`.
    (3) A block-level entry that starts with `<p>` STX: `<p>ph0</p>` is its own replacement.  None of these can be
    stored by the bundled extensions. -/
theorem C10X_rawhtml_entry_conditions_needed :
    (let e1 : Str := "hzdk:0\x03\x02wzx".toList ++ rawPh 1
     let t : Str := rawPh 0 ++ "\x02wzx".toList ++ rawPh 1
     Post.subPass [] [[], e1] 0 t = t ∧ hasLiveHtmlPh [[], e1] t = true ∧ entryOK [] e1 = true ∧
       ([] : Str).head? ≠ some STX) ∧
    (let bl : List Str := ["p".toList]
     let e1 : Str := "hzdk:0\x03</p>\x02wzx".toList ++ rawPh 1
     let t : Str := "<p>".toList ++ rawPh 0 ++ "</p>\x02wzx".toList ++ rawPh 1
     Post.subPass bl ["<p>".toList, e1] 0 t = t ∧ hasLiveHtmlPh ["<p>".toList, e1] t = true ∧ entryOK bl e1 = true) ∧
    (let bl : List Str := ["p".toList]
     let t : Str := "<p>".toList ++ rawPh 0 ++ "</p>".toList
     Post.subPass bl [t] 0 t = t ∧ hasLiveHtmlPh [t] t = true ∧ t.head? = some '<') := by decide

/-! ## 2. The later postprocessors -/

/-- **`FootnotePostprocessor`, `AndSubstitutePostprocessor` and `.strip()` create no raw-HTML placeholder**: when the
    text holds no placeholder of the stash, neither does what the rest of `convert` makes of it (with or without the
    footnotes extension).  The replaced tokens start with STX and the replacements `&#8617;`, `&#160;`, `&` start with
    `&` and hold no STX, so every placeholder of the result was copied, character by character, from the text. -/
theorem C10X_later_postprocessors_keep {stash : List Str} (footnotes : Bool) {t : Str}
    (h : hasLiveHtmlPh stash t = false) :
    hasLiveHtmlPh stash (strip (Post.ampSub (if footnotes then FootnotesTree.postprocess t else t))) = false :=
  final_no_live footnotes h

/-- removing `STX amp ETX` between the STX and the rest of a placeholder does not join them: the replacement `&`
    stands there -/
example : Post.ampSub "\x02\x02amp\x03wzxhzdk:0\x03".toList = "\x02&wzxhzdk:0\x03".toList ∧
    hasLiveHtmlPh ["&amp;".toList] "\x02\x02amp\x03wzxhzdk:0\x03".toList = false := by decide

/-! ## 3. The stash that `convertX` builds -/

/-- **What is stashed.**  Whatever the source and the enabled extensions are, the HTML stash that `convertX` hands to
    the postprocessors consists of the entries of `fenced_code` (one per fenced block, each starting with `<pre`;
    none without the extension) followed by the entries of the entity pattern (`&…;` without STX), in the order in
    which they were stored.  The inline stage, over any pattern table and any tree, keeps the entries it is given
    (`runX_html`), and no other stage stores anything. -/
theorem C10X_stash_entries {x : PipelineX.Exts} {cfg : Pipeline.Cfg} {src : Str} {u : Node} {html : List Str}
    (h : PipelineX.treeX x cfg src = .ok u html) :
    ∃ fenced ents, html = fenced ++ ents ∧ (∀ e ∈ fenced, ∃ r, e = "<pre".toList ++ r) ∧
      (∀ e ∈ ents, entityLike e = true) ∧ (x.fencedCode = false → fenced = []) :=
  treeX_html h

/-- all of these entries are restorable (`entryOK`), for every block-level list -/
theorem C10X_stash_entries_ok {x : PipelineX.Exts} {cfg : Pipeline.Cfg} {src : Str} {u : Node} {html : List Str}
    (h : PipelineX.treeX x cfg src = .ok u html) (bl : List Str) : ∀ e ∈ html, entryOK bl e = true := by
  obtain ⟨fenced, ents, rfl, hf, he, _⟩ := treeX_html h
  intro e hm
  rcases List.mem_append.1 hm with hm | hm
  · obtain ⟨r, rfl⟩ := hf e hm
    exact entryOK_pre bl r
  · exact entryOK_entityLike bl (he e hm)

/-- a fenced block, entities in a paragraph and in a footnote -/
example :
    (match PipelineX.treeX { fencedCode := true, footnotes := true } {}
        "```\na & b\n```\n\nc &amp; d [^1]\n\n[^1]: e &lt; f".toList with
     | .ok _ html => html
     | _ => []) = ["<pre><code>a &amp; b\n</code></pre>".toList, "&amp;".toList, "&lt;".toList] := by decide +kernel

/-! ## 4. End to end -/

/-- **Everything that is stashed in the HTML stash is restored** (end to end: every source, every configuration,
    every set of the eleven extensions).  If `convertX` answers `out` and `html` is the stash it built (`treeX`), then
    no raw-HTML placeholder `STX wzxhzdk:N ETX` with `N < html.length` — fenced code block or entity — occurs in `out`.
    This is about placeholders that are still intact when `RawHtmlPostprocessor` runs: a placeholder that a tree
    processor has cut (F-C10-6 second form: `abbr` with an abbreviation that is a number,
    `C10X_leak_digits_abbr_rawhtml`) is no placeholder any more — the statement holds there too, its pieces stay in
    the output and the entry is lost (`C10X_cut_placeholder_is_not_restored`). -/
theorem C10X_stash_restored_output {x : PipelineX.Exts} {cfg : Pipeline.Cfg} {src : Str} {u : Node}
    {html : List Str} {out : Str} (ht : PipelineX.treeX x cfg src = .ok u html)
    (h : PipelineX.convertX x cfg src = .ok out) : hasLiveHtmlPh html out = false := by
  unfold PipelineX.convertX at h
  split at h
  · cases h
  · split at h
    · cases h
    · split at h
      · simp only [Pipeline.Outcome.ok.injEq] at h
        subst h
        rfl
      · rw [ht] at h
        simp only at h
        unfold PipelineX.finishX at h
        split at h
        · cases h
        · split at h
          · cases h
          · next t _ r hr =>
            simp only [PipelineX.postX, Option.map_eq_some_iff] at hr
            obtain ⟨r0, hr0, rfl⟩ := hr
            simp only [Pipeline.Outcome.ok.injEq] at h
            subst h
            exact final_no_live x.footnotes
              (rawHtml_no_live (C10X_stash_entries_ok ht cfg.blockLevel) hr0)

/-- a fenced block with a language, then a paragraph; `markdown.markdown(src, extensions=['fenced_code'])` answers the
    same -/
example : PipelineX.convertX { fencedCode := true } {} "```py\nx *y*\n```\n\ntext".toList =
    .ok "<pre><code class=\"language-py\">x *y*\n</code></pre>\n<p>text</p>".toList := by decide +kernel

/-- a fenced block between the backticks of what would be a code span: the placeholder sits on a line of its own -/
example : PipelineX.convertX { fencedCode := true } {} "a `\n```\nx\n```\n` b".toList =
    .ok "<p>a `</p>\n<pre><code>x\n</code></pre>\n<p>` b</p>".toList := by decide +kernel

/-- fenced code, entities and footnotes together -/
example : PipelineX.convertX { fencedCode := true, footnotes := true } {}
      "```\na & b\n```\n\nc &amp; d [^1]\n\n[^1]: e &lt; f".toList =
    .ok ("<pre><code>a &amp; b\n</code></pre>\n<p>c &amp; d <sup id=\"fnref:1\"><a class=\"footnote-ref\" " ++
      "href=\"#fn:1\">1</a></sup></p>\n<div class=\"footnote\">\n<hr />\n<ol>\n<li id=\"fn:1\">\n<p>e &lt; f&#160;" ++
      "<a class=\"footnote-backref\" href=\"#fnref:1\" title=\"Jump back to footnote 1 in the text\">&#8617;</a></p>\n" ++
      "</li>\n</ol>\n</div>").toList := by decide +kernel

/-- **The boundary (F-C10-6, second form, with a fenced block):** the abbreviation `0` matches the number of the
    placeholder of the fenced block in the tree; what reaches `RawHtmlPostprocessor` is `STX wzxhzdk:<abbr…>0</abbr> ETX`,
    which is no placeholder: `C10X_stash_restored_output` holds (no intact placeholder of the stash is in the output),
    yet the pieces of the placeholder are, and the code block is lost.
    `markdown.markdown('```\na\n```\n*[0]:T', extensions=['fenced_code', 'abbr'])` answers the same. -/
theorem C10X_cut_placeholder_is_not_restored :
    PipelineX.convertX { fencedCode := true, abbr := true } {} "```\na\n```\n*[0]:T".toList =
      .ok "<p>\x02wzxhzdk:<abbr title=\"T\">0</abbr>\x03</p>".toList ∧
    hasLiveHtmlPh ["<pre><code>a\n</code></pre>".toList] "<p>\x02wzxhzdk:<abbr title=\"T\">0</abbr>\x03</p>".toList = false ∧
    hasLiveHtmlPh ["<pre><code>a\n</code></pre>".toList] "<p>\x02wzxhzdk:0\x03</p>".toList = true := by
  refine ⟨by decide +kernel, by decide, by decide⟩

end MdVerif.NoCtlX
