/-
C10 with the footnotes extension, part 2 (`Props/C10XFn.lean` is part 1): the hypothesis `AbbrKeysOKF` of
`C10X_partial_footnotes` is needed — kernel-checked witnesses on the model, each confirmed on the implementation.
Core Lean only.
-/
import MdVerif.Props.C10XFn

namespace MdVerif.NoCtlXF
open MdVerif.NoCtl (NoCtl C10DomainL)
open MdVerif.NoCtlX (AbbrKeysOK)
open Py

/-! ## 3. The hypothesis on the abbreviations is needed -/

/-- **An abbreviation equal to the body of a footnote token leaks.**  Both sources are in `C10DomainL` and meet every
    other hypothesis of `C10X_partial_footnotes`; they define the abbreviation `zz1337820767766393qq` (the body of
    `FN_BACKLINK_TEXT`), resp. `qq3936677670287331zz` (the body of `NBSP_PLACEHOLDER`) — `AbbrKeysOKF` fails — and
    `AbbrTreeprocessor` wraps the body of the token in an `abbr` element, so that `FootnotePostprocessor` no longer finds
    the token: the output holds STX and ETX.  (The implementation does the same:
    `markdown.markdown("a[^1]\n\n[^1]: note\n\n*[zz1337820767766393qq]: T", extensions=['footnotes', 'abbr'])`.) -/
theorem C10X_leak_token_abbr :
    (C10DomainL 4 "a[^1]\n\n[^1]: note\n\n*[zz1337820767766393qq]: T".toList ∧
     ¬ AbbrKeysOKF { footnotes := true, abbr := true } {} "a[^1]\n\n[^1]: note\n\n*[zz1337820767766393qq]: T".toList ∧
     PipelineX.convertX { footnotes := true, abbr := true } {}
        "a[^1]\n\n[^1]: note\n\n*[zz1337820767766393qq]: T".toList =
      .ok ("<p>a<sup id=\"fnref:1\"><a class=\"footnote-ref\" href=\"#fn:1\">1</a></sup></p>\n<div class=\"footnote\">\n" ++
        "<hr />\n<ol>\n<li id=\"fn:1\">\n<p>note&#160;<a class=\"footnote-backref\" href=\"#fnref:1\" title=\"Jump back " ++
        "to footnote 1 in the text\">\x02<abbr title=\"T\">zz1337820767766393qq</abbr>\x03</a></p>\n</li>\n</ol>\n" ++
        "</div>").toList) ∧
    (C10DomainL 4 "a[^1]\n\n[^1]: note\n\n*[qq3936677670287331zz]: T".toList ∧
     ¬ AbbrKeysOKF { footnotes := true, abbr := true } {} "a[^1]\n\n[^1]: note\n\n*[qq3936677670287331zz]: T".toList ∧
     PipelineX.convertX { footnotes := true, abbr := true } {}
        "a[^1]\n\n[^1]: note\n\n*[qq3936677670287331zz]: T".toList =
      .ok ("<p>a<sup id=\"fnref:1\"><a class=\"footnote-ref\" href=\"#fn:1\">1</a></sup></p>\n<div class=\"footnote\">\n" ++
        "<hr />\n<ol>\n<li id=\"fn:1\">\n<p>note\x02<abbr title=\"T\">qq3936677670287331zz</abbr>\x03<a class=\"footnote-" ++
        "backref\" href=\"#fnref:1\" title=\"Jump back to footnote 1 in the text\">&#8617;</a></p>\n</li>\n</ol>\n" ++
        "</div>").toList) :=
  ⟨⟨by decide +kernel, by decide +kernel, by decide +kernel⟩, ⟨by decide +kernel, by decide +kernel, by decide +kernel⟩⟩

/-- a proper part of a token body is harmless (`\b` fails inside the body): such keys satisfy the hypothesis -/
example : AbbrKeysOKF { footnotes := true, abbr := true } {}
    "a[^1]\n\n[^1]: note\n\n*[zz1337820767766393q]: T\n*[z1337820767766393qq]: U\n*[qq]: V\n*[q]: W".toList := by
  decide +kernel

/-- **The abbreviations defined inside footnote bodies count.**  `FootnoteTreeprocessor` block-parses the footnote
    bodies, so `*[42]: T` inside a footnote defines an abbreviation for the whole document.  The source is in
    `C10DomainL`; the hypothesis `AbbrKeysOK` of `C10X_partial_all_but_footnotes_fenced` (which reads the log of the block
    stage only) HOLDS, `AbbrKeysOKF` fails, and the escape token of `\*` is cut (F-C10-6): the output holds STX and ETX.
    (The implementation does the same: `markdown.markdown("\\*[^1]\n\n[^1]: a\n\n    *[42]: T", extensions=['footnotes', 'abbr'])`.) -/
theorem C10X_leak_footnote_body_abbr :
    C10DomainL 4 "\\*[^1]\n\n[^1]: a\n\n    *[42]: T".toList ∧
    AbbrKeysOK { footnotes := true, abbr := true } {} "\\*[^1]\n\n[^1]: a\n\n    *[42]: T".toList ∧
    ¬ AbbrKeysOKF { footnotes := true, abbr := true } {} "\\*[^1]\n\n[^1]: a\n\n    *[42]: T".toList ∧
    PipelineX.convertX { footnotes := true, abbr := true } {} "\\*[^1]\n\n[^1]: a\n\n    *[42]: T".toList =
      .ok ("<p>\x02<abbr title=\"T\">42</abbr>\x03<sup id=\"fnref:1\"><a class=\"footnote-ref\" href=\"#fn:1\">1</a></sup>" ++
        "</p>\n<div class=\"footnote\">\n<hr />\n<ol>\n<li id=\"fn:1\">\n<p>a&#160;<a class=\"footnote-backref\" href=\"#fnref:1\" " ++
        "title=\"Jump back to footnote 1 in the text\">&#8617;</a></p>\n</li>\n</ol>\n</div>").toList :=
  ⟨by decide +kernel, by decide +kernel, by decide +kernel, by decide +kernel⟩

end MdVerif.NoCtlXF
