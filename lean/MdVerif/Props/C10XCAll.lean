/-
C10 on the extension model, with inline links and images — "The output never contains the STX/ETX control characters
or any of the placeholder tokens the converter uses internally …" for `PipelineX.convertX`
(`Markdown(extensions=[…]).convert`) when the block-level extensions **admonition**, **def_list**, **abbr**,
**sane_lists**, the inline-stage extensions **nl2br**, **wikilinks** and the tree-level extensions **attr_list**, **toc**
are enabled, on the WIDER source domain of `Props/C10c.lean` (`C10DomainC`): inline links `[text](url "title")`, inline
images `![alt](url "title")`, image references, with simple destinations, titles and alt texts, anywhere — inside the
title of an admonition, a definition term or definition, a list item, a heading that carries an attribute list.
`Props/C10XBlock.lean` (`C10X_partial_all_but_footnotes_fenced`) has the same flags plus tables on the domain
`C10DomainL` without `](` and `![`; `Props/C10XC.lean` has `C10DomainC` with nl2br and wikilinks only.

The string class of the domain — `AdjC false`: every `](` is followed by a simple destination that is closed on its
line, every `![` by a simple alt text — is NOT closed under arbitrary infixes (`[a](b` is an infix of `[a](b)`), so the
block-stage lemmas of `Lemmas/PlaceholdersXBlock*.lean` do not apply.  `Lemmas/PlaceholdersXCBlock{,2}.lean` redo them
from the weaker closure of `Lemmas/PlaceholdersCBlock.lean`: dropping a prefix, cutting off an end that has neither `)`
nor `]` before its first line feed (`cutOK`), newline-joins.  Every cut of the extended block parser is of that kind
(line ends; the closing quote of an admonition title; the text before a match that starts at a line feed) — EXCEPT in
the table processor, which cuts a row at every `|`: **tables is off in every statement of this file**
(`C10XC_table_cell_leaves_class`).

1. `C10XC_block_stage_cut_closed`, `C10XC_block_stage`: the extended block stage (tables off) keeps such a class.
2. `C10X_partial_links_all_but_footnotes_fenced_tables`: end to end.  The stages after the inline stage are the generic
   tail of `Lemmas/PlaceholdersXLate.lean`; the hypothesis `AbbrKeysOK` (no abbreviation is a number) is the one of
   `Props/C10XBlock.lean` (F-C10-6).

Vocabulary: `Spec/NoCtl.lean`, `Spec/NoCtlB.lean`, `Spec/NoCtlC.lean`; helper lemmas:
`Lemmas/PlaceholdersXCBlock.lean`, `Lemmas/PlaceholdersXCBlock2.lean`, `Lemmas/PlaceholdersXCAll.lean`.  Core Lean only.
-/
import MdVerif.Lemmas.PlaceholdersXCAll

namespace MdVerif.NoCtlXC
open MdVerif.NoCtl Py Inline InlineX

/-! ## 1. The extended block stage -/

/-- **The extended block parser without tables only cuts where no link destination or alt text is open.**  Let `P` be
    a property of strings that holds of `''`, passes from `u + t + v` to `t` whenever `v` has neither `)` nor `]` before
    its first line feed (`cutOK v`), passes to `a + '\n' + b`, implies that every character satisfies `p`
    (`BlkC.StrDomC`), holds of strings of letters, digits, `_`, `-`, blanks, `:`, `;` and non-ASCII characters, and let
    `p` be kept by `str.lower()` (`BlkXC.StrDomXC`).  If the text handed to `BlockExt.parseDocumentXT false` (any
    combination of admonition, def_list, footnotes, abbr, sane_lists; any tab length) satisfies `P`, then every element
    of the tree is a `BNodeXP`: literal tag; every attribute name and value made of `p` characters; tail and non-atomic
    text in `P`; atomic text only on `code` elements, made of `q` characters — and every string of the log (reference id,
    url, title; footnote id and body; abbreviation and title) is made of `p` characters, footnote bodies satisfy `P`. -/
theorem C10XC_block_stage_cut_closed {p q : Char → Bool} {P : Str → Prop} (h : BlkXC.StrDomXC p q P)
    (xc : BlockExt.XCfg) (tab : Nat) (text : Str) (hp : P text) {root : Node} {log : Block.Refs}
    (hr : BlockExt.parseDocumentXT false xc tab text = some (root, log)) :
    root.Forall (BlkX.BNodeXP p q P) ∧ BlkX.LogC p P log :=
  BlkXC.parseDocumentXT_strs h xc tab text hp hr

/-- **The extended block stage on the domain with inline links**: if the text has no STX/ETX, `<`, `&` (`pDom`), no
    backslash–backtick adjacency, every `](` is followed by a simple destination and every `![` by a simple alt text
    that are closed on the same line (`AdjC false`), and — with wikilinks — no `[` immediately before a blank (`Qw wl`),
    the same holds of every tail and non-atomic text of the extended block tree (tables off), attribute names and
    values have no STX/ETX, `<`, `&`, and neither has any string of the log. -/
theorem C10XC_block_stage (wl : Bool) (xc : BlockExt.XCfg) (tab : Nat) (text : Str)
    (hp : (Blk.AllC NoCtlX.pDom text ∧ AdjC false text) ∧ Qw wl text) {root : Node} {log : Block.Refs}
    (hr : BlockExt.parseDocumentXT false xc tab text = some (root, log)) :
    root.Forall (BlkX.BNodeXP NoCtlX.pDom Blk.okc (fun s => (Blk.AllC NoCtlX.pDom s ∧ AdjC false s) ∧ Qw wl s)) ∧
    BlkX.LogC NoCtlX.pDom (fun s => (Blk.AllC NoCtlX.pDom s ∧ AdjC false s) ∧ Qw wl s) log :=
  BlkXC.parseDocumentXT_strs (strDomXC_adjCq wl) xc tab text hp hr

/-- the `StrDomXC` instances used here -/
example (wl : Bool) : BlkXC.StrDomXC NoCtlX.pDom Blk.okc (fun s => (Blk.AllC NoCtlX.pDom s ∧ AdjC false s) ∧ Qw wl s) :=
  strDomXC_adjCq wl
example : BlkXC.StrDomXC NoCtlX.pDom Blk.okc (fun s => Blk.AllC NoCtlX.pDom s ∧ AdjC false s) := strDomXC_adjC

/-- a text of the class that uses inline links and images inside every block-level syntax: the title of an
    admonition (a link with a title in quotes inside the quotes of the admonition title) and its body, a definition
    term and a definition, the items of a sane list that starts at 3, a footnote and an abbreviation definition, a
    heading with closing `#`s -/
example : (fun s => (Blk.AllC NoCtlX.pDom s ∧ AdjC false s) ∧ Qw true s)
    ("!!! note \"see [the *docs*](http://e.x/a \"T\")\"\n    body ![p](i.png)\n\nterm [l](u)\n:   def ![alt](img 't i' )\n\n" ++
     "3. item [a](b)\n4. ![d][r] [[W p]]\n\n# h [x](y) ##\n\n[^1]: note [n](m)\n    more\n\n*[HTML]: Hyper [T](t)\n\n[r]: /u \"T\"").toList := by
  refine ⟨⟨by unfold Blk.AllC; decide +kernel, by decide +kernel⟩, by decide +kernel⟩

/-- the block stage alone on a part of that text (serialised tree): the link inside the admonition title, the
    definition term and the list item reach the inline stage whole -/
example :
    (match BlockExt.parseDocumentXT false { admonition := true, defList := true, saneLists := true } 4
      "!!! note \"see [d](u \"T\")\"\n    b ![p](i)\n\nt [l](u)\n:   d ![a](i 't' )\n\n3. i [a](b)".toList with
     | some (root, _) => Ser.serialize .xhtml root
     | none => []) =
    ("<div><div class=\"admonition note\"><p class=\"admonition-title\">see [d](u \"T\")</p><p>b ![p](i)</p></div>" ++
      "<dl><dt>t [l](u)</dt><dd>d ![a](i 't' )</dd></dl><ol start=\"3\"><li>i [a](b)</li></ol></div>").toList := by
  decide +kernel

/-- **Why tables is off**: the class is not closed under what `TableProcessor` does.  The row `| [a](b | c) |` is in
    the class (the destination `b | c` is simple and closed); `Tables.splitRow` (`_split_row`, both borders) cuts it at
    the inner pipe, and the cell text `[a](b` has an open destination: it is not in the class (`AdjC false`), which the
    lemmas of the block stage need of every string they hand on.  (The lax form `AdjC true`, which is all the inline
    stage asks of a text, still holds of it.) -/
theorem C10XC_table_cell_leaves_class :
    AdjC false "| [a](b | c) |".toList ∧
    Tables.splitRow 3 "| [a](b | c) |".toList = [" [a](b ".toList, " c) ".toList] ∧
    ¬ AdjC false " [a](b ".toList ∧ AdjC true " [a](b ".toList := by
  decide +kernel

/-! ## 2. End to end -/

/-- **End to end with every extension but fenced_code, footnotes and tables, on the domain with inline links and
    images** (`C10X_partial_links_all_but_footnotes_fenced_tables`).  **admonition, def_list, abbr, sane_lists, nl2br,
    wikilinks, attr_list and toc are on or off.**  For a source without `<`, `&` whose normalised text has no backslash
    immediately before a backtick, in which every `](` is followed by a simple destination — no backtick, backslash,
    `*`, `_`, bracket, parenthesis, quote — with an optional title in quotes, closed by `)` on the same line, and every
    `![` by a simple alt text closed by `]` on the same line (`C10DomainC`, the domain of `C10c_partial_links`), and —
    when wikilinks is on — no `[` immediately followed by a blank (`C10DomainCW`), and in which — when abbr is on — no
    abbreviation definition `*[key]: title` has a key made of ASCII digits only (`AbbrKeysOK`, decidable; F-C10-6),
    whatever `convertX` returns (any tab length, output format, block-level set; escapable characters ordinary ones)
    contains neither STX nor ETX.  Links and images may stand anywhere: in the title of an admonition, in definition
    terms and definitions, list items, headings with attribute lists, abbreviation titles. -/
theorem C10X_partial_links_all_but_footnotes_fenced_tables (x : PipelineX.Exts)
    (hx : x.fencedCode = false ∧ x.footnotes = false ∧ x.tables = false)
    (cfg : Pipeline.Cfg) (hcfg : EscOK cfg.esc) {src out : Str} (hd : C10DomainCW x.wikilinks cfg.tab src)
    (habbr : NoCtlX.AbbrKeysOK x cfg src) (h : PipelineX.convertX x cfg src = .ok out) : NoCtl out :=
  convertX_noctl_links_all hx.1 hx.2.1 hx.2.2 hcfg hd.1 hd.2 habbr h

/-- the hypotheses on a source with a link inside a heading with an attribute list, inside the title and the body of an
    admonition, inside a definition term and a definition, inside a list item, a wikilink, an abbreviation, `[TOC]`;
    all eight flags on -/
example :
    let x : PipelineX.Exts :=
      { admonition := true, defList := true, abbr := true, saneLists := true, nl2br := true, wikilinks := true,
        attrList := true, toc := true }
    let src := ("# Head [t](u \"T\") {: #i }\n\n!!! note \"see [docs](http://e.x/a)\"\n    body ![p](i.png) HTML" ++
      "\n\nterm [l](u)\n:   def ![alt](img 'ti')\n\n1. item [a](b)\n* [[Wiki Page]]\n\n*[HTML]: Hyper " ++
      "Text\n\n[TOC]").toList
    (x.fencedCode = false ∧ x.footnotes = false ∧ x.tables = false) ∧ EscOK ({} : Pipeline.Cfg).esc ∧
    C10DomainCW x.wikilinks 4 src ∧ NoCtlX.AbbrKeysOK x {} src :=
  ⟨by decide, escOK_default, by decide +kernel, by decide +kernel⟩

/-- that source converts to (all eight flags on) -/
example : PipelineX.convertX
      { admonition := true, defList := true, abbr := true, saneLists := true, nl2br := true, wikilinks := true,
        attrList := true, toc := true } {}
      ("# Head [t](u \"T\") {: #i }\n\n!!! note \"see [docs](http://e.x/a)\"\n    body ![p](i.png) HTML" ++
      "\n\nterm [l](u)\n:   def ![alt](img 'ti')\n\n1. item [a](b)\n* [[Wiki Page]]\n\n*[HTML]: Hyper " ++
      "Text\n\n[TOC]").toList =
    .ok ("<h1 id=\"i\">Head <a href=\"u\" title=\"T\">t</a></h1>\n<div class=\"admonition note\">\n<p cla" ++
      "ss=\"admonition-title\">see <a href=\"http://e.x/a\">docs</a></p>\n<p>body <img alt=\"p\" src=\"" ++
      "i.png\" /> <abbr title=\"Hyper Text\">HTML</abbr></p>\n</div>\n<dl>\n<dt>term <a href=\"u\">l</" ++
      "a></dt>\n<dd>def <img alt=\"alt\" src=\"img\" title=\"ti\" /></dd>\n</dl>\n<ol>\n<li>item <a hr" ++
      "ef=\"b\">a</a><br />\n* <a class=\"wikilink\" href=\"/Wiki_Page/\">Wiki Page</a></li>\n</ol>\n<" ++
      "div class=\"toc\">\n<ul>\n<li><a href=\"#i\">Head t</a></li>\n</ul>\n</div>").toList := by
  decide +kernel

/-- an admonition whose title holds a link with a quoted title (quotes inside the quotes of the admonition title),
    an image in its body, an abbreviation -/
example : PipelineX.convertX { admonition := true, abbr := true } {}
      ("!!! note \"see [the *docs*](http://e.x/a \"T\")\"\n    body ![p](i.png) HTML\n\n*[HTML]: Hyper " ++
      "Text").toList =
    .ok ("<div class=\"admonition note\">\n<p class=\"admonition-title\">see <a href=\"http://e.x/a\" tit" ++
      "le=\"T\">the <em>docs</em></a></p>\n<p>body <img alt=\"p\" src=\"i.png\" /> <abbr title=\"Hyper" ++
      " Text\">HTML</abbr></p>\n</div>").toList := by
  decide +kernel

/-- a definition list with a link in the term and an image with a title in the definition; a sane list that starts at
    3 with a link in an item (`* c` does not start a `ul` inside an `ol`; the image reference has no definition) -/
example : PipelineX.convertX { defList := true, saneLists := true, nl2br := true } {}
      "term [l](u)\n:   def ![alt](img 't i' ) [x](y)\n\n3. item [a](b)\n* c ![d][r]".toList =
    .ok ("<dl>\n<dt>term <a href=\"u\">l</a></dt>\n<dd>def <img alt=\"alt\" src=\"img\" title=\"t i\" /> " ++
      "<a href=\"y\">x</a></dd>\n</dl>\n<ol start=\"3\">\n<li>item <a href=\"b\">a</a><br />\n* c ![d]" ++
      "[r]</li>\n</ol>").toList := by
  decide +kernel

/-- a heading with a link and an attribute list, an image with an attribute list, a wikilink, the table of contents -/
example : PipelineX.convertX { wikilinks := true, attrList := true, toc := true } {}
      "# Head [t](u \"T\") {: #i .c }\n\n[[Wiki Page]] ![p](i.png){: .k }\n\n[TOC]".toList =
    .ok ("<h1 class=\"c\" id=\"i\">Head <a href=\"u\" title=\"T\">t</a></h1>\n<p><a class=\"wikilink\" hr" ++
      "ef=\"/Wiki_Page/\">Wiki Page</a> <img alt=\"p\" class=\"k\" src=\"i.png\" /></p>\n<div class=\"" ++
      "toc\">\n<ul>\n<li><a href=\"#i\">Head t</a></li>\n</ul>\n</div>").toList := by
  decide +kernel

/-- the domain of `C10X_partial_all_but_footnotes_fenced` (`Props/C10XBlock.lean`: no `](`, no `![`) is inside this one:
    with tables off that theorem is an instance of `C10X_partial_links_all_but_footnotes_fenced_tables` -/
theorem C10XC_links_all_extends_block (x : PipelineX.Exts)
    (hx : x.fencedCode = false ∧ x.footnotes = false ∧ x.tables = false)
    (cfg : Pipeline.Cfg) (hcfg : EscOK cfg.esc) {src out : Str} (hd : NoCtlX.C10DomainW x.wikilinks cfg.tab src)
    (habbr : NoCtlX.AbbrKeysOK x cfg src) (h : PipelineX.convertX x cfg src = .ok out) : NoCtl out :=
  C10X_partial_links_all_but_footnotes_fenced_tables x hx cfg hcfg ⟨domainC_of_L hd.1, hd.2⟩ habbr h

end MdVerif.NoCtlXC
