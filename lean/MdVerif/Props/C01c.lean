/-
C01, block quotes — Canonical Markdown renders to the prescribed structure; nesting and spelling never change the
rendering.

`C01_quote`: for every well-formed document of the sub-grammar `QuoteDoc` (`Spec/DocQuote.lean`) — flat blocks
(thematic breaks, paragraphs, ATX and Setext headings of words and backslash escapes) and block quotes of such blocks
and quotes, nested to ANY depth — and for EVERY spelling,

    Pipeline.convert {} (print d sp) = .ok (spec d).

The spelling decides, besides what it decides for flat blocks (`Props/C01.lean`): the indentation 0–3 of a top-level
quote (put before every line), and for each quote, at every depth, whether its children are separated by a `>` line or
by a blank line.  In the second case the text of the quote is split into several chunks by the blank lines — of the
document or of an enclosing quote — and the later chunks continue the `blockquote` element of the first
(`C01_quote_chunk_merge`); `WF` excludes two quotes next to each other, which would merge the same way.

Milestones (helper lemmas: `Lemmas/DocParseQuote.lean`, on `Lemmas/DocParse.lean`):
* `C01_quote_recognised`   a chunk of `>`-lines reaches `BlockQuoteProcessor`: hash, Setext, rule and list
                           recognisers fail on it, the quote pattern matches at offset 0;
* `C01_quote_cleaned`      `clean` gives the inner lines back (`>` alone ↦ empty line);
* `C01_quote_chunk_new`, `C01_quote_chunk_merge`   the effect of one chunk on the parent, given the effect of the
                           chunks of its cleaned text (in the state `… blockquote`), with a fuel bound;
* `C01_quote_block_stage`  the parse tree of the printed document is the tree of the document, any depth;
* `C01_quote_inline_stage` `InlineProcessor.run` on such a tree: the stack loop visits every quote depth first,
                           processes every leaf where it sits and leaves the shape alone;
* `C01_quote_render`       prettify, unescape, serializer, post-processing: `<blockquote>\n…\n</blockquote>`;
* `C01_quote`              the composition.
The fuel of the block parser is bounded explicitly (`Effect … c` with `c ≤ 2 ·` the number of characters), so that
`parseDocument`'s own fuel is shown to suffice without appeal to totality.
-/
import MdVerif.Model.Pipeline
import MdVerif.Spec.Doc
import MdVerif.Spec.DocQuote
import MdVerif.Lemmas.DocParseQuote

namespace MdVerif.DocParse
open Py Block DocSpec Escape Inline

/-! ### the block stage -/

/-- **A quote chunk is recognised as a quote.**  Lines `qline i l` = `i ≤ 3` spaces, `>`, and — unless the inner line
    `l` is empty — a space and `l`; the inner lines without line feed and, when not empty, with a visible character.
    In any parser state, `dispatch` hands the chunk to `BlockQuoteProcessor` with the match at offset 0. -/
theorem C01_quote_recognised (pb : PB) (state : List BState) (refs : Refs) (parent : Node) (rest : List Str)
    (i : Nat) (hi : i ≤ 3) (ls : List Str) (hne : ls ≠ []) (h : ∀ l ∈ ls, InnerLine l) :
    dispatch 4 pb state refs parent (joinLines (ls.map (qline i))) rest =
      quoteP pb state refs parent (joinLines (ls.map (qline i))) rest 0 :=
  dispatch_quote pb state refs parent rest i hi ls hne h

/-- **Cleaning gives the inner text back.** -/
theorem C01_quote_cleaned (i : Nat) (hi : i ≤ 3) (ls : List Str) (hne : ls ≠ []) (h : ∀ l ∈ ls, InnerLine l) :
    joinLines ((lines (joinLines (ls.map (qline i)))).map quoteClean) = joinLines ls :=
  cleaned_qlines i hi ls hne h

/-- **A chunk that opens a quote.**  If the chunks `ICS` of the cleaned text append the elements `ns` (to any parent,
    in any non-list state, at cost `c`), then the quote chunk appends `<blockquote>ns</blockquote>` at cost `c + 2` —
    to any parent whose last child is neither a code block nor a `blockquote`. -/
theorem C01_quote_chunk_new (i : Nat) (hi : i ≤ 3) (L : List Str) (hne : L ≠ []) (hL : ∀ l ∈ L, InnerLine l)
    (ICS : List Str) (hsplit : splitS ['\n', '\n'] (joinLines L) = ICS) (ns : List Node) (c : Nat)
    (hinner : EffectL ICS ns c) (hadj : AdjOK none ns) :
    Effect [joinLines (L.map (qline i))] (bqNode ns) (c + 2) :=
  effect_quote_new i hi L hne hL ICS hsplit ns c hinner hadj

/-- **A chunk that continues the quote before it**: the elements go into the `blockquote` that is the parent's last
    child. -/
theorem C01_quote_chunk_merge (i : Nat) (hi : i ≤ 3) (L : List Str) (hne : L ≠ []) (hL : ∀ l ∈ L, InnerLine l)
    (ICS : List Str) (hsplit : splitS ['\n', '\n'] (joinLines L) = ICS) (ns : List Node) (c : Nat)
    (hinner : EffectL ICS ns c)
    (st : List BState) (refs : Refs) (parent : Node) (rest : List Str) (res : Node × Refs) (B : Nat)
    (cs : List Node) (hlast : parent.last? = some (bqNode cs)) (hadj : AdjOK cs.getLast? ns)
    (hr : Runs B st refs (parent.setLast (bqNode (cs ++ ns))) rest res) :
    Runs (B + (c + 2)) st refs parent (joinLines (L.map (qline i)) :: rest) res :=
  runs_quote_merge i hi L hne hL ICS hsplit ns c hinner st refs parent rest res B cs hlast hadj hr

/-- **Block stage.**  The block parser turns every spelling of a well-formed document of the sub-grammar into the
    tree of the document — a `<div>` of leaves and `blockquote` elements nested as the document is (`ts`), whose
    rendering is `spec d` — and records no reference. -/
theorem C01_quote_block_stage (d : Doc) (sp : Spelling) (hwf : WF d = true) (hq : QuoteDoc d = true) :
    ∃ ts : List QT, ts ≠ [] ∧ QT.oks ts = true ∧ join ['\n'] (QT.outs ts) = spec d ∧
      parseDocument 4 (print d sp ++ "\n\n".toList) =
        some (divOf (ts.map (QT.src Generated.escapedChars)), []) :=
  blockStage_quote d sp hwf hq

/-! ### the later stages -/

/-- **Inline stage.**  On a `<div>` of leaves and block quotes nested to any depth, `InlineProcessor.run` processes the
    text of every leaf (`QT.mid`: the escaped text becomes the coded text) and changes nothing else; the HTML stash is
    untouched. -/
theorem C01_quote_inline_stage (cfg : Inline.Cfg) (hE : EscOK cfg.esc) (ts : List QT) (hok : QT.oks ts = true)
    (html : List Str) :
    ∃ st', st'.html = html ∧
      Inline.run cfg (divOf (ts.map (QT.src cfg.esc))) html = some (divOf (ts.map (QT.mid cfg.esc)), st') :=
  run_qt cfg hE ts hok html

/-- **Rendering.**  All stages after the block parser on such a tree: the renderings of the trees, one per line; a
    quote renders as `<blockquote>`, line feed, its children one per line, line feed, `</blockquote>`. -/
theorem C01_quote_render (cfg : Pipeline.Cfg) (hE : EscOK cfg.esc) (hbl : cfg.blockLevel = TreeProc.defaultBlockLevel)
    (hfmt : cfg.fmt = .xhtml) (refs : List (Str × Str × Option Str)) (ts : List QT) (hne : ts ≠ [])
    (hok : QT.oks ts = true) :
    Probe.render cfg refs (divOf (ts.map (QT.src cfg.esc))) = .ok (join ['\n'] (QT.outs ts)) :=
  render_qt cfg hE hbl hfmt refs ts hne hok

example (ks : List QT) :
    (QT.bq ks).out = "<blockquote>\n".toList ++ join ['\n'] (QT.outs ks) ++ "\n</blockquote>".toList := rfl

/-! ### C01 on the sub-grammar -/

/-- **C01 for block quotes nested to any depth.**  `d` well-formed, every block a flat block or a quote of such blocks
    and quotes: under EVERY spelling the converter returns `spec d`. -/
theorem C01_quote (d : Doc) (sp : Spelling) (hwf : WF d = true) (hq : QuoteDoc d = true) :
    Pipeline.convert {} (print d sp) = .ok (spec d) :=
  convert_quote d sp hwf hq

/-- flat documents are in the sub-grammar: `C01_flat` is an instance -/
theorem C01_quote_covers_flat (d : Doc) (h : FlatDoc d = true) : QuoteDoc d = true := by
  induction d with
  | nil => rfl
  | cons b r ih =>
    simp only [FlatDoc, List.all_cons, Bool.and_eq_true] at h
    rw [QuoteDoc, isQuoteBlocks_cons]
    simp only [Bool.and_eq_true]
    refine ⟨?_, ih (by simpa [FlatDoc] using h.2)⟩
    cases b <;> simp_all [isFlatBlock, isQuoteBlock]

/-! ### the hypotheses are satisfiable; instances evaluated by the kernel -/

/-- quotes three deep, with every kind of flat block inside, a quote as first child, a quote as only child -/
def sampleQuote : Doc :=
  [.para [.text (S "intro")],
   .quote [.atx 3 [.text (S "In "), .esc '>'],
           .quote [.para [.text (S "deep "), .esc '*'], .rule, .quote [.setext 2 [.text (S "deeper")]]],
           .para [.text (S "back")]],
   .rule,
   .quote [.quote [.para [.text (S "x")]]]]

example : WF sampleQuote = true ∧ QuoteDoc sampleQuote = true := by decide

/-- the canonical spelling: children separated by `>` lines -/
example : print sampleQuote ⟨[]⟩ =
    ("intro\n\n> ### In \\>\n>\n> > deep \\*\n> >\n> > ***\n> >\n> > > deeper\n> > > -\n>\n> back\n\n***\n\n" ++
      "> > x").toList := by decide +kernel

/-- another spelling: indentation, a closing `##`, and — in the outer quote — blank lines between the children, so that
    the quote is three chunks of the document -/
example : print sampleQuote ⟨[1, 2, 1, 0, 3, 1, 2, 1, 0, 1, 1, 4, 1, 2, 2, 1, 1, 3, 1, 1, 2, 1, 1, 1, 1, 1, 1, 1]⟩ =
    (" intro\n\n  > ### In \\>\n\n  > > deep \\*\n  >\n  > > * * * * \n  >\n  > > > deeper\n  > > > --\n\n" ++
      "  > back\n\n   -  -  -  - \n\n > > x").toList := by decide +kernel

example : spec sampleQuote =
    ("<p>intro</p>\n<blockquote>\n<h3>In &gt;</h3>\n<blockquote>\n<p>deep *</p>\n<hr />\n<blockquote>\n" ++
      "<h2>deeper</h2>\n</blockquote>\n</blockquote>\n<p>back</p>\n</blockquote>\n<hr />\n<blockquote>\n" ++
      "<blockquote>\n<p>x</p>\n</blockquote>\n</blockquote>").toList := by decide +kernel

example : Pipeline.convert {}
    (print sampleQuote ⟨[1, 2, 1, 0, 3, 1, 2, 1, 0, 1, 1, 4, 1, 2, 2, 1, 1, 3, 1, 1, 2, 1, 1, 1, 1, 1, 1, 1]⟩) =
      .ok (spec sampleQuote) :=
  C01_quote _ _ (by decide) (by decide)

/-- the same instance evaluated by the kernel on the model, independently of the theorem -/
example : Pipeline.convert {}
    (print sampleQuote ⟨[1, 2, 1, 0, 3, 1, 2, 1, 0, 1, 1, 4, 1, 2, 2, 1, 1, 3, 1, 1, 2, 1, 1, 1, 1, 1, 1, 1]⟩) =
      .ok (spec sampleQuote) := by decide +kernel

/-- two quotes next to each other are not well-formed (they would merge into one) -/
example : WF [.quote [.rule], .quote [.rule]] = false := by decide

end MdVerif.DocParse
