/-
C14 — Serialisation is faithful; html and xhtml differ only in spelling.

Only property statements live here; helper lemmas are in `MdVerif/Lemmas/Serializer.lean`, the model of
`serializers.py` in `MdVerif/Model/Serializer.lean`, the strict reader (the specification) in `MdVerif/Spec/Reader.lean`.
-/
import MdVerif.Spec.Reader
import MdVerif.Lemmas.Serializer

namespace MdVerif.Ser
open Py

/-! ### 1. the multi-pass escapers are one left-to-right pass (each `&` is judged on the original text) -/

theorem C14_onepass_cdata (s : Str) : escCdata s = esc1 false false s := onepass_cdata s
theorem C14_onepass_attr (s : Str) : escAttrHtml s = esc1 true false s := onepass_attr s
theorem C14_onepass_attrib (s : Str) : escAttrib s = esc1 true true s := onepass_attrib s

/-! ### 2. escaped text cannot be mistaken for markup, and reads back as the source -/

/-- **escape/read.** For every string: the strict reader (which fails on any `<`, `>`, on `"` inside attribute
    values, and on any `&` that does not start an entity reference) accepts the escaped text and reads exactly what a
    tolerant reader reads in the source. -/
theorem C14_cdata_read (s : Str) : strict cdata 0 (escCdata s) = some (lenient cdata 0 s) := by
  rw [onepass_cdata]; exact strict_esc1 cdata s

theorem C14_attr_read (s : Str) : strict attr 0 (escAttrHtml s) = some (lenient attr 0 s) := by
  rw [onepass_attr]; exact strict_esc1 attr s

theorem C14_attrib_read (s : Str) : strict attrNl 0 (escAttrib s) = some (lenient attrNl 0 s) := by
  rw [onepass_attrib]; exact strict_esc1 attrNl s

/-- no `<`, `>` survives in text, and no `"` in an attribute value -/
theorem C14_cdata_no_markup (s : Str) : ∀ c ∈ escCdata s, c ≠ '<' ∧ c ≠ '>' := by
  intro c hc; rw [onepass_cdata] at hc
  exact ⟨(esc1_no_markup false false s c hc).1, (esc1_no_markup false false s c hc).2.1⟩

theorem C14_attr_no_markup (s : Str) : ∀ c ∈ escAttrHtml s, c ≠ '<' ∧ c ≠ '>' ∧ c ≠ '"' := by
  intro c hc; rw [onepass_attr] at hc
  exact ⟨(esc1_no_markup true false s c hc).1, (esc1_no_markup true false s c hc).2.1,
         (esc1_no_markup true false s c hc).2.2 rfl⟩

/-- an already well-formed entity reference is passed through unchanged -/
theorem C14_entity_passthrough (r : Str) (k : Nat) (h : entLen r = some k) :
    escCdata ('&' :: r) = '&' :: r.take k ++ escCdata (r.drop k) := by
  rw [onepass_cdata, onepass_cdata]; exact esc1_entity false false r k h

/-- escaping is idempotent -/
theorem C14_escape_idempotent (s : Str) : escCdata (escCdata s) = escCdata s := by
  rw [onepass_cdata, onepass_cdata]; exact esc1_idem false false s

/-- text without `&` reads as itself: `lenient` is not a trivialising reader -/
theorem C14_lenient_plain (m : Mode) (s : Str) (h : ∀ c ∈ s, c ≠ '&') : lenient m 0 s = s.map Tok.ch :=
  lenient_plain m s h

/-! ### 3. serialise-then-read round trip of whole trees, in both formats -/

/-- **round trip.** Serialising a well-formed tree and reading the result back with the strict reader yields the tree's
    elements, attributes and texts (`canon`: attributes sorted, texts as token lists, `None`-tag nodes spliced into their
    parent, adjacent texts merged), for every tree of any size and depth. -/
theorem C14_roundtrip (fmt : Fmt) (t : Node) (h : WFTree t = true) :
    readForest fmt (serialize fmt t) = some (canon t) := roundtrip fmt t h

/-- **html and xhtml differ only in spelling**: both serialisations read back to the same thing. -/
theorem C14_formats_agree (t : Node) (h : WFTree t = true) :
    readForest .html (serialize .html t) = readForest .xhtml (serialize .xhtml t) := by
  rw [roundtrip .html t h, roundtrip .xhtml t h]

/-- script/style text is emitted raw -/
theorem C14_script_style_raw (fmt : Fmt) (t s : Str) (hraw : isRawTextTag t = true) (hne : isEmptyTag t = false)
    (hs : s ≠ []) :
    serialize fmt { tag := .name t, text := some s } = '<' :: t ++ ['>'] ++ s ++ "</".toList ++ t ++ ['>'] := by
  cases s with
  | nil => exact absurd rfl hs
  | cons c cs => simp [serialize, element, writeAttrs, sortAttrs, Node.truthy, hraw, hne, serializeList]

/-! ### non-vacuity and the finding -/

def sampleTree : Node :=
  { tag := .name "div".toList,
    attrs := [("title".toList, "a\"b & c &amp; <".toList), ("checked".toList, "checked".toList)],
    text := some "x & y <z> &#12;".toList,
    children := [{ tag := .name "br".toList, tail := some "tail &".toList },
                 { tag := .comment, text := some "c <>".toList },
                 { tag := .name "p".toList,
                   children := [{ tag := .none, text := some "in".toList,
                                  children := [{ tag := .name "em".toList, text := some "e".toList,
                                                 tail := some "t".toList }] }],
                   tail := some "\n".toList }] }

example : WFTree sampleTree = true := by decide

example : serialize .xhtml sampleTree =
    ("<div checked=\"checked\" title=\"a&quot;b &amp; c &amp; &lt;\">x &amp; y &lt;z&gt; &#12;<br />tail &amp;" ++
     "<!--c &lt;&gt;--><p>in<em>e</em>t</p>\n</div>").toList := by decide +kernel

example : serialize .html sampleTree =
    ("<div checked title=\"a&quot;b &amp; c &amp; &lt;\">x &amp; y &lt;z&gt; &#12;<br>tail &amp;" ++
     "<!--c &lt;&gt;--><p>in<em>e</em>t</p>\n</div>").toList := by decide +kernel

/-- F-C14-1: without "void elements are empty" the two formats do *not* agree: a `br` with text. -/
def brWithText : Node := { tag := .name "br".toList, text := some "x".toList }
example : WFTree brWithText = false := by decide
example : serialize .html brWithText = "<br>x".toList ∧ serialize .xhtml brWithText = "<br />".toList := by decide

/-- the strict reader is strict: it rejects an unclosed element, bad nesting, an unquoted attribute value, an attribute
    name written twice, a bare `&`, a raw `>`, a `"` inside an attribute value, and the void spelling of the other format
    (one kernel evaluation each) -/
example : (readForest .xhtml "<p>x".toList).isNone = true := by decide +kernel
example : (readForest .xhtml "<p><em>x</p></em>".toList).isNone = true := by decide +kernel
example : (readForest .xhtml "<a href=x>t</a>".toList).isNone = true := by decide +kernel
example : (readForest .xhtml "<a href=\"x\" href=\"y\">t</a>".toList).isNone = true := by decide +kernel
example : (readForest .html "<p a a>t</p>".toList).isNone = true := by decide +kernel
example : (readForest .xhtml "a & b".toList).isNone = true := by decide +kernel
example : (readForest .xhtml "a > b".toList).isNone = true := by decide +kernel
example : (readForest .xhtml "<a title=\"a\"b\">t</a>".toList).isNone = true := by decide +kernel
example : (readForest .xhtml "<br>".toList).isNone = true := by decide +kernel
example : (readForest .html "<br />".toList).isNone = true := by decide +kernel
example : (readForest .html "<p a b=\"c &amp; d\">t<br>u</p>".toList).isSome = true := by decide +kernel
example : (readForest .xhtml "<p a=\"a\" b=\"c &amp; d\">t<br />u</p>".toList).isSome = true := by decide +kernel

end MdVerif.Ser
