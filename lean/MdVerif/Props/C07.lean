/-
C07 — Prefixing an escapable character (backslash, backtick, `*`, `_`, braces, brackets, parentheses, `>`, `#`, `+`,
`-`, `.`, `!`, plus any added by an enabled extension) with a backslash makes it render as that literal character and
stops it acting as markup.  A text in which every such character is escaped renders as exactly that text in a single
paragraph.

End to end, on the model of `Markdown.convert` (`Pipeline.convert`): for every text `t` of the domain

    convert (escAll ESCAPED_CHARS t) = "<p>" ++ escape_cdata(t) ++ "</p>"

(`C07`; `C07_general` for any `tab_length > 0`, either output format and any further escapable characters added by
extensions; `C07_single_escape` for one escaped character in otherwise plain text).  The block-parser stage is
`Props/C07Block.lean`; this file adds the inline processor, the two tree processors, the serializer and the
post-processing, as milestone theorems that are composed at the end:

  `C07_backtick_never_matches`  pattern 0 (`BACKTICK_RE`) finds nothing in an escaped text (parity of backslash runs)
  `C07_escape_pass`             patterns 0–1 of `__handleInline`: every `\c` becomes an inline placeholder
  `C07_later_patterns_inert`    patterns 2–15 find nothing in the residue
  `C07_handle_inline`           `__handleInline` on the escaped text
  `C07_inline_paragraph`        `InlineProcessor.run` on `<div><p>escaped text</p></div>`
  `C07_unescape_restores`       `UnescapeTreeprocessor` turns the codes `STX ord ETX` back into the characters
  `C07_serialize_finish`        serializer, `<div>` stripping, post-processors, `.strip()`
  `C07_extract_no_amp`          the raw-HTML preprocessor leaves `&`-free text alone

Vocabulary: `Spec/Escape.lean` (`escAll`, `EscDomain`), `Spec/EscapeFull.lean` (`EscDomainFull`, `resid`, `stashOf`,
`coded`, `escCode`); helper lemmas: `Lemmas/InlineEsc.lean`, `Lemmas/BlockEsc.lean`.

The final domain is `EscDomainFull t = EscDomain t ∧ "  \n" does not occur in t`:
* no `<`, `&`, STX, ETX, tab, CR; every line has a character other than a space; the first character is not white
  space; no line is `=+[ ]*` (all from `EscDomain`, see `Props/C07Block.lean` for the counterexamples);
* no hard line break: two spaces before a line feed are markup of their own (`<br />`) that no backslash can switch
  off (`C07_hard_break_counterexample`; inherent).
Trailing spaces of the last line are *not* excluded: the final `.strip()` sees `<p>…</p>` (`example` below).
-/
import MdVerif.Model.Pipeline
import MdVerif.Spec.EscapeFull
import MdVerif.Lemmas.InlineEsc
import MdVerif.Props.C07Block

namespace MdVerif.Escape
open Py Inline

/-! ### the generated table -/

/-- the characters the inline patterns depend on are in `Markdown.ESCAPED_CHARS` as found in the source -/
theorem C07_escapable_chars_inline :
    '\\' ∈ Generated.escapedChars ∧ '`' ∈ Generated.escapedChars ∧ '[' ∈ Generated.escapedChars ∧
    '!' ∈ Generated.escapedChars ∧ '*' ∈ Generated.escapedChars ∧ '_' ∈ Generated.escapedChars := by decide

/-! ### pattern 0: backtick -/

/-- **Parity.**  In an escaped text, a backtick that follows a run of backslashes follows an *odd* run (the
    backslashes of `escAll` come in pairs `\\`, plus the one that escapes the backtick). -/
theorem C07_backslash_run_parity (esc : List Char) (hb : '\\' ∈ esc) (ht : '`' ∈ esc) (t : Str) :
    (escAll esc t)[countPrefix '\\' none (escAll esc t)]? = some '`' →
      countPrefix '\\' none (escAll esc t) % 2 = 1 :=
  tick_after_run_odd hb ht t

/-- **`BACKTICK_RE` never matches an escaped text**: neither alternative 1 (an even run of backslashes before a
    backtick) nor alternative 2 (a backtick not preceded by a backslash) — at any offset of the scan. -/
theorem C07_backtick_never_matches (esc : List Char) (hb : '\\' ∈ esc) (ht : '`' ∈ esc) (t : Str) :
    btFind (escAll esc t) 0 = none ∧ ∀ prev i, btScan prev (escAll esc t) i = none :=
  ⟨btFind_escAll hb ht t, fun prev i => btScan_escAll hb ht t prev i⟩

/-- unescaped, the same text is a code span -/
example : (btFind "\\\\`a`".toList 0).isSome = true ∧
    btFind (escAll Generated.escapedChars "\\\\`a`".toList) 0 = none := by decide

/-! ### pattern 1: escape -/

/-- **The escape pass.**  Starting the pattern loop of `__handleInline` on `escAll esc t` at pattern 0 with enough
    fuel leads — after one turn for pattern 0 and one turn per escaped character for pattern 1 — to pattern 2 with the
    text `resid esc n t` (every escapable character replaced by the next inline placeholder) and the stash extended by
    `stashOf esc t` (the codes `STX ord(c) ETX`).  For any nested `__handleInline` (`hi`: it is never called). -/
theorem C07_escape_pass (cfg : Inline.Cfg) (hi : HI) (hb : '\\' ∈ cfg.esc) (ht : '`' ∈ cfg.esc) (t : Str) (st : St)
    (g : Nat) :
    hiLoop (applyPattern cfg hi) (g + (stashOf cfg.esc t).length + 2) (escAll cfg.esc t) 0 0 st =
      hiLoop (applyPattern cfg hi) g (resid cfg.esc st.stash.length t) 2 0
        { st with stash := st.stash ++ stashOf cfg.esc t } :=
  patterns01 cfg hi hb ht t st g

example : resid Generated.escapedChars 0 "a*b_".toList =
    "a\x02klzzwxh:0000\x03b\x02klzzwxh:0001\x03".toList := by decide

/-! ### patterns 2–15 -/

/-- **The other patterns are inert on the residue.**  With `[ ! * _` escapable, no `&` and no hard break in `t`,
    none of the patterns 2–15 (reference, link, image link, image reference, short reference, short image reference,
    autolink, automail, line break, inline html, entity, not-strong, the two emphasis processors) matches
    `resid esc n t`: `__applyPattern` returns the text unchanged and `matched = False`. -/
theorem C07_later_patterns_inert (cfg : Inline.Cfg) (hi : HI)
    (m1 : '[' ∈ cfg.esc) (m2 : '!' ∈ cfg.esc) (m3 : '*' ∈ cfg.esc) (m4 : '_' ∈ cfg.esc)
    (t : Str) (hamp : '&' ∉ t) (hbr : find [' ', ' ', '\n'] t = none) (n : Nat) (st : St)
    (pi : Nat) (h2 : 2 ≤ pi) (h16 : pi < 16) :
    applyPattern cfg hi pi (resid cfg.esc n t) 0 st = some (resid cfg.esc n t, false, 0, st) :=
  applyPattern_inert cfg hi pi h2 h16 _ st (inert_resid m1 m2 m3 m4 t hamp n) (find_break_resid t hbr n)

/-- **`__handleInline` on an escaped text.** -/
theorem C07_handle_inline (cfg : Inline.Cfg) (t : Str) (st : St)
    (m0 : '\\' ∈ cfg.esc) (mt : '`' ∈ cfg.esc) (m1 : '[' ∈ cfg.esc) (m2 : '!' ∈ cfg.esc) (m3 : '*' ∈ cfg.esc)
    (m4 : '_' ∈ cfg.esc) (hamp : '&' ∉ t) (hbr : find [' ', ' ', '\n'] t = none) :
    handleInlineTop cfg (escAll cfg.esc t) st =
      some (resid cfg.esc st.stash.length t, { st with stash := st.stash ++ stashOf cfg.esc t }) :=
  handleInlineTop_escAll cfg t st m0 mt m1 m2 m3 m4 hamp hbr

/-! ### the inline tree processor -/

/-- **`InlineProcessor.run`** turns `<div><p>escAll esc t</p></div>` into `<div><p>coded esc t</p></div>`: the
    paragraph has no child elements, its text is `t` with every escapable character replaced by its code
    `STX ord(c) ETX`; the HTML stash stays empty. -/
theorem C07_inline_paragraph (cfg : Inline.Cfg) (t : Str) (ht : t ≠ [])
    (m0 : '\\' ∈ cfg.esc) (mt : '`' ∈ cfg.esc) (m1 : '[' ∈ cfg.esc) (m2 : '!' ∈ cfg.esc) (m3 : '*' ∈ cfg.esc)
    (m4 : '_' ∈ cfg.esc) (hamp : '&' ∉ t) (hbr : find [' ', ' ', '\n'] t = none) (hstx : Inline.STX ∉ t) :
    Inline.run cfg (singleParagraph (escAll cfg.esc t)) =
      some (singleParagraph (coded cfg.esc t), { stash := stashOf cfg.esc t, html := [] }) :=
  run_paragraph cfg t ht m0 mt m1 m2 m3 m4 hamp hbr hstx

example : coded Generated.escapedChars "a*b".toList = "a\x0242\x03b".toList := by decide

/-! ### the tree processors -/

/-- **`UnescapeTreeprocessor` restores the characters**: `STX ord(c) ETX ↦ c`, for every `esc` and every text without
    STX. -/
theorem C07_unescape_restores (esc : List Char) (t : Str) (hstx : Inline.STX ∉ t) :
    TreeProc.unescapeText 0 (coded esc t) = some t :=
  unescapeText_coded t hstx

/-- prettify + unescape on the tree that the inline processor returns: `<div>\n<p>t</p>\n</div>\n` -/
theorem C07_tree_processors (esc : List Char) (t : Str) (ht : t ≠ []) (hstx : Inline.STX ∉ t) :
    TreeProc.unescapeTree (TreeProc.prettify (singleParagraph (coded esc t))) = some (prettyDoc t) := by
  have := prettify_paragraph (coded esc t)
  simp only [singleParagraph] at this ⊢
  show TreeProc.unescapeTree (TreeProc.prettify ((Node.el "div").append (Block.mkText "p" (coded esc t)))) = _
  rw [this]
  exact unescapeTree_prettyDoc _ t (coded_ne_nil ht) (unescapeText_coded t hstx)

/-! ### serializer and post-processing -/

/-- **Serializer, `<div>` stripping, `RawHtmlPostprocessor` (empty stash), `AndSubstitutePostprocessor`, `.strip()`**
    on that tree give `<p>` + `_escape_cdata(t)` + `</p>`, whatever `t` contains besides STX (trailing spaces of `t`
    are inside the paragraph and survive). -/
theorem C07_serialize_finish (fmt : Ser.Fmt) (bl : List Str) (t : Str) (ht : t ≠ []) (hstx : Inline.STX ∉ t) :
    Post.finish bl [] (Ser.serialize fmt (prettyDoc t)) =
      some (some ("<p>".toList ++ Ser.escCdata t ++ "</p>".toList)) := by
  rw [serialize_prettyDoc fmt t ht]
  exact finish_paragraph bl t hstx

/-- **`HtmlBlockPreprocessor`** leaves text without `&` (and `<`) as it is -/
theorem C07_extract_no_amp (s : Str) (h : '&' ∉ s) : Extract.extract s = s :=
  extract_no_amp s h

/-! ### end to end -/

/-- **C07, general form.**  `tab_length > 0`, the default block-level elements, either output format; the escapable
    set is `ESCAPED_CHARS` of the source extended by any `extra` characters (those of enabled extensions) other than
    the line feed.  For every text `t` of `EscDomainFull`, converting the text in which every escapable character is
    escaped gives one paragraph with exactly `t` (HTML-escaped by the serializer). -/
theorem C07_general (cfg : Pipeline.Cfg) (htab : cfg.tab > 0) (hbl : cfg.blockLevel = TreeProc.defaultBlockLevel)
    (extra : List Char) (hx : '\n' ∉ extra) (hesc : cfg.esc = Generated.escapedChars ++ extra)
    (t : Str) (h : EscDomainFull t = true) :
    Pipeline.convert cfg (escAll cfg.esc t) = .ok ("<p>".toList ++ Ser.escCdata t ++ "</p>".toList) := by
  obtain ⟨m1, m2, m3, m4, m5, m6, m7, m8, hnl⟩ := C07_escapable_chars
  obtain ⟨m0, mt, _, m9, _, _⟩ := C07_escapable_chars_inline
  have hnl' : '\n' ∉ cfg.esc := by
    rw [hesc]; intro hm; rcases List.mem_append.1 hm with hm | hm
    · exact hnl hm
    · exact hx hm
  have mem : ∀ c, c ∈ Generated.escapedChars → c ∈ cfg.esc := fun c hc => hesc ▸ List.mem_append_left _ hc
  exact convert_escaped cfg htab hbl hnl' (mem _ m0) (mem _ mt) (mem _ m1) (mem _ m2) (mem _ m3) (mem _ m4)
    (mem _ m5) (mem _ m6) (mem _ m7) (mem _ m8) (mem _ m9) t h

/-- **C07.**  Default configuration.  For every text `t` of the domain (`EscDomainFull`: no `<`, `&`, STX, ETX, tab,
    CR; every line has a character other than a space; the first character is not white space; no line is `=+[ ]*`;
    no two spaces before a line feed), the text in which every escapable character is escaped renders as exactly
    that text in a single paragraph. -/
theorem C07 (t : Str) (h : EscDomainFull t = true) :
    Pipeline.convert {} (escAll Generated.escapedChars t) =
      .ok ("<p>".toList ++ Ser.escCdata t ++ "</p>".toList) :=
  C07_general {} (by decide) rfl [] (by simp) (by simp) t h

/-- **One escaped character.**  `a` and `b` contain no escapable character, `c` is escapable, and `a c b` is in the
    domain: then `a \c b` renders as the paragraph `a c b` — the backslash is gone, `c` is there literally and is no
    markup. -/
theorem C07_single_escape (a b : Str) (c : Char) (hc : c ∈ Generated.escapedChars)
    (ha : ∀ x ∈ a, x ∉ Generated.escapedChars) (hb : ∀ x ∈ b, x ∉ Generated.escapedChars)
    (h : EscDomainFull (a ++ c :: b) = true) :
    Pipeline.convert {} (a ++ '\\' :: c :: b) =
      .ok ("<p>".toList ++ Ser.escCdata (a ++ c :: b) ++ "</p>".toList) := by
  have := C07 (a ++ c :: b) h
  rw [escAll_append, escAll_cons_mem hc, escAll_of_no_esc a ha, escAll_of_no_esc b hb] at this
  exact this

/-- every escapable character on its own is in the domain: `\c` renders as `<p>c</p>` (HTML-escaped) -/
theorem C07_each_escapable_char :
    ∀ c ∈ Generated.escapedChars, Pipeline.convert {} ['\\', c] =
      .ok ("<p>".toList ++ Ser.escCdata [c] ++ "</p>".toList) := by
  intro c hc
  have hd : ∀ c ∈ Generated.escapedChars, EscDomainFull [c] = true := by decide
  exact C07_single_escape [] [] c hc (by simp) (by simp) (hd c hc)

/-! ### the hypotheses are satisfiable, and what they exclude -/

/-- a text of the domain with every kind of markup, an indented continuation line and trailing spaces -/
example : EscDomainFull "# *a* `b` [c](d) ![e] _f_ \\ 1. > \n        - x <".toList = false ∧
    EscDomainFull "# *a* `b` [c](d) ![e] _f_ \\ 1. > \n        - x  ".toList = true := by decide

/-- the theorem on an instance: trailing spaces of the text survive -/
example : Pipeline.convert {} (escAll Generated.escapedChars "*a* > b  ".toList) =
    .ok "<p>*a* &gt; b  </p>".toList :=
  C07 _ (by decide)

/-- `\*` in plain text -/
example : Pipeline.convert {} "2 \\* 3".toList = .ok "<p>2 * 3</p>".toList :=
  C07_single_escape "2 ".toList " 3".toList '*' (by decide) (by decide) (by decide) (by decide)

/-- **Hard line break (excluded).**  `a  \nb` is in `EscDomain`, nothing in it is escapable, and it renders with a
    `<br />`: two spaces before a line feed cannot be escaped. -/
theorem C07_hard_break_counterexample :
    EscDomain "a  \nb".toList = true ∧ EscDomainFull "a  \nb".toList = false ∧
    escAll Generated.escapedChars "a  \nb".toList = "a  \nb".toList ∧
    Pipeline.convert {} (escAll Generated.escapedChars "a  \nb".toList) = .ok "<p>a<br />\nb</p>".toList := by
  decide +kernel

/-- **Setext underline (excluded), end to end.**  `=` is not escapable. -/
theorem C07_setext_counterexample_full :
    EscDomainFull "a\n=".toList = false ∧
    Pipeline.convert {} (escAll Generated.escapedChars "a\n=".toList) = .ok "<h1>a</h1>".toList := by
  decide +kernel

/-- **Leading space (excluded), end to end**: the paragraph loses it. -/
theorem C07_leading_space_counterexample_full :
    EscDomainFull " a".toList = false ∧
    Pipeline.convert {} (escAll Generated.escapedChars " a".toList) = .ok "<p>a</p>".toList := by
  decide +kernel

end MdVerif.Escape
