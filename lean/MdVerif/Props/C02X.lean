/-
C02 — conversion is total: never raises, always terminates.  The EXTENSION model: the extended block parser
(`Model/BlockExt.lean` + `BlockExtT.lean`: admonition, def_list, footnotes, abbr, sane_lists, tables) and the stages of
`PipelineX.treeX` / `convertX` around it.

Only property statements live here.  Helper lemmas are in `MdVerif/Lemmas/BlockExtFuel.lean`, `BlockExtFuelProc.lean`,
`BlockExtFuelTotal.lean`, `BlockExtFuelMono.lean` (block parser), `BlockExtFuelHtml.lean` (HTML stash of `runX`),
`BlockExtFuelPipe.lean` (the
`oof` answers of the pipeline; it also names the stages of `treeX`: `blockStageX`, `fnStageX`, `inlineCfgX`, `midStageX`,
`tocStageX`, `lateStageX`, with `treeX_eq`), `BlockExtFuelErr.lean` (the `err` answers).

## 1. The extended block parser terminates

`parseBlocksXT` runs the `while blocks:` loop of `BlockParser.parseBlocks` — with the processors the extensions register
— and all the recursive `parseBlocks` / `parseChunk` calls of the processors on an explicit fuel.  The measure argument
of `Props/C02Block.lean` extends: with `mu blocks = Σ (len b + 1)`,

* admonition (`!!! …` line):   the text before the match (`< len b`) and the detabbed body (`≤ len b − 3`) go to the
                               callback; what `detab` gives back is re-queued (`≤ len b − 3`);
* admonition (sibling branch): the block starts with `indent ≥ tab_length` spaces (`admContent_some`), `detab` removes
                               them: body + re-queued rest `≤ len b − indent`.  This is where `0 < tab_length` is used;
* defindent:                   as `ListIndentProcessor`: a block list as large as `[b]`, but in state `detabbed`;
* sane lists:                  as the core list processors (`get_items` with another `CHILD_RE`);
* deflist:                     the `dd` body is `group 2 + '\n' + detabbed rest`, `≤ len b − 1`; the processor may
                               decline (then the next processor runs);
* footnote, abbr, table:       no recursive call; what they re-queue is shorter than `b` (the definition consumed `≥ 4`
                               characters).  `AbbrBlockprocessor.run` does not raise (`C02_abbr_never_raises`).

Python's own recursion limit (`RecursionError`, finding F-C02-3) is not part of the model.
-/
import MdVerif.Props.C02Block
import MdVerif.Lemmas.BlockExtFuelTotal
import MdVerif.Lemmas.PipelineX
import MdVerif.Lemmas.BlockExtFuelErr
import MdVerif.Lemmas.BlockExtFuelMono

namespace MdVerif.BlockExt
open Py Block

/-- **C02 (extended block parser).**  For every set of block-level extensions (tables, admonition, def_list,
    footnotes, abbr, sane_lists), every text and every tab length — `0 < tab_length` is needed only when the admonition
    extension is on — `parseDocumentXT` never runs out of fuel: the extended `BlockParser.parseDocument` terminates on
    every input.  (`none` is also the model's answer for an exception of `AbbrBlockprocessor.run`; there is none.) -/
theorem C02_parseDocumentXT_total (tables : Bool) (xc : XCfg) (tab : Nat) (text : Str)
    (htab : xc.admonition = true → 0 < tab) : parseDocumentXT tables xc tab text ≠ none := by
  have := Fuel.parseDocumentXT_total tables xc tab htab text
  intro h; rw [h] at this; cases this

/-- the hypothesis holds for every meaningful configuration … -/
example : ({ admonition := true, defList := true, footnotes := true, abbr := true, saneLists := true } : XCfg).admonition
    = true → 0 < 4 := fun _ => by decide
/-- … and without the admonition extension for every tab length, 0 included -/
example (tab : Nat) : ({ defList := true, footnotes := true } : XCfg).admonition = true → 0 < tab :=
  fun h => by cases h
example : (parseDocumentXT true { admonition := true, defList := true, footnotes := true, abbr := true, saneLists := true }
    4 "!!! note\n    a\n\n    b\n\nt\n:   d\n\n[^1]: f\n\n*[A]: B\n\n1. x\n\nh|h\n-|-\nc|d".toList).isSome := by
  decide +kernel

/-- all flags, `tab_length ≥ 1`: the form asked for -/
theorem C02_parseDocumentXT_total_pos (tables : Bool) (xc : XCfg) (tab : Nat) (text : Str) (htab : 1 ≤ tab) :
    parseDocumentXT tables xc tab text ≠ none :=
  C02_parseDocumentXT_total tables xc tab text (fun _ => htab)

/-- the same for `parseDocumentX` (no table processor): the tree and the three tables are always produced -/
theorem C02_parseDocumentX_total (xc : XCfg) (tab : Nat) (text : Str) (htab : xc.admonition = true → 0 < tab) :
    parseDocumentX xc tab text ≠ none := by
  have h := Fuel.parseDocumentXT_total false xc tab htab text
  simp only [parseDocumentXT, parseBlocksXT_false] at h
  simp only [parseDocumentX, parseDocumentLog, parseDocumentLogWith]
  intro hn
  cases hx : parseChunk (parseBlocksX xc tab (fuelForX text.length)) [] [] (Node.el "div") text with
  | none => rw [hx] at h; cases h
  | some r => rw [hx] at hn; cases hn

/-- the fuel `parseBlocksXT` needs: `2 * mu blocks + 1`, and `2 * mu blocks` when the state is `detabbed`; with that
    much fuel the loop and all its recursive calls terminate, whatever the state, parent and tables -/
theorem C02_parseBlocksXT_total (tables : Bool) (xc : XCfg) (tab f : Nat) (htab : xc.admonition = true → 0 < tab)
    (state : List BState) (log : Refs) (parent : Node) (blocks : List Str)
    (hf : 2 * mu blocks + (if isstate state .detabbed then 0 else 1) ≤ f) :
    (parseBlocksXT tables xc tab f state log parent blocks).isSome :=
  Fuel.parseBlocksXT_total tables xc tab htab f state log parent blocks hf

example : 2 * mu ["!!! a\n    b".toList] + (if isstate [] .detabbed then 0 else 1) ≤ 25 := by decide
/-- the bound is not vacuous: with too little fuel the model does answer `none` -/
example : (parseBlocksXT false { admonition := true } 4 1 [] [] (Node.el "div") ["!!! a\n    b".toList]).isNone = true := by
  decide +kernel

/-- `parser.parseChunk(parent, text)` with the fuel for `text` (what `FootnoteTreeprocessor` calls for every footnote
    text, `PipelineX.parseChunkX`) terminates in every state, for every parent and tables -/
theorem C02_parseChunkXT_total (tables : Bool) (xc : XCfg) (tab : Nat) (htab : xc.admonition = true → 0 < tab)
    (state : List BState) (log : Refs) (parent : Node) (text : Str) (f : Nat) (hf : fuelForX text.length ≤ f) :
    (parseChunk (parseBlocksXT tables xc tab f) state log parent text).isSome :=
  Fuel.parseChunkXT_total tables xc tab htab state log parent text f hf

example : fuelForX "a\n\n    b".toList.length ≤ 100 := by decide

/-- **progress of one turn of the extended loop.**  If the callback terminates on every block list of measure
    `≤ len b` and — when the state is not `detabbed` — on every block list of measure `≤ len b + 1` in the state with
    `detabbed` pushed, then the first applicable processor (extension processors included) succeeds and the block list
    it leaves has measure `≤ mu rest + len b < mu (b :: rest)`. -/
theorem C02_dispatchXT_progress (tables : Bool) (xc : XCfg) (tab : Nat) (htab : xc.admonition = true → 0 < tab) (pb : PB)
    (state : List BState) (log : Refs) (parent : Node) (b : Str) (rest : List Str) (hS : Small pb b.length)
    (hD : isstate state .detabbed = false → SmallD pb state (b.length + 1)) :
    Progress (dispatchXT tables xc tab pb state log parent b rest) b rest :=
  Fuel.dispatchXT_progress tables xc tab htab pb state log parent b rest hS hD

/-- the hypotheses are satisfiable: `parseBlocksXT` with enough fuel is such a callback -/
example (tab : Nat) : Small (parseBlocksXT true {} tab 21) 10 :=
  fun st refs parent bl h => Fuel.parseBlocksXT_total true {} tab (fun h => by cases h) 21 st refs parent bl
    (by simp only [need]; split <;> omega)

/-- The hypothesis `0 < tab_length` cannot be dropped from the progress statement: with `tab_length = 0` the sibling
    branch of `AdmonitionProcessor.run` hands the *unchanged* block to the parser again, one element deeper in the tree
    (`' ' * 0` is a prefix of everything).  A callback that terminates on all block lists smaller than `[b]` is not
    enough then — the implementation still terminates, because the tree is finite (each level of nesting was paid for by
    an earlier `!!!` line of the text), but not by the measure argument; no input that exhausts `fuelForX` with
    `tab_length = 0` is known (tested: minimal-fuel search over 1 500 nested-admonition and token-soup texts × 7 flag sets). -/
example :
    let parent := (Node.el "div").append { Node.el "div" with attrs := [("class".toList, "admonition note".toList)] }
    let pb : PB := fun _ _ _ bl => if mu bl ≤ 3 then some (Node.el "x", []) else none
    Small pb "foo".toList.length ∧
    dispatchXT false { admonition := true } 0 pb [] [] parent "foo".toList [] = none ∧
    (dispatchXT false { admonition := true } 4 pb [] [] parent "foo".toList []).isSome = true := by
  refine ⟨fun st refs parent bl h => ?_, by decide +kernel, by decide +kernel⟩
  simp only [show "foo".toList.length = 3 from rfl] at h
  simp [h]

/-- **`AbbrBlockprocessor.run` never raises** (since the repair of F-C02-4: `self.abbrs.pop(abbr, None)`): the model's
    `raised` outcome is not produced, for any block, table log and remaining blocks. -/
theorem C02_abbr_never_raises (log : Refs) (b : Str) (rest : List Str) : abbrP log b rest ≠ .raised :=
  Fuel.abbrP_ne_raised log b rest

/-- the recursive calls of the extension processors are on smaller texts — the three facts the argument rests on:
    what `detab` returns is together no longer than the text (and shorter by the indent when the text starts with it);
    the sibling branch of the admonition processor only fires on a block that starts with `indent ≥ tab_length` spaces;
    the items of a (sane) list block are together shorter than the block -/
theorem C02_ext_recursion_smaller :
    (∀ (n : Nat) (s : Str), (detab n s).1.length + (detab n s).2.length ≤ s.length) ∧
    (∀ (n : Nat) (s : Str), startsWith s (spaces n) = true →
      (detab n s).1.length + (detab n s).2.length + n ≤ s.length) ∧
    (∀ (tab : Nat) (parent : Node) (b : Str) (k ind : Nat), admContent tab parent b = some (k, ind) →
      startsWith b (spaces ind) = true ∧ tab ≤ ind) ∧
    (∀ (p : ListParams) (tab : Nat) (ol ul : Bool) (b : Str), (listItemMatch tab ol ul b).isSome = true →
      mu (getItemsX p tab b) ≤ b.length) :=
  ⟨Fuel.detab_length, Fuel.detab_length_strict, fun _ _ _ _ _ h => Fuel.admContent_some h,
   fun p _ _ _ _ h => Fuel.mu_getItemsX p h⟩

/-- **every turn of the extended loop is monotone in the recursive callback**: if `pb'` answers what `pb` answers
    wherever `pb` answers, then a turn with `pb'` answers what the turn with `pb` answers (all processors, extension
    processors included, only ever *use* the results of their recursive calls) -/
theorem C02_dispatchXT_mono (tables : Bool) (xc : XCfg) (tab : Nat) (pb pb' : PB)
    (hle : ∀ st log parent bl r, pb st log parent bl = some r → pb' st log parent bl = some r)
    (state : List BState) (log : Refs) (parent : Node) (b : Str) (rest : List Str) (r : Node × Refs × List Str)
    (h : dispatchXT tables xc tab pb state log parent b rest = some r) :
    dispatchXT tables xc tab pb' state log parent b rest = some r :=
  Fuel.dispatchXT_le hle h

/-- **more fuel never changes a result** of the extended block parser -/
theorem C02_parseBlocksXT_fuel_mono (tables : Bool) (xc : XCfg) (tab f k : Nat) (state : List BState) (log : Refs)
    (parent : Node) (blocks : List Str) (r : Node × Refs)
    (h : parseBlocksXT tables xc tab f state log parent blocks = some r) :
    parseBlocksXT tables xc tab (f + k) state log parent blocks = some r :=
  Fuel.parseBlocksXT_fuel_mono k h

example : (parseBlocksXT true { admonition := true } 4 5 [] [] (Node.el "div") ["!!! a\n    b".toList]).isSome = true := by
  decide +kernel

/-- the result of `parseDocumentXT` is the result with any larger fuel: the fuel `fuelForX` is not observable -/
theorem C02_parseDocumentXT_fuel_irrelevant (tables : Bool) (xc : XCfg) (tab f : Nat) (text : Str)
    (htab : xc.admonition = true → 0 < tab) (hf : fuelForX text.length ≤ f) :
    parseChunk (parseBlocksXT tables xc tab f) [] [] (Node.el "div") text = parseDocumentXT tables xc tab text := by
  obtain ⟨r, hr⟩ := Option.isSome_iff_exists.1 (Fuel.parseDocumentXT_total tables xc tab htab text)
  rw [hr]
  simp only [parseDocumentXT, parseChunk] at hr ⊢
  have := Fuel.parseBlocksXT_fuel_mono (f - fuelForX text.length) hr
  rwa [Nat.add_sub_cancel' hf] at this

example : fuelForX "!!! a\n    b".toList.length ≤ 1000 := by decide

end MdVerif.BlockExt

/-! ## 2. The pipeline: which stages of `treeX` / `convertX` can run out of fuel

`PipelineX.treeX` answers `oof` when a fuel of the model is exhausted.  The stages, named in
`Lemmas/BlockExtFuelPipe.lean` (`treeX_eq`: `treeX` is their composition):

    blockStageX   preprocessors (`prepareX`: normalize, fenced_code, html_block) · block parser (`parseDocumentXT`) ·
                  footnote tree processor (`fnStageX`: `makeDiv` block-parses every footnote text, `placeDiv`)
    InlineX.runX  the inline processor with the configuration `inlineCfgX`
    lateStageX    footnote-duplicate · prettify · attr_list · abbr (`midStageX`) · toc (`tocStageX`) · unescape
-/
namespace MdVerif.PipelineX
open Py Pipeline

/-- **The stages before the inline processor never run out of fuel**: the fenced-code loop (`C16_fencedRunA_total`),
    the extended block parser (`C02_parseDocumentXT_total`) and the block parser runs of `makeFootnotesDiv` on the
    footnote texts (`C02_parseChunkXT_total`) all answer, for every source, flag set and configuration with
    `0 < tab_length` when admonition is on. -/
theorem C02_blockStageX_total (x : Exts) (cfg : Cfg) (src : Str) (htab : x.admonition = true → 0 < cfg.tab) :
    blockStageX x cfg src ≠ .oof :=
  blockStageX_ne_oof x cfg src htab

example : ({ admonition := true, footnotes := true } : Exts).admonition = true → 0 < ({} : Cfg).tab := fun _ => by decide

/-- its three parts: the preprocessors never answer `oof` (no hypothesis) … -/
theorem C02_prepareX_total (x : Exts) (cfg : Cfg) (src : Str) : prepareX x cfg src ≠ .oof :=
  prepareX_ne_oof x cfg src

/-- … and **`FootnotesTree.makeDiv` is `oof`-free**: with any block parser that always answers — in `treeX`,
    `parseChunkX`, which does (`parseChunkX_ne_none`) — `makeFootnotesDiv` never runs out of fuel (its other answer
    besides `ok` is `ood`: a footnote text that defines a footnote, or a last `p` without text) -/
theorem C02_makeDiv_total (x : Exts) (cfg : Cfg) (htab : x.admonition = true → 0 < cfg.tab)
    (footnotes : List (Str × Str)) (log : Block.Refs) :
    FootnotesTree.makeDiv (parseChunkX x cfg) fnCount footnotes log ≠ .oof :=
  makeDiv_ne_oof (parseChunkX_ne_none x cfg htab) footnotes log

/-- **`TocTree.run` runs out of fuel only when the postprocessors do** that it applies to the name of a heading or to
    a `data-toc-label` (`env.post`, in `treeX` the raw-HTML restore `postX`): its walk over the tree is structural -/
theorem C02_tocRun_oof_only_post (env : TocTree.Env) (bl : List Str) (root : Node)
    (h : TocTree.run env bl root = .oof) : ∃ s, env.post s = none :=
  TocTree.run_oof h

/-- with a `post` that always answers, `TocTree.run` is `oof`-free -/
theorem C02_tocRun_total (env : TocTree.Env) (bl : List Str) (root : Node) (hpost : ∀ s, env.post s ≠ none) :
    TocTree.run env bl root ≠ .oof := by
  intro h
  obtain ⟨s, hs⟩ := TocTree.run_oof h
  exact hpost s hs

example : ∀ s, ({ fmt := .html, post := fun s => some s } : TocTree.Env).post s ≠ none := fun s => by simp

/-- **`treeX` can only run out of fuel in the inline processor — or, with toc, in the raw-HTML restore of a heading
    name.**  If `treeX = oof` then the stages before the inline processor answered `ok (root, log, stash)` and either
    `InlineX.runX` answered `none` on that tree, or it answered `some (t, xs)`, toc is on, and `TocTree.run` answered
    `oof` on the tree `t'` the intermediate tree processors made of `t` — which means that the raw-HTML restore
    (`Post.rawHtml` with the HTML stash `xs.st.html`) ran out of fuel on some string. -/
theorem C02_treeX_total_block_part (x : Exts) (cfg : Cfg) (src : Str) (htab : x.admonition = true → 0 < cfg.tab)
    (h : treeX x cfg src = .oof) :
    ∃ root log stash, blockStageX x cfg src = .ok (root, log, stash) ∧
      (InlineX.runX (inlineCfgX x cfg log) root stash = none ∨
       ∃ t xs t', InlineX.runX (inlineCfgX x cfg log) root stash = some (t, xs) ∧ x.toc = true ∧
         midStageX x cfg log t xs.fn = some t' ∧
         TocTree.run { fmt := cfg.fmt, post := postX x cfg xs.st.html } cfg.blockLevel t' = .oof ∧
         ∃ s, Post.rawHtml cfg.blockLevel xs.st.html (Post.rawHtmlFuel xs.st.html) s = none) := by
  obtain ⟨root, log, stash, hb, hor⟩ := treeX_oof htab h
  refine ⟨root, log, stash, hb, ?_⟩
  rcases hor with h1 | ⟨t, xs, hr, hl⟩
  · exact Or.inl h1
  · obtain ⟨htoc, t', hm, hrun, hs⟩ := lateStageX_oof hl
    exact Or.inr ⟨t, xs, t', hr, htoc, hm, hrun, hs⟩

/-- **The HTML stash after `InlineX.runX`** holds the entries `runX` was given (the `<pre><code>…` blocks of
    fenced_code) and, besides, only entity references `&…;`: the extension patterns (footnote, wikilink, nl) store no raw
    HTML, the core patterns only what the entity pattern matched. -/
theorem C02_runX_html_entries (xc : InlineX.XCfg) (tree t : Node) (html : List Str) (xs : InlineX.XSt)
    (h : InlineX.runX xc tree html = some (t, xs)) : ∀ e ∈ xs.st.html, e ∈ html ∨ NoCtl.entityLike e = true :=
  InlineX.Html.runX_html xc h

/-- **Without fenced_code the inline processor is the only stage that can run out of fuel**: the HTML stash then holds
    entity references only, on which the raw-HTML restore terminates for every text (`C10_rawhtml_terminates`); so
    `treeX = oof` means that `InlineX.runX` answered `none` on the tree of the block stages.  (`C02Inline`: for the core
    table that is an exhaustion of the linear fuel of the stack loop, not non-termination.) -/
theorem C02_treeX_oof_only_inline (x : Exts) (cfg : Cfg) (src : Str) (hf : x.fencedCode = false)
    (htab : x.admonition = true → 0 < cfg.tab) (h : treeX x cfg src = .oof) :
    ∃ root log, blockStageX x cfg src = .ok (root, log, []) ∧ InlineX.runX (inlineCfgX x cfg log) root [] = none :=
  treeX_oof_nofence hf htab h

example : ({ tables := true, admonition := true, defList := true, abbr := true, footnotes := true, saneLists := true,
             nl2br := true, wikilinks := true, attrList := true, toc := true } : Exts).fencedCode = false := rfl

/-- the `oof` answers of `convertX`: those of `treeX`, and the raw-HTML restore of the serialised document -/
theorem C02_convertX_oof_sources (x : Exts) (cfg : Cfg) (src : Str) (h : convertX x cfg src = .oof) :
    treeX x cfg src = .oof ∨
    ∃ u html s, treeX x cfg src = .ok u html ∧ Post.rawHtml cfg.blockLevel html (Post.rawHtmlFuel html) s = none :=
  convertX_oof h

/-- **`convertX` without fenced_code runs out of fuel only in the inline processor** -/
theorem C02_convertX_oof_only_inline (x : Exts) (cfg : Cfg) (src : Str) (hf : x.fencedCode = false)
    (htab : x.admonition = true → 0 < cfg.tab) (h : convertX x cfg src = .oof) :
    ∃ root log, blockStageX x cfg src = .ok (root, log, []) ∧ InlineX.runX (inlineCfgX x cfg log) root [] = none :=
  convertX_oof_nofence hf htab h

/-- the contrapositive, as a hypothesis-discharging form (e.g. for the `convertX … ≠ .oof` hypotheses of
    `Props/C16Pipeline.lean`): without fenced_code, `convertX` does not answer `oof` as soon as the inline processor
    answers on the tree of the block stages -/
theorem C02_convertX_ne_oof_of_runX (x : Exts) (cfg : Cfg) (src : Str) (hf : x.fencedCode = false)
    (htab : x.admonition = true → 0 < cfg.tab)
    (hrun : ∀ root log, blockStageX x cfg src = .ok (root, log, []) →
      InlineX.runX (inlineCfgX x cfg log) root [] ≠ none) :
    convertX x cfg src ≠ .oof := by
  intro h
  obtain ⟨root, log, hb, hr⟩ := convertX_oof_nofence hf htab h
  exact hrun root log hb hr

/-- **The inline stage over the core pattern table terminates.**  Without footnotes, wikilinks and nl2br the table
    of `runX` is the core one, `runX` is `Inline.run` (`InlineX.runX_core`), and `C02_run_total_bigfuel` carries over: on
    a tree without STX/ETX the live loop ends within the model's fuel and the stack loop within `Inline.bigFuel`.  (For
    the three extension patterns the potential argument of `Lemmas/InlineFuel*.lean` has not been redone: `\n` becomes a
    trigger character.) -/
theorem C02_runX_total_bigfuel_core_table (x : Exts) (cfg : Cfg) (log : Block.Refs)
    (hx : x.footnotes = false ∧ x.wikilinks = false ∧ x.nl2br = false) (tree : Node) (html : List Str)
    (h : NoCtl.TreeNoCtl tree) (g : Nat) (hg : Inline.bigFuel tree ≤ g) :
    (InlineX.runLoopX (inlineCfgX x cfg log) (Inline.runFuel tree) g tree [[]] { st := { html := html } }).isSome
      = true :=
  runLoopX_total_core_table cfg log hx tree html h g hg

example : ({ tables := true, admonition := true, defList := true, abbr := true, saneLists := true, attrList := true,
             toc := true } : Exts).footnotes = false ∧
    ({ tables := true, admonition := true } : Exts).wikilinks = false ∧ ({ toc := true } : Exts).nl2br = false :=
  ⟨rfl, rfl, rfl⟩

/-- … and whenever the model's `runX` answers, that answer is the one of the run with any larger stack-loop fuel -/
theorem C02_runX_agrees_with_total_core_table (x : Exts) (cfg : Cfg) (log : Block.Refs)
    (hx : x.footnotes = false ∧ x.wikilinks = false ∧ x.nl2br = false) (tree : Node) (html : List Str)
    (r : Node × InlineX.XSt) (h : InlineX.runX (inlineCfgX x cfg log) tree html = some r) (g : Nat)
    (hg : Inline.runFuel tree ≤ g) :
    InlineX.runLoopX (inlineCfgX x cfg log) (Inline.runFuel tree) g tree [[]] { st := { html := html } } = some r :=
  runX_agrees_core_table cfg log hx tree html r h g hg

/-! ## 3. The `err` answers of `convertX` (the implementation raises)

The stages before the inline processor have no `err` answer (`FootnotesTree.R` has none: `AbbrBlockprocessor` does not
raise, `C02_abbr_never_raises`), nor has `InlineX.runX`.  What remains:

    (1) footnotes   `FootnotePostTreeprocessor.handle_duplicates`: `ValueError` of a `split` without separator
                    (`FootnotesTree.duplicates = none`: a `li` of the first `ol` of a `div.footnote` whose `id` has no
                    `:`, or whose back-reference `href` has none, or which has no child) — the elements that
                    `makeFootnotesDiv` builds have ids `fn:…` and hrefs `#fnref:…`; that no other `div.footnote` can
                    reach this stage is tested, not proved;
    (2) toc         `TocTree.run = err`: only `chr()` out of range in `UnescapeTreeprocessor.unescape`
                    (`C02_tocRun_err_only_unescape`; the model's other `err`, a serialised heading without `>`/`<`, is
                    proved unreachable);
    (3) unescape    `UnescapeTreeprocessor`: `chr()` of a number `≥ 0x110000` (`C02_unescape_raises_iff`,
                    `C02_unescapeTree_total_iff` in `Props/C02Inline.lean` say exactly when);
    (4) `<div>` strip   `Post.topLevelStrip = none`: the serialised document has no `<div>` … `</div>`.

(2) and (3) need `STX digits ETX` with a number `≥ 0x110000` in the tree; the source cannot contain STX
(`C10_input_cannot_forge`) and the only such sequences the patterns write are `STX ord(c) ETX`
(`C02_escape_entry_roundtrip`); that none can arise by cutting and pasting is tested (0 `err` in all runs), not proved.
(4) needs a root that is no longer a plain `div`; every stage rebuilds the root with its tag (tested, not proved). -/

/-- **`TocTreeprocessor.run` raises only through `unescape`**: on an `id` of the document (`used_ids`, since the
    repair of F-C17-4), the serialised heading, a `data-toc-label` or the `id` of a heading.  The serialisation of a heading element always contains `<` and `>`, and `unescape` keeps them. -/
theorem C02_tocRun_err_only_unescape (env : TocTree.Env) (bl : List Str) (root : Node)
    (h : TocTree.run env bl root = .err) : ∃ s, TreeProc.unescapeText 0 s = none :=
  TocTree.run_err h

/-- `unescape` keeps every character that is neither STX, ETX nor a decimal digit -/
theorem C02_unescape_keeps (c : Char) (h1 : c ≠ TreeProc.STX) (h2 : c ≠ TreeProc.ETX) (h3 : isDecimal c = false)
    (s r : Str) (h : TreeProc.unescapeText 0 s = some r) (hc : c ∈ s) : c ∈ r :=
  TreeProc.unescapeText_mem h1 h2 h3 s 0 r h (by simp) hc

example : '<' ≠ TreeProc.STX ∧ '<' ≠ TreeProc.ETX ∧ isDecimal '<' = false := by decide

/-- **The `err` answers of `convertX`, exhaustively.**  If `convertX = err` then the block stages and the inline
    processor answered, and one of the four things listed above happened. -/
theorem C02_convertX_err_sources (x : Exts) (cfg : Cfg) (src : Str) (h : convertX x cfg src = .err) :
    ∃ root log stash t xs, blockStageX x cfg src = .ok (root, log, stash) ∧
      InlineX.runX (inlineCfgX x cfg log) root stash = some (t, xs) ∧
      ((x.footnotes = true ∧ FootnotesTree.duplicates xs.fn t = none) ∨
       (∃ t', midStageX x cfg log t xs.fn = some t' ∧ x.toc = true ∧
          TocTree.run { fmt := cfg.fmt, post := postX x cfg xs.st.html } cfg.blockLevel t' = .err ∧
          ∃ s, TreeProc.unescapeText 0 s = none) ∨
       (∃ t' t'', midStageX x cfg log t xs.fn = some t' ∧ tocStageX x cfg xs.st.html t' = .ok t'' ∧
          TreeProc.unescapeTree t'' = none) ∨
       (∃ u, lateStageX x cfg log t xs = .ok u xs.st.html ∧
          Post.topLevelStrip (Ser.serialize cfg.fmt u) = none)) := by
  rcases convertX_err h with h1 | ⟨u, html, ht, hs⟩
  · obtain ⟨root, log, stash, t, xs, hb, hr, hl⟩ := treeX_err h1
    refine ⟨root, log, stash, t, xs, hb, hr, ?_⟩
    rcases lateStageX_err hl with a | a | a
    · exact Or.inl a
    · exact Or.inr (Or.inl a)
    · exact Or.inr (Or.inr (Or.inl a))
  · obtain ⟨root, log, stash, t, xs, hb, hr, hl⟩ := treeX_ok ht
    have := lateStageX_ok hl
    subst this
    exact ⟨root, log, stash, t, xs, hb, hr, Or.inr (Or.inr (Or.inr ⟨u, hl, hs⟩))⟩

/-- each of the four is a real answer of the model on a forged tree (not reachable from a source in any test):
    `duplicates` on a `div.footnote` whose `li` has an `id` without `:` … -/
example : FootnotesTree.duplicates Footnotes.State.empty
    { tag := .name "div".toList, attrs := [("class".toList, "footnote".toList)],
      children := [{ tag := .name "ol".toList,
                     children := [{ tag := .name "li".toList, attrs := [("id".toList, "x".toList)] }] }] } = none := by
  decide +kernel
/-- … `unescape` on `STX 1114112 ETX` … -/
example : TreeProc.unescapeTree
    { tag := .name "p".toList, text := some (TreeProc.STX :: ("1114112".toList ++ [TreeProc.ETX])) } = none := by
  decide +kernel
/-- … and the strip on a document whose root is not a `div` -/
example : Post.topLevelStrip (Ser.serialize .html { tag := .name "p".toList, text := some "a".toList }) = none := by
  decide +kernel

end MdVerif.PipelineX
