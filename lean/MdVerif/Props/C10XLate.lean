/-
C10 on the extension model (`PipelineX.convertX`), part: the generic tail — everything behind the inline stage.

C10 — "The output never contains the STX/ETX control characters or any of the placeholder tokens the converter uses
internally, provided the input does not itself spell those tokens."

Only property statements live here.  Vocabulary: `MdVerif/Spec/NoCtl.lean` (`FNode`: an element of the tree handed to
the tree processors — escape tokens `STX <code> ETX` only, in texts and tails, none in `code` text, attributes free of
STX/ETX), `MdVerif/Spec/NoCtlX.lean`; helper lemmas, `xcX`, `lateTreeX`, `lateX`, the example tree `exLateTree`:
`MdVerif/Lemmas/PlaceholdersXLate.lean`; `noDigitsAbbr`: `MdVerif/Lemmas/PlaceholdersXPost.lean`.  Core Lean only.

Behind the inline stage `convertX` runs prettify 10, attr_list 8, abbr 7, toc 5, unescape 0, the serialiser, the
`<div>` strip and the postprocessors raw_html 30, footnote 25, amp_substitute 20.  With footnotes off these stages
never create STX/ETX and `UnescapeTreeprocessor` removes every escape token, for EVERY combination of the other ten
flags: an end-to-end statement for a set of extensions only has to establish what the front part (preprocessors,
block parser, inline stage) delivers.

* `C10X_late_stages`: explicit intermediate results.
* `C10X_late_of_front`: the same as a rule for `convertX`.
-/
import MdVerif.Lemmas.PlaceholdersXLate

namespace MdVerif.NoCtlX
open MdVerif.NoCtl Py

/-- **The late stages create no STX/ETX and restore every escape token.**  `t` is the tree after the inline stage:
    every element an `FNode`.  `abbrs` is the abbreviation table; when abbr is on, no abbreviation or title holds
    STX/ETX and no abbreviation is a number (`noDigitsAbbr`; for a number the statement is false: F-C10-6,
    `C10X_leak_digits_abbr`).  The raw-HTML stash is empty.  Then for every set of flags `x` and configuration: if toc
    (when on) answers `t4` for the tree after prettify, attr_list (when on) and abbr (when on), `UnescapeTreeprocessor`
    answers `u` for `t4`, and the end of `convertX` answers `out` for the serialised `u`, then `out` contains neither
    STX nor ETX. -/
theorem C10X_late_stages (x : PipelineX.Exts) (cfg : Pipeline.Cfg) (abbrs : List (Str × Str))
    (habbr : x.abbr = true → (∀ kv ∈ abbrs, NoCtl kv.1 ∧ NoCtl kv.2) ∧ noDigitsAbbr abbrs = true)
    {t : Node} (ht : t.Forall FNode) {t4 u : Node} {out : Str}
    (h4 : (if x.toc then
            TocTree.run { fmt := cfg.fmt, post := PipelineX.postX x cfg [] } cfg.blockLevel
              (let t1 := TreeProc.prettify t cfg.blockLevel
               let t2 := if x.attrList then AttrListTree.run cfg.blockLevel t1 else t1
               if x.abbr then AbbrTree.run abbrs t2 else t2)
           else .ok
              (let t1 := TreeProc.prettify t cfg.blockLevel
               let t2 := if x.attrList then AttrListTree.run cfg.blockLevel t1 else t1
               if x.abbr then AbbrTree.run abbrs t2 else t2)) = .ok t4)
    (hu : TreeProc.unescapeTree t4 = some u)
    (hf : PipelineX.finishX x cfg [] (Ser.serialize cfg.fmt u) = .ok out) : NoCtl out :=
  late_noctl x cfg abbrs habbr ht h4 hu hf

/-- a tree and a table that satisfy the hypotheses: `[TOC]`, the heading `T \* HTML {: title="\#" }` with its escape
    tokens, the attribute list not yet read; the abbreviation `HTML` -/
example : exLateTree.Forall FNode ∧
    ((∀ kv ∈ [("HTML".toList, "Hyper".toList)], NoCtl kv.1 ∧ NoCtl kv.2) ∧
      noDigitsAbbr [("HTML".toList, "Hyper".toList)] = true) :=
  ⟨exLateTree_fnode, by decide, by decide⟩

/-- what the late stages (attr_list, abbr, toc on) make of it: the tree handed to the serialiser -/
example :
    showTreeResult (lateX { abbr := true, attrList := true, toc := true } {} [("HTML".toList, "Hyper".toList)]
      exLateTree []) =
    some ("<div>\n<div class=\"toc\">\n<ul>\n<li><a href=\"#t-html\">T * HTML</a></li>\n</ul>\n</div>\n" ++
      "<h1 id=\"t-html\" title=\"#\">T * <abbr title=\"Hyper\">HTML</abbr></h1>\n</div>\n").toList := by decide +kernel

/-- **The generic tail as a rule for `convertX`** (footnotes off; the ten other flags arbitrary).  Suppose that
    whenever the front part of `convertX` succeeds on `src` — `prepareX` gives the text and the raw-HTML stash, the
    extended block parser the tree `root` and the log, the inline stage (`InlineX.runX` with the configuration `xcX` of
    `treeX`) the tree `t` — every element of `t` is an `FNode`, the raw-HTML stash after the inline stage is empty,
    and (with abbr on) the abbreviation table of the log holds no STX/ETX and no abbreviation that is a number.  Then
    whatever `convertX` answers for `src` contains neither STX nor ETX. -/
theorem C10X_late_of_front {x : PipelineX.Exts} (hfn : x.footnotes = false) {cfg : Pipeline.Cfg} {src out : Str}
    (hfront : ∀ text stash root log t xs,
      PipelineX.prepareX x cfg src = .ok (text, stash) →
      BlockExt.parseDocumentXT x.tables x.blockCfg cfg.tab text = some (root, log) →
      InlineX.runX (xcX x cfg log) root stash = some (t, xs) →
      t.Forall FNode ∧ xs.st.html = [] ∧
      (x.abbr = true →
        (∀ kv ∈ BlockExt.abbrsOf log, NoCtl kv.1 ∧ NoCtl kv.2) ∧ noDigitsAbbr (BlockExt.abbrsOf log) = true))
    (h : PipelineX.convertX x cfg src = .ok out) : NoCtl out :=
  convertX_noctl_generic hfn hfront h

/-- a conversion of the model with abbr, nl2br, attr_list and toc on (equal to
    `markdown.markdown(src, extensions=['abbr', 'nl2br', 'attr_list', 'toc'])`): every late stage acts -/
example : PipelineX.convertX { abbr := true, nl2br := true, attrList := true, toc := true } {}
    "[TOC]\n\n# T \\* HTML {: title=\"\\#\" }\n\na\nHTML *b*{: .k }\n\n*[HTML]: Hyper Text".toList =
    .ok ("<div class=\"toc\">\n<ul>\n<li><a href=\"#t-html\">T * HTML</a></li>\n</ul>\n</div>\n" ++
      "<h1 id=\"t-html\" title=\"#\">T * <abbr title=\"Hyper Text\">HTML</abbr></h1>\n" ++
      "<p>a<br />\n<abbr title=\"Hyper Text\">HTML</abbr> <em class=\"k\">b</em></p>").toList := by decide +kernel

end MdVerif.NoCtlX
