/-
C07 with the bundled extensions ENABLED — Prefixing an escapable character (backslash, backtick, `*`, `_`, braces,
brackets, parentheses, `>`, `#`, `+`, `-`, `.`, `!`, plus any added by an enabled extension) with a backslash makes it
render as that literal character and stops it acting as markup.  A text in which every such character is escaped
renders as exactly that text in a single paragraph.

End to end on `PipelineX.convertX x cfg` — the model of `markdown.Markdown(extensions=[…]).convert` with any subset
`x : Exts` of the eleven modelled extensions (fenced_code, tables, admonition, def_list, abbr, footnotes, sane_lists,
nl2br, wikilinks, attr_list, toc): for every text `t` of the domain

    convertX x cfg (escAll (escX x cfg) t) = "<p>" ++ escape_cdata(t) ++ "</p>"

where `escX x cfg` is `md.ESCAPED_CHARS` of that instance (`tables` appends `|`); with `nl2br` on, every line feed of
`t` is rendered `<br />` + line feed (`rendered`).  `C07X_full` is the statement for the default configuration, EVERY
`x` and the whole domain; `C07X_full_general` for any `tab_length > 0`, either output format and further escapable
characters.  `C07X` / `C07X_general` are the form without `<br />` (no line feed in `t` when `nl2br` is on);
`C07X_unconditional`, `C07X_all_extensions`, `C07X_all_extensions_full`, `C07X_escaped_pipe`, `C07X_nl2br` are
instances.

Why each extension is inert on a fully escaped text (the milestone theorems below):
  * tables        `|` joins the escapable set; the header row of the would-be table has no unescaped pipe, so
                  `_split_row` gives one cell and there is no border pipe: `TableProcessor.test` fails
                  (`C07X_table_never_matches`; backslash runs before a pipe are odd — `C07X_no_end_border`);
  * admonition    `!!!` needs an unescaped `!` at a line start (`C07X_admonition_never_matches`);
  * footnotes     `[^…]:` at a line start and `[^…]` inline need an unescaped `[` (`C07X_footnote_def_never_matches`,
                  `C07X_later_patterns_inert`); abbr `*[`; wikilinks `[[`: the same;
  * sane_lists    the list processors are not reached (no list marker matches, `C07_list_never_matches`);
  * attr_list     `{` is coded `STX 123 ETX` when `AttrListTreeprocessor` runs (`C07X_attr_list_inert`);
  * toc           no heading; the paragraph text is not `[TOC]` since `[` is coded (`C07X_toc_inert`);
  * fenced_code   backticks are escapable, `~` is NOT: the domain asks that no line of `t` starts with `~~~`
                  (`noTildeFence`; counterexample `C07X_tilde_fence_counterexample`);
  * def_list      `:` is NOT escapable: the domain asks that no line after the first starts with `[ ]{0,3}:[ ]`
                  (`defFreeNl`; counterexample `C07X_def_list_counterexample`).  A first line `: x` is harmless (no term);
  * nl2br         a line feed cannot be escaped: every one becomes `<br />` + line feed, the escaped characters around
                  it stay literal (`C07X_full`, `rendered`); `PrettifyTreeprocessor` drops a white-space-only tail of
                  a `br`, so every line after the first needs a character that is not white space — `nlInk`
                  (counterexample `C07X_nl2br_blank_line_counterexample`: a line of `\x0b`).

Vocabulary: `Spec/Escape.lean`, `Spec/EscapeFull.lean` (as `Props/C07.lean`); `noTildeFence` (`Lemmas/EscXTree.lean`),
`defFreeNl`, `isDefStart` (`Lemmas/EscXBlock.lean`), `shape` (`Lemmas/EscXTables.lean`), `nlInk`, `brText`, `brTag`,
`prettyDocNl` (`Lemmas/EscXNlTree.lean`), `pNode` (`Lemmas/EscXNl.lean`).
-/
import MdVerif.Model.PipelineX
import MdVerif.Props.C07
import MdVerif.Lemmas.EscXCompose
import MdVerif.Lemmas.EscXComposeNl

namespace MdVerif.EscX
open Py Escape PipelineX Pipeline

/-! ### the generated table -/

/-- the further facts about `Markdown.ESCAPED_CHARS` (as found in the source) that the extensions depend on: `{` is
    escapable (attr_list), the blank is not -/
theorem C07X_escapable_chars :
    '{' ∈ Generated.escapedChars ∧ ' ' ∉ Generated.escapedChars ∧ '|' ∉ Generated.escapedChars ∧
    '~' ∉ Generated.escapedChars ∧ ':' ∉ Generated.escapedChars := by decide

/-- `md.ESCAPED_CHARS` with `tables`: the source list plus `|`; without `tables`: the source list -/
theorem C07X_escX_tables :
    escX { tables := true } {} = Generated.escapedChars ++ ['|'] ∧ escX {} {} = Generated.escapedChars := by decide

/-! ### block stage: the recognisers of the extensions' block processors -/

/-- **`TableProcessor.test`** rejects a block whose first row (blanks at both ends removed) is a sequence of units
    `\c` and characters other than `\`, backtick and `|` (`shape`) -/
theorem C07X_table_never_matches (b : Str) (h : shape (stripC ' ' (Block.firstLine b)) = true) :
    Tables.tableTest b = none :=
  tableTest_shape b h

/-- the first row of an escaped text has that shape when `\`, backtick and `|` are escapable and the blank is not -/
theorem C07X_escaped_row_shape (esc : List Char) (hnl : '\n' ∉ esc) (hb : '\\' ∈ esc) (ht : '`' ∈ esc)
    (hp : '|' ∈ esc) (hsp : ' ' ∉ esc) (t : Str) : shape (stripC ' ' (Block.firstLine (escAll esc t))) = true :=
  firstLine_shape hnl hb ht hp hsp t

/-- **no border pipe at the end**: in such a row a final `|` follows an odd run of backslashes, `RE_END_BORDER`
    does not match -/
theorem C07X_no_end_border (s : Str) (h : shape s = true) (hnl : '\n' ∉ s) : Tables.endBorderSub s = none :=
  endBorderSub_shape s h hnl

/-- **no cell boundary**: `_split` returns the row as one cell -/
theorem C07X_one_cell (s : Str) (h : shape s = true) : Tables.split s = [s] := split_shape s h

example : shape "a \\| b \\\\\\| c\\`d".toList = true ∧ shape "a | b".toList = false ∧ shape "a \\\\| b".toList = false := by
  decide +kernel

/-- **`AdmonitionProcessor.RE`** (`(?:^|\n)!!! …`) does not match when every line start is safe and `!` is escapable -/
theorem C07X_admonition_never_matches (esc : List Char) (hm : '!' ∈ esc) (s : Str)
    (hl : LineStartsOk esc s = true) : BlockExt.admSearch s = none :=
  admSearch_safe hm s hl

/-- **`FootnoteBlockProcessor.RE`** (`^[ ]{0,3}\[\^…\]:`) does not match when `[` is escapable -/
theorem C07X_footnote_def_never_matches (esc : List Char) (hm : '[' ∈ esc) (s : Str)
    (hl : LineStartsOk esc s = true) : BlockExt.fnSearch s = none :=
  fnSearch_safe hm s hl

/-- **`AbbrBlockprocessor.RE`** (`^[*]\[…\]:`) does not match when `*` is escapable -/
theorem C07X_abbr_def_never_matches (esc : List Char) (hm : '*' ∈ esc) (s : Str)
    (hl : LineStartsOk esc s = true) : BlockExt.abbrSearch s = none :=
  abbrSearch_safe hm s hl

/-- **`DefListProcessor.RE`** on a text none of whose later lines starts with `[ ]{0,3}:[ ]`: no match, or a match at
    offset 0 — and then, in an empty parent, there is no term and `run` returns `False` -/
theorem C07X_def_list_declines (tab : Nat) (pb : Block.PB) (state : List Block.BState) (refs : Block.Refs)
    (s : Str) (rest : List Str) (h : defFreeNl s = true) :
    BlockExt.defSearch s = none ∨
      ∃ en g, BlockExt.defSearch s = some (0, en, g) ∧
        BlockExt.defListP tab pb state refs (Node.el "div") s rest (0, en, g) = none := by
  rcases defSearch_defFree s h with h0 | ⟨en, g, h0⟩
  · exact Or.inl h0
  · exact Or.inr ⟨en, g, h0, defListP_at_zero tab pb state refs s rest en g⟩

/-- the domain conditions for `def_list` and `fenced_code` pass from `t` to the escaped text -/
theorem C07X_domain_escaped (esc : List Char) (hnl : '\n' ∉ esc) (hsp : ' ' ∉ esc) (ht : '`' ∈ esc) (t : Str) :
    (defFreeNl t = true → defFreeNl (escAll esc t) = true) ∧
    (noTildeFence t = true → Fenced.noFenceLine (escAll esc t ++ "\n\n".toList) = true) :=
  ⟨defFreeNl_escAll hsp hnl t, noFenceLine_escAll hnl ht t⟩

/-- **C07X, block stage.**  With any of admonition, def_list, footnotes, abbr, sane_lists (`cfg`) and tables enabled,
    `tab_length > 0`, an escapable set `esc` that holds the markup characters (and `|` with tables) but neither the
    line feed nor the blank: the extended block parser turns the escaped text followed by `"\n\n"` into
    `<div><p>escaped text</p></div>`; nothing is written to the reference / footnote / abbreviation tables. -/
theorem C07X_block_single_paragraph (esc : List Char) (hnl : '\n' ∉ esc) (hsp : ' ' ∉ esc)
    (m0 : '\\' ∈ esc) (mt : '`' ∈ esc)
    (m1 : '#' ∈ esc) (m2 : '-' ∈ esc) (m3 : '_' ∈ esc) (m4 : '*' ∈ esc) (m5 : '+' ∈ esc) (m6 : '.' ∈ esc)
    (m7 : '>' ∈ esc) (m8 : '[' ∈ esc) (m9 : '!' ∈ esc)
    (tables : Bool) (hpipe : tables = true → '|' ∈ esc) (cfg : BlockExt.XCfg) (tab : Nat) (htab : tab > 0) (t : Str)
    (h : EscBlockDomain t = true) (hdef : cfg.defList = true → defFreeNl t = true) :
    BlockExt.parseDocumentXT tables cfg tab (escAll esc t ++ "\n\n".toList) =
      some (singleParagraph (escAll esc t), []) :=
  blockXT_single_paragraph hnl hsp m0 mt m1 m2 m3 m4 m5 m6 m7 m8 m9 tables hpipe cfg tab htab t h hdef

/-! ### preprocessors -/

/-- **`FencedBlockPreprocessor`, the raw-HTML preprocessor** (and the model's admonition domain check) leave the
    escaped text as `NormalizeWhitespace` made it; nothing is stashed -/
theorem C07X_preprocessors (x : Exts) (cfg : Cfg) (esc : List Char) (hnl : '\n' ∉ esc) (mt : '`' ∈ esc)
    (m9 : '!' ∈ esc) (t : Str) (hd : EscDomain t = true) (hamp : '&' ∉ t)
    (hf : x.fencedCode = true → noTildeFence t = true) :
    prepareX x cfg (escAll esc t) = .ok (escAll esc t ++ "\n\n".toList, []) :=
  prepareX_escaped x cfg esc hnl mt m9 t hd hamp hf

/-! ### inline stage over the pattern table of the extensions -/

/-- **The table entries after `escape` are inert on the residue** of the escape pass: the core patterns 2–15, the
    footnote pattern (`[^`), the wikilink pattern (`[[`), and the `nl` pattern when `t` has no line feed. -/
theorem C07X_later_patterns_inert (fn wl nl : Bool) (cfg : Inline.Cfg) (keys : List Str) (hiX : InlineX.HIX)
    (m1 : '[' ∈ cfg.esc) (m2 : '!' ∈ cfg.esc) (m3 : '*' ∈ cfg.esc) (m4 : '_' ∈ cfg.esc)
    (t : Str) (hamp : '&' ∉ t) (hbr : find [' ', ' ', '\n'] t = none) (hnl : '\n' ∉ t) (n : Nat)
    (x : InlineX.XSt) (pi : Nat) (h2 : 2 ≤ pi) (hlt : pi < (InlineX.table fn wl nl).length) :
    InlineX.applyPatternX { cfg := cfg, table := InlineX.table fn wl nl, fnKeys := keys } hiX pi
        (resid cfg.esc n t) 0 x = some (resid cfg.esc n t, false, 0, x) := by
  obtain ⟨k, hk⟩ : ∃ k, (InlineX.table fn wl nl)[pi]? = some k := ⟨_, List.getElem?_eq_getElem hlt⟩
  obtain ⟨hl, _⟩ := table_get_later fn wl nl pi h2 k hk
  refine applyPatternX_later _ hiX pi k _ x hk hl (inert_resid m1 m2 m3 m4 t hamp n) (find_break_resid t hbr n) ?_
  intro _ hmem
  rcases mem_resid hmem with ⟨h1, _⟩ | h1
  · exact hnl h1
  · exact (phChar_facts h1).2.2.2.2.2.2.2 rfl

/-- **`InlineProcessor.run` with the pattern table of footnotes / wikilinks / nl2br** turns
    `<div><p>escAll esc t</p></div>` into `<div><p>coded esc t</p></div>` (every escapable character replaced by its
    code `STX ord(c) ETX`), no child element, empty HTML stash — for `t` without a line feed when `nl2br` is on. -/
theorem C07X_inline_paragraph (fn wl nl : Bool) (cfg : Inline.Cfg) (keys : List Str) (t : Str) (ht : t ≠ [])
    (m0 : '\\' ∈ cfg.esc) (mt : '`' ∈ cfg.esc) (m1 : '[' ∈ cfg.esc) (m2 : '!' ∈ cfg.esc) (m3 : '*' ∈ cfg.esc)
    (m4 : '_' ∈ cfg.esc) (hamp : '&' ∉ t) (hbr : find [' ', ' ', '\n'] t = none) (hstx : Inline.STX ∉ t)
    (hnl : nl = true → '\n' ∉ t) :
    InlineX.runX { cfg := cfg, table := InlineX.table fn wl nl, fnKeys := keys }
        (singleParagraph (escAll cfg.esc t)) [] =
      some (singleParagraph (coded cfg.esc t), { st := { stash := stashOf cfg.esc t, html := [] } }) :=
  runX_paragraph fn wl nl cfg keys t ht m0 mt m1 m2 m3 m4 hamp hbr hstx hnl

/-! ### the tree processors of the extensions -/

/-- **`AttrListTreeprocessor`** changes nothing: when it runs, `{` is coded `STX 123 ETX` -/
theorem C07X_attr_list_inert (esc : List Char) (hm : '{' ∈ esc) (t : Str) :
    AttrListTree.run TreeProc.defaultBlockLevel (prettyDoc (coded esc t)) = prettyDoc (coded esc t) :=
  attrList_prettyDoc _ (brace_not_mem_coded hm t)

/-- **`TocTreeprocessor`** changes nothing: no heading, and the paragraph is not the `[TOC]` marker (`[` is coded) -/
theorem C07X_toc_inert (env : TocTree.Env) (bl : List Str) (esc : List Char) (hm : '[' ∈ esc) (t : Str) :
    TocTree.run env bl (prettyDoc (coded esc t)) = .ok (prettyDoc (coded esc t)) :=
  toc_prettyDoc env bl _ (strip_coded_ne_marker hm t)

/-- an escaped `[TOC]` is not the marker -/
example : coded Generated.escapedChars "[TOC]".toList = "\x0291\x03TOC\x0293\x03".toList := by decide

/-- **`FootnoteTreeprocessor`, `FootnotePostTreeprocessor`, `AbbrTreeprocessor`**: no footnote, no abbreviation was
    defined — no footnote `div`, nothing to duplicate, nothing to wrap -/
theorem C07X_footnotes_abbr_inert (parse : Block.Refs → Str → Option (Node × Block.Refs))
    (fnCount : Block.Refs → Nat) (fn : Footnotes.State) (X : Str) (n : Node) :
    FootnotesTree.makeDiv parse fnCount (BlockExt.footnotesOf []) [] = .ok (none, []) ∧
    FootnotesTree.duplicates fn (singleParagraph X) = some (singleParagraph X) ∧
    AbbrTree.run (BlockExt.abbrsOf []) n = n :=
  ⟨makeDiv_nil parse fnCount, duplicates_paragraph fn X, abbr_nil n⟩

/-- **Serializer, `<div>` stripping, the postprocessors raw_html / footnote / amp_substitute, `.strip()`** -/
theorem C07X_serialize_finish (x : Exts) (cfg : Cfg) (t : Str) (ht : t ≠ []) (hstx : Inline.STX ∉ t) :
    finishX x cfg [] (Ser.serialize cfg.fmt (prettyDoc t)) =
      .ok ("<p>".toList ++ Ser.escCdata t ++ "</p>".toList) := by
  rw [serialize_prettyDoc cfg.fmt t ht]
  exact finishX_paragraph x cfg t hstx

/-! ### end to end -/

/-- **C07X, general form.**  ANY subset `x` of the eleven modelled extensions; `tab_length > 0`, the default
    block-level elements, either output format; the escapable set of the configuration is `ESCAPED_CHARS` of the source
    extended by any `extra` characters other than the line feed and the blank (to which `tables` adds `|`:
    `escX x cfg`).  For every text `t` of `EscDomainFull` — with no line that starts with `~~~` if `fenced_code` is
    on, no later line that starts with `[ ]{0,3}:[ ]` if `def_list` is on, and no line feed if `nl2br` is on —
    converting the text in which every escapable character is escaped gives one paragraph with exactly `t`
    (HTML-escaped by the serializer). -/
theorem C07X_general (x : Exts) (cfg : Cfg) (htab : cfg.tab > 0) (hbl : cfg.blockLevel = TreeProc.defaultBlockLevel)
    (extra : List Char) (hx : '\n' ∉ extra) (hxs : ' ' ∉ extra) (hesc : cfg.esc = Generated.escapedChars ++ extra)
    (t : Str) (h : EscDomainFull t = true)
    (hf : x.fencedCode = true → noTildeFence t = true)
    (hd : x.defList = true → defFreeNl t = true)
    (hn : x.nl2br = true → '\n' ∉ t) :
    convertX x cfg (escAll (escX x cfg) t) = .ok ("<p>".toList ++ Ser.escCdata t ++ "</p>".toList) := by
  obtain ⟨m1, m2, m3, m4, m5, m6, m7, m8, hnl⟩ := C07_escapable_chars
  obtain ⟨m0, mt, _, m9, _, _⟩ := C07_escapable_chars_inline
  obtain ⟨mb, hsp, _, _, _⟩ := C07X_escapable_chars
  have hnl' : '\n' ∉ escX x cfg := by
    apply not_mem_escX _ (by decide)
    rw [hesc]; intro hm; rcases List.mem_append.1 hm with hm | hm
    · exact hnl hm
    · exact hx hm
  have hsp' : ' ' ∉ escX x cfg := by
    apply not_mem_escX _ (by decide)
    rw [hesc]; intro hm; rcases List.mem_append.1 hm with hm | hm
    · exact hsp hm
    · exact hxs hm
  have mem : ∀ c, c ∈ Generated.escapedChars → c ∈ escX x cfg :=
    fun c hc => mem_escX (hesc ▸ List.mem_append_left _ hc)
  exact convertX_escaped x cfg htab hbl hnl' hsp' (mem _ m0) (mem _ mt) (mem _ m1) (mem _ m2) (mem _ m3) (mem _ m4)
    (mem _ m5) (mem _ m6) (mem _ m7) (mem _ m8) (mem _ m9) (mem _ mb) t h hf hd hn

/-- **C07X.**  Default configuration, ANY subset `x` of the extensions fenced_code, tables, admonition, def_list,
    abbr, footnotes, sane_lists, nl2br, wikilinks, attr_list, toc.  For every text `t` of the domain of `C07`
    (`EscDomainFull`: no `<`, `&`, STX, ETX, tab, CR; every line has a character other than a space; the first
    character is not white space; no line is `=+[ ]*`; no two spaces before a line feed) that moreover has
    no line starting with `~~~` (if fenced_code), no later line starting with `[ ]{0,3}:[ ]` (if def_list) and no
    line feed (if nl2br): the text in which every escapable character — `|` included when tables is on — is escaped
    renders as exactly that text in a single paragraph. -/
theorem C07X (x : Exts) (t : Str) (h : EscDomainFull t = true)
    (hf : x.fencedCode = true → noTildeFence t = true)
    (hd : x.defList = true → defFreeNl t = true)
    (hn : x.nl2br = true → '\n' ∉ t) :
    convertX x {} (escAll (escX x {}) t) = .ok ("<p>".toList ++ Ser.escCdata t ++ "</p>".toList) :=
  C07X_general x {} (by decide) rfl [] (by simp) (by simp) (by simp) t h hf hd hn

/-- the extensions that need no extra condition: tables, admonition, abbr, footnotes, sane_lists, wikilinks,
    attr_list, toc -/
def quietExts : Exts :=
  { tables := true, admonition := true, abbr := true, footnotes := true, saneLists := true, wikilinks := true,
    attrList := true, toc := true }

/-- **tables, admonition, abbr, footnotes, sane_lists, wikilinks, attr_list and toc together**: on the whole domain
    of `C07`, nothing to add -/
theorem C07X_unconditional (t : Str) (h : EscDomainFull t = true) :
    convertX quietExts {} (escAll (Generated.escapedChars ++ ['|']) t) =
      .ok ("<p>".toList ++ Ser.escCdata t ++ "</p>".toList) := by
  have := C07X quietExts t h (by simp [quietExts]) (by simp [quietExts]) (by simp [quietExts])
  rw [show escX quietExts {} = Generated.escapedChars ++ ['|'] by decide] at this
  exact this

/-- all eleven extensions -/
def allExts : Exts :=
  { fencedCode := true, tables := true, admonition := true, defList := true, abbr := true, footnotes := true,
    saneLists := true, nl2br := true, wikilinks := true, attrList := true, toc := true }

/-- **every extension enabled**, single-line texts (nl2br) that do not start with `~~~` -/
theorem C07X_all_extensions (t : Str) (h : EscDomainFull t = true) (hnl : '\n' ∉ t)
    (hf : startsWith t "~~~".toList = false) :
    convertX allExts {} (escAll (Generated.escapedChars ++ ['|']) t) =
      .ok ("<p>".toList ++ Ser.escCdata t ++ "</p>".toList) := by
  have h1 : noTildeFence t = true := by
    have hf' : startsWith t ['~', '~', '~'] = false := hf
    simp [noTildeFence, lines, splitC_of_no_sep hnl, hf']
  have h2 : ∀ s : Str, '\n' ∉ s → defFreeNl s = true := by
    intro s
    induction s with
    | nil => intro _; rfl
    | cons c r ih =>
      intro hs
      have hc : c ≠ '\n' := fun e => hs (e ▸ List.mem_cons_self)
      simp [defFreeNl, hc, ih (fun hh => hs (List.mem_cons_of_mem _ hh))]
  have := C07X allExts t h (fun _ => h1) (fun _ => h2 t hnl) (fun _ => hnl)
  rw [show escX allExts {} = Generated.escapedChars ++ ['|'] by decide] at this
  exact this

/-- **tables: an escaped pipe is a literal pipe.**  `a` and `b` contain no escapable character and no `|`, and
    `a | b` is in the domain: then `a \| b` renders as the paragraph `a | b`. -/
theorem C07X_escaped_pipe (a b : Str)
    (ha : ∀ c ∈ a, c ∉ Generated.escapedChars ++ ['|']) (hb : ∀ c ∈ b, c ∉ Generated.escapedChars ++ ['|'])
    (h : EscDomainFull (a ++ '|' :: b) = true) :
    convertX { tables := true } {} (a ++ '\\' :: '|' :: b) =
      .ok ("<p>".toList ++ Ser.escCdata (a ++ '|' :: b) ++ "</p>".toList) := by
  have := C07X { tables := true } (a ++ '|' :: b) h (by simp) (by simp) (by simp)
  rw [C07X_escX_tables.1, escAll_append, escAll_cons_mem (by simp), escAll_of_no_esc a ha,
    escAll_of_no_esc b hb] at this
  exact this

/-! ### nl2br with line feeds -/

/-- the domain conditions, line by line: no line starts with `~~~`; no line after the first starts with
    `[ ]{0,3}:[ ]`; no line after the first is white space only -/
theorem C07X_domain_lines (t : Str) :
    noTildeFence t = (lines t).all (fun l => !startsWith l "~~~".toList) ∧
    defFreeNl t = ((lines t).tail).all (fun l => !isDefStart l) ∧
    nlInk t = ((lines t).tail).all (fun l => !isBlank l) :=
  ⟨rfl, defFreeNl_eq_lines t, nlInk_eq_lines t⟩

/-- **`InlineProcessor.run` with the `nl` pattern** turns `<div><p>escAll esc t</p></div>` into
    `<div><p>first line<br/>line<br/>…</p></div>` (`pNode`): the text of the paragraph is the coded first line of `t`,
    there is one `br` child per line feed, its tail the coded text of the following line; the stash holds the codes
    and the `br` elements, the HTML stash stays empty. -/
theorem C07X_inline_paragraph_nl (fn wl : Bool) (cfg : Inline.Cfg) (keys : List Str) (t : Str)
    (hv : startsVisible t = true) (hnle : '\n' ∉ cfg.esc)
    (m0 : '\\' ∈ cfg.esc) (mt : '`' ∈ cfg.esc) (m1 : '[' ∈ cfg.esc) (m2 : '!' ∈ cfg.esc) (m3 : '*' ∈ cfg.esc)
    (m4 : '_' ∈ cfg.esc) (hamp : '&' ∉ t) (hbr : find [' ', ' ', '\n'] t = none) (hstx : Inline.STX ∉ t) :
    InlineX.runX { cfg := cfg, table := InlineX.table fn wl true, fnKeys := keys }
        (singleParagraph (escAll cfg.esc t)) [] =
      some ((Node.el "div").append (pNode cfg.esc t),
        { st := { stash := stashOf cfg.esc t ++ brStash t, html := [] } }) :=
  runX_paragraph_nl fn wl cfg keys t hv hnle m0 mt m1 m2 m3 m4 hamp hbr hstx

example : (pNode Generated.escapedChars "a*\nb".toList).children.length = 1 ∧
    (pNode Generated.escapedChars "a*\nb".toList).text = some "a\x0242\x03".toList := by decide

/-- **The tree processors on that tree**: `PrettifyTreeprocessor` puts a line feed in front of the tail of every
    `br`; attr_list and toc change nothing; `UnescapeTreeprocessor` restores the characters. -/
theorem C07X_tree_processors_nl (env : TocTree.Env) (esc : List Char) (mb : '{' ∈ esc) (m8 : '[' ∈ esc) (t : Str)
    (hink : nlInk t = true) (hv : startsVisible t = true) (hstx : Inline.STX ∉ t) :
    TreeProc.prettify ((Node.el "div").append (pNode esc t)) = prettyDocNl (coded esc) t ∧
    AttrListTree.run TreeProc.defaultBlockLevel (prettyDocNl (coded esc) t) = prettyDocNl (coded esc) t ∧
    TocTree.run env TreeProc.defaultBlockLevel (prettyDocNl (coded esc) t) = .ok (prettyDocNl (coded esc) t) ∧
    TreeProc.unescapeTree (prettyDocNl (coded esc) t) = some (prettyDocNl id t) :=
  ⟨prettify_paragraph_nl esc t hink,
   attrList_prettyDocNl (coded esc) (fun s => brace_not_mem_coded mb s) t,
   toc_prettyDocNl env _ (coded esc) t (strip_coded_ne_marker m8 _),
   unescapeTree_prettyDocNl esc t hv hstx⟩

/-- **The serializer** writes `<br />` (`<br>` in HTML) and a line feed for every line feed of `t` -/
theorem C07X_serialize_nl (fmt : Ser.Fmt) (t : Str) (hv : startsVisible t = true) (hamp : '&' ∉ t) :
    Ser.serialize fmt (prettyDocNl id t) =
      "<div>\n<p>".toList ++ brText (brTag fmt) (Ser.escCdata t) ++ "</p>\n</div>\n".toList := by
  rw [serialize_prettyDocNl fmt t hv hamp]
  simp [List.append_assoc]

/-- what a fully escaped `t` renders as inside the paragraph: `_escape_cdata(t)`, with `<br />` (`<br>` in HTML) in
    front of every line feed when `nl2br` is on -/
def rendered (x : Exts) (fmt : Ser.Fmt) (t : Str) : Str :=
  if x.nl2br then brText (brTag fmt) (Ser.escCdata t) else Ser.escCdata t

/-- in Python terms: `_escape_cdata(t).replace("\n", "<br />\n")` -/
theorem C07X_rendered_replace (x : Exts) (fmt : Ser.Fmt) (t : Str) (h : x.nl2br = true) :
    rendered x fmt t = replace (Ser.escCdata t) "\n".toList (brTag fmt ++ "\n".toList) := by
  simp only [rendered, h, if_true, brText_eq_replace]
  rfl

example : rendered { nl2br := true } .xhtml "a > b\nc".toList = "a &gt; b<br />\nc".toList ∧
    rendered { nl2br := true } .html "a\nb".toList = "a<br>\nb".toList ∧
    rendered {} .xhtml "a\nb".toList = "a\nb".toList := by decide +kernel

/-- **C07X, full form.**  ANY subset `x` of the eleven modelled extensions; `tab_length > 0`, the default block-level
    elements, either output format; escapable set `ESCAPED_CHARS` of the source plus any `extra` characters other than
    the line feed and the blank (plus `|` with tables).  For every text `t` of `EscDomainFull` with
      * no line that starts with `~~~` if `fenced_code` is on,
      * no line after the first that starts with `[ ]{0,3}:[ ]` if `def_list` is on,
      * a character that is not white space in every line after the first if `nl2br` is on,
    converting the text in which every escapable character is escaped gives one paragraph with exactly `t`
    (HTML-escaped by the serializer) — every line feed rendered `<br />` + line feed when `nl2br` is on. -/
theorem C07X_full_general (x : Exts) (cfg : Cfg) (htab : cfg.tab > 0)
    (hbl : cfg.blockLevel = TreeProc.defaultBlockLevel)
    (extra : List Char) (hx : '\n' ∉ extra) (hxs : ' ' ∉ extra) (hesc : cfg.esc = Generated.escapedChars ++ extra)
    (t : Str) (h : EscDomainFull t = true)
    (hf : x.fencedCode = true → noTildeFence t = true)
    (hd : x.defList = true → defFreeNl t = true)
    (hn : x.nl2br = true → nlInk t = true) :
    convertX x cfg (escAll (escX x cfg) t) = .ok ("<p>".toList ++ rendered x cfg.fmt t ++ "</p>".toList) := by
  obtain ⟨m1, m2, m3, m4, m5, m6, m7, m8, hnl⟩ := C07_escapable_chars
  obtain ⟨m0, mt, _, m9, _, _⟩ := C07_escapable_chars_inline
  obtain ⟨mb, hsp, _, _, _⟩ := C07X_escapable_chars
  have hnl' : '\n' ∉ escX x cfg := by
    apply not_mem_escX _ (by decide)
    rw [hesc]; intro hm; rcases List.mem_append.1 hm with hm | hm
    · exact hnl hm
    · exact hx hm
  have hsp' : ' ' ∉ escX x cfg := by
    apply not_mem_escX _ (by decide)
    rw [hesc]; intro hm; rcases List.mem_append.1 hm with hm | hm
    · exact hsp hm
    · exact hxs hm
  have mem : ∀ c, c ∈ Generated.escapedChars → c ∈ escX x cfg :=
    fun c hc => mem_escX (hesc ▸ List.mem_append_left _ hc)
  cases hnb : x.nl2br with
  | true =>
    simp only [rendered, hnb, if_true]
    exact convertX_escaped_nl x cfg htab hbl hnl' hsp' (mem _ m0) (mem _ mt) (mem _ m1) (mem _ m2) (mem _ m3)
      (mem _ m4) (mem _ m5) (mem _ m6) (mem _ m7) (mem _ m8) (mem _ m9) (mem _ mb) t h hf hd hnb (hn hnb)
  | false =>
    simp only [rendered, hnb, Bool.false_eq_true, if_false]
    exact convertX_escaped x cfg htab hbl hnl' hsp' (mem _ m0) (mem _ mt) (mem _ m1) (mem _ m2) (mem _ m3)
      (mem _ m4) (mem _ m5) (mem _ m6) (mem _ m7) (mem _ m8) (mem _ m9) (mem _ mb) t h hf hd
      (fun e => by rw [hnb] at e; cases e)

/-- **C07X, full form, default configuration.**  For ANY subset `x` of fenced_code, tables, admonition, def_list,
    abbr, footnotes, sane_lists, nl2br, wikilinks, attr_list, toc and every text `t` of the domain of `C07` (with the
    three conditions on the characters that cannot be escaped: `~~~`, `: `, a blank line after a `br`): the text in
    which every escapable character — `|` included when tables is on — is escaped renders as exactly that text in a
    single paragraph, line feeds as `<br />` + line feed when nl2br is on. -/
theorem C07X_full (x : Exts) (t : Str) (h : EscDomainFull t = true)
    (hf : x.fencedCode = true → noTildeFence t = true)
    (hd : x.defList = true → defFreeNl t = true)
    (hn : x.nl2br = true → nlInk t = true) :
    convertX x {} (escAll (escX x {}) t) = .ok ("<p>".toList ++ rendered x .xhtml t ++ "</p>".toList) :=
  C07X_full_general x {} (by decide) rfl [] (by simp) (by simp) (by simp) t h hf hd hn

/-- **nl2br alone**, in Python terms: `"<p>" + _escape_cdata(t).replace("\n", "<br />\n") + "</p>"` -/
theorem C07X_nl2br (t : Str) (h : EscDomainFull t = true) (hn : nlInk t = true) :
    convertX { nl2br := true } {} (escAll Generated.escapedChars t) =
      .ok ("<p>".toList ++ replace (Ser.escCdata t) "\n".toList "<br />\n".toList ++ "</p>".toList) := by
  have := C07X_full { nl2br := true } t h (by simp) (by simp) (fun _ => hn)
  rw [C07X_rendered_replace _ _ _ rfl] at this
  exact this

/-- **every extension enabled**, multi-line texts: no line starts with `~~~`, no later line with `[ ]{0,3}:[ ]`, no
    later line is white space only -/
theorem C07X_all_extensions_full (t : Str) (h : EscDomainFull t = true)
    (hf : noTildeFence t = true) (hd : defFreeNl t = true) (hn : nlInk t = true) :
    convertX allExts {} (escAll (Generated.escapedChars ++ ['|']) t) =
      .ok ("<p>".toList ++ replace (Ser.escCdata t) "\n".toList "<br />\n".toList ++ "</p>".toList) := by
  have := C07X_full allExts t h (fun _ => hf) (fun _ => hd) (fun _ => hn)
  rw [show escX allExts {} = Generated.escapedChars ++ ['|'] by decide, C07X_rendered_replace _ _ _ rfl] at this
  exact this

/-! ### the hypotheses are satisfiable, and what they exclude -/

/-- a text of the domain with the markup of every extension in it -/
example :
    let t := "| a | b | !!! [^1] *[x]: [[w]] {: #i} [TOC] 1. - ~~ : x ```".toList
    EscDomainFull t = true ∧ '\n' ∉ t ∧ startsWith t "~~~".toList = false := by decide +kernel

/-- multi-line: a table, an admonition, a footnote and an abbreviation definition, a definition-list look-alike
    without the blank, a fence of backticks -/
example :
    let t := "| a | b |\n|---|---|\n!!! note\n[^1]: x\n*[A]: b\n:x\n```\n~~ ~".toList
    EscDomainFull t = true ∧ noTildeFence t = true ∧ defFreeNl t = true := by decide +kernel

/-- the theorem on an instance, all extensions except nl2br (the text has line feeds) -/
example :
    convertX { allExts with nl2br := false } {}
      (escAll (Generated.escapedChars ++ ['|']) "| a | b |\n|---|---|\n!!! note\n[^1]: x\n:x\n```".toList) =
    .ok "<p>| a | b |\n|---|---|\n!!! note\n[^1]: x\n:x\n```</p>".toList :=
  C07X { allExts with nl2br := false } _ (by decide +kernel) (by decide +kernel) (by decide +kernel) (by decide +kernel)

/-- `\|` in plain text with tables on; without the backslash the same two lines are a table -/
example : convertX { tables := true } {} "a \\| b\n\\-\\-\\- \\| \\-\\-\\-".toList =
    .ok "<p>a | b\n--- | ---</p>".toList :=
  C07X { tables := true } "a | b\n--- | ---".toList (by decide +kernel) (by decide +kernel) (by decide +kernel) (by decide +kernel)

example : convertX { tables := true } {} "a | b\n--- | ---".toList =
    .ok "<table>\n<thead>\n<tr>\n<th>a</th>\n<th>b</th>\n</tr>\n</thead>\n<tbody>\n<tr>\n<td></td>\n<td></td>\n</tr>\n</tbody>\n</table>".toList := by
  decide +kernel

/-- **`~~~` fence (excluded with fenced_code).**  `~` is not escapable: `escAll` leaves the text alone and it is a
    fenced code block.  The text is in the domain of `C07`. -/
theorem C07X_tilde_fence_counterexample :
    EscDomainFull "~~~\n~~~".toList = true ∧ noTildeFence "~~~\n~~~".toList = false ∧
    escAll (escX { fencedCode := true } {}) "~~~\n~~~".toList = "~~~\n~~~".toList ∧
    convertX { fencedCode := true } {} "~~~\n~~~".toList = .ok "<pre><code></code></pre>".toList := by
  decide +kernel

/-- **definition (excluded with def_list).**  `:` is not escapable. -/
theorem C07X_def_list_counterexample :
    EscDomainFull "a\n: b".toList = true ∧ defFreeNl "a\n: b".toList = false ∧
    escAll (escX { defList := true } {}) "a\n: b".toList = "a\n: b".toList ∧
    convertX { defList := true } {} "a\n: b".toList = .ok "<dl>\n<dt>a</dt>\n<dd>b</dd>\n</dl>".toList := by
  decide +kernel

/-- a FIRST line `: b` is in the domain: there is no term, the text stays a paragraph -/
example : defFreeNl ": b\nc :d\n    :  e".toList = true ∧
    convertX { defList := true } {} ": b".toList = .ok "<p>: b</p>".toList := by
  decide +kernel

/-- the full theorem on an instance: all eleven extensions, three lines -/
example :
    convertX allExts {}
      (escAll (Generated.escapedChars ++ ['|']) "| a | b |\n|---|---|\n!!! [^1] *[x]: [[w]] {: #i} [TOC] 1. - ~~ : x".toList) =
    .ok "<p>| a | b |<br />\n|---|---|<br />\n!!! [^1] *[x]: [[w]] {: #i} [TOC] 1. - ~~ : x</p>".toList :=
  C07X_all_extensions_full _ (by decide +kernel) (by decide +kernel) (by decide +kernel) (by decide +kernel)

/-- **white-space-only line after a line feed (excluded with nl2br).**  The text is in the domain of `C07` (its
    second line has a character other than a space: a vertical tab), nothing in it is escapable; the core renders
    it as it is, with nl2br the vertical tab is lost (`PrettifyTreeprocessor` resets the blank tail of the `br`). -/
theorem C07X_nl2br_blank_line_counterexample :
    EscDomainFull "a\n\x0b".toList = true ∧ nlInk "a\n\x0b".toList = false ∧
    escAll Generated.escapedChars "a\n\x0b".toList = "a\n\x0b".toList ∧
    convertX {} {} "a\n\x0b".toList = .ok "<p>a\n\x0b</p>".toList ∧
    convertX { nl2br := true } {} "a\n\x0b".toList = .ok "<p>a<br />\n</p>".toList := by
  decide +kernel

end MdVerif.EscX
