/-
C10 — The output never contains the STX/ETX control characters or any of the placeholder tokens the converter uses
internally (for stashed inline elements, raw HTML, escaped characters, ampersands, footnote back-links), provided the
input does not itself spell those tokens.  Everything that is stashed during conversion is restored before the result
is returned.

Only property statements live here.  Vocabulary: `MdVerif/Spec/NoCtl.lean`; helper lemmas:
`MdVerif/Lemmas/Placeholders*.lean`.  Core Lean only.

What is proved (status: **partial**; the converter does leak, see §4):

1. *The input cannot forge a token* — `C10_input_cannot_forge`: the text handed to the block parser has no STX/ETX
   (normaliser, then raw-HTML preprocessor on `<`-free text); `C10_block_tree_noctl`, `C10_block_tree_chars`: the
   block parser invents no characters, so neither has the block tree.
2. *The restore steps*, each with its exact gap — `C10_unescape_post` (escape tokens: not in `code` text, not in
   attribute names; needs the codes to be those the converter writes, `C10_unescape_codes_needed`), `C10_amp_post`,
   `C10_rawhtml_post`, `C10_rawhtml_one_pass`, `C10_rawhtml_terminates` (for stash entries shaped like the ones the
   entity pattern stores, `C10_entity_entries`; counterexamples for other entries).
3. *The inline engine on the pattern subset that cannot leak* (backtick, escape, line break, not_strong, em_strong,
   em_strong2): per-pattern `C10_*_stash_ok`, `C10_ids_bounded` (`handleInline`), `C10_all_visited_pp`
   (`processPlaceholders`), `C10_all_visited_run` (`InlineProcessor.run`), and end to end `C10_partial_emph`,
   `C10_partial_plain`: for sources of `C10DomainE` the output of `Pipeline.convert` has no STX/ETX.
4. *The leaks*, kernel-checked on the model exactly as the implementation produces them: F-C10-1
   (`C10_leak_reference_in_destination`, cause: `C10_attr_one_level`), F-C10-2 (`C10_leak_quote_in_destination`), and a
   leak inside the subset of §3 that forced its domain to exclude a backslash together with a backtick
   (`C10_second_pass_code_leak`).
-/
import MdVerif.Lemmas.Placeholders

namespace MdVerif.NoCtl
open Py Inline

/-! ## 1. The input cannot forge a token -/

/-- **No STX/ETX reaches the block parser.**  `NormalizeWhitespace` deletes them (`C09_no_ctl_out`), and the raw-HTML
    preprocessor (on `<`-free text: `Extract.extract`) introduces none: the normalised text and the text handed to
    `BlockParser.parseDocument` are free of STX and ETX, whatever the source is. -/
theorem C10_input_cannot_forge (cfg : Pipeline.Cfg) (src : Str) :
    NoCtl (Normalize.normalize cfg.tab src) ∧ NoCtl (Pipeline.prepare cfg src) :=
  ⟨normalize_noctl cfg.tab src, prepare_noctl cfg src⟩

example : Pipeline.prepare {} "a\x02klzzwxh:0000\x03 &#38x \x02amp\x03".toList = "aklzzwxh:0000 &#38;x amp\n\n".toList := by
  decide

/-- the raw-HTML preprocessor invents only the `#` and `;` of a re-spelt character reference -/
theorem C10_extract_chars {s : Str} {c : Char} (h : c ∈ Extract.extract s) :
    c ∈ s ∨ ('&' ∈ s ∧ (c = '#' ∨ c = ';')) := mem_extract h

/-- **The block parser invents no characters**: every text and tail of the block tree consists of characters of the
    parsed text, spaces and line feeds; the atomic text of `code` elements may also hold the characters of `&amp;`
    `&lt;` `&gt;` (`code_escape`) and of `None`; tags are literal names without STX/ETX, no attribute is set. -/
theorem C10_block_tree_chars (tab : Nat) (text : Str) {root : Node} {refs : Block.Refs}
    (hr : Block.parseDocument tab text = some (root, refs)) :
    root.Forall (fun n =>
      tagNoCtl n.tag ∧ n.attrs = [] ∧
      (∀ c ∈ n.tail.getD [], c ∈ text ∨ c = ' ' ∨ c = '\n') ∧
      (∀ c ∈ n.text.getD [], c ∈ text ∨ c = ' ' ∨ c = '\n' ∨ (n.textAtomic = true ∧ c ∈ "&amp;ltgNone".toList))) := by
  let p : Char → Bool := fun c => text.contains c || c == ' ' || c == '\n'
  let q : Char → Bool := fun c => p c || "&amp;ltgNone".toList.contains c
  have hpq : Blk.CharDom p q :=
    Blk.CharDom.ofLits (fun c hc => by simp only [q, hc, Bool.true_or]) (by simp [p]) (by simp [p])
      (fun c hc => by simp only [q, Bool.or_eq_true]; right; simpa using hc)
  have hp : Blk.AllC p text := fun c hc => by simp [p, hc]
  obtain ⟨h1, -, -⟩ := Blk.parseDocument_chars hpq tab text hp hr
  refine Node.Forall.mono ?_ root h1
  rintro n ⟨b1, b2, b3, b4, b5, b6, b7⟩
  refine ⟨b1, b2, ?_, ?_⟩
  · intro c hc
    have := b4 c hc
    simp only [p, Bool.or_eq_true, List.contains_iff_mem, beq_iff_eq] at this
    rcases this with (h | h) | h
    · exact .inl h
    · exact .inr (.inl h)
    · exact .inr (.inr h)
  · intro c hc
    by_cases hat : n.textAtomic = true
    · rw [if_pos hat] at b5
      have := b5 c hc
      simp only [q, p, Bool.or_eq_true, List.contains_iff_mem, beq_iff_eq] at this
      rcases this with (((h | h) | h)) | h
      · exact .inl h
      · exact .inr (.inl h)
      · exact .inr (.inr (.inl h))
      · exact .inr (.inr (.inr ⟨hat, h⟩))
    · rw [if_neg hat] at b5
      have := b5 c hc
      simp only [p, Bool.or_eq_true, List.contains_iff_mem, beq_iff_eq] at this
      rcases this with (h | h) | h
      · exact .inl h
      · exact .inr (.inl h)
      · exact .inr (.inr (.inl h))

/-- **No STX/ETX in the block tree** when the parsed text has none (as it has: `C10_input_cannot_forge`): not in a
    tag, text or tail (no attribute is set), nor in the url or title of a reference definition.  (The ids of the
    definitions go through `str.lower` and are not covered.) -/
theorem C10_block_tree_noctl (tab : Nat) {text : Str} (h : NoCtl text) {root : Node} {refs : Block.Refs}
    (hr : Block.parseDocument tab text = some (root, refs)) :
    TreeNoCtl root ∧ ∀ r ∈ refs, NoCtl r.2.1 ∧ NoCtl (r.2.2.getD []) := by
  have hp : Blk.AllC Blk.okc text := fun c hc => by
    have := noCtl_iff.1 h c hc
    simp [Blk.okc, this.1, this.2]
  obtain ⟨h1, h2, -⟩ := Blk.parseDocument_chars Blk.charDom_noctl tab text hp hr
  refine ⟨Node.Forall.mono ?_ root h1, fun r hr' => ⟨allC_okc (h2 r hr').1, allC_okc (h2 r hr').2⟩⟩
  rintro n ⟨b1, b2, b3, b4, b5, b6, b7⟩
  have hattrs : attrsNoCtl n.attrs := by rw [b2]; intro kv hkv; cases hkv
  refine ⟨b1, hattrs, ?_, allC_okc b4⟩
  by_cases hat : n.textAtomic = true
  · rw [if_pos hat] at b5; exact allC_okc b5
  · rw [if_neg hat] at b5; exact allC_okc b5

example : NoCtl (Pipeline.prepare {} "# h\x02\n\n    c<d\n\n* a\n* b".toList) := by decide

/-! ## 2. The restore steps -/

/-- **`UnescapeTreeprocessor`, post-condition and gap.**  When every `STX \d+ ETX` sequence that the substitution
    replaces has a code whose character is neither a decimal digit nor STX/ETX (`codesOk`; true of the codes the
    converter writes: `ord` of an escapable character, and 92), then afterwards no `STX \d+ ETX` sequence is left in
    any text, tail or attribute value — except in the text of `code` elements, which the processor skips, and in
    attribute names, which it never looks at (`UnescPostNode`). -/
theorem C10_unescape_post {t u : Node} (h : t.Forall CodesOkNode) (hr : TreeProc.unescapeTree t = some u) :
    u.Forall UnescPostNode := unescapeTree_post h hr

/-- the hypothesis of `C10_unescape_post` for the codes of `ESCAPED_CHARS` and for 92 -/
example : (Generated.escapedChars.all fun c => codeCharOk c.toNat) = true ∧ codeCharOk 92 = true := by decide

example : CodesOkNode
    { tag := .name "p".toList, text := some "a\x0242\x03b\x0292\x03".toList, attrs := [("title".toList, "\x0240\x03".toList)] } := by
  refine ⟨fun _ => by decide, by decide, ?_⟩
  intro kv hkv
  simp only [List.mem_cons, List.not_mem_nil, or_false] at hkv
  subst hkv; decide

/-- the hypothesis on the codes cannot be dropped: the implementation maps `STX STX 48 ETX ETX` to `STX 0 ETX` -/
theorem C10_unescape_codes_needed :
    TreeProc.unescapeText 0 "\x02\x0248\x03\x03".toList = some "\x020\x03".toList ∧
    hasEscSeq "\x020\x03".toList = true ∧ codesOk 0 "\x02\x0248\x03\x03".toList = false := by decide

/-- the gap is real: the text of a `code` element and an attribute *name* keep their escape token -/
example :
    (TreeProc.unescapeTree
        { tag := .name "code".toList, text := some "\x0296\x03".toList, attrs := [("\x0242\x03".toList, "\x0242\x03".toList)] }).map
      (fun u => (u.text, u.attrs)) = some (some "\x0296\x03".toList, [("\x0242\x03".toList, "*".toList)]) := by
  decide

/-- on a tree whose strings hold escape tokens only (no other STX/ETX), none of them in `code` text, the result of
    `UnescapeTreeprocessor` has no STX/ETX at all -/
theorem C10_unescape_clean {t u : Node} (h : t.Forall FNode) (hr : TreeProc.unescapeTree t = some u) : TreeNoCtl u :=
  unescapeTree_fnode h hr

/-- **`AndSubstitutePostprocessor`**: no `STX amp ETX` is left — for every text. -/
theorem C10_amp_post (s : Str) : hasAmpSub (Post.ampSub s) = false := ampSub_post s

example : Post.ampSub "\x02amp\x02amp\x03\x03".toList = "\x02amp&\x03".toList := by decide

/-- **`RawHtmlPostprocessor`, post-condition**: when every stash entry is shaped like an entity reference (`&…;`
    without STX), no placeholder whose number is a key of the stash is left in the result. -/
theorem C10_rawhtml_post {bl stash : List Str} (he : ∀ e ∈ stash, entityLike e = true) {f : Nat} {text out : Str}
    (h : Post.rawHtml bl stash f text = some out) : hasLiveHtmlPh stash out = false := rawHtml_post he h

/-- one substitution pass suffices for such entries (no entry mentions another entry, and no new placeholder can form
    across the boundary of an entry) … -/
theorem C10_rawhtml_one_pass {bl stash : List Str} (he : ∀ e ∈ stash, entityLike e = true) (t : Str) :
    hasLiveHtmlPh stash (Post.subPass bl stash 0 t) = false := subPass_post he t

/-- … so the fix-point recursion terminates within `rawHtmlFuel`, for every text -/
theorem C10_rawhtml_terminates {bl stash : List Str} (he : ∀ e ∈ stash, entityLike e = true) (text : Str) :
    ∃ out, Post.rawHtml bl stash (Post.rawHtmlFuel stash) text = some out := rawHtml_total he text

example : ∀ e ∈ ["&amp;".toList, "&#38;".toList, "&#x1F;".toList], entityLike e = true := by decide

/-- the entries stored by the entity pattern (the only HTML stash entries for `<`-free text) have that shape, and the
    pattern does not touch the inline stash -/
theorem C10_entity_entries {cfg : Cfg} {data : Str} {si : Nat} {st st' : St} {f : Found}
    (h : findMatch cfg 12 data si st = some (some f, st')) :
    ∃ raw, st'.html = st.html ++ [raw] ∧ entityLike raw = true ∧ st'.stash = st.stash :=
  entity_entry_entityLike h

/-- without the shape hypothesis the post-condition fails: an entry that mentions itself is a fixed point … -/
theorem C10_rawhtml_self_reference :
    let e : Str := "\x02wzxhzdk:0\x03".toList
    Post.rawHtml [] [e] (Post.rawHtmlFuel [e]) e = some e ∧ hasLiveHtmlPh [e] e = true ∧ entityLike e = false := by
  decide

/-- … and entries that complete a placeholder started in the text need one pass per nesting level: the fuel of the
    model (`rawHtmlFuel`) is exhausted (the implementation recurses on) -/
theorem C10_rawhtml_nested :
    let p : Str → Str := fun x => Post.htmlPrefix ++ x ++ [ETX]
    Post.rawHtml [] ["0".toList] (Post.rawHtmlFuel ["0".toList]) (p (p (p (p "0".toList)))) = none ∧
    Post.rawHtml [] ["0".toList] 6 (p (p (p (p "0".toList)))) = some "0".toList := by decide

/-! ## 3. The inline engine on the pattern subset that cannot leak

Modes: `esc = true` — backslash escapes, no backtick; `esc = false` — backticks, no backslash and no `>`.  In both: no
`<`, `&`, `[`, `]` (`domChar`, `DomS`).  `WF esc k s`: `s` is made of ordinary characters, inline placeholders with an
id `< k`, and (mode `true`) escape tokens.  `FoundOK esc k data f`: the match `f` cuts the data at characters that are
not inside a token, and what it returns (a string, or an element with its children) is well formed and in the
domain. -/

/-- **backtick** (mode without backslash): the match is a code span; the `code` element carries the (stripped,
    `code_escape`d) content, which lies between two backticks of the data and is therefore well formed -/
theorem C10_backtick_stash_ok {k : Nat} {data : Str} {si : Nat} {m : BtMatch} (hw : WF false k data)
    (hd : DomS false data) (h : btFind data si = some m) :
    m.kind = .code ∧
    FoundOK false k data
      ⟨.el { mkEl "code" with text := some (Inline.codeEscape (strip m.group)), textAtomic := true }, m.start, m.stop⟩ :=
  backtick_stash_ok hw hd h

/-- in the mode with backslashes there is no backtick, and the pattern does not match -/
theorem C10_backtick_off {data : Str} (hd : DomS true data) (si : Nat) : btFind data si = none :=
  btFind_none (dom_no_backtick hd) si

/-- **escape**: `\c` for an escapable `c` is replaced by the escape token `STX ord(c) ETX`, whose code is acceptable;
    the two characters are not inside a token -/
theorem C10_escape_stash_ok {cfg : Cfg} (hcfg : EscOK cfg.esc) {k : Nat} {data : Str} {si j : Nat} {ch : Char}
    (hw : WF true k data) (h : escScan (data.drop si) si = some (j, ch)) :
    FoundOK true k data ⟨if cfg.esc.contains ch then .str (STX :: natToDec ch.toNat ++ [ETX]) else .none, j, j + 2⟩ :=
  escape_stash_ok hcfg hw h

/-- the escapable characters of the default configuration are acceptable -/
theorem C10_escaped_chars_ok : EscOK Generated.escapedChars := escOK_default

/-- **line break** -/
theorem C10_linebreak_stash_ok {esc : Bool} {k : Nat} {data : Str} {si off : Nat} (hw : WF esc k data)
    (h : find [' ', ' ', '\n'] (data.drop si) = some off) :
    FoundOK esc k data ⟨.el (mkEl "br"), si + off, si + off + 3⟩ := linebreak_stash_ok hw h

/-- **not_strong**: the stashed string is a run of `*` or `_` -/
theorem C10_not_strong_stash_ok {esc : Bool} {k : Nat} {data : Str} {si s e : Nat} (hw : WF esc k data)
    (hd : DomS esc data) (h : nsFind data si = some (s, e)) : FoundOK esc k data ⟨.str (slice data s e), s, e⟩ :=
  not_strong_stash_ok hw hd h

/-- **em_strong / em_strong2**: the element built by `AsteriskProcessor` / `UnderscoreProcessor` (with everything
    `parse_sub_patterns` nests into it) has only texts and tails that are cut out of the data at delimiter characters -/
theorem C10_em_stash_ok {esc : Bool} {k : Nat} {c : Char} (hc : c = '*' ∨ c = '_') {data : Str} (hw : WF esc k data)
    (hd : DomS esc data) {suf : Str} {i : Nat} {el : Node} {s e : Nat}
    (h : emScan data c suf i = some (some (el, s, e))) : FoundOK esc k data ⟨.el el, s, e⟩ := by
  rcases hc with rfl | rfl
  · exact em_stash_ok delim_star hw hd h
  · exact em_stash_ok delim_under hw hd h

/-- the link, reference, image and entity patterns cannot fire on data of the domain (autolink, automail and inline
    HTML need `<`, which the model excludes altogether) -/
theorem C10_other_patterns_off {esc : Bool} (cfg : Cfg) {data : Str} (hd : DomS esc data) (si : Nat) (st : St) :
    (∀ pi prev, linkScan cfg st.stash pi data prev (data.drop si) si = none) ∧ entityFind data si = none :=
  ⟨fun _ _ => linkScan_none _ _ _ _ _ _ _ (fun hm => dom_no_bracket hd (List.mem_of_mem_drop hm)),
   entityFind_none (dom_no_amp hd) si⟩

/-- **`ids_bounded`**: `handleInline` on a well-formed text of the domain, with a closed stash (`StOK`: entry `i`
    mentions only entries `< i`, every id is `'%04d' % i`), returns a text that is well formed with respect to the new
    stash, and a closed stash; the stash only grows and the HTML stash is untouched. -/
theorem C10_ids_bounded {esc : Bool} {cfg : Cfg} (hcfg : esc = true → EscOK cfg.esc) : HISpec esc cfg := by
  cases esc with
  | true => exact hiSpec_true (hcfg rfl)
  | false => exact hiSpec_false cfg

/-- **`all_visited`, `processPlaceholders`**: on a well-formed text every placeholder is found in the stash and
    replaced; the produced elements (`res`) and the string slot of the parent that receives the text pieces hold no
    placeholder any more, and all produced elements are well formed down to their leaves. -/
theorem C10_all_visited_pp {esc : Bool} {st : St} (hst : StOK esc st.stash) {data : Str} {atomic isText : Bool}
    {parent parent' : Node} {res : List Node} (hw : WF esc st.stash.length data) (hd : DomS esc data)
    (hs : StrW esc 0 (if isText then parent.text else parent.tail))
    (h : ppTop st data atomic parent isText = some (res, parent')) :
    StrW esc 0 (if isText then parent'.text else parent'.tail) ∧
    ∀ n ∈ res, Clean esc n ∧ n.Forall (WNode esc st.stash.length) := by
  have inv := ppTop_spec hst hw hd (by simpa [slot] using hs) h
  exact ⟨by simpa [slot] using inv.slotOK, fun n hn => ⟨(inv.res n hn).2, (inv.res n hn).1⟩⟩

/-- **`all_visited`, `InlineProcessor.run`**: if no element of the tree holds a placeholder before (`TNode`), none
    does after — every element that `handleInline`/`processPlaceholders` left with a placeholder below the elements
    they returned is visited later (the stack discipline of `run`) — and the HTML stash is the one passed in. -/
theorem C10_all_visited_run {esc : Bool} {cfg : Cfg} (hhi : HISpec esc cfg) {tree t : Node} {html : List Str}
    {st : St} (ht : tree.Forall (TNode esc)) (h : run cfg tree html = some (t, st)) :
    t.Forall (TNode esc) ∧ st.html = html := run_spec hhi ht h

/-- **End to end, the subset that cannot leak.**  For a source without `<`, `&`, `[`, `]` that has either no
    backtick, or no backslash and no `>` (`C10DomainE`), whatever `Markdown.convert` returns (`Pipeline.convert`, any
    tab length, output format and block-level set; the escapable characters must be ordinary ones) contains neither STX
    nor ETX — hence none of the placeholder tokens. -/
theorem C10_partial_emph (cfg : Pipeline.Cfg) (hcfg : EscOK cfg.esc) {src out : Str} (hd : C10DomainE src)
    (h : Pipeline.convert cfg src = .ok out) : NoCtl out := by
  rcases hd with hd | hd
  · exact convert_noctl_mode (esc := true) (fun _ => hcfg) hd h
  · exact convert_noctl_mode (esc := false) (fun h => by cases h) hd h

example : C10DomainE "a *b* \\* c  \nd __e__ > f\n\n    code > x\n\n* l1\n* l2".toList ∧
    C10DomainE "x `c + d` *y* ``e `f` g``".toList ∧ EscOK ({} : Pipeline.Cfg).esc :=
  ⟨by decide, by decide, escOK_default⟩

example : Pipeline.convert {} "a *b* \\* c  \nd __e__ > f".toList =
    .ok "<p>a <em>b</em> * c<br />\nd <strong>e</strong> &gt; f</p>".toList := by decide +kernel

/-- the block-only fragment: no inline markup character at all -/
theorem C10_partial_plain (cfg : Pipeline.Cfg) (hcfg : EscOK cfg.esc) {src out : Str} (hd : C10DomainPlain src)
    (h : Pipeline.convert cfg src = .ok out) : NoCtl out := by
  refine C10_partial_emph cfg hcfg (.inl ?_) h
  intro c hc
  obtain ⟨h1, h2, h3, h4, h5, -⟩ := hd c hc
  simp [domChar, h1, h2, h3, h4, h5]

example : C10DomainPlain "# Title\n\n> quote\n\n1. one\n2. two\n\n    code\n\n---".toList := by decide

/-! ## 4. The leaks -/

/-- **`Pattern.unescape` expands exactly one level**: the placeholder of a stashed element is replaced by the text
    content of that element, which is not expanded again — if it holds a placeholder itself, that placeholder comes
    out verbatim (next example).  This is how attribute values (`href`, `title`, `alt`) are built. -/
theorem C10_attr_one_level {stash : List StashItem} {i : Nat} {n : Node} (h : stash[i]? = some (.node n)) :
    Inline.unescape stash (placeholder i) = itertext n := unescape_placeholder h

example :
    let stash : List StashItem :=
      [.node { mkEl "code" with text := some "x".toList, textAtomic := true },
       .node { mkEl "a" with text := some (placeholder 0) }]
    Inline.unescape stash (placeholder 1) = placeholder 0 := by decide

/-- **F-C10-1**, the model leaks exactly as the implementation: a defined reference link inside a link destination -/
theorem C10_leak_reference_in_destination :
    Pipeline.convert {} "[a]([`x`][foo])\n\n[foo]: /f".toList =
      .ok "<p><a href=\"\x02klzzwxh:0000\x03\">a</a></p>".toList := by decide +kernel

/-- F-C10-1, second witness: inside an image's alt text -/
example : Pipeline.convert {} "![[*x*][foo]](u)\n\n[foo]: /f".toList =
    .ok "<p><img alt=\"\x02klzzwxh:0000\x03\" src=\"u\" /></p>".toList := by decide +kernel

/-- **F-C10-2**: a quote in a link destination that does not close as a title cuts a placeholder in two -/
theorem C10_leak_quote_in_destination :
    Pipeline.convert {} "[](\"\\((".toList = .ok "<p><a href=\"&quot;\x02klzzwxh:0000\"></a>(</p>".toList := by
  decide +kernel

/-- **A leak inside the subset of §3** (no `<`, `&`, `[`, `]`): a backslash-escaped backtick becomes an escape token;
    when the nested `em` is visited again by `InlineProcessor.run`, the token no longer counts as a backtick, a code
    span matches around it, and `UnescapeTreeprocessor` skips `code` elements.  This is why `C10DomainE` excludes
    sources with both a backslash and a backtick; the implementation produces the same output. -/
theorem C10_second_pass_code_leak :
    Pipeline.convert {} "*_`\\``_*".toList = .ok "<p><em><em><code>\x0296\x03</code></em></em></p>".toList ∧
    ¬ C10DomainE "*_`\\``_*".toList ∧
    (∀ c ∈ "*_`\\``_*".toList, c ≠ '<' ∧ c ≠ '&' ∧ c ≠ '[' ∧ c ≠ ']') := by
  refine ⟨by decide +kernel, by decide, by decide⟩

example : Pipeline.convert {} "**_`a\\``_**".toList =
    .ok "<p><strong><em><code>a\x0296\x03</code></em></strong></p>".toList := by decide +kernel

end MdVerif.NoCtl
