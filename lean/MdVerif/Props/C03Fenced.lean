/-
C03 — code is literal, for FENCED code blocks, end to end through the pipeline model with extensions
(`PipelineX.convertX` with `fencedCode := true`, i.e. `markdown.markdown(src, extensions=['fenced_code'])`):
"Text placed in … a fenced code block … appears in the output character for character, changed only by
HTML-escaping of `&`, `<` and `>` … No Markdown, HTML or entity syntax inside code is ever interpreted, whatever
surrounds the code."

Only property statements live here; vocabulary and helper lemmas are in `Lemmas/FencedPipe.lean`.  The recogniser
of the block and the escaping are in `Props/C03Code.lean` (`C03_fence_body_literal`, `C03_fenceEscape_*`,
`C03_fence_code_reads_back`).

Vocabulary.
* `fenceBlock n ch lang b`   the block as typed: a fence of `n` characters `ch`, the language, a line feed, the body
                             `b` (any number of lines), a line feed, the same fence;
* `bodyOk n ch b`            the domain of bodies: every line consists of `isCodeChar` characters (anything but `<`,
                             CR, tab, STX, ETX), is not made of spaces only, and is not the closing fence
                             (`fence[ ]*`).  Everything else is allowed: blank lines, indentation, trailing spaces,
                             `&`, entities with or without `;`, backslashes, `*_[]()#>!|`, backticks and tildes, other
                             fences (shorter, longer, of the other kind, indented, with text after them), `"`;
* `isLang lang`              a language name: characters of `[\w#.+-]`, not starting with `.`;
* `isParaLine p`             a surrounding paragraph: one line of ASCII letters and spaces starting with a letter;
* `docSource pre blk post`   `"\n\n".join(pre + [blk] + post)`;
* `codeHtml lang b`          `<pre><code` + (` class="language-…"`) + `>` + `fenceEscape b` + `"\n</code></pre>"`;
* `docHtml pre html post`    the paragraphs as `<p>…</p>`, the block's HTML between them, one per line.

What is excluded and why (all tested on the implementation before proving):
* `<` in the body: outside the domain of the pipeline model (`convertX` answers `ood`);
* tab, CR, STX, ETX and lines of spaces only: `NormalizeWhitespace` rewrites them BEFORE the fenced-block
  preprocessor sees the text (tab → spaces, CR → LF, STX/ETX removed, a spaces-only line emptied) — in code as
  anywhere else; that is C09's subject.  Kernel-checked instances are at the end of the file.
A numeric character reference without `;` (`&#38 x`), which an indented code block or a code span does NOT keep
(F-C03-1, `Props/C03.lean`), IS kept by a fenced block: the block is stashed before the raw-HTML preprocessor runs
(`C03_fenced_keeps_open_reference`).

Part 1.  `C03_fenced_top`, `C03_fenced_lang`: the block alone in the document.
Part 2.  `C03_fenced_among_paragraphs` and its instances `C03_fenced_after_paragraph`, `C03_fenced_before_paragraph`,
         `C03_fenced_between_paragraphs`: whatever surrounds the code.
Part 2a. `C03_fenced_document`: any document made of one-line paragraphs and ANY NUMBER of fenced blocks
         (`Item`, `itemsSource`, `itemsHtml`): every block comes out as in Part 1, at its place.
Part 2c. `C03_fenced_other_extensions`, `C03_fenced_extensions_inert`: with ANY of the other ten modelled extensions
         enabled as well, the same output — their processors never see the stashed body.
Part 2b. `C03_fenced_any_body`: EVERY body without `<` (tabs, CR, STX/ETX, lines of spaces included): the code of
         the output is the body as `NormalizeWhitespace` leaves it (`normBody`), nothing else happens to it.
Part 3.  `C03_fenced_html_reads_back`, `C03_fenced_body_reads_back`: the output, read by the strict reader of the
         serializer's output, is a `pre` > `code` holding exactly the body.
-/
import MdVerif.Props.C03Code
import MdVerif.Lemmas.FencedPipe

namespace MdVerif.FencedPipe
open Py Pipeline PipelineX Fenced

/-! ### Part 1: a fenced block alone -/

/-- **C03 for fenced code blocks, end to end.**  The document is a fence of `n ≥ 3` backticks or tildes, a line
    feed, a body `b` of the domain `bodyOk`, a line feed, the same fence.  `Markdown.convert` with `fenced_code`
    returns exactly `<pre><code>`, the body with `&`, `<`, `>`, `"` escaped (`fenceEscape`) and otherwise character
    for character, a line feed, `</code></pre>`.  Nothing in the body is interpreted: emphasis, links, headers,
    lists, quotes, references, backslash escapes, code spans, entities, other fences, blank lines, indentation and
    trailing spaces all come out as typed.  Any tab length > 0, both output formats. -/
theorem C03_fenced_top (tab : Nat) (htab : 0 < tab) (fmt : Ser.Fmt) (n : Nat) (ch : Char) (b : Str)
    (hch : ch = '~' ∨ ch = '`') (hn : 3 ≤ n) (hb : bodyOk n ch b = true) :
    convertX { fencedCode := true } { tab := tab, fmt := fmt }
        (List.replicate n ch ++ "\n".toList ++ b ++ "\n".toList ++ List.replicate n ch) =
      .ok ("<pre><code>".toList ++ Code.fenceEscape b ++ "\n</code></pre>".toList) := by
  have h := convert_fencedDoc tab htab fmt n ch [] b [] [] ⟨hch, hn, rfl, hb, by simp, by simp⟩
  rw [docSource_single, docHtml_single, fenceBlock_of n ch [] b "\n".toList (by decide),
    codeHtml_nolang_of b "<pre><code>".toList (by decide), List.append_nil] at h
  exact h

-- the hypotheses on a concrete input: a ``` block whose body holds emphasis, a link, a header, a list item, a
-- quote, a reference definition, a backslash escape, a code span, entities with and without `;`, a blank line, an
-- indented line, trailing spaces, a longer fence, a tilde fence, an indented fence, a fence with text, a quote mark
example : 0 < 4 ∧ ('`' = '~' ∨ '`' = '`') ∧ 3 ≤ 3 ∧
    bodyOk 3 '`' "*a* [l](u) \\*\n# h\n- i\n> q\n[r]: /u\n`c` &amp; &#38 x\n\n    ind  \n````\n~~~\n ```\n``` x\n\"".toList = true := by
  decide
-- … and what the theorem says there (computed by the kernel on the model, not by the theorem)
example : convertX { fencedCode := true } {}
      "```\n*a* [l](u) \\*\n# h\n- i\n> q\n[r]: /u\n`c` &amp; &#38 x\n\n    ind  \n````\n~~~\n ```\n``` x\n\"\n```".toList =
    .ok "<pre><code>*a* [l](u) \\*\n# h\n- i\n&gt; q\n[r]: /u\n`c` &amp;amp; &amp;#38 x\n\n    ind  \n````\n~~~\n ```\n``` x\n&quot;\n</code></pre>".toList := by
  decide +kernel
-- a body line that closes the fence is not in the domain (the block would end there)
example : bodyOk 3 '`' "a\n```  \nb".toList = false := by decide

/-- **… with a language.**  The same block opened with `fence + lang`: the language becomes the class
    `language-lang` of the `code` element and the body is exactly as before -/
theorem C03_fenced_lang (tab : Nat) (htab : 0 < tab) (fmt : Ser.Fmt) (n : Nat) (ch : Char) (lang b : Str)
    (hch : ch = '~' ∨ ch = '`') (hn : 3 ≤ n) (hl : isLang lang = true) (hne : lang ≠ [])
    (hb : bodyOk n ch b = true) :
    convertX { fencedCode := true } { tab := tab, fmt := fmt }
        (List.replicate n ch ++ lang ++ "\n".toList ++ b ++ "\n".toList ++ List.replicate n ch) =
      .ok ("<pre><code class=\"language-".toList ++ lang ++ "\">".toList ++ Code.fenceEscape b ++
        "\n</code></pre>".toList) := by
  have h := convert_fencedDoc tab htab fmt n ch lang b [] [] ⟨hch, hn, hl, hb, by simp, by simp⟩
  rw [docSource_single, docHtml_single, fenceBlock_of n ch lang b "\n".toList (by decide),
    codeHtml_lang_of lang b "<pre><code class=\"language-".toList "\">".toList hne (by decide) (by decide)] at h
  exact h

-- the hypotheses on a concrete input, and what the theorem says there (computed by the kernel on the model)
example : ('~' = '~' ∨ '~' = '`') ∧ 3 ≤ 4 ∧ isLang "c++".toList = true ∧ "c++".toList ≠ [] ∧
    bodyOk 4 '~' "a < b;\n~~~\n**x**".toList = false ∧ bodyOk 4 '~' "a & b;\n~~~\n**x**".toList = true := by decide
example : convertX { fencedCode := true } {} "~~~~c++\na & b;\n~~~\n**x**\n~~~~".toList =
    .ok "<pre><code class=\"language-c++\">a &amp; b;\n~~~\n**x**\n</code></pre>".toList := by decide +kernel

/-! ### Part 2: whatever surrounds the code -/

/-- **… whatever surrounds it.**  The document is any number of one-line paragraphs (`pre`), the fenced block, any
    number of one-line paragraphs (`post`), separated by blank lines.  The output is the paragraphs as `<p>…</p>`
    and, at its place between them, exactly the HTML of `C03_fenced_top` / `C03_fenced_lang` — the paragraphs change
    nothing in the code and the code changes nothing in the paragraphs -/
theorem C03_fenced_among_paragraphs (tab : Nat) (htab : 0 < tab) (fmt : Ser.Fmt) (n : Nat) (ch : Char) (lang b : Str)
    (pre post : List Str) (hch : ch = '~' ∨ ch = '`') (hn : 3 ≤ n) (hl : isLang lang = true)
    (hb : bodyOk n ch b = true) (hpre : pre.all isParaLine = true) (hpost : post.all isParaLine = true) :
    convertX { fencedCode := true } { tab := tab, fmt := fmt } (docSource pre (fenceBlock n ch lang b) post) =
      .ok (docHtml pre (codeHtml lang b) post) :=
  convert_fencedDoc tab htab fmt n ch lang b pre post
    ⟨hch, hn, hl, hb, fun p hp => List.all_eq_true.1 hpre p hp, fun p hp => List.all_eq_true.1 hpost p hp⟩

-- the hypotheses on a concrete input, the source and the expected output spelt out, and what the model computes
example : isLang [] = true ∧ ["Some text".toList, "More".toList].all isParaLine = true ∧
    ["The end".toList].all isParaLine = true ∧ bodyOk 3 '`' "*x*\n\n[a](b)".toList = true := by decide
example : docSource ["Some text".toList, "More".toList] (fenceBlock 3 '`' [] "*x*\n\n[a](b)".toList) ["The end".toList] =
      "Some text\n\nMore\n\n```\n*x*\n\n[a](b)\n```\n\nThe end".toList ∧
    docHtml ["Some text".toList, "More".toList] (codeHtml [] "*x*\n\n[a](b)".toList) ["The end".toList] =
      "<p>Some text</p>\n<p>More</p>\n<pre><code>*x*\n\n[a](b)\n</code></pre>\n<p>The end</p>".toList := by decide
example : convertX { fencedCode := true } {} "Some text\n\nMore\n\n```\n*x*\n\n[a](b)\n```\n\nThe end".toList =
    .ok "<p>Some text</p>\n<p>More</p>\n<pre><code>*x*\n\n[a](b)\n</code></pre>\n<p>The end</p>".toList := by
  decide +kernel

/-- after a paragraph: `p`, a blank line, the block -/
theorem C03_fenced_after_paragraph (tab : Nat) (htab : 0 < tab) (fmt : Ser.Fmt) (n : Nat) (ch : Char) (lang b p : Str)
    (hch : ch = '~' ∨ ch = '`') (hn : 3 ≤ n) (hl : isLang lang = true) (hb : bodyOk n ch b = true)
    (hp : isParaLine p = true) :
    convertX { fencedCode := true } { tab := tab, fmt := fmt } (p ++ "\n\n".toList ++ fenceBlock n ch lang b) =
      .ok ("<p>".toList ++ p ++ "</p>\n".toList ++ codeHtml lang b) := by
  have h := C03_fenced_among_paragraphs tab htab fmt n ch lang b [p] [] hch hn hl hb (by simp [hp]) rfl
  rw [docSource_after_of p _ "\n\n".toList (by decide),
    docHtml_after_of p _ "<p>".toList "</p>\n".toList rfl (by decide)] at h
  exact h

/-- before a paragraph: the block, a blank line, `q` -/
theorem C03_fenced_before_paragraph (tab : Nat) (htab : 0 < tab) (fmt : Ser.Fmt) (n : Nat) (ch : Char)
    (lang b q : Str) (hch : ch = '~' ∨ ch = '`') (hn : 3 ≤ n) (hl : isLang lang = true) (hb : bodyOk n ch b = true)
    (hq : isParaLine q = true) :
    convertX { fencedCode := true } { tab := tab, fmt := fmt } (fenceBlock n ch lang b ++ "\n\n".toList ++ q) =
      .ok (codeHtml lang b ++ "\n<p>".toList ++ q ++ "</p>".toList) := by
  have h := C03_fenced_among_paragraphs tab htab fmt n ch lang b [] [q] hch hn hl hb rfl (by simp [hq])
  rw [docSource_before_of q _ "\n\n".toList (by decide),
    docHtml_before_of q _ "\n<p>".toList "</p>".toList (by decide) rfl] at h
  exact h

/-- between two paragraphs -/
theorem C03_fenced_between_paragraphs (tab : Nat) (htab : 0 < tab) (fmt : Ser.Fmt) (n : Nat) (ch : Char)
    (lang b p q : Str) (hch : ch = '~' ∨ ch = '`') (hn : 3 ≤ n) (hl : isLang lang = true)
    (hb : bodyOk n ch b = true) (hp : isParaLine p = true) (hq : isParaLine q = true) :
    convertX { fencedCode := true } { tab := tab, fmt := fmt }
        (p ++ "\n\n".toList ++ fenceBlock n ch lang b ++ "\n\n".toList ++ q) =
      .ok ("<p>".toList ++ p ++ "</p>\n".toList ++ codeHtml lang b ++ "\n<p>".toList ++ q ++ "</p>".toList) := by
  have h := C03_fenced_among_paragraphs tab htab fmt n ch lang b [p] [q] hch hn hl hb (by simp [hp]) (by simp [hq])
  rw [docSource_between_of p q _ "\n\n".toList (by decide),
    docHtml_between_of p q _ "<p>".toList "</p>\n".toList "\n<p>".toList "</p>".toList rfl (by decide) (by decide) rfl] at h
  exact h

-- the hypotheses on a concrete input
example : isParaLine "Some text".toList = true ∧ isParaLine "x".toList = true ∧ isParaLine " x".toList = false ∧
    isParaLine "a*b".toList = false := by decide

/-! ### Part 2a: any number of fenced blocks -/

/-- **any document of paragraphs and fenced blocks.**  The document is a non-empty list of items separated by blank
    lines, each a one-line paragraph or a fenced block (any fence of at least three backticks or tildes, any language
    name or none, any body of the domain `bodyOk` — the fences, languages and bodies of different blocks are
    independent).  The output is, line by line, `<p>…</p>` for each paragraph and the HTML of `C03_fenced_top` /
    `C03_fenced_lang` for each block: the body of every block comes out character for character (escaped), whatever
    the other blocks contain — another block's fence, the placeholder text of another block, Markdown of any kind. -/
theorem C03_fenced_document (tab : Nat) (htab : 0 < tab) (fmt : Ser.Fmt) (items : List Item) (hne : items ≠ [])
    (h : items.all Item.ok = true) :
    convertX { fencedCode := true } { tab := tab, fmt := fmt } (itemsSource items) = .ok (itemsHtml items) :=
  convert_items tab htab fmt items hne (fun it hit => List.all_eq_true.1 h it hit)

-- the hypotheses on a concrete input: two adjacent blocks with different fences, a paragraph, a third block whose
-- body is the first block's source; the source and the expected output spelt out; what the model computes
example : [Item.fence 3 '`' [] "*a*\n~~~".toList, .fence 4 '~' "py".toList "```\n&".toList, .para "Text".toList,
      .fence 3 '`' [] "~~~~py\nx\n~~~~".toList] ≠ [] ∧
    [Item.fence 3 '`' [] "*a*\n~~~".toList, .fence 4 '~' "py".toList "```\n&".toList, .para "Text".toList,
      .fence 3 '`' [] "~~~~py\nx\n~~~~".toList].all Item.ok = true := by decide
example : itemsSource [Item.fence 3 '`' [] "*a*\n~~~".toList, .fence 4 '~' "py".toList "```\n&".toList,
      .para "Text".toList, .fence 3 '`' [] "~~~~py\nx\n~~~~".toList] =
      "```\n*a*\n~~~\n```\n\n~~~~py\n```\n&\n~~~~\n\nText\n\n```\n~~~~py\nx\n~~~~\n```".toList ∧
    itemsHtml [Item.fence 3 '`' [] "*a*\n~~~".toList, .fence 4 '~' "py".toList "```\n&".toList,
      .para "Text".toList, .fence 3 '`' [] "~~~~py\nx\n~~~~".toList] =
      "<pre><code>*a*\n~~~\n</code></pre>\n<pre><code class=\"language-py\">```\n&amp;\n</code></pre>\n<p>Text</p>\n<pre><code>~~~~py\nx\n~~~~\n</code></pre>".toList := by
  decide +kernel
example : convertX { fencedCode := true } {}
      "```\n*a*\n~~~\n```\n\n~~~~py\n```\n&\n~~~~\n\nText\n\n```\n~~~~py\nx\n~~~~\n```".toList =
    .ok "<pre><code>*a*\n~~~\n</code></pre>\n<pre><code class=\"language-py\">```\n&amp;\n</code></pre>\n<p>Text</p>\n<pre><code>~~~~py\nx\n~~~~\n</code></pre>".toList := by
  decide +kernel

/-! ### Part 2c: other extensions enabled at the same time -/

/-- **other extensions do not see the code.**  Enable, together with `fenced_code`, any subset of the other modelled
    extensions — tables, admonition, def_list, abbr, footnotes, sane_lists, nl2br, wikilinks, attr_list, toc (`x : Exts`
    with `x.fencedCode = true`, 1024 configurations).  For every document of paragraphs and fenced blocks as in
    `C03_fenced_document` the output is the same: each body comes out literal even when it is full of the syntax of the
    enabled extensions (table rows, `[^1]` and `[^1]: …`, `*[A]: b`, `!!! note`, definition lists, `[[wiki]]`,
    `{: #id}`, `[TOC]`, line breaks for nl2br) — the block was stashed before any of their processors ran, and none of
    them looks into the stash.  Hypothesis `hadm`: with admonition enabled the text has no `!!!` followed (after an
    optional blank) by a non-ASCII character, for which the model answers "outside the modelled domain"
    (`PipelineX.admNonAscii`: `str.capitalize` of a non-ASCII class name). -/
theorem C03_fenced_other_extensions (x : Exts) (hx : x.fencedCode = true) (tab : Nat) (htab : 0 < tab) (fmt : Ser.Fmt)
    (items : List Item) (hne : items ≠ []) (h : items.all Item.ok = true)
    (hadm : (x.admonition && admNonAscii (itemsSource items ++ ['\n', '\n'])) = false) :
    convertX x { tab := tab, fmt := fmt } (itemsSource items) = .ok (itemsHtml items) := by
  have e : itemsSource items ++ ['\n', '\n'] = paras (items.map Item.src) := join_nl2 _ (by simpa using hne)
  rw [e] at hadm
  exact convert_items_flags x hx tab htab fmt items hne (fun it hit => List.all_eq_true.1 h it hit) hadm

/-- the same as a non-interference statement: enabling further extensions changes nothing -/
theorem C03_fenced_extensions_inert (x : Exts) (hx : x.fencedCode = true) (tab : Nat) (htab : 0 < tab) (fmt : Ser.Fmt)
    (items : List Item) (hne : items ≠ []) (h : items.all Item.ok = true)
    (hadm : (x.admonition && admNonAscii (itemsSource items ++ ['\n', '\n'])) = false) :
    convertX x { tab := tab, fmt := fmt } (itemsSource items) =
      convertX { fencedCode := true } { tab := tab, fmt := fmt } (itemsSource items) := by
  rw [C03_fenced_other_extensions x hx tab htab fmt items hne h hadm, C03_fenced_document tab htab fmt items hne h]

/-- every modelled extension enabled -/
def allExts : Exts :=
  { fencedCode := true, tables := true, admonition := true, defList := true, abbr := true, footnotes := true,
    saneLists := true, nl2br := true, wikilinks := true, attrList := true, toc := true }

-- the hypotheses on a concrete input: every extension on; a body full of the extensions' syntax
example : allExts.fencedCode = true ∧
    [Item.para "Text".toList, .fence 3 '`' [] "| a | b |\n|---|---|\n[^1]: n\n*[A]: b\n!!! note\nT\n:   d\n[[w]] {: #i}\n[TOC]".toList].all Item.ok = true ∧
    admNonAscii (itemsSource [Item.para "Text".toList,
      .fence 3 '`' [] "| a | b |\n|---|---|\n[^1]: n\n*[A]: b\n!!! note\nT\n:   d\n[[w]] {: #i}\n[TOC]".toList] ++ ['\n', '\n']) = false := by
  decide +kernel
-- … and what the model computes there with every extension on
example : convertX allExts {}
      "Text\n\n```\n| a | b |\n|---|---|\n[^1]: n\n*[A]: b\n!!! note\nT\n:   d\n[[w]] {: #i}\n[TOC]\n```".toList =
    .ok "<p>Text</p>\n<pre><code>| a | b |\n|---|---|\n[^1]: n\n*[A]: b\n!!! note\nT\n:   d\n[[w]] {: #i}\n[TOC]\n</code></pre>".toList := by
  decide +kernel
-- the excluded point: the model does not answer there
example : convertX { fencedCode := true, admonition := true } {} "```\n!!! é\n```".toList = .ood := by decide +kernel

/-! ### Part 2b: any body — the normaliser's part spelt out -/

/-- **any body without `<`.**  `NormalizeWhitespace` runs before every other preprocessor and treats the lines of a
    fenced body like any other lines: STX/ETX removed, CRLF/CR → LF, tabs expanded from the line start, lines of
    spaces emptied (`normBody tab b`; C09 is about that).  For EVERY body `b` without `<` — tabs, carriage returns,
    control characters, lines of spaces included — whose normal form has no closing-fence line, the output is the
    paragraphs and the HTML of the block with code `normBody tab b`: after the normaliser nothing touches the body. -/
theorem C03_fenced_any_body (tab : Nat) (htab : 0 < tab) (fmt : Ser.Fmt) (n : Nat) (ch : Char) (lang b : Str)
    (pre post : List Str) (hch : ch = '~' ∨ ch = '`') (hn : 3 ≤ n) (hl : isLang lang = true) (hlt : '<' ∉ b)
    (hclose : noCloseLine (List.replicate n ch) (normBody tab b) = true)
    (hpre : pre.all isParaLine = true) (hpost : post.all isParaLine = true) :
    convertX { fencedCode := true } { tab := tab, fmt := fmt } (docSource pre (fenceBlock n ch lang b) post) =
      .ok (docHtml pre (codeHtml lang (normBody tab b)) post) :=
  convert_fencedDoc_any tab htab fmt n ch lang b pre post hch hn hl hlt hclose
    (fun p hp => List.all_eq_true.1 hpre p hp) (fun p hp => List.all_eq_true.1 hpost p hp)

/-- on the domain `bodyOk` of Parts 1 and 2 the normaliser leaves the body alone -/
theorem C03_fenced_normBody_id (tab n : Nat) (ch : Char) (b : Str) (h : bodyOk n ch b = true) : normBody tab b = b :=
  normBody_of_bodyOk tab n ch b h

-- the hypotheses on a concrete input: a body with a tab, a CR, a CRLF, a line of spaces, an STX; its normal form;
-- and what the model computes
example : '<' ∉ "a\tb\rc\r\n  \n".toList ++ [Char.ofNat 2, 'd'] ∧
    normBody 4 ("a\tb\rc\r\n  \n".toList ++ [Char.ofNat 2, 'd']) = "a   b\nc\n\nd".toList ∧
    noCloseLine (List.replicate 3 '`') (normBody 4 ("a\tb\rc\r\n  \n".toList ++ [Char.ofNat 2, 'd'])) = true := by
  decide
example : convertX { fencedCode := true } {} ("```\na\tb\rc\r\n  \n".toList ++ [Char.ofNat 2, 'd'] ++ "\n```".toList) =
    .ok "<pre><code>a   b\nc\n\nd\n</code></pre>".toList := by decide +kernel
-- the closing-fence condition is on the normal form: a fence followed by a tab closes the block
example : noCloseLine (List.replicate 3 '`') "```\t".toList = true ∧
    noCloseLine (List.replicate 3 '`') (normBody 4 "```\t".toList) = false := by decide

/-! ### Part 3: the output read back -/

/-- **the code element of the output holds exactly the body.**  Read the HTML of the block (`codeHtml lang b`, for
    ANY body and any language name) with the strict reader of the serializer's output (`Ser.readForest`,
    `Spec/Reader.lean`): it is a `pre` element holding one `code` element — with the class `language-lang` when a
    language was given — holding one text, and that text is the body followed by a line feed, one token per
    character: every character itself (`&`, `<`, `>` written as `&amp;` `&lt;` `&gt;` and read back), `"` as the
    reference `&quot;` (`bodyTok`).  No element, no other reference, nothing missing: nothing in the body was
    interpreted. -/
theorem C03_fenced_html_reads_back (fmt : Ser.Fmt) (lang b : Str) (hl : isLang lang = true) :
    Ser.readForest fmt (codeHtml lang b) =
      some [.elem "pre".toList [] [.elem "code".toList (langToks lang) [.text ((b ++ "\n".toList).map bodyTok)]]] := by
  have hall : lang.all isLangChar = true := by
    simp only [isLang, Bool.and_eq_true] at hl; exact hl.1
  exact readForest_codeHtml fmt lang b hall

/-- **… end to end**: the output of `Markdown.convert` for a fenced block, read back, is the body -/
theorem C03_fenced_body_reads_back (tab : Nat) (htab : 0 < tab) (fmt : Ser.Fmt) (n : Nat) (ch : Char) (lang b : Str)
    (hch : ch = '~' ∨ ch = '`') (hn : 3 ≤ n) (hl : isLang lang = true) (hb : bodyOk n ch b = true) :
    ∃ out, convertX { fencedCode := true } { tab := tab, fmt := fmt } (fenceBlock n ch lang b) = .ok out ∧
      Ser.readForest fmt out =
        some [.elem "pre".toList [] [.elem "code".toList (langToks lang) [.text ((b ++ "\n".toList).map bodyTok)]]] := by
  have h := C03_fenced_among_paragraphs tab htab fmt n ch lang b [] [] hch hn hl hb rfl rfl
  rw [docSource_single, docHtml_single] at h
  exact ⟨_, h, C03_fenced_html_reads_back fmt lang b hl⟩

/-- a body without `"` is read back as its characters, nothing else -/
theorem C03_fenced_body_reads_back_plain (b : Str) (h : '"' ∉ b) :
    (b ++ "\n".toList).map bodyTok = (b ++ "\n".toList).map Ser.Tok.ch := by
  apply List.map_congr_left
  intro c hc
  have : c ≠ '"' := by
    rcases List.mem_append.1 hc with hc | hc
    · exact fun e => h (e ▸ hc)
    · have : c = '\n' := by simpa using hc
      subst this; decide
  simp [bodyTok, this]

-- the hypotheses on a concrete input
example : isLang "py".toList = true ∧ '"' ∉ "*a* <b> &amp;".toList := by decide
-- the reader accepts that output, and rejects it as soon as something in it could be mistaken for markup
example : (Ser.readForest .xhtml "<pre><code class=\"language-py\">*a* &lt;b&gt; &amp;amp; &quot;\n</code></pre>".toList).isSome = true ∧
    (Ser.readForest .xhtml "<pre><code>a <b> c\n</code></pre>".toList).isNone = true ∧
    (Ser.readForest .xhtml "<pre><code>a & c\n</code></pre>".toList).isNone = true := by decide +kernel

/-! ### the excluded points, on the model (kernel-checked) -/

/-- a numeric character reference without `;` in a fenced block is NOT re-spelled (compare F-C03-1 for indented
    blocks and spans, `C03_F1_block_counterexample`): the body is in the domain and comes out as typed -/
theorem C03_fenced_keeps_open_reference :
    bodyOk 3 '`' "&#12 x".toList = true ∧
    convertX { fencedCode := true } {} "```\n&#12 x\n```".toList = .ok "<pre><code>&amp;#12 x\n</code></pre>".toList := by
  decide +kernel

/-- what `NormalizeWhitespace` does before the block is recognised: a line of spaces only is emptied, a tab is
    expanded, CR becomes LF, STX/ETX disappear — these bodies are outside `bodyOk` -/
theorem C03_fenced_excluded_points :
    bodyOk 3 '`' "a\n  \nb".toList = false ∧
    convertX { fencedCode := true } {} "```\na\n  \nb\n```".toList = .ok "<pre><code>a\n\nb\n</code></pre>".toList ∧
    bodyOk 3 '`' "a\tb".toList = false ∧
    convertX { fencedCode := true } {} "```\na\tb\n```".toList = .ok "<pre><code>a   b\n</code></pre>".toList ∧
    bodyOk 3 '`' "a\rb".toList = false ∧
    convertX { fencedCode := true } {} "```\na\rb\n```".toList = .ok "<pre><code>a\nb\n</code></pre>".toList ∧
    bodyOk 3 '`' [Char.ofNat 2, 'a'] = false ∧
    convertX { fencedCode := true } {} ("```\n".toList ++ [Char.ofNat 2, 'a'] ++ "\n```".toList) =
      .ok "<pre><code>a\n</code></pre>".toList := by
  decide +kernel

end MdVerif.FencedPipe
