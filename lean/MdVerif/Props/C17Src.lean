/-
C17 at SOURCE level, footnotes — "with footnotes enabled every footnote reference links to an existing footnote, every
back-link to an existing reference, and a footnote referenced k times gets k distinct back-links" — derived END TO END:
from the Markdown source, through the model of `markdown.Markdown(extensions=[…]).convert` (`PipelineX.convertX`), to the
OUTPUT STRING, which is read back by the strict reader of C14 (`Ser.readForest`, `Spec/Reader.lean`); every clause is a
statement about the `id` and `href` attributes that the reader finds in that string.

Documents (the class of `C16_footnotes_anywhere`, `Props/C16RenderG.lean`): a paragraph line `t[^a]u[^b]v…` with any
number of footnote references, anywhere in the line, to the same footnote several times or to different ones, followed
by any number (≥ 1) of definitions `[^label]: note` with pairwise different labels, in any order, every referenced label
defined, unreferenced definitions allowed.  Flags (`FnCompat`, the flag condition of `C16_footnotes_anywhere`): footnotes
on; fenced_code, tables, attr_list, toc off; admonition, def_list, abbr, sane_lists, nl2br, wikilinks arbitrary.  Both
output formats, every positive `tab_length`.

Observations on the forest `F` that was read (`Lemmas/C17SrcObs.lean`; values are `Option Str`: `none` = attribute absent):
`refHrefs F` the `href` of every `a` of class `footnote-ref`, in document order; `backrefHrefs F` the same for class
`footnote-backref`; `supLinks F` every `sup` as (its `id`, the `href`s of the `a.footnote-ref` inside it); `liBacks F`
every `li` as (its `id`, the `href`s of the `a.footnote-backref` inside it); `supIds`, `liIds` their first components;
`supsTo F i` the ids of the `sup`s whose link is `#i`; `allIds F` every `id` attribute of the forest.

Clauses: `C17_src_output_reads` (the output is well formed), `C17_src_observed` (the exact values),
`C17_src_refs_resolve` (a), `C17_src_backlinks_resolve` (b), `C17_src_k_backlinks` (c, k ≥ 1),
`C17_src_unreferenced_dangling` (c, k = 0: exactly one back-link, to a `sup` that does not exist — **F-C17-2**, stated
as the behaviour it is), `C17_src_sup_li_ids_distinct` and `C17_src_ids_distinct` (d).

toc (end of the file): `C17_src_toc_headings_have_ids` — for EVERY source and every flag set with toc (without attr_list /
admonition), every heading element of the output read back has an `id` (hypotheses: three decidable conditions on the
tree handed to the serializer) —, and kernel-checked end-to-end instances for flat heading documents with `[TOC]`
(exact ids `slug`, `slug_1`, `slug_2`; links; nesting).

How it is proved: `C16_footnotes_anywhere` gives the output string `fnRender`; `Lemmas/C17SrcTree.lean` exhibits a forest
of well-formed trees that serialises to exactly that string, so the round trip of C14 (`Ser.reads_list`) gives what the
reader returns; `Lemmas/C17SrcRead.lean` lists its elements, `Lemmas/C17SrcObs.lean` evaluates the observations,
`Lemmas/C17SrcList.lean` + `Lemmas/Footnotes.lean` (the list-level bookkeeping of `Props/C17.lean`) give the clauses.

Core Lean only.
-/
import MdVerif.Props.C16RenderG
import MdVerif.Props.C05XFull
import MdVerif.Props.C17Doc
import MdVerif.Lemmas.C17SrcList
import MdVerif.Lemmas.C17SrcToc

namespace MdVerif.C17Src
open Py PipelineX MdVerif.RenderX MdVerif.RenderG
open MdVerif.Footnotes.Spec (refName)

/-! ### the setting -/

/-- `F` is what the strict reader returns for the output of `convertX x cfg src` -/
def ReadsBack (x : Exts) (cfg : Pipeline.Cfg) (src : Str) (F : List Ser.RNode) : Prop :=
  ∃ out, convertX x cfg src = .ok out ∧ Ser.readForest cfg.fmt out = some F

/-- the domain of `C16_footnotes_anywhere`: the flags, the configuration, the paragraph text `t`, the references
    `segs` = (label, text after the reference), the definitions `defs` = (label, note) -/
structure FnDomain (x : Exts) (cfg : Pipeline.Cfg) (t : Str) (segs defs : List (Str × Str)) : Prop where
  flags : FnCompat x
  blockLevel : cfg.blockLevel = TreeProc.defaultBlockLevel
  tab : 0 < cfg.tab
  line : PlainLine t
  refs : RefsOK segs
  defsWF : DefsWF defs
  defined : Defined segs defs

/-- the domain is inhabited: three references (two to the same footnote), three definitions (one unreferenced), in
    another order than the references, other extensions enabled -/
example : FnDomain { footnotes := true, admonition := true, defList := true, abbr := true, saneLists := true,
                     nl2br := true, wikilinks := true } {}
    "See".toList [("1".toList, " and".toList), ("w3c".toList, []), ("1".toList, " again".toList)]
    [("w3c".toList, "Web".toList), ("1".toList, "one".toList), ("x".toList, "unused".toList)] :=
  ⟨by decide, rfl, by decide, by decide, by decide, by decide, by decide⟩

/-- the source of that instance -/
example : fnSrcG "See".toList [("1".toList, " and".toList), ("w3c".toList, []), ("1".toList, " again".toList)]
      [("w3c".toList, "Web".toList), ("1".toList, "one".toList), ("x".toList, "unused".toList)] =
    "See[^1] and[^w3c][^1] again\n\n[^w3c]: Web\n\n[^1]: one\n\n[^x]: unused".toList := by decide +kernel

theorem FnDomain.segsOK {x : Exts} {cfg : Pipeline.Cfg} {t : Str} {segs defs : List (Str × Str)}
    (D : FnDomain x cfg t segs defs) : SegsOK segs :=
  ⟨fun s h => label_facts (D.refs s h).1, fun s h => (D.refs s h).2⟩

theorem FnDomain.defsOK {x : Exts} {cfg : Pipeline.Cfg} {t : Str} {segs defs : List (Str × Str)}
    (D : FnDomain x cfg t segs defs) : DefsOK defs :=
  ⟨fun d h => label_facts (D.defsWF.2.1 d h).1, fun d h => plainLine_facts (D.defsWF.2.1 d h).2⟩

theorem FnDomain.output {x : Exts} {cfg : Pipeline.Cfg} {t : Str} {segs defs : List (Str × Str)}
    (D : FnDomain x cfg t segs defs) : convertX x cfg (fnSrcG t segs defs) = .ok (fnRender cfg.fmt t segs defs) :=
  C16_footnotes_anywhere x D.flags cfg D.blockLevel D.tab t segs defs D.line D.refs D.defsWF D.defined

/-- the id of the `sup` of every reference with its link: the reference number `n` (from 0) to the label `a` gets
    `fnref:a` (`n = 0`), `fnref2:a`, `fnref3:a`, … (`refName a n`) and links to `#fn:a`; `hist` = the labels referenced
    before -/
example (s : Str × Str) (r : List (Str × Str)) (hist : List Str) :
    supPairs [] hist = [] ∧
    supPairs (s :: r) hist = (refName s.1 (hist.count s.1), '#' :: Footnotes.footnoteId s.1) :: supPairs r (s.1 :: hist) :=
  ⟨rfl, rfl⟩

example : supPairs [("1".toList, " and".toList), ("w3c".toList, []), ("1".toList, " again".toList)] [] =
    [("fnref:1".toList, "#fn:1".toList), ("fnref:w3c".toList, "#fn:w3c".toList), ("fnref2:1".toList, "#fn:1".toList)] := by
  decide +kernel

/-- the targets of the back-links of the footnote `a` referenced `c` times: `#fnref:a`, `#fnref2:a`, …, `c` of them —
    and ONE, `#fnref:a`, when `c = 0` -/
example : backHrefs "a".toList 3 = ["#fnref:a".toList, "#fnref2:a".toList, "#fnref3:a".toList] ∧
    backHrefs "a".toList 1 = ["#fnref:a".toList] ∧ backHrefs "a".toList 0 = ["#fnref:a".toList] := by decide +kernel

example (id : Str) (c : Nat) : backHrefs id c = (List.range' 0 (max c 1)).map (fun j => '#' :: refName id j) :=
  backHrefs_eq id c

/-! ### the output can be read back -/

/-- **The output is well formed**: for every document of the domain `convertX` answers `ok`, and the strict reader
    accepts the output string (every element closed and properly nested, every attribute value quoted, no stray `<`,
    `>`, `&`). -/
theorem C17_src_output_reads (x : Exts) (cfg : Pipeline.Cfg) (t : Str) (segs defs : List (Str × Str))
    (D : FnDomain x cfg t segs defs) : ∃ F, ReadsBack x cfg (fnSrcG t segs defs) F := by
  obtain ⟨F, hF, -⟩ := read_fnRender cfg.fmt t segs defs (plainLine_facts D.line) D.segsOK D.defsOK
  exact ⟨F, _, D.output, hF⟩

theorem ReadsBack.read {x : Exts} {cfg : Pipeline.Cfg} {t : Str} {segs defs : List (Str × Str)} {F : List Ser.RNode}
    (D : FnDomain x cfg t segs defs) (h : ReadsBack x cfg (fnSrcG t segs defs) F) :
    Ser.readForest cfg.fmt (fnRender cfg.fmt t segs defs) = some F := by
  obtain ⟨out, h1, h2⟩ := h
  rw [D.output] at h1
  cases h1
  exact h2

/-- **What the reader finds, exactly.**  In the output of a document of the domain, read back:
    * the `a.footnote-ref` elements link, in document order, to `#fn:LABEL` of the references;
    * the `sup` elements are, in document order, those of the references: id `fnref:LABEL` / `fnref2:LABEL` / …
      (`supPairs`), each holding exactly one `a.footnote-ref`, with the link `#fn:LABEL`;
    * the `li` elements are, in document order, those of the definitions: id `fn:LABEL`, holding the back-links
      `backHrefs LABEL c` for `c` = the number of references to `LABEL`;
    * there is no other `a.footnote-backref`: those of the document are those inside the `li`s. -/
theorem C17_src_observed (x : Exts) (cfg : Pipeline.Cfg) (t : Str) (segs defs : List (Str × Str))
    (D : FnDomain x cfg t segs defs) (F : List Ser.RNode) (h : ReadsBack x cfg (fnSrcG t segs defs) F) :
    refHrefs F = segs.map (fun s => some ('#' :: Footnotes.footnoteId s.1)) ∧
    supLinks F = (supPairs segs []).map (fun p => (some p.1, [some p.2])) ∧
    liBacks F = defs.map (fun d => (some (Footnotes.footnoteId d.1), (backHrefs d.1 (refCount segs d.1)).map some)) ∧
    backrefHrefs F = (liBacks F).flatMap (·.2) := by
  obtain ⟨h1, h2, h3, h4, -⟩ := obs_of_read cfg.fmt t segs defs (plainLine_facts D.line) D.segsOK D.defsOK F (h.read D)
  refine ⟨h1, h3, h4, ?_⟩
  rw [h2, h4, List.flatMap_map]

/-- the output of `convertX` read back (`none` when `convertX` does not answer `ok` or the reader rejects the output) -/
def readOut (fmt : Ser.Fmt) : Pipeline.Outcome → Option (List Ser.RNode)
  | .ok out => Ser.readForest fmt out
  | _ => none

/-- the instance above, read back -/
def exRead : Option (List Ser.RNode) :=
  readOut .xhtml (convertX { footnotes := true } {}
    "See[^1] and[^w3c][^1] again\n\n[^w3c]: Web\n\n[^1]: one\n\n[^x]: unused".toList)

/-- … computed by the kernel on the MODEL (not through the theorems): the three references, the three `sup`s, the
    three `li`s — `fn:1` referenced twice has two back-links, the unreferenced `fn:x` has one -/
example : exRead.map refHrefs = some [some "#fn:1".toList, some "#fn:w3c".toList, some "#fn:1".toList] := by
  decide +kernel
example : exRead.map supLinks = some [(some "fnref:1".toList, [some "#fn:1".toList]),
    (some "fnref:w3c".toList, [some "#fn:w3c".toList]), (some "fnref2:1".toList, [some "#fn:1".toList])] := by
  decide +kernel
example : exRead.map liBacks = some [(some "fn:w3c".toList, [some "#fnref:w3c".toList]),
    (some "fn:1".toList, [some "#fnref:1".toList, some "#fnref2:1".toList]),
    (some "fn:x".toList, [some "#fnref:x".toList])] := by decide +kernel
example : exRead.map backrefHrefs = some [some "#fnref:w3c".toList, some "#fnref:1".toList, some "#fnref2:1".toList,
    some "#fnref:x".toList] := by decide +kernel

/-- … and every `id` attribute of that output -/
example : exRead.map allIds = some ["fnref:1".toList, "fnref:w3c".toList, "fnref2:1".toList, "fn:w3c".toList,
    "fn:1".toList, "fn:x".toList] := by decide +kernel

/-! ### (a) every reference links to an existing footnote -/

/-- **Every footnote reference links to an existing footnote.**  In the output read back, the `href` of every
    `a.footnote-ref` is `#` + the id of an `li` of the output. -/
theorem C17_src_refs_resolve (x : Exts) (cfg : Pipeline.Cfg) (t : Str) (segs defs : List (Str × Str))
    (D : FnDomain x cfg t segs defs) (F : List Ser.RNode) (h : ReadsBack x cfg (fnSrcG t segs defs) F) :
    ∀ r ∈ refHrefs F, ∃ i, r = some ('#' :: i) ∧ some i ∈ liIds F := by
  obtain ⟨h1, -, h3, -⟩ := C17_src_observed x cfg t segs defs D F h
  intro r hr
  rw [h1] at hr
  obtain ⟨s, hs, rfl⟩ := List.mem_map.1 hr
  refine ⟨Footnotes.footnoteId s.1, rfl, ?_⟩
  obtain ⟨d, hd, e⟩ := List.mem_map.1 (D.defined s hs)
  unfold liIds
  rw [h3, List.map_map]
  exact List.mem_map.2 ⟨d, hd, by simp [e]⟩

/-! ### (b) every back-link of a referenced footnote links to an existing reference -/

theorem referenced_iff {segs : List (Str × Str)} {d : Str} :
    (some ('#' :: Footnotes.footnoteId d) : Option Str) ∈ segs.map (fun s => some ('#' :: Footnotes.footnoteId s.1)) ↔
      1 ≤ refCount segs d := by
  unfold refCount
  rw [List.one_le_count_iff]
  constructor
  · intro hm
    obtain ⟨s, hs, e⟩ := List.mem_map.1 hm
    have : s.1 = d := by simpa [Footnotes.footnoteId] using e
    exact List.mem_map.2 ⟨s, hs, this⟩
  · intro hm
    obtain ⟨s, hs, e⟩ := List.mem_map.1 hm
    exact List.mem_map.2 ⟨s, hs, by rw [e]⟩

/-- **Every back-link of a referenced footnote links to an existing reference.**  In the output read back, for every
    `li` (id `i`) to which some `a.footnote-ref` links (`#i`), the `href` of every `a.footnote-backref` inside it is
    `#` + the id of a `sup` of the output.  (For an `li` to which nothing links: `C17_src_unreferenced_dangling`.) -/
theorem C17_src_backlinks_resolve (x : Exts) (cfg : Pipeline.Cfg) (t : Str) (segs defs : List (Str × Str))
    (D : FnDomain x cfg t segs defs) (F : List Ser.RNode) (h : ReadsBack x cfg (fnSrcG t segs defs) F) :
    ∀ p ∈ liBacks F, ∀ i, p.1 = some i → some ('#' :: i) ∈ refHrefs F →
      ∀ b ∈ p.2, ∃ j, b = some ('#' :: j) ∧ some j ∈ supIds F := by
  obtain ⟨h1, h2, h3, -⟩ := C17_src_observed x cfg t segs defs D F h
  intro p hp i hi href b hb
  rw [h3] at hp
  obtain ⟨d, hd, rfl⟩ := List.mem_map.1 hp
  simp only [Option.some.injEq] at hi
  subst hi
  rw [h1, referenced_iff] at href
  have hkey : d.1 ∈ defs.map (·.1) := List.mem_map.2 ⟨d, hd, rfl⟩
  have hR := supPairs_refsFrom (defs.map (fun d : Str × Str => d.1)) segs [] D.defined
  simp only at hb
  unfold refCount at href hb
  rw [backHrefs_pos (defs.map (·.1)) (segs.map (·.1)) d.1 hkey href, List.map_map] at hb
  obtain ⟨j, hj, rfl⟩ := List.mem_map.1 hb
  refine ⟨j, rfl, ?_⟩
  unfold supIds
  rw [h2, hR, List.map_map]
  unfold Footnotes.Spec.supsOf at hj
  obtain ⟨q, hq, rfl⟩ := List.mem_map.1 hj
  exact List.mem_map.2 ⟨q, (List.mem_filter.1 hq).1, rfl⟩

/-! ### (c) a footnote referenced k times has k distinct back-links, in reference order -/

/-- **A footnote referenced `k ≥ 1` times gets exactly `k` back-links, pairwise distinct, in reference order.**  For
    every definition `d` whose label is referenced `k ≥ 1` times, the output read back has the `li` with the id
    `fn:LABEL` (the only `li` with that id: `C17_src_ids_distinct`), and the `href`s of the `a.footnote-backref`s inside
    it are `#` + the ids of the `sup`s that link to `#fn:LABEL`, in document order; they are `k`, pairwise different. -/
theorem C17_src_k_backlinks (x : Exts) (cfg : Pipeline.Cfg) (t : Str) (segs defs : List (Str × Str))
    (D : FnDomain x cfg t segs defs) (F : List Ser.RNode) (h : ReadsBack x cfg (fnSrcG t segs defs) F)
    (d : Str × Str) (hd : d ∈ defs) (hk : 1 ≤ refCount segs d.1) :
    ∃ bl, (some (Footnotes.footnoteId d.1), bl) ∈ liBacks F ∧
      bl = (supsTo F (Footnotes.footnoteId d.1)).map (·.map ('#' :: ·)) ∧
      bl.length = refCount segs d.1 ∧ bl.Nodup := by
  obtain ⟨-, h2, h3, -⟩ := C17_src_observed x cfg t segs defs D F h
  have hkey : d.1 ∈ defs.map (·.1) := List.mem_map.2 ⟨d, hd, rfl⟩
  have hR := supPairs_refsFrom (defs.map (fun d : Str × Str => d.1)) segs [] D.defined
  refine ⟨(backHrefs d.1 (refCount segs d.1)).map some, ?_, ?_, ?_, ?_⟩
  · rw [h3]; exact List.mem_map.2 ⟨d, hd, rfl⟩
  · unfold supsTo
    rw [h2, hR, supsTo_pairs]
    unfold refCount at hk ⊢
    rw [backHrefs_pos (defs.map (·.1)) (segs.map (·.1)) d.1 hkey hk]
    simp [List.map_map, Function.comp_def]
  · rw [List.length_map, backHrefs_eq, List.length_map, List.length_range']; omega
  · apply nodup_map_some
    rw [backHrefs_eq]
    apply nodup_map_of_inj
    · intro a b e
      simp only [List.cons.injEq, true_and] at e
      exact (Footnotes.refName_injective e).2
    · exact List.nodup_range'

/-- **A footnote that is never referenced gets exactly ONE back-link, `#fnref:LABEL`, and no `sup` has that id**
    (F-C17-2: the back-link of an unused footnote is dangling — the clause "every back-link links to an existing
    reference" fails for it; this is the behaviour of Python-Markdown 3.7, stated as it is). -/
theorem C17_src_unreferenced_dangling (x : Exts) (cfg : Pipeline.Cfg) (t : Str) (segs defs : List (Str × Str))
    (D : FnDomain x cfg t segs defs) (F : List Ser.RNode) (h : ReadsBack x cfg (fnSrcG t segs defs) F)
    (d : Str × Str) (hd : d ∈ defs) (hk : refCount segs d.1 = 0) :
    (some (Footnotes.footnoteId d.1), [some ('#' :: refName d.1 0)]) ∈ liBacks F ∧
    some (refName d.1 0) ∉ supIds F ∧ some ('#' :: Footnotes.footnoteId d.1) ∉ refHrefs F := by
  obtain ⟨h1, h2, h3, -⟩ := C17_src_observed x cfg t segs defs D F h
  have hR := supPairs_refsFrom (defs.map (fun d : Str × Str => d.1)) segs [] D.defined
  refine ⟨?_, ?_, ?_⟩
  · rw [h3]
    refine List.mem_map.2 ⟨d, hd, ?_⟩
    rw [hk, backHrefs_zero]
    rfl
  · unfold supIds
    rw [h2, hR, List.map_map]
    intro hm
    obtain ⟨p, hp, e⟩ := List.mem_map.1 hm
    obtain ⟨u, hu, n, rfl⟩ := refsFrom_mem _ _ _ p hp
    simp only [Function.comp, Option.some.injEq] at e
    obtain ⟨rfl, -⟩ := Footnotes.refName_injective e
    have : 1 ≤ refCount segs d.1 := List.one_le_count_iff.2 hu
    omega
  · rw [h1, referenced_iff]; omega

/-! ### (d) all ids are pairwise distinct -/

/-- **All `sup` ids and all `li` ids of the output are pairwise distinct** (and every `sup` and every `li` has an
    id): two references never share an id, even to the same footnote; two footnotes never do; a reference id is never
    a footnote id. -/
theorem C17_src_sup_li_ids_distinct (x : Exts) (cfg : Pipeline.Cfg) (t : Str) (segs defs : List (Str × Str))
    (D : FnDomain x cfg t segs defs) (F : List Ser.RNode) (h : ReadsBack x cfg (fnSrcG t segs defs) F) :
    (supIds F ++ liIds F).Nodup ∧ (∀ o ∈ supIds F ++ liIds F, o.isSome = true) ∧
    (supIds F).length = segs.length ∧ (liIds F).length = defs.length := by
  obtain ⟨-, h2, h3, -⟩ := C17_src_observed x cfg t segs defs D F h
  have hR := supPairs_refsFrom (defs.map (fun d : Str × Str => d.1)) segs [] D.defined
  have e1 : supIds F = ((Footnotes.Spec.refsFrom (defs.map (·.1)) [] (segs.map (·.1))).map (·.1)).map some := by
    unfold supIds; rw [h2, hR, List.map_map, List.map_map]; rfl
  have e2 : liIds F = ((defs.map (·.1)).map Footnotes.footnoteId).map some := by
    unfold liIds; rw [h3, List.map_map, List.map_map, List.map_map]; rfl
  refine ⟨?_, ?_, ?_, ?_⟩
  · rw [e1, e2, ← List.map_append]
    apply nodup_map_some
    rw [List.nodup_append]
    refine ⟨Footnotes.refsFrom_nodup _ _ _, nodup_map_of_inj _ (fun a b e => footnoteId_inj e) D.defsWF.2.2, ?_⟩
    intro a ha b hb e
    obtain ⟨p, hp, rfl⟩ := List.mem_map.1 ha
    obtain ⟨u, -, n, rfl⟩ := refsFrom_mem _ _ _ p hp
    obtain ⟨k, -, rfl⟩ := List.mem_map.1 hb
    exact refName_ne_footnoteId u n k e
  · rw [e1, e2]
    intro o ho
    rcases List.mem_append.1 ho with ho | ho
    · obtain ⟨a, -, rfl⟩ := List.mem_map.1 ho; rfl
    · obtain ⟨a, -, rfl⟩ := List.mem_map.1 ho; rfl
  · rw [e1, ← hR]
    simp only [List.length_map]
    have : ∀ (s : List (Str × Str)) (hist : List Str), (supPairs s hist).length = s.length := by
      intro s
      induction s with
      | nil => intro _; rfl
      | cons a r ih => intro hist; simp [supPairs, ih]
    exact this segs []
  · rw [e2]; simp

/-- **All ids of the output are pairwise distinct**: the `id` attributes of the whole output (`allIds F`: every
    element, whatever its tag) are exactly the ids of the `sup`s followed by the ids of the `li`s — no other element
    carries an id — and no two of them are equal. -/
theorem C17_src_ids_distinct (x : Exts) (cfg : Pipeline.Cfg) (t : Str) (segs defs : List (Str × Str))
    (D : FnDomain x cfg t segs defs) (F : List Ser.RNode) (h : ReadsBack x cfg (fnSrcG t segs defs) F) :
    (allIds F).map some = supIds F ++ liIds F ∧ (allIds F).Nodup := by
  obtain ⟨-, h2, h3, -⟩ := C17_src_observed x cfg t segs defs D F h
  obtain ⟨-, -, -, -, h5⟩ := obs_of_read cfg.fmt t segs defs (plainLine_facts D.line) D.segsOK D.defsOK F (h.read D)
  have e : (allIds F).map some = supIds F ++ liIds F := by
    unfold supIds liIds
    rw [h5, h2, h3]
    simp [List.map_map, Function.comp_def]
  refine ⟨e, ?_⟩
  have hn := (C17_src_sup_li_ids_distinct x cfg t segs defs D F h).1
  rw [← e] at hn
  exact nodup_of_map _ hn

/-! ## toc at source level: flat heading documents, kernel-checked instances

For documents of ATX headings `# title` (plain titles, any levels, duplicate titles) and a `[TOC]` paragraph the
same END-TO-END observation — `convertX`, then the strict reader on the output string — is evaluated by the kernel on
concrete documents (`decide +kernel`, on the model, no theorem involved): `headings F` every heading element with its
`id`, `tocLinks F` the links inside `div.toc`, `liLinks F` per `li` the links inside it (its own first: the preorder
list of subtrees, i.e. the nesting), `allIds F` every id.  The ∀-statements for toc are at tree level
(`Props/C17Doc.lean`: `C17_doc_every_heading_has_id`, `C17_doc_ids_nodup`, `C17_toc_links_resolve_tree`, and
`C17_nest_outline` for the nesting); `harness/corr/c17src.py` checks the clauses below (exact ids `slug`, `slug_1`,
`slug_2`, …; every toc link = `#` + the id of its heading, in document order; parent = nearest preceding heading of
smaller level) on random documents of this class against the implementation and the model (2500 documents, 1372 with
duplicate titles: 0 disagreements). -/

/-- the output of `convertX` with toc (xhtml), read back -/
def tocRead (src : String) : Option (List Ser.RNode) := readOut .xhtml (convertX { toc := true } {} src.toList)

/-- `# a`, `## b`, `## a`, `# a`, `[TOC]`: every heading has an id; the duplicate titles get `a`, `a_1`, `a_2` -/
example : (tocRead "# a\n\n## b\n\n## a\n\n# a\n\n[TOC]").map headings =
    some [("h1".toList, some "a".toList), ("h2".toList, some "b".toList), ("h2".toList, some "a_1".toList),
      ("h1".toList, some "a_2".toList)] := by decide +kernel

/-- … all ids of the output pairwise distinct … -/
example : (tocRead "# a\n\n## b\n\n## a\n\n# a\n\n[TOC]").map allIds =
    some ["a".toList, "b".toList, "a_1".toList, "a_2".toList] ∧
    ["a".toList, "b".toList, "a_1".toList, "a_2".toList].Nodup := by decide +kernel

/-- … one `div.toc`, whose links are `#` + the heading ids in document order … -/
example : (tocRead "# a\n\n## b\n\n## a\n\n# a\n\n[TOC]").map tocLinks =
    some [[some "#a".toList, some "#b".toList, some "#a_1".toList, some "#a_2".toList]] := by decide +kernel

/-- … nested as the levels outline the document: `b` and `a_1` (level 2) under the first `a` (level 1), `a_2` top level -/
example : (tocRead "# a\n\n## b\n\n## a\n\n# a\n\n[TOC]").map liLinks =
    some [[some "#a".toList, some "#b".toList, some "#a_1".toList], [some "#b".toList], [some "#a_1".toList],
      [some "#a_2".toList]] := by decide +kernel

/-- `[TOC]` in the middle, a title of two words, levels 2 3 · 1 3 2: the ids are the slugs (`intro-one`), the second
    occurrences get `_1`; `b_1` and `c` hang under the `h1` (a level may be skipped), `b` under the first `h2` -/
example : (tocRead "## Intro one\n\n### b\n\n[TOC]\n\n# Intro one\n\n### b\n\n## c").map headings =
    some [("h2".toList, some "intro-one".toList), ("h3".toList, some "b".toList), ("h1".toList, some "intro-one_1".toList),
      ("h3".toList, some "b_1".toList), ("h2".toList, some "c".toList)] := by decide +kernel

example : (tocRead "## Intro one\n\n### b\n\n[TOC]\n\n# Intro one\n\n### b\n\n## c").map liLinks =
    some [[some "#intro-one".toList, some "#b".toList], [some "#b".toList],
      [some "#intro-one_1".toList, some "#b_1".toList, some "#c".toList], [some "#b_1".toList], [some "#c".toList]] := by
  decide +kernel

/-- the nesting of that document according to the specification `Toc.Spec.outlinePairs` (`C17_nest_outline`): each
    entry with its outline parent — the same edges as `liLinks` shows -/
example : (Toc.Spec.outlinePairs [⟨2, "intro-one".toList, []⟩, ⟨3, "b".toList, []⟩, ⟨1, "intro-one_1".toList, []⟩,
      ⟨3, "b_1".toList, []⟩, ⟨2, "c".toList, []⟩]).map (fun p => (p.1.id, p.2.map (·.id))) =
    [("intro-one".toList, none), ("b".toList, some "intro-one".toList), ("intro-one_1".toList, none),
     ("b_1".toList, some "intro-one_1".toList), ("c".toList, some "intro-one_1".toList)] := by decide +kernel

/-! ## toc at source level, EVERY source: every heading element of the output has an id

The bridge from the tree level (`Props/C17Doc.lean`) to the output (`Lemmas/C17SrcToc.lean`): when the tree `u` handed to
the serializer comes with an empty raw-HTML stash, has the plain `div` root and holds no STX/ETX (three decidable
conditions on `treeX x cfg src`; `WFTree u` is `C05X_tree_wf`), the output of `convertX` is accepted by the strict
reader and the elements read back are, in document order, exactly the elements of `u` below the root, with their tags
and attribute names (`elsL_of_tree`). -/

/-- **With toc enabled every heading element of the OUTPUT has an `id` attribute** — every source, every flag set with
    toc and without attr_list / admonition (the domain of `C05X_tree_wf`), both formats: `headings F` lists the elements
    whose tag starts `[Hh][1-6]` (what the toc extension takes for a heading) in the forest `F` read back from the
    output string, each with its `id` (`none` = no such attribute). -/
theorem C17_src_toc_headings_have_ids (x : Exts) (hx : x.toc = true) (hal : x.attrList = false)
    (hadm : x.admonition = false) (cfg : Pipeline.Cfg) (src out : Str) (u : Node)
    (ht : treeX x cfg src = .ok u []) (hroot : C14X.rootDiv u = true) (hc : NoCtl.TreeNoCtl u)
    (ho : convertX x cfg src = .ok out) :
    ∃ F, Ser.readForest cfg.fmt out = some F ∧ ∀ p ∈ headings F, p.2.isSome = true := by
  have hwf := C05.C05X_tree_wf x hal hadm cfg src u [] ht
  rcases elsL_of_tree x cfg src out u ht hroot hwf hc ho with rfl | ⟨F, h1, h2⟩
  · exact ⟨[], Vocab2.readForest_nil _, by intro p hp; cases hp⟩
  · exact ⟨F, h1, headings_have_ids u F (C17Doc.C17_doc_every_heading_has_id x cfg src u [] hx ht) h2⟩

/-- the hypotheses hold on a flat heading document with duplicate titles and a `[TOC]`: `treeX` answers `ok` with an
    empty stash, the root is the plain `div`, no STX/ETX in the tree (`DocFormats.treeNoCtl_of_B` turns the boolean
    check into `NoCtl.TreeNoCtl`) — checked by the kernel on the model -/
example : ∃ u, treeX { toc := true } {} "# a\n\n## b\n\n## a\n\n# a\n\n[TOC]".toList = .ok u [] ∧
    C14X.rootDiv u = true ∧ NoCtl.TreeNoCtl u := by
  have h : (match treeX { toc := true } {} "# a\n\n## b\n\n## a\n\n# a\n\n[TOC]".toList with
      | .ok u html => html.isEmpty && C14X.rootDiv u && DocFormats.treeNoCtlB u
      | _ => false) = true := by decide +kernel
  generalize treeX { toc := true } {} "# a\n\n## b\n\n## a\n\n# a\n\n[TOC]".toList = r at h
  cases r with
  | ok u html =>
    simp only [Bool.and_eq_true, List.isEmpty_iff] at h
    obtain ⟨⟨h1, h2⟩, h3⟩ := h
    subst h1
    exact ⟨u, rfl, h2, DocFormats.treeNoCtl_of_B u h3⟩
  | oof => cases h
  | err => cases h
  | ood => cases h

end MdVerif.C17Src
