import MdVerif.Props.C10XToc

open MdVerif.NoCtlX

#print axioms C10X_toc_ids_noctl
#print axioms C10X_toc_heading_id
#print axioms C10X_toc_name_noctl
#print axioms C10X_toc_stage
#print axioms C10X_toc_then_unescape
#print axioms C10X_partial_toc
