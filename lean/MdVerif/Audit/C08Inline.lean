import MdVerif.Props.C08Inline

#print axioms MdVerif.InlineLocal.C08_convert_eq_after
#print axioms MdVerif.InlineLocal.C08_counter_shift
#print axioms MdVerif.InlineLocal.C08_plain_eq
#print axioms MdVerif.InlineLocal.C08_element_independent
#print axioms MdVerif.InlineLocal.C08_run_children_independent
#print axioms MdVerif.InlineLocal.C08_run_keeps_top_level
#print axioms MdVerif.InlineLocal.C08_prettify_local
#print axioms MdVerif.InlineLocal.C08_unescape_local
#print axioms MdVerif.InlineLocal.C08_serialize_local
#print axioms MdVerif.InlineLocal.C08_render_local
#print axioms MdVerif.InlineLocal.C08_inline_half
#print axioms MdVerif.InlineLocal.C08_inline_half_xhtml
#print axioms MdVerif.InlineLocal.C08_convert_of_block_half
#print axioms MdVerif.InlineLocal.C08_counterexample_alt
#print axioms MdVerif.InlineLocal.C08_counterexample_href
