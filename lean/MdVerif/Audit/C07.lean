import MdVerif.Props.C07

#print axioms MdVerif.Escape.C07_escapable_chars_inline
#print axioms MdVerif.Escape.C07_backslash_run_parity
#print axioms MdVerif.Escape.C07_backtick_never_matches
#print axioms MdVerif.Escape.C07_escape_pass
#print axioms MdVerif.Escape.C07_later_patterns_inert
#print axioms MdVerif.Escape.C07_handle_inline
#print axioms MdVerif.Escape.C07_inline_paragraph
#print axioms MdVerif.Escape.C07_unescape_restores
#print axioms MdVerif.Escape.C07_tree_processors
#print axioms MdVerif.Escape.C07_serialize_finish
#print axioms MdVerif.Escape.C07_extract_no_amp
#print axioms MdVerif.Escape.C07_general
#print axioms MdVerif.Escape.C07
#print axioms MdVerif.Escape.C07_single_escape
#print axioms MdVerif.Escape.C07_each_escapable_char
#print axioms MdVerif.Escape.C07_hard_break_counterexample
#print axioms MdVerif.Escape.C07_setext_counterexample_full
#print axioms MdVerif.Escape.C07_leading_space_counterexample_full
