import MdVerif.Props.C03

#print axioms MdVerif.CodeLaw.C03_detab_indent
#print axioms MdVerif.CodeLaw.C03_codeP_text
#print axioms MdVerif.CodeLaw.C03_codeP_continues
#print axioms MdVerif.CodeLaw.C03_emptyP_filler
#print axioms MdVerif.CodeLaw.C03_code_runs
#print axioms MdVerif.CodeLaw.C03_inline_skips_atomic
#print axioms MdVerif.CodeLaw.C03_inline_run_calm
#print axioms MdVerif.CodeLaw.C03_inline_code_block
#print axioms MdVerif.CodeLaw.C03_stash_skips_atomic
#print axioms MdVerif.CodeLaw.C03_placeholders_keep_code
#print axioms MdVerif.CodeLaw.C03_unescape_skips_code
#print axioms MdVerif.CodeLaw.C03_prettify_code
#print axioms MdVerif.CodeLaw.C03_block_top
#print axioms MdVerif.CodeLaw.C03_block_after_paragraph
#print axioms MdVerif.CodeLaw.C03_F1_block_counterexample
#print axioms MdVerif.CodeLaw.C03_span_found
#print axioms MdVerif.CodeLaw.C03_span_stashed
#print axioms MdVerif.CodeLaw.C03_span_top
#print axioms MdVerif.CodeLaw.C03_F1_span_counterexample
