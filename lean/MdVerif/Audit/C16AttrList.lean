import MdVerif.Props.C16AttrList

#print axioms MdVerif.C16.C16_attrs_roundtrip
#print axioms MdVerif.C16.C16_attrs_roundtrip_plain
#print axioms MdVerif.C16.C16_assign_key_value
#print axioms MdVerif.C16.C16_assign_id_last
#print axioms MdVerif.C16.C16_assign_class
#print axioms MdVerif.C16.C16_assign_class_override
#print axioms MdVerif.C16.C16_sanitize_valid
#print axioms MdVerif.C16.C16_sanitize_run
#print axioms MdVerif.C16.C16_sanitize_no_alias
#print axioms MdVerif.C16.C16_inline_at_start
#print axioms MdVerif.C16.C16_block_at_end
#print axioms MdVerif.C16.C16_header_at_end
#print axioms MdVerif.C16.C16_inline_recognised
#print axioms MdVerif.C16.C16_block_recognised
#print axioms MdVerif.C16.C16_header_recognised
#print axioms MdVerif.C16.C16_attr_list_block
#print axioms MdVerif.C16.C16_attr_list_header
#print axioms MdVerif.C16.C16_attr_list_inline
