import MdVerif.Props.C15Inline

#print axioms MdVerif.InlineRef.C15_model_wsClean
#print axioms MdVerif.InlineRef.C15_model_normUse
#print axioms MdVerif.InlineRef.C15_model_normUse_short
#print axioms MdVerif.InlineRef.C15_model_lookup
#print axioms MdVerif.InlineRef.C15_linkEl_attrs
#print axioms MdVerif.InlineRef.C15_ref_renders
#print axioms MdVerif.InlineRef.C15_ref_renders_run
#print axioms MdVerif.InlineRef.C15_img_renders
#print axioms MdVerif.InlineRef.C15_img_renders_run
#print axioms MdVerif.InlineRef.C15_imgEl_attrs
#print axioms MdVerif.InlineRef.C15_undefined_literal
#print axioms MdVerif.InlineRef.C15_undefined_literal_run
#print axioms MdVerif.InlineRef.C15_end_to_end
#print axioms MdVerif.InlineRef.C15_titleAttr_spec
#print axioms MdVerif.InlineRef.C15_end_to_end_variant
