import MdVerif.Props.C10XBlock

open MdVerif.NoCtlX

#print axioms C10X_block_stage_closed
#print axioms C10X_block_stage
#print axioms C10X_partial_all_but_footnotes_fenced
#print axioms C10X_partial_block_flags
#print axioms C10X_block_abbr_hypothesis_needed
