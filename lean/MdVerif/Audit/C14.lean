import MdVerif.Props.C14

#print axioms MdVerif.Ser.C14_onepass_cdata
#print axioms MdVerif.Ser.C14_onepass_attr
#print axioms MdVerif.Ser.C14_onepass_attrib
#print axioms MdVerif.Ser.C14_cdata_read
#print axioms MdVerif.Ser.C14_attr_read
#print axioms MdVerif.Ser.C14_attrib_read
#print axioms MdVerif.Ser.C14_cdata_no_markup
#print axioms MdVerif.Ser.C14_attr_no_markup
#print axioms MdVerif.Ser.C14_entity_passthrough
#print axioms MdVerif.Ser.C14_escape_idempotent
#print axioms MdVerif.Ser.C14_lenient_plain
#print axioms MdVerif.Ser.C14_roundtrip
#print axioms MdVerif.Ser.C14_formats_agree
#print axioms MdVerif.Ser.C14_script_style_raw
