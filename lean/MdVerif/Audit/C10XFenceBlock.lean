import MdVerif.Props.C10XFenceBlock

#print axioms MdVerif.NoCtlXF.C10X_block_stage_fenced
#print axioms MdVerif.NoCtlXF.C10X_block_own_line_not_enough
#print axioms MdVerif.NoCtlXF.C10X_fenced_preprocessor
#print axioms MdVerif.NoCtlXF.C10X_fenced_front
