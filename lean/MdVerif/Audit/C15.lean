import MdVerif.Props.C15

#print axioms MdVerif.RefDef.C15_storedTitle_spec
#print axioms MdVerif.RefDef.C15_def_recognised
#print axioms MdVerif.RefDef.C15_def_stored
#print axioms MdVerif.RefDef.C15_def_no_output
#print axioms MdVerif.RefDef.C15_def_no_output_parseBlocks
#print axioms MdVerif.RefDef.C15_def_no_output_document
#print axioms MdVerif.RefDef.C15_defs_adjacent
#print axioms MdVerif.RefDef.C15_defs_adjacent_alone
#print axioms MdVerif.RefDef.C15_def_anywhere
#print axioms MdVerif.RefDef.C15_def_anywhere_conv
#print axioms MdVerif.RefDef.C15_fuel_irrelevant
#print axioms MdVerif.RefDef.C15_lookup_position_independent
#print axioms MdVerif.RefDef.C15_def_anywhere_lookup
#print axioms MdVerif.RefDef.C15_label_match
#print axioms MdVerif.RefDef.C15_ascii_case
#print axioms MdVerif.RefDef.C15_label_match_self
#print axioms MdVerif.RefDef.C15_double_space_never_matches
#print axioms MdVerif.RefDef.C15_lookup_last_wins
#print axioms MdVerif.RefDef.C15_lookup_appended
#print axioms MdVerif.RefDef.C15_undefined_none
#print axioms MdVerif.RefDef.C15_lookup_some_mem
