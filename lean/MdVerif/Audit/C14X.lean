import MdVerif.Props.C14X

#print axioms MdVerif.PipelineX.C14X_tree_format_independent
#print axioms MdVerif.PipelineX.C14X_tree_format_dependent_toc
#print axioms MdVerif.PipelineX.C14X_doc_format_dependent_toc
#print axioms MdVerif.PipelineX.C14X_tree_format_independent_toc
#print axioms MdVerif.PipelineX.C14X_doc_spelling
#print axioms MdVerif.PipelineX.C14X_doc_spelling_notoc
#print axioms MdVerif.PipelineX.C14X_doc_spelling_core
#print axioms MdVerif.PipelineX.C14X_doc_formats_agree
#print axioms MdVerif.PipelineX.C14X_doc_formats_agree_notoc
#print axioms MdVerif.PipelineX.C14X_tree_format_independent_toc_B
#print axioms MdVerif.PipelineX.C14X_doc_spelling_toc
