import MdVerif.Props.C10XAllAmp
open MdVerif.NoCtlXF

#print axioms C10X_partial_all_amp
#print axioms C10_partial_links_amp
#print axioms C10X_leak_digit_abbr_entity
