import MdVerif.Props.C09XCode
open MdVerif.PipelineX

#print axioms C09X_top_code_shape
#print axioms C09X_doc_trailing
#print axioms C09X_doc_padding
