import MdVerif.Props.C18Stash

#print axioms MdVerif.C18Stash.C18_atomic_text_untouched
#print axioms MdVerif.C18Stash.C18_emb_unfold
#print axioms MdVerif.C18Stash.C18_atomic_text_everywhere
#print axioms MdVerif.C18Stash.C18_atomic_probe_run
#print axioms MdVerif.C18Stash.C18_placeholder_survives_serializer
#print axioms MdVerif.C18Stash.C18_stash_restore_pass
#print axioms MdVerif.C18Stash.C18_stash_restore_block_pass
#print axioms MdVerif.C18Stash.C18_stash_restore_inline
#print axioms MdVerif.C18Stash.C18_stash_restore_block
#print axioms MdVerif.C18Stash.C18_no_prefix_of_no_stx
#print axioms MdVerif.C18Stash.C18_stash_restore_many
#print axioms MdVerif.C18Stash.C18_atomic_output_text
#print axioms MdVerif.C18Stash.C18_atomic_output_tail
#print axioms MdVerif.C18Stash.C18_stash_output_inline
#print axioms MdVerif.C18Stash.C18_stash_output_block
#print axioms MdVerif.C18Stash.C18_amp_substitute
#print axioms MdVerif.C18Stash.C18_amp_substitute_at
