/-
Audit tool: `#audit_module M` prints, for every theorem declared in module `M`, the axioms it depends on, in the
format of `#print axioms`.  Used by the check framework so that no theorem of a `Props/` file can escape the audit.
(Meta-programming only; nothing here is part of a model or a proof.)
-/
import Lean
open Lean Elab Command

elab "#audit_module " m:ident : command => do
  let env ← getEnv
  let some idx := env.getModuleIdx? m.getId | throwError "unknown module {m.getId}"
  let mut names : Array Name := #[]
  for (n, ci) in env.constants.map₁.toList do
    if env.getModuleIdxFor? n == some idx && !n.isInternal then
      if ci matches .thmInfo _ then names := names.push n
  let sorted := names.qsort (fun a b => a.toString < b.toString)
  for n in sorted do
    let axs ← Lean.collectAxioms n
    if axs.isEmpty then logInfo m!"'{n}' does not depend on any axioms"
    else logInfo m!"'{n}' depends on axioms: {axs.toList}"
  logInfo m!"audited {sorted.size} theorems of {m.getId}"
