import MdVerif.Props.C01i

open MdVerif.DocImg

#print axioms C01i_img_print
#print axioms C01i_img_loop
#print axioms C01i_img_elem
#print axioms C01i_img_out
#print axioms C01_img_covers_link
#print axioms C01_inline_images
#print axioms C01_img_spelling
#print axioms MdVerif.DocLinkH.C01_linkH_covers_link
#print axioms MdVerif.DocLinkH.C01_heading_links
#print axioms MdVerif.DocLinkH.C01_linkH_spelling
#print axioms C01_linkImg_covers_img
#print axioms C01_linkImg_covers_linkH
#print axioms C01i_heading_images
#print axioms C01_links_images
#print axioms C01_linkImg_spelling
#print axioms MdVerif.DocMix.C01i_mixed_loop
#print axioms MdVerif.DocMix.C01i_mixed_elem
#print axioms MdVerif.DocMix.C01_mixed_covers_linkImg
#print axioms MdVerif.DocMix.C01_links_images_mixed
#print axioms MdVerif.DocMix.C01_mixed_spelling
#print axioms MdVerif.DocMixB.C01i_br_loop
#print axioms MdVerif.DocMixB.C01i_br_block
#print axioms MdVerif.DocMixB.C01_mixedBr_covers_mixed
#print axioms MdVerif.DocMixB.C01_links_images_breaks
#print axioms MdVerif.DocMixB.C01_mixedBr_spelling
