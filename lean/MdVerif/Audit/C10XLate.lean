import MdVerif.Props.C10XLate

open MdVerif.NoCtlX

#print axioms C10X_late_stages
#print axioms C10X_late_of_front
