import MdVerif.Props.C10b

#print axioms MdVerif.NoCtl.C10b_backtick_runs
#print axioms MdVerif.NoCtl.C10b_backtick_kind
#print axioms MdVerif.NoCtl.C10b_span_behind_placeholders
#print axioms MdVerif.NoCtl.C10b_safe_start
#print axioms MdVerif.NoCtl.C10b_done_replace
#print axioms MdVerif.NoCtl.C10b_done_cut
#print axioms MdVerif.NoCtl.C10b_no_second_pass_span
#print axioms MdVerif.NoCtl.C10b_block_keeps_adjacency
#print axioms MdVerif.NoCtl.C10b_inline_link_off
#print axioms MdVerif.NoCtl.C10b_image_off
#print axioms MdVerif.NoCtl.C10b_reference_stash_ok
#print axioms MdVerif.NoCtl.C10b_ids_bounded
#print axioms MdVerif.NoCtl.C10b_all_visited_pp
#print axioms MdVerif.NoCtl.C10b_all_visited_run
#print axioms MdVerif.NoCtl.C10_partial_links
#print axioms MdVerif.NoCtl.C10_partial_emph2
#print axioms MdVerif.NoCtl.C10b_domain_links
#print axioms MdVerif.NoCtl.C10b_domain_widens
