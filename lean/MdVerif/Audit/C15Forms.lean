import MdVerif.Props.C15Forms

#print axioms MdVerif.InlineRef.C15_attrHtml_spec
#print axioms MdVerif.InlineRef.C15_end_to_end_full
#print axioms MdVerif.InlineRef.C15_end_to_end_collapsed
#print axioms MdVerif.InlineRef.C15_end_to_end_short
#print axioms MdVerif.InlineRef.C15_end_to_end_image
#print axioms MdVerif.InlineRef.C15_end_to_end_image_collapsed
#print axioms MdVerif.InlineRef.C15_end_to_end_image_short
#print axioms MdVerif.InlineRef.C15_imgHtml_xhtml
#print axioms MdVerif.InlineRef.C15_link_html_format
#print axioms MdVerif.InlineRef.C15_two_uses
#print axioms MdVerif.InlineRef.C15_two_definitions
