import MdVerif.Props.C01

#print axioms MdVerif.DocParse.C01_rule_recognised
#print axioms MdVerif.DocParse.C01_spelled_rule
#print axioms MdVerif.DocParse.C01_spelled_para
#print axioms MdVerif.DocParse.C01_spelled_atx
#print axioms MdVerif.DocParse.C01_spelled_setext
#print axioms MdVerif.DocParse.C01_escapable_chars
#print axioms MdVerif.DocParse.C01_chunks
#print axioms MdVerif.DocParse.C01_leaves
#print axioms MdVerif.DocParse.C01_pieces
#print axioms MdVerif.DocParse.C01_flat
#print axioms MdVerif.DocParse.C01_rule
#print axioms MdVerif.DocParse.C01_para_plain
#print axioms MdVerif.DocParse.C01_atx
#print axioms MdVerif.DocParse.C01_setext
#print axioms MdVerif.DocParse.C01_blocks_compose
