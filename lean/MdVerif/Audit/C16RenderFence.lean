import MdVerif.Props.C16RenderFence

#print axioms MdVerif.FenceDoc.C16_fence_stashed
#print axioms MdVerif.FenceDoc.C16_fence_body_escaped
#print axioms MdVerif.FenceDoc.C16_fence_body_plain
#print axioms MdVerif.FenceDoc.C16_fence_renders
