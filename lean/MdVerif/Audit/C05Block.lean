import MdVerif.Props.C05Block

#print axioms MdVerif.Block.C05_vocab_implies_WFTree
#print axioms MdVerif.Block.C05_vocabDoc_implies_WFTree
#print axioms MdVerif.Block.C05_block_vocab
#print axioms MdVerif.Block.C05_block_vocab_unfolded
#print axioms MdVerif.Block.C05_block_wellformed
#print axioms MdVerif.Block.C05_block_tags
#print axioms MdVerif.Block.C05_block_no_attrs
#print axioms MdVerif.Block.C05_block_text_atomic_code
