import MdVerif.Props.C16Meta

#print axioms MdVerif.PipelineM.C16_meta_position
#print axioms MdVerif.PipelineM.C16_meta_off
#print axioms MdVerif.PipelineM.C16_meta_documented
#print axioms MdVerif.PipelineM.C16_meta_suffix
#print axioms MdVerif.PipelineM.C16_meta_run_noninterference
#print axioms MdVerif.PipelineM.C16_meta_no_colon
#print axioms MdVerif.PipelineM.C16_meta_noninterference
#print axioms MdVerif.PipelineM.C16_meta_noninterference_src
#print axioms MdVerif.PipelineM.C16_meta_body_untouched
#print axioms MdVerif.PipelineM.C16_meta_body_untouched_plain
