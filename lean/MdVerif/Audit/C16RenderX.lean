import MdVerif.Props.C16RenderX
open MdVerif.RenderX

#print axioms C16_nl2br_renders
#print axioms C16_nl2br_two_lines
#print axioms C16_nl2br_two_lines_html
#print axioms C16_admonition_renders
#print axioms C16_admonition_default_title
#print axioms C16_admonition_no_title
#print axioms C16_deflist_renders
#print axioms C16_deflist_one
#print axioms C16_abbr_renders
#print axioms C16_footnote_renders
#print axioms C16_footnote_one
#print axioms C16_nl2br_composes
#print axioms C16_admonition_composes
#print axioms C16_deflist_composes
#print axioms C16_abbr_composes
#print axioms C16_footnote_composes
