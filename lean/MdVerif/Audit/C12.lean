import MdVerif.Props.C12

#print axioms MdVerif.Threads.C12_thread_is_local
#print axioms MdVerif.Threads.C12_shared_invariant
#print axioms MdVerif.Threads.C12_schedule_independent
#print axioms MdVerif.Threads.C12_steps_commute
#print axioms MdVerif.Threads.C12_schedule_independent_system
#print axioms MdVerif.Threads.C12_traces_schedule_independent
#print axioms MdVerif.Threads.C12_interleaving_eq_sequential
#print axioms MdVerif.Threads.C12_complete_schedules_agree
#print axioms MdVerif.Threads.C12_concurrent_eq_sequential
#print axioms MdVerif.Threads.C12_two_step_refines_atomic
#print axioms MdVerif.Threads.C12_two_step_invariant
#print axioms MdVerif.Threads.C12_two_step_complete
#print axioms MdVerif.Threads.Negative.C12_negative_writable_shared_cell
