import MdVerif.Props.C10XTree

open MdVerif.NoCtlX

#print axioms C10X_cut_outside_tokens
#print axioms C10X_attr_scanner
#print axioms C10X_attr_names
#print axioms C10X_attr_assign
#print axioms C10X_attr_placement
#print axioms C10X_attr_element
#print axioms C10X_attr_list_stage
#print axioms C10X_prettify_x
#print axioms C10X_abbr_stage_x
#print axioms C10X_unescape_x
#print axioms C10X_unescape_x_total
#print axioms C10X_partial_attr_list
#print axioms C10X_partial_attr_list_nl
