import MdVerif.Props.C03X

open MdVerif.CodeX

#print axioms C03X_block_top
#print axioms C03X_block_extensions_inert
#print axioms C03X_tab0_counterexample
#print axioms C03X_admNonAscii_excluded
#print axioms C03X_span_top
#print axioms C03X_span_extensions_inert
#print axioms C03X_span_attr_list_boundary
#print axioms C03X_block_after_paragraph
#print axioms C03X_block_after_paragraph_inert
