import MdVerif.Props.C03X

open MdVerif.CodeX

#print axioms C03X_block_top
#print axioms C03X_block_extensions_inert
#print axioms C03X_tab0_counterexample
#print axioms C03X_admNonAscii_excluded
#print axioms C03X_span_top
#print axioms C03X_span_extensions_inert
#print axioms C03X_span_attr_list_boundary
#print axioms C03X_block_after_paragraph
#print axioms C03X_block_after_paragraph_inert
#print axioms C03X_abbr_keeps_code
#print axioms C03X_attr_list_keeps_code
#print axioms C03X_toc_keeps_code
#print axioms C03X_unescape_keeps_code
#print axioms C03X_late_stages_keep_code
#print axioms C03X_inline_skips_atomic
#print axioms C03X_stash_skips_atomic
#print axioms C03X_block_after_abbr_definition
#print axioms C03X_abbr_wraps_outside_code_only
#print axioms C03X_document
#print axioms C03X_document_inert
#print axioms C03X_block_between_paragraphs
