import MdVerif.Props.C09X

#print axioms MdVerif.PipelineX.C09X_convert_factors
#print axioms MdVerif.PipelineX.C09X_tree_factors
#print axioms MdVerif.PipelineX.C09X_doc_line_endings
#print axioms MdVerif.PipelineX.C09X_doc_line_endings_uniform
#print axioms MdVerif.PipelineX.C09X_doc_tab
#print axioms MdVerif.PipelineX.C09X_doc_ws_line
#print axioms MdVerif.PipelineX.C09X_doc_ws_first_line
#print axioms MdVerif.PipelineX.C09X_doc_ctl
#print axioms MdVerif.PipelineX.C09X_doc_ctl_of_not_blank
#print axioms MdVerif.PipelineX.C09X_doc_ctl_counterexample
#print axioms MdVerif.PipelineX.C09X_doc_leading
#print axioms MdVerif.PipelineX.C09X_doc_trailing_noCode
#print axioms MdVerif.PipelineX.C09X_doc_padding_noCode
#print axioms MdVerif.PipelineX.C09X_prepareX_nofence
#print axioms MdVerif.PipelineX.C09X_noCodeLast_of_B
