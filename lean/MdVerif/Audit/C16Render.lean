import MdVerif.Props.C16Render

#print axioms MdVerif.TableDoc.C16_table_accepted
#print axioms MdVerif.TableDoc.C16_table_parsed
#print axioms MdVerif.TableDoc.C16_fit_width
#print axioms MdVerif.TableDoc.C16_fit_cells
#print axioms MdVerif.TableDoc.C16_run_settled
#print axioms MdVerif.TableDoc.C16_table_renders
