import MdVerif.Props.C10XPost

open MdVerif.NoCtlX

#print axioms C10X_footnote_postprocess
#print axioms C10X_footnote_postprocess_final
#print axioms C10X_footnote_tokens_output
#print axioms C10X_footnote_postprocess_noctl
#print axioms C10X_footnote_treeprocessor_writes
#print axioms C10X_leak_digits_abbr
#print axioms C10X_leak_digits_abbr_rawhtml
#print axioms C10X_abbr_stage
#print axioms C10X_abbr_then_unescape
