import MdVerif.Props.C09

#print axioms MdVerif.Normalize.C09_steps
#print axioms MdVerif.Normalize.C09_line_endings
#print axioms MdVerif.Normalize.C09_line_endings_uniform
#print axioms MdVerif.Normalize.C09_ctl
#print axioms MdVerif.Normalize.C09_ctl_congr
#print axioms MdVerif.Normalize.C09_ctl_insert
#print axioms MdVerif.Normalize.C09_tab
#print axioms MdVerif.Normalize.C09_ws_line
#print axioms MdVerif.Normalize.C09_ws_first_line
#print axioms MdVerif.Normalize.C09_first_line_example
#print axioms MdVerif.Normalize.C09_no_ctl_out
#print axioms MdVerif.Normalize.C09_no_cr_out
#print axioms MdVerif.Normalize.C09_out_chars
#print axioms MdVerif.Normalize.C09_renormalize
#print axioms MdVerif.Normalize.C09_trailing_blank
#print axioms MdVerif.Normalize.C09_leading_blank
#print axioms MdVerif.Normalize.C09_blank_doc
#print axioms MdVerif.Normalize.C09_steps_of_source
