import MdVerif.Props.C06Links

open MdVerif.RefText

#print axioms C06_links
#print axioms C06_visibleLine_spec
#print axioms C06_links_chunks
#print axioms C06_links_tree_content
#print axioms C06_chunk_letters
#print axioms C06_inline_links
#print axioms C06_inline_links_output
#print axioms C06_specLinks_spec
#print axioms C06_getLink_dest
#print axioms C06_links_fmt
#print axioms C06_inline_links_fmt
#print axioms C06_inline_links_output_fmt
#print axioms C06_specLinksF_spec
