import MdVerif.Props.C17

#print axioms MdVerif.C17.C17_unique_candidates_distinct
#print axioms MdVerif.C17.C17_unique_total
#print axioms MdVerif.C17.C17_unique_fresh
#print axioms MdVerif.C17.C17_unique_fuel_exhaustion
#print axioms MdVerif.C17.C17_assigned_ids_distinct
#print axioms MdVerif.C17.C17_assigned_vs_preset
#print axioms MdVerif.C17.C17_every_heading_has_id
#print axioms MdVerif.C17.C17_nest_flatten
#print axioms MdVerif.C17.C17_nest_outline
#print axioms MdVerif.C17.C17_nest_outline_positions
#print axioms MdVerif.C17.C17_nest_levels_only
#print axioms MdVerif.C17.C17_outlineParent_some
#print axioms MdVerif.C17.C17_outlineParent_none
#print axioms MdVerif.C17.C17_toc_links_resolve
#print axioms MdVerif.C17.C17_toc_end_to_end
#print axioms MdVerif.C17.C17_refs_resolve
#print axioms MdVerif.C17.C17_ref_ids_distinct
#print axioms MdVerif.C17.C17_ref_ids_named
#print axioms MdVerif.C17.C17_k_backlinks
