import MdVerif.Props.C02Big

#print axioms MdVerif.C02Big.C02_convertBig_total
#print axioms MdVerif.C02Big.C02_convertBig_never_oof
#print axioms MdVerif.C02Big.C02_convertBig_stages
#print axioms MdVerif.C02Big.C02_convertBig_refines
#print axioms MdVerif.C02Big.C02_convertBig_refines_err
#print axioms MdVerif.C02Big.C02_convert_cases
#print axioms MdVerif.C02Big.C02_convertBig_err_iff
#print axioms MdVerif.C02Big.C02_convertBig_err_only_unescape
#print axioms MdVerif.C02Big.C02_stx_token_invariant
#print axioms MdVerif.C02Big.C02_unescape_never_raises
#print axioms MdVerif.C02Big.C02_no_bad_token
#print axioms MdVerif.C02Big.C02_convertBig_ok
#print axioms MdVerif.C02Big.C02_convertBig_never_err
#print axioms MdVerif.C02Big.C02_convert_never_err
#print axioms MdVerif.C02Big.C02_convert_ok_or_stack_fuel
#print axioms MdVerif.C02Big.C02_blockStageX_noctl
#print axioms MdVerif.C02Big.C02_convertXBig_total
#print axioms MdVerif.C02Big.C02_convertXBig_refines
#print axioms MdVerif.C02Big.C02_blockStageX_no_placeholder
#print axioms MdVerif.C02Big.C02_handleInlineX_total
#print axioms MdVerif.C02Big.C02_handleInlineX_potential
#print axioms MdVerif.C02Big.C02_runX_total_bigfuel
#print axioms MdVerif.C02Big.C02_runX_fuel_mono
#print axioms MdVerif.C02Big.C02_table_without_wikilinks
