import MdVerif.Props.C14DocDomain

#print axioms MdVerif.Ser.C14_doc_domain
