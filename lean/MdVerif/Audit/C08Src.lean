import MdVerif.Props.C08Src

#print axioms MdVerif.C08Src.C08_src
#print axioms MdVerif.C08Src.C08_src_domain_compose
#print axioms MdVerif.C08Src.C08Dom_of_simpleDom
#print axioms MdVerif.C08Src.C08_src_outcomes
#print axioms MdVerif.C08Src.C08_src_total
#print axioms MdVerif.C08Src.C08_src_big_agrees
#print axioms MdVerif.C08Src.C08_src_big_total
#print axioms MdVerif.C08Src.C08_src_big
#print axioms MdVerif.C08Src.C08_src_from_combined
#print axioms MdVerif.C08Src.C08_src_big_parts
#print axioms MdVerif.C08Src.C08_src_counter_empty_tree
#print axioms MdVerif.C08Src.C08_src_counter_leak
