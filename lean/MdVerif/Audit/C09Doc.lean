import MdVerif.Props.C09Doc

#print axioms MdVerif.Pipeline.C09_convert_factors
#print axioms MdVerif.Pipeline.C09_doc_line_endings
#print axioms MdVerif.Pipeline.C09_doc_line_endings_uniform
#print axioms MdVerif.Pipeline.C09_doc_tab
#print axioms MdVerif.Pipeline.C09_doc_ws_line
#print axioms MdVerif.Pipeline.C09_doc_ws_first_line
#print axioms MdVerif.Pipeline.C09_doc_ctl
#print axioms MdVerif.Pipeline.C09_doc_ctl_of_not_blank
#print axioms MdVerif.Pipeline.C09_doc_ctl_counterexample
#print axioms MdVerif.Pipeline.C09_doc_leading
#print axioms MdVerif.Pipeline.C09_doc_trailing_noCode
#print axioms MdVerif.Pipeline.C09_doc_padding_noCode
#print axioms MdVerif.Pipeline.C09_doc_trailing
#print axioms MdVerif.Pipeline.C09_doc_padding
#print axioms MdVerif.Pipeline.C09_noCodeLast_iff
