import MdVerif.Props.C17Doc

#print axioms MdVerif.C17Doc.C17_tree_ids_distinct
#print axioms MdVerif.C17Doc.C17_tree_every_heading_has_id
#print axioms MdVerif.C17Doc.C17_tree_explicit_ids_kept
#print axioms MdVerif.C17Doc.C17_tree_ids_nodup
#print axioms MdVerif.C17Doc.C17_toc_links_resolve_tree
#print axioms MdVerif.C17Doc.C17_doc_ids_distinct
#print axioms MdVerif.C17Doc.C17_doc_every_heading_has_id
#print axioms MdVerif.C17Doc.C17_doc_ids_nodup
#print axioms MdVerif.C17Doc.C17_fn_div_tree
#print axioms MdVerif.C17Doc.C17_fn_ref_pattern
#print axioms MdVerif.C17Doc.C17_doc_fn_refs
#print axioms MdVerif.C17Doc.C17_doc_fn_refs_resolve
