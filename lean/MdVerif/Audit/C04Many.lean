import MdVerif.Props.C04Many
open MdVerif.HtmlTok

#print axioms C04_text_end_to_end_many
#print axioms C04_text_end_to_end_adjacent
#print axioms C04_text_end_to_end_many_pieces
