import MdVerif.Props.C14Doc

#print axioms MdVerif.Ser.C14_tree_format_independent
#print axioms MdVerif.Ser.C14_doc_formats_agree
#print axioms MdVerif.Ser.C14_doc_formats_agree_noctl
#print axioms MdVerif.Ser.C14_doc_spelling
#print axioms MdVerif.Ser.C14_tree_spelling
