/- Axiom audit of `Props/C10c.lean` (allowed: propext, Classical.choice, Quot.sound). -/
import MdVerif.Props.C10c

open MdVerif.NoCtl
#print axioms C10c_region_closure
#print axioms C10c_block_keeps_regions
#print axioms C10c_getLink_simple
#print axioms C10c_inline_link_stash_ok
#print axioms C10c_inline_image_stash_ok
#print axioms C10c_image_reference_stash_ok
#print axioms C10c_reference_stash_ok
#print axioms C10c_ids_bounded
#print axioms C10c_all_visited_run
#print axioms C10_partial_inline_links
#print axioms C10c_domain_widens
#print axioms C10c_leak_F_C10_1_outside
#print axioms C10c_leak_inline_link_in_alt
#print axioms C10c_leak_F_C10_2_outside
#print axioms C10c_leak_destination_over_lines
