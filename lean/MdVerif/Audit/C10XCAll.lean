/- Axiom audit of `Props/C10XCAll.lean` (allowed: propext, Classical.choice, Quot.sound). -/
import MdVerif.Props.C10XCAll

#print axioms MdVerif.NoCtlXC.C10XC_block_stage_cut_closed
#print axioms MdVerif.NoCtlXC.C10XC_block_stage
#print axioms MdVerif.NoCtlXC.C10XC_table_cell_leaves_class
#print axioms MdVerif.NoCtlXC.C10X_partial_links_all_but_footnotes_fenced_tables
#print axioms MdVerif.NoCtlXC.C10XC_links_all_extends_block
