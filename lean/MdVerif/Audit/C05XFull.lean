import MdVerif.Props.C05XFull
open MdVerif.C05

#print axioms C05X_tree_wf
#print axioms C05X_tree_wf_attr_list
#print axioms C05X_tree_distinct_void
#print axioms C05X_tree_distinct_void_node
#print axioms C05X_root_div
#print axioms C05X_rootDiv
#print axioms C05X_strip_never_fails
#print axioms C05X_doc_spelling_notoc
#print axioms C05X_doc_formats_agree_notoc
#print axioms C05X_admonition_fills_hr
#print axioms C05X_pass_commutes
#print axioms C05X_partial
#print axioms C05X_upto_ampsub
#print axioms C05X_partial_general
#print axioms C05X_tree_gnl
#print axioms C05X_no_amp_substitute
#print axioms C05X_full
#print axioms C05X_full_default
#print axioms C05X_full_general
#print axioms C05X_stash_shape
#print axioms C05X_partial_fenced
#print axioms C05X_upto_ampsub_fenced
#print axioms C05X_no_amp_substitute_all
#print axioms C05X_fenced
#print axioms C05X_nameChar_safe
#print axioms C05X_attr_list_values_escaped
