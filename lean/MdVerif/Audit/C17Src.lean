import MdVerif.Props.C17Src

open MdVerif.C17Src
#print axioms C17_src_output_reads
#print axioms C17_src_observed
#print axioms C17_src_refs_resolve
#print axioms C17_src_backlinks_resolve
#print axioms C17_src_k_backlinks
#print axioms C17_src_unreferenced_dangling
#print axioms C17_src_sup_li_ids_distinct
#print axioms C17_src_ids_distinct
#print axioms C17_src_toc_headings_have_ids
