import MdVerif.Props.C07Block

#print axioms MdVerif.Escape.C07_escapable_chars
#print axioms MdVerif.Escape.C07_ext_chars_no_newline
#print axioms MdVerif.Escape.C07_escaped_text_guarded
#print axioms MdVerif.Escape.C07_hash_never_matches
#print axioms MdVerif.Escape.C07_setext_never_matches
#print axioms MdVerif.Escape.C07_hr_never_matches
#print axioms MdVerif.Escape.C07_list_never_matches
#print axioms MdVerif.Escape.C07_quote_never_matches
#print axioms MdVerif.Escape.C07_ref_never_matches
#print axioms MdVerif.Escape.C07_dispatch_paragraph
#print axioms MdVerif.Escape.C07_block_single_paragraph_ext
#print axioms MdVerif.Escape.C07_block_single_paragraph_weak
#print axioms MdVerif.Escape.C07_block_single_paragraph
#print axioms MdVerif.Escape.C07_normalize_escaped
#print axioms MdVerif.Escape.C07_block_of_source
#print axioms MdVerif.Escape.C07_tab0_counterexample
#print axioms MdVerif.Escape.C07_leading_space_counterexample
#print axioms MdVerif.Escape.C07_blank_line_counterexample
#print axioms MdVerif.Escape.C07_trailing_newline_counterexample
#print axioms MdVerif.Escape.C07_setext_counterexample
#print axioms MdVerif.Escape.C07_space_line_counterexample
