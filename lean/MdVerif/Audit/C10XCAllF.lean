import MdVerif.Props.C10XCAllF
open MdVerif.NoCtlXCF

#print axioms C10X_inline_stage_links_foreign
#print axioms C10X_fenced_preprocessor_links
#print axioms C10X_block_stage_fenced_links
#print axioms C10X_partial_footnotes_links
#print axioms C10X_partial_all_links
#print axioms C10X_links_leak_colon_abbr_rawhtml
