import MdVerif.Props.C02Block

#print axioms MdVerif.Block.C02_parseDocument_total
#print axioms MdVerif.Block.C02_parseDocument_total_any_tab
#print axioms MdVerif.Block.C02_parseBlocks_total
#print axioms MdVerif.Block.C02_parseBlocks_fuel_mono
#print axioms MdVerif.Block.C02_parseDocument_fuel_irrelevant
#print axioms MdVerif.Block.C02_dispatch_progress
#print axioms MdVerif.Block.C02_recursive_calls_smaller
