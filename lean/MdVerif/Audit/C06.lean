import MdVerif.Props.C06

#print axioms MdVerif.C06.C06_normalize_letters
#print axioms MdVerif.C06.C06_prepare_identity
#print axioms MdVerif.C06.C06_block_tree_clean
#print axioms MdVerif.C06.C06_letters_bridge
#print axioms MdVerif.C06.C06_tree_letters
#print axioms MdVerif.C06.C06_serialize_letters
#print axioms MdVerif.C06.C06_with_quotes
#print axioms MdVerif.C06.C06
