import MdVerif.Props.C10XRaw

open MdVerif.NoCtlX

#print axioms C10X_rawhtml_fixed_point
#print axioms C10X_rawhtml_restores_all
#print axioms C10X_rawhtml_entry_conditions_needed
#print axioms C10X_later_postprocessors_keep
#print axioms C10X_stash_entries
#print axioms C10X_stash_entries_ok
#print axioms C10X_stash_restored_output
#print axioms C10X_cut_placeholder_is_not_restored
