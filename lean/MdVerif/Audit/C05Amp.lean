import MdVerif.Props.C05Amp

#print axioms MdVerif.C05.C05_pattern_html_stash
#print axioms MdVerif.C05.C05_inline_html_stash
#print axioms MdVerif.C05.C05_html_stash_entities
#print axioms MdVerif.C05.C05_entRef_entityLike
#print axioms MdVerif.C05.C05_restore_one_pass
#print axioms MdVerif.C05.C05_restore_strict
#print axioms MdVerif.C05.C05_restore_commutes
#print axioms MdVerif.C05.C05_post_preserves_readable
#print axioms MdVerif.C05.C05_no_amp_created
#print axioms MdVerif.C05.C05_upto_ampsub
#print axioms MdVerif.C05.C05_partial2
