import MdVerif.Props.C06Inline

#print axioms MdVerif.Flat.C06_pattern_conserves
#print axioms MdVerif.Flat.C06_handleInline_conserves
#print axioms MdVerif.Flat.C06_handleInline_source
#print axioms MdVerif.Flat.C06_processPlaceholders_order
#print axioms MdVerif.Flat.C06_run_conserves_flat
#print axioms MdVerif.Flat.C06_run_conserves
#print axioms MdVerif.Flat.C06_prettify_conserves
#print axioms MdVerif.Flat.C06_unescape_conserves
#print axioms MdVerif.Flat.C06_treeproc_conserve
#print axioms MdVerif.Flat.C06_inline_stage_conserves
#print axioms MdVerif.Flat.C06_gt_in_code_adds_letters
