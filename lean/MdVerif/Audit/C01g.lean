import MdVerif.Props.C01g

/-! Axiom audit of the C01 theorems on paragraphs with hard breaks. -/
#print axioms MdVerif.DocParse2.C01g_break_match
#print axioms MdVerif.DocParse2.C01g_para_lines
#print axioms MdVerif.DocParse2.C01g_para_loop
#print axioms MdVerif.DocParse2.C01g_para_resolve
#print axioms MdVerif.DocParse2.C01g_para_elem
#print axioms MdVerif.DocParse2.C01g_para_print
#print axioms MdVerif.DocParse2.C01g_para_out
#print axioms MdVerif.DocParse2.C01_br_covers_deep2
#print axioms MdVerif.DocParse2.C01_hard_breaks
#print axioms MdVerif.DocParse2.C01_br_spelling
