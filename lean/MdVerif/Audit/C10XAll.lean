import MdVerif.Props.C10XAll
open MdVerif.NoCtlXF

#print axioms C10X_partial_all
#print axioms C10X_leak_colon_abbr_rawhtml
