import MdVerif.Props.C20

#print axioms MdVerif.Codec.C20_convertFile_eq
#print axioms MdVerif.Codec.C20_convertFile_valid
#print axioms MdVerif.Codec.C20_convertFile_reads_back
#print axioms MdVerif.Codec.C20_stream_agrees
#print axioms MdVerif.Codec.C20_truncated_tail_dropped
#print axioms MdVerif.Codec.C20_xmlcharref_total
#print axioms MdVerif.Codec.C20_xmlcharref_spelling
#print axioms MdVerif.Codec.C20_encodable
#print axioms MdVerif.Codec.C20_encodable_unchanged
#print axioms MdVerif.Codec.C20_roundtrip
#print axioms MdVerif.Codec.C20_roundtrip_utf8
#print axioms MdVerif.Codec.C20_roundtrip_latin1
#print axioms MdVerif.Codec.C20_roundtrip_ascii
#print axioms MdVerif.Codec.C20_roundtrip_refs
#print axioms MdVerif.Codec.C20_bom
#print axioms MdVerif.Codec.C20_bom_only_leading
#print axioms MdVerif.Cli.C20_cli_roundtrip
#print axioms MdVerif.Cli.C20_cli_kwargs
#print axioms MdVerif.Cli.C20_cli_spellings
#print axioms MdVerif.Cli.C20_cli_errors
#print axioms MdVerif.Cli.C20_cli_table
#print axioms MdVerif.Cli.C20_cli_defaults
#print axioms MdVerif.Cli.C20_cli_keywords
#print axioms MdVerif.Cli.C20_cli_configfile
