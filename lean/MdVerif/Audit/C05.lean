import MdVerif.Props.C05

#print axioms MdVerif.C05.C05_inline_vocab_found
#print axioms MdVerif.C05.C05_inline_vocab_stash
#print axioms MdVerif.C05.C05_inline_vocab_placeholders
#print axioms MdVerif.C05.C05_inline_vocab
#print axioms MdVerif.C05.C05_treeproc_preserve
#print axioms MdVerif.C05.C05_treeproc_preserve_node
#print axioms MdVerif.C05.C05_vocab_WFTree
#print axioms MdVerif.C05.C05_doc_WFTree
#print axioms MdVerif.C05.C05_good_iff_vocab
#print axioms MdVerif.C05.C05_docOk_iff_vocabDoc
#print axioms MdVerif.C05.C05_tree_vocab
#print axioms MdVerif.C05.C05_tree_reads_back
#print axioms MdVerif.C05.C05_output_is_inner
#print axioms MdVerif.C05.C05_inner_reads
#print axioms MdVerif.C05.C05_convert_plain
#print axioms MdVerif.C05.C05_output_reads
#print axioms MdVerif.C05.C05_before_post
#print axioms MdVerif.C05.C05_partial
