import MdVerif.Props.C10XCAllAmp
open MdVerif.NoCtlXCF

#print axioms C10X_partial_all_links_amp
#print axioms C10_partial_inline_links_amp
