import MdVerif.Props.C03Fenced

open MdVerif.FencedPipe

#print axioms C03_fenced_top
#print axioms C03_fenced_lang
#print axioms C03_fenced_among_paragraphs
#print axioms C03_fenced_after_paragraph
#print axioms C03_fenced_before_paragraph
#print axioms C03_fenced_between_paragraphs
#print axioms C03_fenced_document
#print axioms C03_fenced_other_extensions
#print axioms C03_fenced_extensions_inert
#print axioms C03_fenced_any_body
#print axioms C03_fenced_normBody_id
#print axioms C03_fenced_html_reads_back
#print axioms C03_fenced_body_reads_back
#print axioms C03_fenced_body_reads_back_plain
#print axioms C03_fenced_keeps_open_reference
#print axioms C03_fenced_excluded_points
