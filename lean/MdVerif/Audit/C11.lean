import MdVerif.Props.C11

#print axioms MdVerif.Instance.C11_reset_eq_fresh
#print axioms MdVerif.Instance.C11_reset_is_fresh
#print axioms MdVerif.Instance.C11_reset_fresh
#print axioms MdVerif.Instance.C11_reset_fresh_state
#print axioms MdVerif.Instance.C11_reset_fresh_future
#print axioms MdVerif.Instance.C11_reset_fresh_docs
#print axioms MdVerif.Instance.C11_history_irrelevant
#print axioms MdVerif.Instance.C11_reset_depends_on_cfg_only
#print axioms MdVerif.Instance.C11_leak_balanced
#print axioms MdVerif.Instance.C11_instances_disjoint
#print axioms MdVerif.Instance.C11_other_instances_frame
#print axioms MdVerif.Instance.C11_two_instances
#print axioms MdVerif.Instance.Toy.toy_balanced
#print axioms MdVerif.Instance.C11_repair_conservative
#print axioms MdVerif.Instance.C11_before_repair_reset_fresh
#print axioms MdVerif.Instance.Toy.C11_before_repair_noraise_needed
