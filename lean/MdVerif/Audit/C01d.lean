import MdVerif.Props.C01d

#print axioms MdVerif.DocParse.C01_list_get_items
#print axioms MdVerif.DocParse.C01_list_recognised
#print axioms MdVerif.DocParse.C01_list_effect
#print axioms MdVerif.DocParse.C01_loose_routing
#print axioms MdVerif.DocParse.C01_loose_next_item
#print axioms MdVerif.DocParse.C01_loose_effect
#print axioms MdVerif.DocParse.C01_tree_inline
#print axioms MdVerif.DocParse.C01_tree_render
#print axioms MdVerif.DocParse.C01_list
#print axioms MdVerif.DocParse.C01_ulist_tight_flat
#print axioms MdVerif.DocParse.C01_olist_tight_flat
#print axioms MdVerif.DocParse.C01_list_tight_nested
#print axioms MdVerif.DocParse.C01_list_loose
#print axioms MdVerif.DocParse.C01_list_covers_quote
