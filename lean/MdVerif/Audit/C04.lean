import MdVerif.Props.C04

#print axioms MdVerif.Extract.C04_block_once
#print axioms MdVerif.Extract.C04_block_hidden
#print axioms MdVerif.Extract.C04_stack_empty_outside_raw
#print axioms MdVerif.Extract.C04_block_glued
#print axioms MdVerif.Extract.C04_content_nested
#print axioms MdVerif.Extract.C04_empty_once
#print axioms MdVerif.Extract.C04_hr_once
#print axioms MdVerif.Extract.C04_inline_data
#print axioms MdVerif.Extract.C04_inline_text
#print axioms MdVerif.Extract.C04_restore_block
#print axioms MdVerif.Extract.C04_restore_bare
#print axioms MdVerif.Extract.C04_isBlockLevel_of_tag
