import MdVerif.Props.C10XFn
import MdVerif.Props.C10XFnLeak

#print axioms MdVerif.NoCtlXF.C10X_inline_stage_footnotes
#print axioms MdVerif.NoCtlXF.C10X_partial_footnotes
#print axioms MdVerif.NoCtlXF.C10X_leak_token_abbr
#print axioms MdVerif.NoCtlXF.C10X_leak_footnote_body_abbr
