import MdVerif.Props.C10X

open MdVerif.NoCtlX

#print axioms C10X_inline_engine
#print axioms C10X_nl_entry
#print axioms C10X_wikilink_entry
#print axioms C10X_footnote_entry
#print axioms C10X_inline_ids_bounded
#print axioms C10X_inline_all_visited_run
#print axioms C10X_partial_inline_flags
#print axioms C10X_partial_nl2br
#print axioms C10X_blank_wikilink_leak
