import MdVerif.Props.C10X

open MdVerif.NoCtlX

#print axioms C10X_inline_engine
#print axioms C10X_inline_ids_bounded
#print axioms C10X_nl_entry
#print axioms C10X_inline_all_visited_run
#print axioms C10X_partial_nl2br
