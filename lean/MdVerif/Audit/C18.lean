import MdVerif.Props.C18
#print axioms MdVerif.Dispatch.C18_dispatch_first
#print axioms MdVerif.Dispatch.C18_run_false_falls_through
#print axioms MdVerif.Dispatch.C18_dispatch_none
#print axioms MdVerif.Dispatch.C18_order_is_priority_order
#print axioms MdVerif.Dispatch.C18_core_inline_order
#print axioms MdVerif.Dispatch.C18_core_block_order
#print axioms MdVerif.Dispatch.C18_core_stage_order
