import MdVerif.Props.C16RenderWiki

#print axioms MdVerif.WikiDoc.C16_wiki_found
#print axioms MdVerif.WikiDoc.C16_wiki_element
#print axioms MdVerif.WikiDoc.C16_wiki_core_patterns
#print axioms MdVerif.WikiDoc.C16_wikilink_renders
