import MdVerif.Props.C11X
open MdVerif.InstanceX
#print axioms C11X_reset_fresh
#print axioms C11X_reset_fresh_history
#print axioms C11X_fresh_is_convertX
#print axioms C11X_convert_after_reset
#print axioms C11X_convert_after_reset_outcomes
#print axioms C11X_reset_each
#print axioms C11X_blank_keeps_state
#print axioms C11X_untracked_is_ood
#print axioms C11X_tracked_iff_ok
#print axioms C11X_no_reset_leak
#print axioms C11X_tables_grow
#print axioms C11X_tables_grow_history
#print axioms C11X_references_persist
#print axioms C11X_block_tree_no_leak
#print axioms C11X_block_tree_fresh
#print axioms C11X_machine_run
#print axioms C11X_abstract_reset_fresh
#print axioms C11X_instances_disjoint
#print axioms C11X_side_outputs_not_read
#print axioms C11X_convert_after_reset_full
#print axioms C11X_reset_side_outputs
#print axioms C11X_block_parse_exact
#print axioms C11X_tables_exact
#print axioms C11X_references_exact
