import MdVerif.Props.C05X
open MdVerif.C05

#print axioms C05X_tree_vocab
#print axioms C05X_tree_vocab_node
#print axioms C05X_core
#print axioms C05X_single_flags
#print axioms C05X_vocab_mono
#print axioms C05X_flag_needed_tables
#print axioms C05X_flag_needed_deflist_admonition
#print axioms C05X_flag_needed_footnotes
#print axioms C05X_flag_needed_inline
#print axioms C05X_attr_list_keys
#print axioms C05X_attr_list_assign
#print axioms C05X_attr_list_not_names
#print axioms C05X_names
#print axioms C05X_roundtrip
