/- Axiom audit of `Props/C10XC.lean` (allowed: propext, Classical.choice, Quot.sound). -/
import MdVerif.Props.C10XC

open MdVerif.NoCtlXC
#print axioms C10XC_inline_ids_bounded
#print axioms C10XC_inline_all_visited_run
#print axioms C10X_partial_inline_flags_links
#print axioms C10XC_domain_widens
