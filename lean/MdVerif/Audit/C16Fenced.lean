import MdVerif.Props.C16Fenced

#print axioms MdVerif.Fenced.C16_fenced_inert
#print axioms MdVerif.Fenced.C16_fenced_inert_linestart
#print axioms MdVerif.Fenced.C16_fenced_preserves_outside
#print axioms MdVerif.Fenced.C16_fenced_preserves_outside_base
#print axioms MdVerif.Fenced.C16_fencedRunA_extends
#print axioms MdVerif.Fenced.C16_fencedRunA_total
