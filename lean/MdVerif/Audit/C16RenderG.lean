import MdVerif.Props.C16RenderG

open MdVerif.RenderG
#print axioms C16_footnotes_anywhere
#print axioms C16_footnote_mid
#print axioms C16_footnote_twice
#print axioms C16_footnote_two
#print axioms C16_footnote_two_swapped
#print axioms C16_admonition_paragraphs
#print axioms C16_admonition_two_paragraphs
#print axioms C16_admonition_between_paragraphs
#print axioms C16_paragraph_admonition_paragraph
#print axioms C16_deflist_groups
#print axioms C16_deflist_continued
#print axioms C16_deflist_two_groups
#print axioms C16_deflist_then_paragraphs
#print axioms C16_deflist_then_paragraph
#print axioms C16_deflist_in_blockquote
#print axioms C16_deflist_in_blockquote_one
#print axioms C16_admonition_in_blockquote
#print axioms C16_admonition_in_blockquote_one
#print axioms C16_admonition_nested
#print axioms C16_footnotes_paragraphs
#print axioms C16_footnotes_definitions_anywhere
#print axioms C16_footnotes_definitions_first
