import MdVerif.Props.C01f

/-! Axiom audit of the C01 theorems on nested documents with nested emphasis. -/
#print axioms MdVerif.DocNest2.C01_full_tree_inline
#print axioms MdVerif.DocNest2.C01_full_skip
#print axioms MdVerif.DocNest2.C01_full_tree_render
#print axioms MdVerif.DocNest2.C01_full_print
#print axioms MdVerif.DocNest2.C01_nest_full
#print axioms MdVerif.DocNest2.C01_full_spelling
#print axioms MdVerif.DocNest2.C01_full_covers_nest
#print axioms MdVerif.DocNest2.C01_full_covers_deep2
