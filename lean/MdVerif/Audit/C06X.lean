import MdVerif.Props.C06X

open MdVerif.C06X

#print axioms C06X_saneOList_conserves
#print axioms C06X_saneUList_conserves
#print axioms C06X_footnote_inert
#print axioms C06X_abbr_inert
#print axioms C06X_dispatch_conserves
#print axioms C06X_parseBlocks_conserves
#print axioms C06X_block_stage
#print axioms C06X_admonition_conserves
#print axioms C06X_table_conserves
#print axioms C06X_table_row_cells
#print axioms C06X_unused
