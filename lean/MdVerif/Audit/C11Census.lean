import MdVerif.Props.C11Census

#print axioms MdVerif.Census.C11_reset_calls
#print axioms MdVerif.Census.C11_reset_fields
#print axioms MdVerif.Census.C11_conversion_writes_are_reset
#print axioms MdVerif.Census.C11_conversion_writes_are_reset'
#print axioms MdVerif.Census.C11_all_owners_resolved
#print axioms MdVerif.Census.C11_reinit_sites_present
#print axioms MdVerif.Census.C11_per_run_objects_constructed_per_run
#print axioms MdVerif.Census.C11_leak_constructed_once
#print axioms MdVerif.Census.C11_store_tag_not_called
#print axioms MdVerif.Census.C11_reset_other
#print axioms MdVerif.Census.C11_allow_lists_not_stale
#print axioms MdVerif.Census.C12_no_unlisted_shared_write
#print axioms MdVerif.Census.C12_memo_cells
#print axioms MdVerif.Census.C12_external_bases
#print axioms MdVerif.Census.C12_no_package_class_unresolved
#print axioms MdVerif.Census.C12_shared_allow_not_stale
