import MdVerif.Props.C08
#print axioms MdVerif.C08.C08_normalize_split
#print axioms MdVerif.C08.C08_normalize_ends
#print axioms MdVerif.C08.C08_counter_cr
#print axioms MdVerif.C08.C08_block_trees_plain
#print axioms MdVerif.C08.C08_block_half
#print axioms MdVerif.C08.C08_partial
#print axioms MdVerif.C08.C08
#print axioms MdVerif.C08.C08_empty_A
