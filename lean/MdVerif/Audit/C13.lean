import MdVerif.Props.C13

#print axioms MdVerif.Registry.C13_view_sorted
#print axioms MdVerif.Registry.C13_view_perm
#print axioms MdVerif.Registry.C13_view_stable
#print axioms MdVerif.Registry.C13_refinement
#print axioms MdVerif.Registry.C13_dump
#print axioms MdVerif.Registry.C13_names_nodup
#print axioms MdVerif.Registry.C13_register_log
#print axioms MdVerif.Registry.C13_deregister_log
#print axioms MdVerif.Registry.C13_deregister_unknown
