import MdVerif.Props.C02Inline

#print axioms MdVerif.Inline.C02_match_begins_with_trigger
#print axioms MdVerif.Inline.C02_build_total
#print axioms MdVerif.Inline.C02_applyPattern_progress
#print axioms MdVerif.Inline.C02_hiLoop_total
#print axioms MdVerif.Inline.C02_handleInline_total_depth
#print axioms MdVerif.Inline.C02_handleInline_total
#print axioms MdVerif.Inline.C02_processPlaceholders_total
#print axioms MdVerif.Inline.C02_stash_ids_increasing
#print axioms MdVerif.Inline.C02_handleInline_keeps_ids_increasing
#print axioms MdVerif.Inline.C02_no_stx_no_ids
#print axioms MdVerif.Inline.C02_visit_total_partial
#print axioms MdVerif.Inline.C02_run_fuel_mono
#print axioms MdVerif.Inline.C02_visitLoop_fuel_mono
#print axioms MdVerif.Post.C02_rawHtml_total
#print axioms MdVerif.Post.C02_rawHtml_one_pass
#print axioms MdVerif.TreeProc.C02_unescape_raises_iff
#print axioms MdVerif.TreeProc.C02_unescapeTree_total_iff
#print axioms MdVerif.TreeProc.C02_unescape_total_no_stx
#print axioms MdVerif.TreeProc.C02_escape_entry_roundtrip
