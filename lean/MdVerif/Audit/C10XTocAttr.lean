import MdVerif.Props.C10XTocAttr

open MdVerif.NoCtlX

#print axioms C10X_partial_toc_attr_list
