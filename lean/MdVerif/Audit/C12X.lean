import MdVerif.Props.C12X

#print axioms MdVerif.ThreadsX.C12X_thread_is_sequential
#print axioms MdVerif.ThreadsX.C12X_outputs_prefix
#print axioms MdVerif.ThreadsX.C12X_outputs_eq_sequential
#print axioms MdVerif.ThreadsX.C12X_allDone_iff
#print axioms MdVerif.ThreadsX.C12X_all_outputs_eq_sequential
#print axioms MdVerif.ThreadsX.C12X_schedule_independent
#print axioms MdVerif.ThreadsX.C12X_schedule_independent_outputs
#print axioms MdVerif.ThreadsX.C12X_interleaving_eq_sequential
#print axioms MdVerif.ThreadsX.C12X_complete_schedules_agree
#print axioms MdVerif.ThreadsX.C12X_steps_commute
#print axioms MdVerif.ThreadsX.C12X_shared_untouched
#print axioms MdVerif.ThreadsX.C12X_fresh_reset_each
#print axioms MdVerif.ThreadsX.C12X_reset_before_each
#print axioms MdVerif.ThreadsX.C12X_convert_after_reset
#print axioms MdVerif.ThreadsX.C12X_first_convert_fresh
#print axioms MdVerif.ThreadsX.C12X_meta_thread_is_sequential
#print axioms MdVerif.ThreadsX.C12X_meta_outputs_eq_sequential
#print axioms MdVerif.ThreadsX.C12X_world_thread_is_local
#print axioms MdVerif.ThreadsX.C12X_world_outputs_eq_sequential
#print axioms MdVerif.ThreadsX.C12X_world_finished_eq_sequential
#print axioms MdVerif.ThreadsX.C12X_world_invariant
#print axioms MdVerif.ThreadsX.C12X_shared_instance_counterexample
#print axioms MdVerif.ThreadsX.C12X_shared_instance_order_dependent
#print axioms MdVerif.ThreadsX.Examples.sequential_outputs
#print axioms MdVerif.ThreadsX.Examples.interleaved_outputs
#print axioms MdVerif.ThreadsX.WorldExample.interleaved_outputs
