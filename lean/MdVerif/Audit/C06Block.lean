import MdVerif.Props.C06Block

open MdVerif.Letters

#print axioms C06_empty_conserves
#print axioms C06_indent_conserves
#print axioms C06_code_conserves
#print axioms C06_hash_conserves
#print axioms C06_setext_conserves
#print axioms C06_hr_conserves
#print axioms C06_olist_conserves
#print axioms C06_ulist_conserves
#print axioms C06_quote_conserves
#print axioms C06_reference_inert
#print axioms C06_paragraph_conserves
#print axioms C06_dispatch_conserves
#print axioms C06_parseBlocks_conserves
#print axioms C06_inv_start
#print axioms C06_parseDocument_conserves
#print axioms C06_parseDocumentWith_conserves
