import MdVerif.Props.C04Text

#print axioms MdVerif.HtmlTok.C04_text_domain
#print axioms MdVerif.HtmlTok.C04_text_block_once
#print axioms MdVerif.HtmlTok.C04_text_block_state
#print axioms MdVerif.HtmlTok.C04_text_inline_verbatim
#print axioms MdVerif.HtmlTok.C04_convertH_agrees
#print axioms MdVerif.HtmlTok.C04_text_ltfree
#print axioms MdVerif.HtmlTok.C04_text_end_to_end
#print axioms MdVerif.HtmlTok.C04_text_end_to_end_para
#print axioms MdVerif.HtmlTok.C04_text_end_to_end_pieces
#print axioms MdVerif.HtmlTok.C04_text_unit_once
#print axioms MdVerif.HtmlTok.C04_text_comment_once
#print axioms MdVerif.HtmlTok.C04_text_pi_once
#print axioms MdVerif.HtmlTok.C04_text_doctype_once
#print axioms MdVerif.HtmlTok.C04_text_hr_once
#print axioms MdVerif.HtmlTok.C04_text_selfclose_once
#print axioms MdVerif.HtmlTok.C04_text_end_to_end_unit
#print axioms MdVerif.HtmlTok.C04_text_end_to_end_comment
#print axioms MdVerif.HtmlTok.C04_text_end_to_end_pi
#print axioms MdVerif.HtmlTok.C04_text_end_to_end_anywhere
#print axioms MdVerif.HtmlTok.C04_text_block_alone
#print axioms MdVerif.HtmlTok.C04_text_end_to_end_unit_anywhere
#print axioms MdVerif.HtmlTok.C04_text_many_once
#print axioms MdVerif.HtmlTok.C04_neg_indented_under_text
#print axioms MdVerif.HtmlTok.C04_neg_tail_entity_moves
#print axioms MdVerif.HtmlTok.C04_neg_tail_entity_glued
#print axioms MdVerif.HtmlTok.C04_text_domain_lex
