import MdVerif.Props.C04Text

#print axioms MdVerif.HtmlTok.C04_text_domain
#print axioms MdVerif.HtmlTok.C04_text_block_once
#print axioms MdVerif.HtmlTok.C04_text_block_state
#print axioms MdVerif.HtmlTok.C04_text_inline_verbatim
#print axioms MdVerif.HtmlTok.C04_convertH_agrees
#print axioms MdVerif.HtmlTok.C04_text_ltfree
