import MdVerif.Props.C01b

#print axioms MdVerif.DocParse2.C01b_render_elems
#print axioms MdVerif.DocParse2.C01b_code_elem
#print axioms MdVerif.DocParse2.C01b_leaf_elem
#print axioms MdVerif.DocParse2.C01b_parse_pieces
#print axioms MdVerif.DocParse2.C01b_code_piece
#print axioms MdVerif.DocParse2.C01_code_block
#print axioms MdVerif.DocParse2.C01_flat_code
#print axioms MdVerif.DocParse2.C01b_backtick_pass
#print axioms MdVerif.DocParse2.C01b_span_elem
#print axioms MdVerif.DocParse2.C01b_span_line
#print axioms MdVerif.DocParse2.C01_code_span
#print axioms MdVerif.DocParse2.C01b_em_match
#print axioms MdVerif.DocParse2.C01b_em_loop
#print axioms MdVerif.DocParse2.C01b_em_elem
#print axioms MdVerif.DocParse2.C01b_em_line
#print axioms MdVerif.DocParse2.C01b_em_print
#print axioms MdVerif.DocParse2.C01_em_strong
#print axioms MdVerif.DocParse2.C01b_mix_loop
#print axioms MdVerif.DocParse2.C01b_mix_elem
#print axioms MdVerif.DocParse2.C01b_mix_print
#print axioms MdVerif.DocParse2.C01b_mix_contains
#print axioms MdVerif.DocParse2.C01_inline_mix
