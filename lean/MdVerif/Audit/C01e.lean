import MdVerif.Props.C01e

open MdVerif.DocNest

#print axioms C01_nest_tree_inline
#print axioms C01_nest_tree_render
#print axioms C01_nest_tight_effect
#print axioms C01_nest_chunk_to_hole
#print axioms C01_nest_block_in_hole
#print axioms C01_nest_quote_one_chunk
#print axioms C01_nest_quote_chunks
#print axioms C01_nest_print
#print axioms C01_nest
#print axioms C01_nest_covers_listMix
#print axioms C01_list_inline
#print axioms C01_nest_covers_quoteList
#print axioms C01_quote_list
