import MdVerif.Props.C16Tables

#print axioms MdVerif.Tables.C16_row_width
#print axioms MdVerif.Tables.C16_row_cells
#print axioms MdVerif.Tables.C16_table_width
#print axioms MdVerif.Tables.C16_plain_is_escCell
#print axioms MdVerif.Tables.C16_escCellB_sound
#print axioms MdVerif.Tables.C16_no_pipe_plain
#print axioms MdVerif.Tables.C16_split_plain
#print axioms MdVerif.Tables.C16_escaped_pipe
#print axioms MdVerif.Tables.C16_bordered_row
#print axioms MdVerif.Tables.C16_end_border_keeps_backslashes
#print axioms MdVerif.Tables.C16_code_pipe
#print axioms MdVerif.Tables.C16_align
#print axioms MdVerif.Tables.C16_align_center0
#print axioms MdVerif.Tables.C16_align_columns
