import MdVerif.Props.C01Spec

#print axioms MdVerif.DocSpec.C01_spec_spelling_free
#print axioms MdVerif.DocSpec.C01_spec_append
#print axioms MdVerif.DocSpec.C01_print_no_tab_cr
#print axioms MdVerif.DocSpec.C01_print_clean
