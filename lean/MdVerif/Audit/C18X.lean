import MdVerif.Props.C18X

open MdVerif.C18X

#print axioms C18X_atomic_untouched_runX
#print axioms C18X_atomic_everywhere_runX
#print axioms C18X_stage_order
#print axioms C18X_treeX_runs_in_registry_order
#print axioms C18X_postX_runs_in_registry_order
#print axioms C18X_abbr_keeps_atomic
#print axioms C18X_unescape_atomic
#print axioms C18X_attr_list_reads_atomic_text
#print axioms C18X_attr_list_reads_atomic_child_tail
#print axioms C18X_attr_list_reads_atomic_tail
#print axioms C18X_attr_list_keeps_atomic
#print axioms C18X_attr_list_only_loses
#print axioms C18X_attr_list_keeps_atomic_no_brace
#print axioms C18X_attr_list_witness
#print axioms C18X_toc_replaces_marker_element
#print axioms C18X_toc_keeps_atomic
#print axioms C18X_toc_witness
#print axioms C18X_footnotes_place_marker
#print axioms C18X_footnotes_keeps_atomic
#print axioms C18X_footnotes_witness
#print axioms C18X_convertX_from_prepared
#print axioms C18X_stash_roundtrip
#print axioms C18X_stash_roundtrip_exact
#print axioms C18X_stash_roundtrip_inline
#print axioms C18X_stash_roundtrip_needs_no_stx
