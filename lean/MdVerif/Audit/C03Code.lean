import MdVerif.Props.C03Code

#print axioms MdVerif.Code.C03_codeEscape_onepass
#print axioms MdVerif.Code.C03_fenceEscape_onepass
#print axioms MdVerif.Code.C03_escape_once
#print axioms MdVerif.Code.C03_code_reads_back
#print axioms MdVerif.Code.C03_code_reads_back_strict
#print axioms MdVerif.Code.C03_serialized_code_reads_back
#print axioms MdVerif.Code.C03_codeEscape_no_markup
#print axioms MdVerif.Code.C03_codeEscape_injective
#print axioms MdVerif.Fenced.C03_fenceEscape_no_markup
#print axioms MdVerif.Fenced.C03_fence_code_reads_back
#print axioms MdVerif.Fenced.C03_fenceEscape_injective
#print axioms MdVerif.Fenced.C03_fence_body_literal
#print axioms MdVerif.Fenced.C03_fencedRun_literal
#print axioms MdVerif.Fenced.C03_fence_match_bounds
#print axioms MdVerif.Fenced.C03_fencedRun_progress
