import MdVerif.Props.C02Fn

#print axioms MdVerif.C02Fn.C02_stx_token_invariant_fn
#print axioms MdVerif.C02Fn.C02_token_invariant_weakens
#print axioms MdVerif.C02Fn.C02_unescape_never_raises_fn
#print axioms MdVerif.C02Fn.C02_footnote_treeprocessor_tokens
#print axioms MdVerif.C02Fn.C02_footnote_duplicates_tokens
#print axioms MdVerif.C02Fn.C02_footnote_duplicates_never_raises
#print axioms MdVerif.C02Fn.C02_dupOk
#print axioms MdVerif.C02Fn.C02_treeXBig_rootDiv_footnotes
#print axioms MdVerif.C02Fn.C02_convertXBig_never_err_footnotes
#print axioms MdVerif.C02Fn.C02_convertXBig_ok_footnotes
#print axioms MdVerif.C02Fn.C02_convertX_ok_or_stack_fuel_footnotes
#print axioms MdVerif.C02Fn.C02_tocRun_clean
#print axioms MdVerif.C02Fn.C02_postX_identity
#print axioms MdVerif.C02Fn.C02_treeXBig_rootDiv_all
#print axioms MdVerif.C02Fn.C02_convertXBig_never_err_all_partial
#print axioms MdVerif.C02Fn.C02_convertXBig_ok_toc_partial
#print axioms MdVerif.C02Fn.C02_convertXBig_ok_all_partial
#print axioms MdVerif.C02Fn.C02_domain_without_toc
#print axioms MdVerif.C02Fn.C02_convertX_ok_or_stack_fuel_all_partial
