import MdVerif.Props.C05Full
open MdVerif.C05

#print axioms C05_inline_stx_invariant
#print axioms C05_tree_no_stx_a
#print axioms C05_no_amp_substitute
#print axioms C05_escTwo_default
#print axioms C05_full
#print axioms C05_full_default
#print axioms C05_full_total
