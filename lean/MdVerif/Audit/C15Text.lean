import MdVerif.Props.C15Text

open MdVerif.RefText

#print axioms C15_resolves_last
#print axioms C15_label_variant_doc
#print axioms C15_title_styles
#print axioms C15_undefined_literal_doc
#print axioms C15_undefined_other_labels
#print axioms C15_escCdata_id
#print axioms C15_text_markup
#print axioms C15_specUses_spec
#print axioms C15_link_text_markup
#print axioms C15_noref_of_start
#print axioms C15_mix_line
#print axioms C15_mix_loop
#print axioms C15_label_linebreak
#print axioms C15_label_linebreak_variant
#print axioms C15_useOfDef_lookup
#print axioms C15_text_markup_defs
#print axioms C15_text_markup_fmt
#print axioms C15_text_markup_defs_fmt
#print axioms C15_specUsesF_spec
#print axioms C15_aOpenF_plain
#print axioms C15_specUsesF_xhtml
#print axioms C15_mix_line_fmt
#print axioms C15_document
#print axioms C15_document_spec
#print axioms C15_document_ok
#print axioms C15_document_pieces
#print axioms C15_linePiece
