import MdVerif.Props.C16BlockExt

#print axioms MdVerif.BlockExt.C16_core_cfg
#print axioms MdVerif.BlockExt.C16_core_cfg_document
#print axioms MdVerif.BlockExt.C16_indentPX_core
#print axioms MdVerif.BlockExt.C16_listPX_default
#print axioms MdVerif.BlockExt.C16_inert_footnotes_log
#print axioms MdVerif.BlockExt.C16_inert_footnotes
#print axioms MdVerif.BlockExt.C16_inert_abbr_log
#print axioms MdVerif.BlockExt.C16_inert_abbr
#print axioms MdVerif.BlockExt.C16_inert_admonition_log
#print axioms MdVerif.BlockExt.C16_inert_admonition
#print axioms MdVerif.BlockExt.C16_inert_defList_log
#print axioms MdVerif.BlockExt.C16_inert_defList
#print axioms MdVerif.BlockExt.C16_inert_saneLists_log
#print axioms MdVerif.BlockExt.C16_inert_saneLists
#print axioms MdVerif.BlockExt.C16_inert_footnotes_blocks
#print axioms MdVerif.BlockExt.C16_inert_abbr_blocks
#print axioms MdVerif.BlockExt.C16_inert_all
