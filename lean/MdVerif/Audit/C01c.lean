import MdVerif.Props.C01c

#print axioms MdVerif.DocParse.C01_quote_recognised
#print axioms MdVerif.DocParse.C01_quote_cleaned
#print axioms MdVerif.DocParse.C01_quote_chunk_new
#print axioms MdVerif.DocParse.C01_quote_chunk_merge
#print axioms MdVerif.DocParse.C01_quote_block_stage
#print axioms MdVerif.DocParse.C01_quote_inline_stage
#print axioms MdVerif.DocParse.C01_quote_render
#print axioms MdVerif.DocParse.C01_quote
#print axioms MdVerif.DocParse.C01_quote_covers_flat
