import MdVerif.Props.C01h

/-! Axiom audit of the C01 theorems on paragraphs with inline links. -/
#print axioms MdVerif.DocLink.C01h_link_print
#print axioms MdVerif.DocLink.C01h_bracket_line
#print axioms MdVerif.DocLink.C01h_link_elem
#print axioms MdVerif.DocLink.C01h_link_out
#print axioms MdVerif.DocLink.C01_link_covers_br
#print axioms MdVerif.DocLink.C01_inline_links
#print axioms MdVerif.DocLink.C01_link_spelling
#print axioms MdVerif.DocLink.C01h_wf_gap
