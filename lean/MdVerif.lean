import MdVerif.Model.Registry
