#!/bin/sh
# run every claimed check (quick tier unless VERIF_TIER is set) on the current tree; 4 at a time
cd "$(dirname "$0")"
ids=$(/venv/bin/python -c "import json;print(' '.join(c['property_id'] for c in json.load(open('MANIFEST.json'))['checks']))")
echo $ids | tr ' ' '\n' | xargs -P 4 -I{} sh -c './check {} > /tmp/check_{}.log 2>&1; echo "{} rc=$?"; grep -h "^VIOLATION\|^\[" /tmp/check_{}.log'
