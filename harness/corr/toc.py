"""Correspondence of the C17 models (lean/MdVerif/Model/Ext/Toc.lean, Footnotes.lean; ops in lean/Driver/TocOps.lean)
with the implementation: `markdown.extensions.toc.IDCOUNT_RE`, `unique`, `nest_toc_tokens`, the ids / toc of real
documents converted with `toc` + `attr_list`, and the ids / hrefs of real documents converted with `footnotes`.

    run(driver, rng, n) -> {'cases', 'distinct', 'disagreements': [{op, input, model, impl}], 'samples', 'dist'}

`driver` has `ask_many([(op, arg, ...), ...]) -> [answer, ...]` (harness/proto.py `Driver`), `rng` is a
`random.Random`, `n` the budget of random cases (the exhaustive parts do not depend on it, except that level
sequences of length 6 are included when n >= 10000).
"""
from __future__ import annotations
import itertools, os, re, sys

sys.path.insert(0, os.path.dirname(os.path.dirname(os.path.abspath(__file__))))
from proto import enc_str, dec_str, enc_list, dec_list  # noqa: E402

import markdown  # noqa: E402
from markdown.extensions.toc import IDCOUNT_RE, unique, nest_toc_tokens, slugify  # noqa: E402

ID_POOL = ['a', 'a_1', 'a_01', '_1', '', 'a_1_1', 'a\n', 'a_1\n', 'a\nb', 'a\nb_1', 'a_2', '_2', 'a_1_2', 'a_9',
           'a_10', 'a_09', 'a_', '_', '1', 'a_1\n\n', 'a_٣', 'b', 'a_1_', '__1', 'a_2\n', '\n', '_1\n', 'a_1_1\n']
IDC_ALPHA = 'a_01\n9x٣'


# ------------------------------------------------------------------ implementation side
def impl_idcount(s):
    m = IDCOUNT_RE.match(s)
    return 'N' if not m else enc_str(m.group(1)) + '|' + enc_str(m.group(2))


def impl_unique(i, ids):
    return enc_str(unique(i, set(ids)))


def impl_assign(used, hs):
    used = set(used)
    out = []
    for kind, s in hs:
        out.append(s if kind == 'P' else unique(s, used))
    return enc_list(out)


def render(tree):
    return ','.join(str(t['level']) + ('(' + render(t['children']) + ')' if t['children'] else '') for t in tree)


def parents_of(tree, n):
    out = {}

    def go(lst, par):
        for t in lst:
            out[t['idx']] = par
            go(t['children'], t['idx'])
    go(tree, None)
    return ','.join('N' if out[i] is None else str(out[i]) for i in range(n))


def impl_nest(levels):
    tree = nest_toc_tokens([{'level': l, 'idx': i} for i, l in enumerate(levels)])
    return render(tree), parents_of(tree, len(levels))


# ------------------------------------------------------------------ real toc documents
H_NAMES = ['a', 'b', 'a 1', 'a_1', '!', 'a-1', '1', 'a_01']
PRESETS = ['a', 'a_1', 'a_2', 'b', 'x', '_1', 'a-1']


def gen_toc_doc(rng):
    """blocks: ('h', level, name, preset|None) or ('p', preset)"""
    blocks = []
    for _ in range(rng.randint(1, 6)):
        if rng.random() < 0.2:
            blocks.append(('p', rng.choice(PRESETS)))
        else:
            blocks.append(('h', rng.randint(1, 6), rng.choice(H_NAMES), rng.choice(PRESETS) if rng.random() < 0.25 else None))
    return blocks


def toc_doc_source(blocks):
    out = []
    for b in blocks:
        if b[0] == 'p':
            out.append('text\n{: #%s }' % b[1])
        else:
            out.append('#' * b[1] + ' ' + b[2] + (' {: #%s }' % b[3] if b[3] is not None else ''))
    return '\n\n'.join(out)


def tokens_render(tree):
    return ','.join(str(t['level']) + ('(' + tokens_render(t['children']) + ')' if t['children'] else '') for t in tree)


def impl_toc_doc(src):
    md = markdown.Markdown(extensions=['toc', 'attr_list'])
    html = md.convert(src)
    hs = re.findall(r'<h([1-6]) id="([^"]*)"', html)
    hrefs = re.findall(r'<a href="([^"]*)"', md.toc)
    # nesting as serialized: count <ul>/<\/ul> structure
    return [h[1] for h in hs], hrefs, tokens_render(md.toc_tokens), ul_structure(md.toc)


def ul_structure(toc_html):
    """the nesting of the serialized toc as `x(x(x),x)` with one `x` per link"""
    out = []
    for tok in re.findall(r'<ul>|</ul>|<li>|</li>', toc_html):
        out.append(tok)
    # build from li/ul events
    s = ''
    depth_first = []
    for tok in out:
        if tok == '<ul>':
            depth_first.append(True)
            if len(depth_first) > 1: s += '('
        elif tok == '</ul>':
            depth_first.pop()
            if depth_first: s += ')'
        elif tok == '<li>':
            if not depth_first[-1]: s += ','
            depth_first[-1] = False
            s += 'x'
    return s


# ------------------------------------------------------------------ real footnote documents
FN_IDS = ['a', 'b', '1', 'a:b', 'x-1']


def gen_fn_doc(rng):
    ids = FN_IDS[:rng.randint(1, len(FN_IDS))]
    defs = [i for i in ids if rng.random() < 0.75]
    rng.shuffle(defs)
    paras = [[rng.choice(ids) for _ in range(rng.randint(0, 4))] for _ in range(rng.randint(1, 3))]
    bodies = []
    for d in defs:
        r = rng.random()
        if r < 0.2: bodies.append(('', []))
        elif r < 0.75: bodies.append(('note', []))
        else:
            us = [rng.choice(ids) for _ in range(rng.randint(1, 2))]
            bodies.append(('see', us))
    return defs, paras, bodies


def fn_doc_source(defs, paras, bodies):
    out = []
    for p in paras:
        out.append('para' + ''.join(' w[^%s]' % u for u in p))
    for d, (word, us) in zip(defs, bodies):
        out.append(('[^%s]: %s' % (d, word + ''.join(' w[^%s]' % u for u in us))).rstrip())
    return '\n\n'.join(out)


def impl_fn_doc(src):
    html = markdown.markdown(src, extensions=['footnotes'])
    sups = re.findall(r'<sup id="([^"]*)"><a class="footnote-ref" href="([^"]*)"', html)
    lis = []
    for li_id, body in re.findall(r'<li id="([^"]*)">(.*?)</li>', html, re.S):
        lis.append((li_id, re.findall(r'<a class="footnote-backref" href="([^"]*)"', body)))
    return sups, lis


def fn_processing_order(defs, paras, bodies):
    """inline phase: the paragraphs in order, then (stack traversal of `InlineProcessor.run`) the `li`s last to
    first.  Returns the uses in processing order and the groups needed to map back to document order."""
    para_uses = [u for p in paras for u in p]
    body_groups = [us for (_, us) in bodies]
    proc = para_uses + [u for g in reversed(body_groups) for u in g]
    return proc, para_uses, body_groups


def to_doc_order(items, defs, para_uses, body_groups):
    """`items`: model results for the *defined* uses in processing order → document order"""
    dset = set(defs)
    k = sum(1 for u in para_uses if u in dset)
    head, rest = items[:k], items[k:]
    chunks = []
    for g in reversed(body_groups):
        c = sum(1 for u in g if u in dset)
        chunks.append(rest[:c]); rest = rest[c:]
    out = list(head)
    for c in reversed(chunks): out += c
    return out


# ------------------------------------------------------------------ run
def run(driver, rng, n):
    reqs, expect, inputs = [], [], []

    def add(op, args, impl, inp):
        reqs.append((op,) + tuple(args)); expect.append(impl); inputs.append(inp)

    dist = {}

    def bump(k, c=1):
        dist[k] = dist.get(k, 0) + c

    # 1. IDCOUNT_RE: exhaustive up to length 4, random longer, the pool
    strs = [''.join(t) for L in range(0, 5) for t in itertools.product(IDC_ALPHA, repeat=L)]
    strs += ID_POOL
    for _ in range(max(200, n // 4)):
        strs.append(''.join(rng.choice(IDC_ALPHA) for _ in range(rng.randint(5, 10))))
    for s in strs:
        add('toc.idcount', [enc_str(s)], impl_idcount(s), s); bump('idcount')

    # 2. unique: every pool id against every pool subset of size <= 2, then random larger sets
    small_sets = [()] + [(a,) for a in ID_POOL] + list(itertools.combinations(ID_POOL, 2))
    for ids in small_sets:
        for i in ID_POOL:
            if len(ids) == 2 and rng.random() > 0.35: continue
            add('toc.unique', [enc_str(i), enc_list(ids)], impl_unique(i, ids), (i, ids)); bump('unique')
    for _ in range(max(300, n // 3)):
        base = rng.choice(['a', '', 'a\n', 'a\nb', 'b_1'])
        k = rng.randint(0, 9)
        ids = set(rng.sample(ID_POOL, rng.randint(0, 6)))
        # a run of consecutive counters so that the loop really iterates
        start = rng.choice([1, 1, 1, 2, 9, 99])
        ids |= {'%s_%d' % (base.rstrip('\n') if rng.random() < 0.5 else base, j) for j in range(start, start + k)}
        if rng.random() < 0.5: ids.add(base)
        ids = sorted(ids)
        i = rng.choice([base, base + '_1', base + '_01', base + '_%d' % start, rng.choice(ID_POOL)])
        add('toc.unique', [enc_str(i), enc_list(ids)], impl_unique(i, ids), (i, tuple(ids))); bump('unique')

    # 3. assignment over a heading list (slug = identity)
    for _ in range(max(200, n // 5)):
        used = sorted(set(rng.sample(ID_POOL, rng.randint(0, 4))))
        hs = [(('P' if rng.random() < 0.25 else 'G'), rng.choice(ID_POOL[:12])) for _ in range(rng.randint(1, 7))]
        add('toc.assign', [enc_list(used)] + [k + enc_str(s) for k, s in hs], impl_assign(used, hs), (tuple(used), tuple(hs)))
        bump('assign')

    # 4. nest_toc_tokens: all level sequences
    maxlen = 6 if n >= 10000 else 5
    for L in range(0, maxlen + 1):
        for lv in itertools.product(range(1, 7), repeat=L):
            r, p = impl_nest(lv)
            arg = ','.join(map(str, lv))
            add('toc.nest', [arg], r, lv); add('toc.parents', [arg], p, lv); bump('nest', 2)
    for _ in range(max(100, n // 10)):
        lv = tuple(rng.randint(1, 9) for _ in range(rng.randint(7, 14)))
        r, p = impl_nest(lv)
        arg = ','.join(map(str, lv))
        add('toc.nest', [arg], r, lv); add('toc.parents', [arg], p, lv); bump('nest-long', 2)

    # 5. real documents with toc + attr_list
    toc_docs = []
    for _ in range(max(150, n // 10)):
        blocks = gen_toc_doc(rng)
        src = toc_doc_source(blocks)
        ids, hrefs, tokr, ulr = impl_toc_doc(src)
        heads = [b for b in blocks if b[0] == 'h']
        used = sorted({b[1] for b in blocks if b[0] == 'p'} | {b[3] for b in heads if b[3] is not None})
        hs = [('P', b[3]) if b[3] is not None else ('G', slugify(b[2], '-')) for b in heads]
        add('toc.assign', [enc_list(used)] + [k + enc_str(s) for k, s in hs], enc_list(ids), src); bump('doc-ids')
        toc_docs.append((src, heads, ids, hrefs, tokr, ulr))
    # the links/nesting are asked with the implementation's ids (the id comparison is the case above)
    for src, heads, ids, hrefs, tokr, ulr in toc_docs:
        lv = ','.join(str(b[1]) for b in heads)
        add('toc.links', [lv, enc_list(ids)], enc_list(hrefs), src); bump('doc-links')
        add('toc.nest', [lv], tokr, src); bump('doc-nest')
        add('toc.nest', [lv], None, ('ul', src, ulr)); bump('doc-ul')

    # 6. real documents with footnotes
    fn_cases = []
    for _ in range(max(300, n // 4)):
        defs, paras, bodies = gen_fn_doc(rng)
        src = fn_doc_source(defs, paras, bodies)
        sups, lis = impl_fn_doc(src)
        proc, para_uses, groups = fn_processing_order(defs, paras, bodies)
        bits = ''.join('1' if (w or us) else '0' for (w, us) in bodies)
        fn_cases.append((src, defs, sups, lis, para_uses, groups))
        add('fn.refs', [enc_list(defs), enc_list(proc)], None, ('fn.refs', len(fn_cases) - 1)); bump('fn-refs')
        add('fn.backlinks', [enc_list(defs), enc_list(proc), bits],
            ' '.join(enc_str(i) + '=' + enc_list(h) for i, h in lis), src); bump('fn-backlinks')
        if not defs: bump('fn: no definition')
        if any(not (w or us) for w, us in bodies): bump('fn: empty body')
        if any(d not in proc for d in defs): bump('fn: unused footnote')
        if any(u not in defs for u in proc): bump('fn: undefined reference')
        if any(proc.count(d) > 1 for d in defs): bump('fn: repeated reference')

    answers = driver.ask_many(reqs)
    disagreements = []
    for req, exp, inp, ans in zip(reqs, expect, inputs, answers):
        op = req[0]
        if exp is None and isinstance(inp, tuple) and inp[0] == 'ul':
            # serialized <ul> nesting against the model's nesting (levels replaced by x)
            model = re.sub(r'[0-9]+', 'x', ans)
            if model != inp[2]:
                disagreements.append({'op': 'toc.nest/ul', 'input': inp[1], 'model': model, 'impl': inp[2]})
            continue
        if exp is None and isinstance(inp, tuple) and inp[0] == 'fn.refs':
            src, defs, sups, lis, para_uses, groups = fn_cases[inp[1]]
            a, b = ans.split(' ')
            model = list(zip(dec_list(a), dec_list(b)))
            model = to_doc_order(model, defs, para_uses, groups)
            if model != [tuple(x) for x in sups]:
                disagreements.append({'op': op, 'input': src, 'model': model, 'impl': sups})
            continue
        if ans != exp:
            disagreements.append({'op': op, 'input': inp, 'model': ans, 'impl': exp})
    samples = []
    for i in rng.sample(range(len(reqs)), min(12, len(reqs))):
        samples.append({'op': reqs[i][0], 'input': inputs[i] if not isinstance(inputs[i], tuple) or len(str(inputs[i])) < 200 else '…',
                        'model': answers[i]})
    return {'cases': len(reqs), 'distinct': len(set(reqs)), 'disagreements': disagreements, 'samples': samples,
            'dist': dist}


if __name__ == '__main__':
    import random
    from proto import Driver
    d = Driver(sys.argv[1] if len(sys.argv) > 1 else None)
    n = int(sys.argv[2]) if len(sys.argv) > 2 else 2000
    r = run(d, random.Random(17), n)
    d.close()
    print('cases', r['cases'], 'distinct', r['distinct'], 'disagreements', len(r['disagreements']))
    print('dist', r['dist'])
    for x in r['disagreements'][:15]: print(x)
    for s in r['samples'][:6]: print(s)
