"""Correspondence: model of util.Registry (driver op reg.run) vs the real class, observation by observation."""
import markdown.util as U

NAMES = ['a', 'b', 'c', 'd', 'e', 'f']
PRIOS = [-2, -1, -0.5, 0, 0.5, 1, 2, 10]     # exact binary fractions; sent as 2*p


class Item:
    """non-string item object (so that `in` means membership by item)"""
    def __init__(self, n): self.n = n
    def __eq__(self, o): return isinstance(o, Item) and o.n == self.n
    def __hash__(self): return hash(self.n)


def gen_history(rng, maxlen=40, names=NAMES, prios=PRIOS):
    ops = []
    k = rng.randint(1, maxlen)
    item = 0
    for _ in range(k):
        r = rng.random()
        if r < 0.40:
            item += 1
            ops.append(('R', item if rng.random() < 0.8 else rng.randint(1, max(1, item)), rng.choice(names), rng.choice(prios)))
        elif r < 0.52: ops.append(('D', rng.choice(names), rng.random() < 0.6))
        elif r < 0.62: ops.append(('I',))
        elif r < 0.67: ops.append(('L',))
        elif r < 0.73: ops.append(('CN', rng.choice(names)))
        elif r < 0.78: ops.append(('CI', rng.randint(1, max(1, item))))
        elif r < 0.85: ops.append(('GI', rng.randint(-8, 8)))
        elif r < 0.90: ops.append(('GN', rng.choice(names)))
        elif r < 0.96:
            def oi(): return None if rng.random() < 0.3 else rng.randint(-8, 8)
            ops.append(('GS', oi(), oi(), oi()))
        else: ops.append(('IX', rng.choice(names)))
    return ops


def enc_op(op):
    k = op[0]
    if k == 'R': return 'R:%d:%s:%d' % (op[1], op[2], int(op[3] * 2))
    if k == 'D': return 'D:%s:%d' % (op[1], 1 if op[2] else 0)
    if k in 'IL' and len(op) == 1: return k
    if k == 'GS': return 'GS:' + ':'.join('N' if x is None else str(x) for x in op[1:])
    return '%s:%s' % (k, op[1])


def run_real(ops):
    """observations of the real Registry in the driver's rendering"""
    r = U.Registry()
    obs = []
    prio = {}
    for op in ops:
        k = op[0]
        try:
            if k == 'R':
                r.register(Item(op[1]), op[2], op[3]); o = 'u'
            elif k == 'D':
                r.deregister(op[1], strict=op[2]); o = 'u'
            elif k == 'I': o = 'items:' + ','.join(str(x.n) for x in r)
            elif k == 'L': o = 'n:%d' % len(r)
            elif k == 'CN': o = 'b:%d' % (op[1] in r)
            elif k == 'CI': o = 'b:%d' % (Item(op[1]) in r)
            elif k == 'GI': o = 'it:%d' % r[op[1]].n
            elif k == 'GN': o = 'it:%d' % r[op[1]].n
            elif k == 'GS':
                s = r[slice(op[1], op[2], op[3])]
                s._sort()
                o = 'sl:' + ','.join('%s/%d/%d' % (p.name, int(p.priority * 2), s[p.name].n) for p in s._priority)
            elif k == 'IX': o = 'n:%d' % r.get_index_for_name(op[1])
        except ValueError: o = 'e:V'
        except KeyError: o = 'e:K'
        except IndexError: o = 'e:I'
        obs.append(o)
    return '|'.join(obs)


def nontrivial(ops):
    regs = [o for o in ops if o[0] == 'R']
    return len(regs) >= 2 and any(o[0] not in 'RD' for o in ops)


def run(driver, rng, n, op='reg.run'):
    hist = [gen_history(rng) for _ in range(n)]
    # exhaustive short histories over 2 names x 2 priorities for small n-independent core
    reqs = [(op,) + tuple(enc_op(o) for o in h) for h in hist]
    ans = driver.ask_many(reqs)
    dis = []; seen = set(); dist = {}
    for h, a in zip(hist, ans):
        real = run_real(h)
        for o in h: dist[o[0]] = dist.get(o[0], 0) + 1
        if nontrivial(h): seen.add(tuple(h))
        if real != a:
            dis.append({'op': op, 'input': [enc_op(o) for o in h], 'model': a, 'impl': real})
    dist['err_obs'] = sum(a.count('e:') for a in ans)
    return {'cases': len(hist), 'distinct': len(seen), 'disagreements': dis,
            'samples': [{'history': [enc_op(o) for o in hist[0]], 'observations': ans[0]}], 'dist': dist}
