"""Correspondence: model of util.Registry (driver op reg.run) vs the real class, observation by observation.

Priorities: any mutually comparable numbers.  The line protocol carries the integer 2*p in decimal (Lean `Int` is
unbounded, the model compares exactly), so every generated priority is a half-integer, of ANY magnitude and numeric type:
small ints/floats (PRIOS), and - in about 40 % of the histories - a "wide" pool: ints around 2**53, 2**63, 2**64, 10**20
whose neighbours differ only in bits a float cannot hold, floats equal to such ints (a genuine tie), and half-integers
written as `fractions.Fraction` or `decimal.Decimal` that no float represents.  Fraction and Decimal do not compare with
each other in Python, so a history uses one of the two families only.  A registry that stored or compared an
approximation of the priority (float(p), int(p), round) is seen as a wrong order or a wrong priority in a slice.

Items: the model is abstract in the items (integers).  On the real class an item number k is an `Item(k)` object, or - in
"string item" histories (about 30 %) - a plain `str` (op RS, same model request as R): the first six item strings are a
permutation of the NAMES, so that a name used later (register / deregister / get_index_for_name / `in` / lookup by name)
regularly EQUALS THE VALUE of a registered item without being a registered name, and vice versa.  For a `str` the
documented meaning of `in` is membership by NAME, so the by-item membership read of such an item is generated as CN.

Iterators: IB takes `iter(registry)` and keeps it OPEN while later operations (edits, sorting reads) run; IS k advances
it k steps, IE (or the next IB / the end of the history) drains it.  What the iterator yields in total must be the view
at the moment it was taken: the model request for IB is a plain I, for IS / IE it is L (`len`), and the real-side
observation of IB is filled in when the iterator has been drained.
"""
from decimal import Decimal
from fractions import Fraction
import markdown.util as U

NAMES = ['a', 'b', 'c', 'd', 'e', 'f']
PRIOS = [-2, -1, -0.5, 0, 0.5, 1, 2, 10]     # exact binary fractions; sent as 2*p
B53, B63, B64, T20 = 2 ** 53, 2 ** 63, 2 ** 64, 10 ** 20
BIG_INTS = [B53 - 1, B53, B53 + 1, B53 + 2, B53 + 3, -B53, -B53 - 1, -B53 - 2, B63 - 1, B63, B63 + 1, -B63, -B63 - 1, B64, B64 + 1, -B64 - 1,
            T20, T20 + 1, T20 - 1, -T20 - 1, 3 * B53 + 1, 3 * B53 + 2]
BIG_FLOATS = [float(B53), float(-B53), float(B53 - 1), float(B64), 1e20, -1e20, 2251799813685248.5]   # all exact (2**51 + 0.5); float(B53) ties with the int B53
BIG_FRACS = [Fraction(2 * B53 + 1, 2), Fraction(2 * B53 - 1, 2), Fraction(-2 * B53 - 1, 2), Fraction(B53 + 1), Fraction(2 * B64 + 1, 2), Fraction(1, 2), Fraction(3, 2),
             Fraction(-1, 2), Fraction(2 * T20 + 1, 2)]
BIG_DECS = [Decimal(B53 + 1), Decimal(B53), Decimal('9007199254740992.5'), Decimal('-9007199254740992.5'), Decimal('9007199254740991.5'), Decimal(B64 + 1), Decimal('0.5'),
            Decimal('1.5'), Decimal('-0.5'), Decimal('100000000000000000000.5'), Decimal('1E+20')]
FAMILIES = {'int': BIG_INTS, 'float': BIG_INTS + BIG_FLOATS, 'frac': BIG_INTS + BIG_FLOATS + BIG_FRACS * 2, 'dec': BIG_INTS + BIG_FLOATS + BIG_DECS * 2}


def prio2(p):
    """the integer 2*p, exactly, for an int / float / Fraction / Decimal half-integer"""
    f = Fraction(p) * 2
    if f.denominator != 1: raise ValueError('priority %r is not a half-integer' % (p,))
    return int(f)


def wide_prios(rng):
    """a pool of 3-8 priorities of one numeric family with close neighbours at large magnitudes, plus a few small ones"""
    fam = FAMILIES[rng.choice(['int', 'int', 'float', 'frac', 'dec'])]
    base = rng.choice(fam)
    near = [x for x in fam if abs(Fraction(x) - Fraction(base)) <= 4]           # neighbours below float resolution
    pool = rng.sample(near, min(len(near), rng.randint(2, 4))) + rng.sample(fam, rng.randint(1, 3)) + rng.sample(PRIOS, rng.randint(0, 2))
    return pool


class Item:
    """non-string item object (so that `in` means membership by item)"""
    def __init__(self, n): self.n = n
    def __eq__(self, o): return isinstance(o, Item) and o.n == self.n
    def __hash__(self): return hash(self.n)


def item_str(perm, k):
    """the string that stands for item number k in a string-item history (injective in k)"""
    return perm[k - 1] if k <= len(perm) else 'i%d' % k


def gen_history(rng, maxlen=40, names=NAMES, prios=PRIOS):
    ops = []
    k = rng.randint(1, maxlen)
    item = 0
    if prios is PRIOS and rng.random() < 0.4: prios = wide_prios(rng)
    perm = None
    if rng.random() < 0.3:                   # string items: item k is the str item_str(perm, k) (all k, or the odd ones only)
        perm = list(NAMES); rng.shuffle(perm)
        odd_only = rng.random() < 0.4
        is_str = (lambda j: j % 2 == 1) if odd_only else (lambda j: True)
        pool = list(names) + ['i7', 'i8']
    live = rng.random() < 0.45               # histories with iterators kept open across other operations
    for _ in range(k):
        r = rng.random()
        if r < 0.40:
            item += 1
            it = item if rng.random() < 0.8 else rng.randint(1, max(1, item))
            if perm is not None and is_str(it): ops.append(('RS', it, rng.choice(names), rng.choice(prios), item_str(perm, it)))
            else: ops.append(('R', it, rng.choice(names), rng.choice(prios)))
        elif r < 0.52: ops.append(('D', rng.choice(names), rng.random() < 0.6))
        elif r < 0.62:
            if not live or r < 0.545: ops.append(('I',))
            elif r < 0.585: ops.append(('IB',))
            elif r < 0.61: ops.append(('IS', rng.randint(1, 3)))
            else: ops.append(('IE',))
        elif r < 0.67: ops.append(('L',))
        elif r < 0.73: ops.append(('CN', rng.choice(names if perm is None else pool)))
        elif r < 0.78:
            it = rng.randint(1, max(1, item))
            ops.append(('CN', item_str(perm, it)) if perm is not None and is_str(it) else ('CI', it))
        elif r < 0.85: ops.append(('GI', rng.randint(-8, 8)))
        elif r < 0.90: ops.append(('GN', rng.choice(names)))
        elif r < 0.96:
            def oi(): return None if rng.random() < 0.3 else rng.randint(-8, 8)
            ops.append(('GS', oi(), oi(), oi()))
        else: ops.append(('IX', rng.choice(names)))
    return ops


def enc_op(op):
    k = op[0]
    if k in ('R', 'RS'): return 'R:%d:%s:%d' % (op[1], op[2], prio2(op[3]))
    if k == 'IB': return 'I'
    if k in ('IS', 'IE'): return 'L'
    if k == 'D': return 'D:%s:%d' % (op[1], 1 if op[2] else 0)
    if k in 'IL' and len(op) == 1: return k
    if k == 'GS': return 'GS:' + ':'.join('N' if x is None else str(x) for x in op[1:])
    return '%s:%s' % (k, op[1])


def enc_real(op):
    """rendering of an operation that keeps what the real side needs (string item, iterator operations); `dec_real` reads it back"""
    k = op[0]
    if k == 'RS': return 'RS:%d:%s:%d:%s' % (op[1], op[2], prio2(op[3]), op[4])
    if k == 'IB' or k == 'IE': return k
    if k == 'IS': return 'IS:%d' % op[1]
    return enc_op(op)


def dec_real(s):
    f = s.split(':')
    k = f[0]

    def oi(x): return None if x == 'N' else int(x)

    def pr(x):
        v = Fraction(int(x), 2)
        return int(v) if v.denominator == 1 else v
    if k == 'R': return ('R', int(f[1]), f[2], pr(f[3]))
    if k == 'RS': return ('RS', int(f[1]), f[2], pr(f[3]), f[4])
    if k == 'D': return ('D', f[1], f[2] == '1')
    if k in ('I', 'L', 'IB', 'IE'): return (k,)
    if k == 'GS': return ('GS', oi(f[1]), oi(f[2]), oi(f[3]))
    if k in ('CI', 'GI', 'IS'): return (k, int(f[1]))
    return (k, f[1])


def run_real(ops):
    """observations of the real Registry in the driver's rendering"""
    r = U.Registry()
    obs = []
    back = {}                 # string item -> item number
    live = []                 # at most one open iterator: [iterator, index of its observation, items yielded so far]

    def num(x): return x.n if isinstance(x, Item) else back[x]

    def step(cnt):
        it, at, got = live[0]
        while cnt is None or cnt > 0:
            try: got.append(num(next(it)))
            except StopIteration:
                cnt = None; break
            if cnt is not None: cnt -= 1
        if cnt is None:
            obs[at] = 'items:' + ','.join(str(x) for x in got); del live[:]

    for op in ops:
        k = op[0]
        try:
            if k == 'R':
                r.register(Item(op[1]), op[2], op[3]); o = 'u'
            elif k == 'RS':
                back[op[4]] = op[1]
                r.register(op[4], op[2], op[3]); o = 'u'
            elif k == 'IB':
                if live: step(None)
                live.append([iter(r), len(obs), []]); o = 'items:?'
            elif k in ('IS', 'IE'):
                if live: step(op[1] if k == 'IS' else None)
                o = 'n:%d' % len(r)
            elif k == 'D':
                r.deregister(op[1], strict=op[2]); o = 'u'
            elif k == 'I': o = 'items:' + ','.join(str(num(x)) for x in r)
            elif k == 'L': o = 'n:%d' % len(r)
            elif k == 'CN': o = 'b:%d' % (op[1] in r)
            elif k == 'CI': o = 'b:%d' % (Item(op[1]) in r)
            elif k == 'GI': o = 'it:%d' % num(r[op[1]])
            elif k == 'GN': o = 'it:%d' % num(r[op[1]])
            elif k == 'GS':
                s = r[slice(op[1], op[2], op[3])]
                s._sort()
                o = 'sl:' + ','.join('%s/%d/%d' % (p.name, prio2(p.priority), num(s[p.name])) for p in s._priority)
            elif k == 'IX': o = 'n:%d' % r.get_index_for_name(op[1])
        except ValueError: o = 'e:V'
        except KeyError: o = 'e:K'
        except IndexError: o = 'e:I'
        obs.append(o)
    if live:
        try: step(None)
        except (ValueError, KeyError, IndexError, RuntimeError) as e: obs[live[0][1]] = 'items:!' + type(e).__name__
    return '|'.join(obs)


CLOSE_PAIRS = [(B53, B53 + 1), (B53 + 1, B53 + 2), (-B53 - 1, -B53), (B64, B64 + 1), (T20, T20 + 1), (B63 - 1, B63), (float(B53), B53 + 1), (-B53 - 1, float(-B53)),
               (B53, Fraction(2 * B53 + 1, 2)), (Fraction(2 * B53 + 1, 2), B53 + 1), (Decimal(B53), Decimal('9007199254740992.5')), (Decimal(B53), Decimal(B53 + 1)),
               (Fraction(-2 * B53 - 1, 2), -B53), (0.5, 1), (-1, -0.5)]


def string_item_histories():
    """deterministic: a name that equals the VALUE of a registered string item but is not a registered name, used by each
    operation that takes a name; and the converse (a registered name equal to no item).  Fully observed."""
    obs = [('I',), ('L',), ('CN', 'a'), ('CN', 'b'), ('CN', 'c'), ('IX', 'a'), ('IX', 'b'), ('GS', None, None, None)]
    out = []
    for pa, pb in ((20, 10), (10, 20), (1, 1)):
        base = [('RS', 1, 'a', pa, 'b'), ('RS', 2, 'c', pb, 'd')]           # items 'b', 'd' under the names 'a', 'c'
        for nm in ('b', 'd', 'a', 'e'):
            out.append(base + [('RS', 3, nm, 15, 'x')] + obs)                 # register under a name equal to an item value
            out.append(base + [('R', 3, nm, 15)] + obs)
            out.append(base + [('IX', nm), ('D', nm, False), ('D', nm, True), ('GN', nm), ('CN', nm)] + obs)
        out.append([('RS', 1, 'a', pa, 'a'), ('RS', 2, 'b', pb, 'a2'), ('RS', 3, 'a2', 5, 'b')] + obs + [('D', 'a', True)] + obs)
    return out


def live_iterator_histories():
    """deterministic: an iterator taken over c@20 a@40 d@-10 b@30.5-like registries, then one edit (+ optionally a sorting
    read) while it is open at each position, then drained"""
    base = [('R', 1, 'c', 2), ('R', 2, 'a', 4), ('R', 3, 'd', -1), ('R', 4, 'b', 2.5)]
    edits = [[('D', n, True)] for n in 'abcd'] + [[('R', 5, 'z', p)] for p in (10, 2.5, -2)] + [[('R', 5, 'c', 10)], [('R', 5, 'a', -2)],
             [('D', 'a', True), ('D', 'c', True)]]
    reads = [[], [('GI', 0)], [('IX', 'd')], [('L',)], [('I',)]]
    out = []
    for pos in range(0, 5):
        for e in edits:
            for rd in reads:
                out.append(base + [('IB',)] + ([('IS', pos)] if pos else []) + e + rd + [('IE',), ('I',)])
    out.append(base + [('IB',), ('IS', 1), ('IB',), ('D', 'a', True), ('IS', 1), ('D', 'b', True), ('IE',), ('I',)])
    return out


def close_pair_histories():
    """deterministic: for each pair lo < hi of neighbouring priorities, both registration orders (and a replacement), fully observed"""
    obs = [('I',), ('GS', None, None, None), ('IX', 'a'), ('IX', 'b'), ('GI', 0), ('GI', -1)]
    out = []
    for lo, hi in CLOSE_PAIRS:
        out.append([('R', 1, 'a', lo), ('R', 2, 'b', hi)] + obs)
        out.append([('R', 1, 'a', hi), ('R', 2, 'b', lo)] + obs)
        out.append([('R', 1, 'a', lo), ('R', 2, 'b', lo), ('R', 3, 'c', hi), ('R', 4, 'a', hi)] + obs + [('D', 'c', True)] + obs)
    return out


def is_wide(ops):
    """some registered priority is beyond float-exact range or not a float/int at all"""
    return any(o[0] in ('R', 'RS') and (not isinstance(o[3], (int, float)) or abs(o[3]) > B53) for o in ops)


def name_hits_item_value(ops):
    """some operation names a string that is at that moment the value of a registered item but not a registered name"""
    reg = {}
    for o in ops:
        if o[0] in ('R', 'RS', 'D', 'IX', 'CN', 'GN'):
            nm = o[2] if o[0] in ('R', 'RS') else o[1]
            if nm not in reg and nm in reg.values(): return True
        if o[0] == 'RS': reg[o[2]] = o[4]
        elif o[0] == 'R': reg[o[2]] = None
        elif o[0] == 'D': reg.pop(o[1], None)
    return False


def edits_under_iterator(ops):
    """an edit happens while an iterator is open"""
    open_ = False
    for o in ops:
        if o[0] == 'IB': open_ = True
        elif o[0] == 'IE': open_ = False
        elif open_ and o[0] in ('R', 'RS', 'D'): return True
    return False


def nontrivial(ops):
    regs = [o for o in ops if o[0] in ('R', 'RS')]
    return len(regs) >= 2 and any(o[0] not in 'RD' for o in ops)


def run(driver, rng, n, op='reg.run'):
    hist = [gen_history(rng) for _ in range(n)] + close_pair_histories() + string_item_histories() + live_iterator_histories()
    reqs = [(op,) + tuple(enc_op(o) for o in h) for h in hist]
    ans = driver.ask_many(reqs)
    dis = []; seen = set(); dist = {}
    for h, a in zip(hist, ans):
        real = run_real(h)
        for o in h: dist[o[0]] = dist.get(o[0], 0) + 1
        if nontrivial(h): seen.add(tuple(h))
        if real != a:
            dis.append({'op': op, 'input': [enc_real(o) for o in h], 'request': [enc_op(o) for o in h], 'model': a, 'impl': real})
    dist['err_obs'] = sum(a.count('e:') for a in ans)
    dist['wide_priority_histories'] = sum(1 for h in hist if is_wide(h))
    dist['string_item_histories'] = sum(1 for h in hist if any(o[0] == 'RS' for o in h))
    dist['name_equals_unregistered_item_value'] = sum(1 for h in hist if name_hits_item_value(h))
    dist['open_iterator_histories'] = sum(1 for h in hist if edits_under_iterator(h))
    return {'cases': len(hist), 'distinct': len(seen), 'disagreements': dis,
            'samples': [{'history': [enc_op(o) for o in hist[0]], 'observations': ans[0]}], 'dist': dist}
