"""Correspondence: model of util.Registry (driver op reg.run) vs the real class, observation by observation.

Priorities: any mutually comparable numbers.  The line protocol carries the integer 2*p in decimal (Lean `Int` is
unbounded, the model compares exactly), so every generated priority is a half-integer, of ANY magnitude and numeric type:
small ints/floats (PRIOS), and - in about 40 % of the histories - a "wide" pool: ints around 2**53, 2**63, 2**64, 10**20
whose neighbours differ only in bits a float cannot hold, floats equal to such ints (a genuine tie), and half-integers
written as `fractions.Fraction` or `decimal.Decimal` that no float represents.  Fraction and Decimal do not compare with
each other in Python, so a history uses one of the two families only.  A registry that stored or compared an
approximation of the priority (float(p), int(p), round) is seen as a wrong order or a wrong priority in a slice.
"""
from decimal import Decimal
from fractions import Fraction
import markdown.util as U

NAMES = ['a', 'b', 'c', 'd', 'e', 'f']
PRIOS = [-2, -1, -0.5, 0, 0.5, 1, 2, 10]     # exact binary fractions; sent as 2*p
B53, B63, B64, T20 = 2 ** 53, 2 ** 63, 2 ** 64, 10 ** 20
BIG_INTS = [B53 - 1, B53, B53 + 1, B53 + 2, B53 + 3, -B53, -B53 - 1, -B53 - 2, B63 - 1, B63, B63 + 1, -B63, -B63 - 1, B64, B64 + 1, -B64 - 1,
            T20, T20 + 1, T20 - 1, -T20 - 1, 3 * B53 + 1, 3 * B53 + 2]
BIG_FLOATS = [float(B53), float(-B53), float(B53 - 1), float(B64), 1e20, -1e20, 2251799813685248.5]   # all exact (2**51 + 0.5); float(B53) ties with the int B53
BIG_FRACS = [Fraction(2 * B53 + 1, 2), Fraction(2 * B53 - 1, 2), Fraction(-2 * B53 - 1, 2), Fraction(B53 + 1), Fraction(2 * B64 + 1, 2), Fraction(1, 2), Fraction(3, 2),
             Fraction(-1, 2), Fraction(2 * T20 + 1, 2)]
BIG_DECS = [Decimal(B53 + 1), Decimal(B53), Decimal('9007199254740992.5'), Decimal('-9007199254740992.5'), Decimal('9007199254740991.5'), Decimal(B64 + 1), Decimal('0.5'),
            Decimal('1.5'), Decimal('-0.5'), Decimal('100000000000000000000.5'), Decimal('1E+20')]
FAMILIES = {'int': BIG_INTS, 'float': BIG_INTS + BIG_FLOATS, 'frac': BIG_INTS + BIG_FLOATS + BIG_FRACS * 2, 'dec': BIG_INTS + BIG_FLOATS + BIG_DECS * 2}


def prio2(p):
    """the integer 2*p, exactly, for an int / float / Fraction / Decimal half-integer"""
    f = Fraction(p) * 2
    if f.denominator != 1: raise ValueError('priority %r is not a half-integer' % (p,))
    return int(f)


def wide_prios(rng):
    """a pool of 3-8 priorities of one numeric family with close neighbours at large magnitudes, plus a few small ones"""
    fam = FAMILIES[rng.choice(['int', 'int', 'float', 'frac', 'dec'])]
    base = rng.choice(fam)
    near = [x for x in fam if abs(Fraction(x) - Fraction(base)) <= 4]           # neighbours below float resolution
    pool = rng.sample(near, min(len(near), rng.randint(2, 4))) + rng.sample(fam, rng.randint(1, 3)) + rng.sample(PRIOS, rng.randint(0, 2))
    return pool


class Item:
    """non-string item object (so that `in` means membership by item)"""
    def __init__(self, n): self.n = n
    def __eq__(self, o): return isinstance(o, Item) and o.n == self.n
    def __hash__(self): return hash(self.n)


def gen_history(rng, maxlen=40, names=NAMES, prios=PRIOS):
    ops = []
    k = rng.randint(1, maxlen)
    item = 0
    if prios is PRIOS and rng.random() < 0.4: prios = wide_prios(rng)
    for _ in range(k):
        r = rng.random()
        if r < 0.40:
            item += 1
            ops.append(('R', item if rng.random() < 0.8 else rng.randint(1, max(1, item)), rng.choice(names), rng.choice(prios)))
        elif r < 0.52: ops.append(('D', rng.choice(names), rng.random() < 0.6))
        elif r < 0.62: ops.append(('I',))
        elif r < 0.67: ops.append(('L',))
        elif r < 0.73: ops.append(('CN', rng.choice(names)))
        elif r < 0.78: ops.append(('CI', rng.randint(1, max(1, item))))
        elif r < 0.85: ops.append(('GI', rng.randint(-8, 8)))
        elif r < 0.90: ops.append(('GN', rng.choice(names)))
        elif r < 0.96:
            def oi(): return None if rng.random() < 0.3 else rng.randint(-8, 8)
            ops.append(('GS', oi(), oi(), oi()))
        else: ops.append(('IX', rng.choice(names)))
    return ops


def enc_op(op):
    k = op[0]
    if k == 'R': return 'R:%d:%s:%d' % (op[1], op[2], prio2(op[3]))
    if k == 'D': return 'D:%s:%d' % (op[1], 1 if op[2] else 0)
    if k in 'IL' and len(op) == 1: return k
    if k == 'GS': return 'GS:' + ':'.join('N' if x is None else str(x) for x in op[1:])
    return '%s:%s' % (k, op[1])


def run_real(ops):
    """observations of the real Registry in the driver's rendering"""
    r = U.Registry()
    obs = []
    prio = {}
    for op in ops:
        k = op[0]
        try:
            if k == 'R':
                r.register(Item(op[1]), op[2], op[3]); o = 'u'
            elif k == 'D':
                r.deregister(op[1], strict=op[2]); o = 'u'
            elif k == 'I': o = 'items:' + ','.join(str(x.n) for x in r)
            elif k == 'L': o = 'n:%d' % len(r)
            elif k == 'CN': o = 'b:%d' % (op[1] in r)
            elif k == 'CI': o = 'b:%d' % (Item(op[1]) in r)
            elif k == 'GI': o = 'it:%d' % r[op[1]].n
            elif k == 'GN': o = 'it:%d' % r[op[1]].n
            elif k == 'GS':
                s = r[slice(op[1], op[2], op[3])]
                s._sort()
                o = 'sl:' + ','.join('%s/%d/%d' % (p.name, prio2(p.priority), s[p.name].n) for p in s._priority)
            elif k == 'IX': o = 'n:%d' % r.get_index_for_name(op[1])
        except ValueError: o = 'e:V'
        except KeyError: o = 'e:K'
        except IndexError: o = 'e:I'
        obs.append(o)
    return '|'.join(obs)


CLOSE_PAIRS = [(B53, B53 + 1), (B53 + 1, B53 + 2), (-B53 - 1, -B53), (B64, B64 + 1), (T20, T20 + 1), (B63 - 1, B63), (float(B53), B53 + 1), (-B53 - 1, float(-B53)),
               (B53, Fraction(2 * B53 + 1, 2)), (Fraction(2 * B53 + 1, 2), B53 + 1), (Decimal(B53), Decimal('9007199254740992.5')), (Decimal(B53), Decimal(B53 + 1)),
               (Fraction(-2 * B53 - 1, 2), -B53), (0.5, 1), (-1, -0.5)]


def close_pair_histories():
    """deterministic: for each pair lo < hi of neighbouring priorities, both registration orders (and a replacement), fully observed"""
    obs = [('I',), ('GS', None, None, None), ('IX', 'a'), ('IX', 'b'), ('GI', 0), ('GI', -1)]
    out = []
    for lo, hi in CLOSE_PAIRS:
        out.append([('R', 1, 'a', lo), ('R', 2, 'b', hi)] + obs)
        out.append([('R', 1, 'a', hi), ('R', 2, 'b', lo)] + obs)
        out.append([('R', 1, 'a', lo), ('R', 2, 'b', lo), ('R', 3, 'c', hi), ('R', 4, 'a', hi)] + obs + [('D', 'c', True)] + obs)
    return out


def is_wide(ops):
    """some registered priority is beyond float-exact range or not a float/int at all"""
    return any(o[0] == 'R' and (not isinstance(o[3], (int, float)) or abs(o[3]) > B53) for o in ops)


def nontrivial(ops):
    regs = [o for o in ops if o[0] == 'R']
    return len(regs) >= 2 and any(o[0] not in 'RD' for o in ops)


def run(driver, rng, n, op='reg.run'):
    hist = [gen_history(rng) for _ in range(n)] + close_pair_histories()
    reqs = [(op,) + tuple(enc_op(o) for o in h) for h in hist]
    ans = driver.ask_many(reqs)
    dis = []; seen = set(); dist = {}
    for h, a in zip(hist, ans):
        real = run_real(h)
        for o in h: dist[o[0]] = dist.get(o[0], 0) + 1
        if nontrivial(h): seen.add(tuple(h))
        if real != a:
            dis.append({'op': op, 'input': [enc_op(o) for o in h], 'model': a, 'impl': real})
    dist['err_obs'] = sum(a.count('e:') for a in ans)
    dist['wide_priority_histories'] = sum(1 for h in hist if is_wide(h))
    return {'cases': len(hist), 'distinct': len(seen), 'disagreements': dis,
            'samples': [{'history': [enc_op(o) for o in hist[0]], 'observations': ans[0]}], 'dist': dist}
