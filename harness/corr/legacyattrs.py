"""Correspondence of the `legacy_attrs` models (`MdVerif/Model/Ext/LegacyAttrs.lean`, `MdVerif/Model/PipelineL.lean`).

  * op `legacy.sub` (`LegacyAttrs.scan`) vs `ATTR_RE.sub(callback, txt)` of the module — the remaining text AND the
    (key, value) pairs the callback receives, in order — on strings over the regex's own alphabet (`{ @ = }`, line feed,
    word characters, the other Markdown control characters, STX/ETX tokens, non-ASCII), incl. nested/unterminated shapes;
  * op `legacy.run` (`LegacyAttrs.run`) vs `LegacyAttrs(md).run(tree)` on (a) the trees the real `inline` tree processor
    produces for generated documents (the trees the processor sees in production: atomic code texts, `img` with `alt`,
    escape tokens) and (b) synthetic trees with every combination of atomic/plain text and tail, comment/PI nodes,
    preset attributes that the definitions overwrite;
  * op `convertl 1 …` (`PipelineL.convertL true`) vs `markdown.Markdown(extensions=['legacy_attrs']).convert`, both
    formats, tab lengths 4/2/8, documents of corr/pipeline.py with `{@k=v}` definitions spliced in at random places
    (inside emphasis, link text, image alt, code spans, headings, list items);
  * op `convertl 0 …` vs op `convert` on a tenth of the documents.

  * op `re.legacyem` (`LegacyEm.legacyMatch`, `MdVerif/Model/Ext/LegacyEm.lean`) vs
    `LegacyUnderscoreProcessor.PATTERNS[k].pattern.match(s, pos)` of `markdown/extensions/legacy_em.py` for the five patterns, strings over
    `_`, `*`, letters, blanks, line feeds, non-ASCII word characters, every start position.

run(driver, rng, n) -> {'cases', 'distinct', 'disagreements', 'samples', 'dist'}.
"""
from __future__ import annotations
import os, sys

_H = os.path.dirname(os.path.dirname(os.path.abspath(__file__)))
sys.path.insert(0, _H)
sys.path.insert(0, os.path.dirname(os.path.abspath(__file__)))
import proto  # noqa: E402
import markdown  # noqa: E402
from markdown.extensions import legacy_attrs as LA  # noqa: E402
from markdown.extensions import legacy_em as LE  # noqa: E402
import pipeline as CP  # noqa: E402

ATOMS = ['{@', '{@', '{@', '{', '@', '=', '=', '}', '}', '\n', ' ', 'id', 'class', 'k', 'v', 'alt', 'a b', 'x1', '\\_', '\x0295\x03', '*', '_', '`', '[', ']',
         '(', ')', '"', "'", '&', '&amp;', '>', 'é', ' ', '{@id=x}', '{@class=c d}', '{@=}', '{@k=}', '{@=v}', '{@a=b=c}', '{@alt=z}', '\t', '!', '#', ':']
DEFS = ['{@id=x}', '{@class=c d}', '{@k=v}', '{@a=b=c}', '{@=}', '{@k=}', '{@=v}', '{@alt=z}', '{@a\\_b=1}', '{@id=a\\_b}', '{@k=*v*}', '{@k=`v`}', '{@x=1\n2}',
        '{@a>b=1}', '{@a b=c}', '{@k="q"}', '{@k=&amp;}', '{@é=ü}', '{@id=x', '@id=x}', '{@idx}', '{ @id=x}', '{@id=x}}', '{{@id=x}', '{@{@a=b}c=d}', '{@k=[l](u)}',
        '{@src=/evil}', '{@href=#}', '{@title=t}']


def gen_text(rng):
    return ''.join(rng.choice(ATOMS) for _ in range(rng.randint(0, 14)))


def impl_sub(txt):
    calls = []

    def cb(m):
        calls.append(m.group(1)); calls.append(m.group(2))
        return None
    # re.sub with a callback returning None is not allowed; mirror handleAttributes: the callback returns None there too
    # (re treats None as the empty string only through `el.set` returning None: the real code relies on it)
    class _El:
        def set(self, k, v): calls.append(('set', k, v))
    el = _El()
    out = LA.LegacyAttrs(None).handleAttributes(el, txt)
    pairs = []
    for c in calls:
        if isinstance(c, tuple): pairs.append((c[1], c[2]))
    return out, pairs


def splice(rng, s):
    k = rng.choice([0, 1, 1, 1, 2, 3])
    for _ in range(k):
        i = rng.randint(0, len(s))
        s = s[:i] + rng.choice(DEFS) + s[i:]
    return s


def synth_tree(rng, depth=0):
    kind = rng.choice(['n'] * 8 + ['c', 'p'])
    tag = rng.choice(['p', 'em', 'img', 'code', 'div', 'a', 'li']) if kind == 'n' else ''

    def tx():
        r = rng.random()
        if r < 0.2: return None
        if r < 0.3: return ''
        return gen_text(rng)
    attrs = []
    if rng.random() < 0.4: attrs.append(('alt', gen_text(rng)))
    if rng.random() < 0.3: attrs.append(('id', 'old'))
    if rng.random() < 0.2: attrs.append(('k', 'old'))
    rng.shuffle(attrs)
    kids = [synth_tree(rng, depth + 1) for _ in range(rng.choice([0, 0, 1, 2, 3]) if depth < 3 else 0)]
    return proto.T(kind, tag, tx(), rng.random() < 0.3, tx(), rng.random() < 0.3, attrs, kids)


def run(driver, rng, n):
    dis = []; seen = set(); samples = []
    dist = {'sub': 0, 'sub:match': 0, 'sub:multi': 0, 'sub:nl': 0, 'tree:real': 0, 'tree:synth': 0, 'tree:changed': 0, 'tree:atomic-with-def': 0,
            'doc': 0, 'doc:changed-by-ext': 0, 'ok': 0, 'err': 0, 'oof': 0, 'ood': 0, 'off': 0, 'recursion_skip': 0}
    # ---------------------------------------------------------------- ATTR_RE.sub
    n_sub = max(1, n // 3)
    texts = DEFS + [a + b for a in DEFS[:12] for b in DEFS[:6]] + [gen_text(rng) for _ in range(n_sub)]
    texts = [t for t in texts if proto.lean_ok(t)]
    ans = driver.ask_many([('legacy.sub', proto.enc_str(t)) for t in texts])
    for t, a in zip(texts, ans):
        out, pairs = impl_sub(t)
        # the callback applies .replace('\n', ' ') before el.set: undo nothing, compare with the model's raw pairs by applying it to the model side
        f = a.split('|')
        mpairs = proto.dec_list(f[1]) if len(f) > 1 and f[1] != '' else []
        mp = [(mpairs[i], mpairs[i + 1].replace('\n', ' ')) for i in range(0, len(mpairs) - 1, 2)]
        mout = proto.dec_str(f[0])
        dist['sub'] += 1
        if pairs: dist['sub:match'] += 1; seen.add(('sub', t))
        if len(pairs) > 1: dist['sub:multi'] += 1
        if any('\n' in mpairs[i + 1] for i in range(0, len(mpairs) - 1, 2)): dist['sub:nl'] += 1
        if mout != out or mp != pairs:
            dis.append({'op': 'legacy.sub', 'input': t, 'model': [mout, mp], 'impl': [out, pairs]})
    # ---------------------------------------------------------------- LegacyAttrs.run on trees
    n_tree = max(1, n // 3)
    trees = []
    md0 = markdown.Markdown()
    for i in range(n_tree):
        if i % 2 == 0:
            s = splice(rng, CP.gen(rng))
            if not proto.lean_ok(s) or '<' in s: continue
            try:
                md0.reset()
                lines = s.split('\n')
                for prep in md0.preprocessors: lines = prep.run(lines)
                root = md0.parser.parseDocument(lines).getroot()
                r = md0.treeprocessors["inline"].run(root); root = r if r is not None else root
            except RecursionError:
                dist['recursion_skip'] += 1; continue
            except Exception:
                continue
            trees.append((proto.from_etree(root), 'real'))
        else:
            trees.append((synth_tree(rng), 'synth'))
    ans = driver.ask_many([('legacy.run', proto.enc_tree(t)) for t, _ in trees])
    for (t, kind), a in zip(trees, ans):
        e = proto.to_etree(t)
        before = proto.from_etree(e).key()
        LA.LegacyAttrs(None).run(e)
        real = proto.from_etree(e)
        dist['tree:' + kind] += 1
        try:
            mt = proto.dec_tree(a)
        except Exception:
            dis.append({'op': 'legacy.run', 'input': proto.enc_tree(t), 'model': a[:200], 'impl': 'undecodable answer'}); continue
        # attribute ORDER matters to the serializer: compare ordered attribute lists, not the sorted key
        def okey(x): return (x.kind, x.tag, x.text, bool(x.text_atomic) if x.text else False, x.tail, bool(x.tail_atomic) if x.tail else False,
                             tuple(x.attrs), tuple(okey(c) for c in x.children))
        if okey(mt) != okey(real):
            dis.append({'op': 'legacy.run', 'input': proto.enc_tree(t), 'model': repr(okey(mt))[:400], 'impl': repr(okey(real))[:400]})
        elif real.key() != before:
            dist['tree:changed'] += 1; seen.add(('tree', proto.enc_tree(t)))

        def atomic_def(x):
            return ((x.text_atomic and x.text and '{@' in x.text) or (x.tail_atomic and x.tail and '{@' in x.tail) or any(atomic_def(c) for c in x.children))
        if atomic_def(t): dist['tree:atomic-with-def'] += 1
    # ---------------------------------------------------------------- convertL
    n_doc = max(1, n - n_sub - n_tree)
    fixed = ['para {@a\\_b=1} x', 'para {@id=a\\_b} x', '`{@id=x}` y {@k=v}', '![a {@id=z}](u) t', 'x {@a>b=1}', 'x *em*{@id=q} y', '# h {@id=hh}\n\ntext\n{@class=c}',
             'x {@=} y', 'a {@x=1\n2} b', '    code {@id=x}\n\npara {@id=y}', '- item {@id=i}\n- two', '> q {@class=c}', '[l {@id=x}](u "t {@k=v}")']
    docs = []
    for i in range(n_doc + len(fixed)):
        s = fixed[i] if i < len(fixed) else splice(rng, CP.gen(rng))
        if not proto.lean_ok(s) or 'Σ' in s or '<' in s: continue
        docs.append((s, rng.choice([4, 4, 4, 2, 8]), rng.choice(['xhtml', 'xhtml', 'html'])))
    ans = driver.ask_many([('convertl', '1', str(t), f, proto.enc_str(s)) for s, t, f in docs])
    mds = {}
    for (s, tab, fmt), a in zip(docs, ans):
        md = mds.get((tab, fmt))
        if md is None: md = mds[(tab, fmt)] = markdown.Markdown(tab_length=tab, output_format=fmt, extensions=['legacy_attrs'])
        k = a.split(' ')[0]
        dist[k] = dist.get(k, 0) + 1
        dist['doc'] += 1
        if k == 'ood': continue
        try:
            real = 'ok ' + proto.enc_str(md.reset().convert(s))
        except RecursionError:
            dist['recursion_skip'] += 1; continue
        except (ValueError, OverflowError):
            real = 'err'
        if real != a:
            dis.append({'op': 'convertl', 'input': {'src': s, 'tab': tab, 'fmt': fmt}, 'model': proto.dec_str(a[3:]) if a.startswith('ok ') else a,
                        'impl': proto.dec_str(real[3:]) if real.startswith('ok ') else real})
            continue
        if k == 'ok':
            try:
                plain = markdown.markdown(s, tab_length=tab, output_format=fmt)
            except Exception:
                plain = None
            if plain is not None and plain != proto.dec_str(a[3:]):
                dist['doc:changed-by-ext'] += 1; seen.add((s, tab, fmt))
                if len(samples) < 3: samples.append({'src': s, 'tab': tab, 'fmt': fmt, 'model': proto.dec_str(a[3:])[:200]})
    sub = docs[::10]
    a0 = driver.ask_many([('convertl', '0', str(t), f, proto.enc_str(s)) for s, t, f in sub])
    ac = driver.ask_many([('convert', str(t), f, proto.enc_str(s)) for s, t, f in sub])
    for (s, tab, fmt), x0, xc in zip(sub, a0, ac):
        dist['off'] += 1
        if x0 != xc:
            dis.append({'op': 'convertl-off', 'input': {'src': s, 'tab': tab, 'fmt': fmt}, 'model': x0[:200], 'impl': xc[:200]})
    # ---------------------------------------------------------------- legacy_em recognisers
    EM_AL = ['_', '_', '_', '__', '___', '*', 'a', 'b', 'word', ' ', ' ', '\n', 'é', '1', '\\', '`', '_a_', '__b__', '___c___', '_connected_words_']
    reqs = []; meta = []
    pats = LE.LegacyUnderscoreProcessor.PATTERNS
    for _ in range(max(1, n // 3)):
        t = ''.join(rng.choice(EM_AL) for _ in range(rng.randint(1, 9)))
        k = rng.randrange(len(pats)); pos = rng.randint(0, len(t) + 1)
        us = [i for i, ch in enumerate(t) if ch == '_']
        if us and rng.random() < 0.7: pos = rng.choice(us)
        reqs.append(('re.legacyem', str(k), proto.enc_str(t), str(pos))); meta.append((k, t, pos))
    dist['legacyem'] = 0; dist['legacyem:match'] = 0
    for (k, t, pos), a in zip(meta, driver.ask_many(reqs)):
        m = pats[k].pattern.match(t, pos)
        real = 'N' if not m else '%d|%s' % (m.end(), proto.enc_list(list(m.groups()[1:])))
        dist['legacyem'] += 1
        if m: dist['legacyem:match'] += 1; seen.add(('em', k, t, pos))
        if real != a: dis.append({'op': 're.legacyem', 'input': {'k': k, 's': t, 'pos': pos}, 'model': a, 'impl': real})
    return {'cases': len(texts) + len(trees) + len(docs) + len(sub) + len(meta), 'distinct': len(seen), 'disagreements': dis, 'samples': samples, 'dist': dist}


if __name__ == '__main__':
    import json, random, time
    seed = int(sys.argv[1]) if len(sys.argv) > 1 else 1
    n = int(sys.argv[2]) if len(sys.argv) > 2 else 3000
    d = proto.Driver(sys.argv[3] if len(sys.argv) > 3 else None)
    t0 = time.time()
    res = run(d, random.Random(seed), n)
    d.close()
    print(json.dumps({'cases': res['cases'], 'distinct': res['distinct'], 'disagreements': len(res['disagreements']),
                      'dist': res['dist'], 'seconds': round(time.time() - t0, 1)}, ensure_ascii=False))
    for x in res['disagreements'][:10]:
        print('DISAGREE', json.dumps(x, ensure_ascii=False))
