"""Correspondence of the configuration / naming model (C19, lean/MdVerif/Model/Config.lean, ops `cfg.*`) with

* the real `markdown.util.parseBoolValue`,
* the class the real `Markdown().build_extension(name, {})` instantiates, for every naming form of every bundled
  extension and for broken / foreign names (`None` = raises, or the object is not an `Extension`),
* `Extension.setConfig` on instances of the real bundled extensions (and their defaults, descriptions included),
* `Class(**kwargs)` and `build_extension(name, kwargs)` on the real classes (unknown keys, string booleans, pass-through).

`run(driver, rng, n)` returns {'cases', 'distinct', 'disagreements' (list of {'op','input','model','impl','kind'}),
'samples', 'dist'}.
"""
from __future__ import annotations
import importlib, importlib.util, os, sys, collections

try:
    from .. import proto
except ImportError:                      # run as a script / imported by path
    sys.path.insert(0, os.path.dirname(os.path.dirname(os.path.abspath(__file__))))
    import proto

import markdown
from markdown.extensions import Extension
from markdown.util import parseBoolValue

E = proto.enc_str


# ---------------------------------------------------------------------------------------------- values
def other_tag(v):
    return v.__name__ if callable(v) else repr(v)


def enc_val(v) -> str:
    if isinstance(v, str): return 's:' + E(v)
    if isinstance(v, bool): return 'b:' + proto.enc_bool(v)
    if isinstance(v, int): return 'i:%d' % v
    if v is None: return 'n'
    return 'o:%s:%s' % (proto.enc_bool(bool(v)), E(other_tag(v)))


def enc_kwargs(items) -> str:
    items = list(items)
    return '-' if not items else ';'.join(E(k) + '=' + enc_val(v) for k, v in items)


def enc_config(items, with_desc=False) -> str:
    items = list(items)
    if not items: return '-'
    return ';'.join(E(k) + '=' + enc_val(v) + ('=' + E(d) if with_desc else '') for k, v, d in items)


def _lam(*a, **k): return None


OTHERS = [{}, [1], 1.5, 0.0, (), _lam, {'a': 1}]
SPELL = ['true', 'yes', 'y', 'on', '1', 'false', 'no', 'n', 'off', '0', 'none']
ODD = ['', ' ', 'true ', ' yes', 'tru', 'yess', 'o', 'of', 'nope', '2', '10', '01', 'None ', 'null', 'nil', 't', 'f',
       'K', 'oK', 'İ', 'ſ', 'yeſ', 'ｔｒｕｅ', '１', '١', 'oɴ',
       'TRUE\n', 'on\x00', 'Σ', 'oΣ', 'ý', 'ÿ', 'Ÿ', 'ﬀ', 'oﬀ', 'table', 'inline', '﻿on']


def recase(rng, s):
    return ''.join(c.upper() if rng.random() < 0.5 else c.lower() for c in s)


def gen_value(rng):
    r = rng.random()
    if r < 0.40: return recase(rng, rng.choice(SPELL))
    if r < 0.55: return rng.choice(ODD)
    if r < 0.62:
        s = rng.choice(SPELL)
        i = rng.randrange(len(s) + 1)
        return recase(rng, s[:i] + rng.choice(['', ' ', 'x', s[i:i + 1], 'İ', 'K', 'K']) + s[i + (rng.random() < 0.5):])
    if r < 0.68: return ''.join(chr(rng.choice([rng.randrange(32, 127), rng.randrange(160, 0x2000)])) for _ in range(rng.randrange(0, 5)))
    if r < 0.76: return rng.choice([True, False])
    if r < 0.86: return rng.choice([0, 1, -1, 2, 7, -300, 10 ** 12])
    if r < 0.92: return None
    return rng.choice(OTHERS)


# ---------------------------------------------------------------------------------------------- expectations
def real_parsebool(v, fail, pres):
    try: r = parseBoolValue(v, fail, pres)
    except ValueError: return 'E:V'
    return 'N' if r is None else ('T' if r is True else 'F' if r is False else '??%r' % (r,))


def real_class(md, name, kwargs=None):
    """`module:Class` of what build_extension makes (None: it raises, or the object is not an Extension)"""
    try: ext = md.build_extension(name, dict(kwargs or {}))
    except Exception: return None, None
    if not isinstance(ext, Extension): return None, None
    return type(ext).__module__ + ':' + type(ext).__name__, ext


def config_items(ext):
    """ext.config as (key, value, description); a plain holder dict (extra) has bare values"""
    out = []
    for k, item in ext.config.items():
        if isinstance(item, list) and len(item) == 2 and isinstance(item[1], str): out.append((k, item[0], item[1]))
        else: out.append((k, item, ''))
    return out


def exc_tag(e):
    return 'E:K' if isinstance(e, KeyError) else 'E:V' if isinstance(e, ValueError) else 'E:?' + type(e).__name__


def safe_name(name):
    """may this (possibly broken) name be handed to importlib without importing a foreign top-level module?"""
    top = name.split(':', 1)[0].split('.')[0]
    if top == 'markdown': return True
    if not top or not top.isidentifier(): return True         # import_module raises without importing anything
    try: return importlib.util.find_spec(top) is None
    except Exception: return False


# ---------------------------------------------------------------------------------------------- run
def run(driver, rng, n):
    md = markdown.Markdown()
    eps = sorted((ep.name, ep.value) for ep in markdown.util.get_installed_extensions())
    cases = 0; seen = set(); dis = []; samples = []; dist = collections.Counter()

    def check(kind, args, real, label=None):
        nonlocal cases
        model = driver.ask(*args)
        cases += 1; seen.add(args); dist[kind] += 1
        if label: dist[kind + ':' + label] += 1
        rec = {'op': args[0], 'input': list(args[1:]), 'model': model, 'impl': real, 'kind': kind}
        if model != real: dis.append(rec)
        elif len(samples) < 12 and rng.random() < 0.02: samples.append(rec)
        return model

    # 1. entry points and the extra list as the model sees them (tables are read from the source, not the environment)
    for name, value in eps:
        for form, label in ((name, 'short'), (value.split(':')[0], 'dotted'), (value, 'module:Class'),
                            (value.split(':')[0] + ':', 'module:')):
            cls, _ = real_class(md, form)
            check('resolve', ('cfg.resolve', E(form)), proto.enc_opt(cls), label)
            if cls != value: dis.append({'op': 'form', 'input': [form], 'model': '-', 'impl': cls, 'kind': 'forms-differ'})
    from markdown.extensions import extra as extra_mod
    real_extra = [real_class(md, x)[0] for x in extra_mod.extensions]
    check('extra', ('cfg.extra',), ';'.join(E(c) if c else 'N' for c in real_extra))

    # 2. defaults of every Extension subclass the model knows, against a fresh real instance
    classes = [v for _, v in eps] + ['markdown.extensions:Extension']
    for cname in classes:
        mod, cl = cname.split(':')
        ext = getattr(importlib.import_module(mod), cl)()
        kind = 'holder' if cl == 'ExtraExtension' else 'passthrough' if cl == 'CodeHiliteExtension' else 'base'
        check('defaults', ('cfg.defaults', E(cname)), kind + '|' + enc_config(config_items(ext), True))

    # 3. broken and foreign names
    fixed = ['', ':', 'markdown', 'markdown.extensions', 'markdown.extensions:Extension', 'markdown.extensions:',
             'markdown.extensions.nope', 'markdown.extensions.toc:Nope', 'markdown.extensions.toc:TocTreeprocessor',
             'markdown.extensions.abbr:AbbrTreeprocessor', 'markdown.extensions.toc:slugify', 'markdown.util', 'markdown.util:Registry',
             'markdown.core:Markdown', 'markdown.extensions.toc:TocExtension:x', 'markdown.extensions.toc::TocExtension',
             'toc:TocExtension', 'extra:', 'markdown.extensions.extra:Extension', 'markdown.extensions.codehilite:CodeHilite',
             'markdown.extensions.toc.TocExtension', 'markdown/extensions/toc', ' toc', 'toc ', 'TOC', 'Toc',
             'markdown.extensions.Toc', 'markdown.extensions.toc:tocextension', '.toc', 'markdown.extensions.', 'markdown..extensions.toc',
             'markdown.extensions.legacy_em:LegacyUnderscoreProcessor', 'markdown.extensions.smarty:SmartyExtension ',
             'markdown.extensions.md_in_html:MarkdownInHtmlExtension', 'markdown.extensions.attr_list:AttrListTreeprocessor']
    for nm in fixed:
        if safe_name(nm):
            check('resolve', ('cfg.resolve', E(nm)), proto.enc_opt(real_class(md, nm)[0]), 'fixed')

    forms_all = [f for name, value in eps for f in (name, value.split(':')[0], value, value.split(':')[0] + ':')]
    defaults_by_class = {}
    for cname in classes:
        mod, cl = cname.split(':')
        defaults_by_class[cname] = [(k, v) for k, v, _ in config_items(getattr(importlib.import_module(mod), cl)())]
    unknown_keys = ['nope', 'Linenums', 'lang_prefix ', '', 'hl_lines', 'footnotes', 'x y', 'UNIQUE_ids', 'linenos', 'é']

    def gen_kwargs(cname, p_known=0.75):
        """options for one class: known keys (3/4) and unknown ones; a key whose default is a dict / a function only
        gets dicts / functions (what the extension then does with a value of another type is not configuration)"""
        ks = []
        pool = defaults_by_class[cname]
        if not pool and rng.random() > (1 - p_known): return ks      # a class without options: mostly no options
        for _ in range(rng.choice([0, 1, 1, 2, 2, 3, 5])):
            if pool and rng.random() < p_known:
                k, d = rng.choice(pool)
                if isinstance(d, dict): v = rng.choice([{}, {'a': 1}])
                elif callable(d): v = rng.choice([_lam, d])
                else: v = gen_value(rng)
            else: k, v = rng.choice(unknown_keys), gen_value(rng)
            if isinstance(v, str) and not proto.lean_ok(v): continue
            ks.append((k, v))
        return ks

    class Rec(markdown.Markdown):
        """a Markdown that records what `build_extension` makes"""
        def build_extension(self, ext_name, configs):
            ext = super().build_extension(ext_name, configs)
            self.built.append(ext)
            return ext

    def load(extensions, extension_configs):
        """[rendering of each extension object built, in order], up to the first KeyError/ValueError of a constructor;
        None when something else went wrong (out of the model's domain)"""
        built = []
        Rec.built = built
        try: Rec(extensions=extensions, extension_configs=extension_configs); err = None
        except (KeyError, ValueError) as e: err = exc_tag(e)
        except Exception as e:
            dist['out-of-domain:' + type(e).__name__] += 1; return None, None
        return [(type(x).__module__ + ':' + type(x).__name__, x) for x in built], err

    extra_cls = 'markdown.extensions.extra:ExtraExtension'
    for i in range(n):
        which = i % 6
        if which == 0:      # parseBoolValue
            v = gen_value(rng)
            if isinstance(v, str) and not proto.lean_ok(v): continue
            f, p = rng.random() < 0.5, rng.random() < 0.5
            real = real_parsebool(v, f, p)
            check('parsebool', ('cfg.parsebool', enc_val(v), proto.enc_bool(f), proto.enc_bool(p)), real,
                  ('str' if isinstance(v, str) else type(v).__name__) + '->' + real)
        elif which == 1:    # mutated names
            s = rng.choice(forms_all)
            for _ in range(rng.choice([1, 1, 2])):
                j = rng.randrange(len(s) + 1)
                op = rng.random()
                ch = rng.choice('._:aetTE x')
                s = s[:j] + ch + s[j:] if op < 0.35 else s[:j] + s[j + 1:] if op < 0.7 else s[:j] + ch + s[j + 1:]
            if not safe_name(s) or not proto.lean_ok(s): continue
            cls = real_class(md, s)[0]
            check('resolve', ('cfg.resolve', E(s)), proto.enc_opt(cls), 'mutated->' + ('some' if cls else 'none'))
        elif which == 2:    # Extension.setConfig sequences on a real instance
            cname = rng.choice(classes)
            mod, cl = cname.split(':')
            if cname == extra_cls: continue       # its config is the kwargs dict itself, not [value, description] lists
            ext = getattr(importlib.import_module(mod), cl)()
            kw = gen_kwargs(cname) + gen_kwargs(cname)
            outs = []
            for k, v in kw:
                try: ext.setConfig(k, v); outs.append('ok')
                except Exception as e: outs.append(exc_tag(e))
            real = ','.join(outs) + '|' + enc_config(config_items(ext))
            check('setconfig', ('cfg.setconfig', E(cname), enc_kwargs(kw)), real)
            for o in outs: dist['setconfig-outcome:' + o] += 1
        elif which == 3:    # Class(**kwargs)
            cname = rng.choice(classes)
            mod, cl = cname.split(':')
            kw = list(dict(gen_kwargs(cname)).items())
            try:
                ext = getattr(importlib.import_module(mod), cl)(**dict(kw))
                real = 'ok|' + enc_config(config_items(ext))
            except (KeyError, ValueError) as e: real = exc_tag(e)
            check('construct', ('cfg.construct', E(cname), enc_kwargs(kw)), real, cl + '->' + real[:3])
        elif which == 4:    # every naming form with options: same class, same configuration, same exception
            name, value = rng.choice(eps)
            if value == extra_cls: continue       # see the next case
            kw = list(dict(gen_kwargs(value, 0.85)).items())
            reals = []
            for form in (name, value.split(':')[0], value):
                # (a) build_extension(form, kwargs)
                try:
                    ext = md.build_extension(form, dict(kw))
                    real = E(type(ext).__module__ + ':' + type(ext).__name__) + '|ok|' + enc_config(config_items(ext))
                except (KeyError, ValueError) as e: real = E(value) + '|' + exc_tag(e)
                check('build', ('cfg.build', E(form), enc_kwargs(kw)), real)
                # (b) Markdown(extensions=[form], extension_configs={form: kwargs})
                built, err = load([form], {form: dict(kw)})
                if built is None: continue
                real_b = (E(built[0][0]) + '|ok|' + enc_config(config_items(built[0][1]))) if built else E(value) + '|' + err
                reals.append((real, real_b))
            # (c) as an instance made with keyword arguments
            mod, cl = value.split(':')
            try:
                inst = getattr(importlib.import_module(mod), cl)(**dict(kw))
                built, err = load([inst], {})
                real_c = E(value) + '|ok|' + enc_config(config_items(inst))
            except (KeyError, ValueError) as e: real_c = E(value) + '|' + exc_tag(e)
            allr = {x for pair in reals for x in pair} | {real_c}
            dist['forms:' + ('ok' if '|ok|' in real_c else real_c[-3:])] += 1
            if len(allr) != 1:
                dis.append({'op': 'forms', 'input': [name, repr(kw)], 'model': '-', 'impl': sorted(allr), 'kind': 'forms-differ'})
        else:               # extra: options of the components travel through extra's own options
            comps = [c for c in extra_mod.extensions if rng.random() < 0.5]
            if rng.random() < 0.1: comps.append('toc')        # not a component: ignored
            cfg = {c: dict(gen_kwargs(dict(eps).get(c), 0.93)) for c in comps}
            built, err = load(['extra'], {'extra': cfg})
            if built is None: continue
            real = [E(c) + '|ok|' + enc_config(config_items(x)) for c, x in built[1:]]
            if err:
                nxt = dict(eps)[extra_mod.extensions[len(built) - 1]]
                real.append(E(nxt) + '|' + err)
            check('extraload', ('cfg.extraload',) + tuple(E(c) + '|' + enc_kwargs(kw.items()) for c, kw in cfg.items()),
                  '&'.join(real), 'ok' if not err else err)
            # "exactly the union": the same objects as loading the components by name with the same options
            if not err:
                built2, err2 = load(list(extra_mod.extensions), cfg)
                r2 = [E(c) + '|ok|' + enc_config(config_items(x)) for c, x in (built2 or [])]
                if err2 or r2 != real:
                    dis.append({'op': 'extra-union', 'input': [repr(cfg)], 'model': '-', 'impl': [real, r2, err2], 'kind': 'extra-union'})
    return {'cases': cases, 'distinct': len(seen), 'disagreements': dis, 'samples': samples,
            'dist': dict(sorted(dist.items()))}


if __name__ == '__main__':
    import random, json
    d = proto.Driver()
    r = run(d, random.Random(int(os.environ.get('VERIF_SEED', '1'))), int(sys.argv[1]) if len(sys.argv) > 1 else 5000)
    d.close()
    r['disagreements'] = r['disagreements'][:20]
    print(json.dumps(r, indent=1, ensure_ascii=True)[:6000])
