"""Correspondence of the extended block-parser model (lean/MdVerif/Model/BlockExt.lean, ops of
lean/Driver/BlockExtOps.lean) with the implementation in /repo, the bundled extensions admonition, def_list,
footnotes, abbr, sane_lists enabled in random subsets.

run(driver, rng, n) ->
  {'cases', 'distinct', 'disagreements': [{op, input, model, impl}], 'samples', 'dist'}

 (a) `blocksx`  n random '<'/'&'-free documents (token soups and line documents rich in the syntaxes of the five
                extensions, the '<'-free test files of tests/extensions and tests/basic, fixed families), a random
                subset of the extensions, tab_length 4 mostly, also 2 and 8: the block-stage tree
                (`md.parser.parseDocument` after the `normalize_whitespace` and `html_block` preprocessors),
                `md.references`, the footnote table (`FootnoteExtension.footnotes`) and the abbreviation table
                (`AbbrExtension.abbrs`), the dict orders included.  A `KeyError` of `AbbrBlockprocessor.run`
                (`*[X]: ''` for an undefined X) must be answered `oof`.
 (b) `rex.*`, `admclass`, `getitemsx`   against the compiled regexes / methods of the extension processors on random
                strings over each regex's own alphabet.
"""
from __future__ import annotations
import glob, os, re, sys

sys.path.insert(0, os.path.dirname(os.path.dirname(os.path.abspath(__file__))))
import proto  # noqa: E402

import markdown  # noqa: E402
from markdown.extensions.admonition import AdmonitionProcessor  # noqa: E402
from markdown.extensions.def_list import DefListProcessor  # noqa: E402
from markdown.extensions.footnotes import FootnoteBlockProcessor  # noqa: E402
from markdown.extensions.abbr import AbbrBlockprocessor  # noqa: E402
from markdown.extensions.sane_lists import SaneOListProcessor, SaneUListProcessor  # noqa: E402
from markdown import blockprocessors as bp  # noqa: E402

EXTS = ['admonition', 'def_list', 'footnotes', 'abbr', 'sane_lists']

TOKS = ['a', 'b', 'cd', ' ', ' ', '\n', '\n', '\n\n', '\n\n', '*', '_', '\\', '!', '>', '> ', '#', '# ', '-', '- ', '+ ',
        '* ', '1. ', '3. ', '12. ', '2.', '    ', '  ', '   ', '        ', '---', '===', '.', ':', '[a]: /u', '[', ']',
        'é', '٣. ', '\n    ', '\n        ', '    - ', '    1. ', 'A',
        # admonition
        '!!! note', '!!! note "T"', '!!! a b  c "x y"', '!!!', '!!! ', '!!!note', '!!! Note ""', '!!! dan-ger Ab',
        '"', ' "t" ', '!!! n "a" b"', '!!! x_1  Y   z', '\n!!! tip\n', '!!! w "q\n', '!!! k  \n', '!! a', '!!!  a',
        '\n    !!! in', '!!! N "é"',
        # def_list
        ': ', ':   ', ':    ', ' : d', 'term\n', '\n: def', '\n:   def', '::', '   : x', '    : y', ':\n', ': \n',
        '\n\n:   loose', 'T1\nT2\n: d1\n: d2',
        # footnotes
        '[^1]: ', '[^1]:', '[^a b]: note', '[^', ']:', '[^x\ny]: z', '\n    cont', '   [^2]: t', '[^1]: a\n[^2]: b',
        '[^]: e', '\n\n    more', '    [^3]: in', '[^1]', '[^q]:  \n  lazy',
        # abbr
        '*[HTML]: Hyper', '*[', ']: ', '] : ', '*[a]:\n  t', "*[X]: ''", '*[X]: ""', ']:', '*[a b] : T t', '*[]: e',
        '*[n]:', '*[a]b]: c', '*[a\\]: c', "*[HTML]: ''", '*[cd]: two',
        # lists
        '01. ', '1) ', '- [^1]: x', '* : d', '2. !!! note']

FAMILIES = [
    '!!! note "Title"\n    body\n\n    more body\n\nafter',
    '!!! danger\n    - a\n    - b\n\n        deep in list\n\n    back',
    '!!! note\n    1. a\n\n        under a\n\n    - u\n\n            code?',
    'x\n!!! note\n    y\nz',
    '!!! a\n    !!! b\n        inner\n\n        inner2\n\n    outer2',
    '- item\n\n    !!! note\n        in list\n\n        more',
    'Apple\n:   Pomaceous fruit\n\nOrange\n:   Citrus',
    'Term 1\nTerm 2\n:   Def a\n\n:   Def b\n\n    para in b\n\n        code in b',
    'T\n\n:   loose\n\n:   loose 2',
    ': not a def',
    '- li\n\n: after list',
    'T\n:   d\n    - x\n    - y\n\n    T2\n    :   nested',
    'para [^1] ref\n\n[^1]: The note\n    continued\n\n    second para\n\n        code\n\nnot note',
    '[^a]: one\n[^b]: two\nlazy\n\n    indented for b\n\n    [^c]: three in indented',
    'before\n[^1]: x\nafter',
    '[^1]: x\n\n    [^2]: y\n    z',
    '*[HTML]: Hyper Text\n*[W3C]:  World Wide\nThe HTML spec',
    'before\n*[A]: aa\nafter\n*[B]: bb',
    "*[A]: aa\n\n*[A]: ''\n\n*[A]: bb",
    "*[Z]: ''",
    '*[A]:\n   title on next line',
    '1. a\n2. b\n- c\n- d\n3. e',
    '3. three\n4. four',
    '- a\n\n1. b\n\n* c',
    '1. a\n* b\n    2. c\n    - d',
    '٣. x\n٤. y',
    '3. a\n\n    nested\n\n1. b',
    '!!! note\n    T\n    : d\n\n    [^1]: fn in adm\n\n    *[A]: B',
    ': a\n\n    !!! x\n        y',
    '> !!! q\n>     in quote\n> T\n> : d',
    '1. a\n\n    : d\n\nT\n: d\n\n    1. x',
    '!!! n\n\n    body after blank',
    '!!! n\n    body\n!!! m\n    body2',
    '  !!! note\n    x',
    '\n!!! note\n    x',
    '!!! note\n    - item\n        - sub\n\n        under item',
    '[^1]: a\n\n    x\n[^2]: b\n\n    more for 2\n\n    again',
    '[^1]: a\n\n    x\n\n    y\n  [^2]: b\n    lazy2\n\n    more for 2\n\nout',
    '!!! note\n    T\n    :   d\n\n        under dd\n\n    T2\n    :   d2\n        - x\n\n            deep',
    '!!! note\n    1. one\n\n        under one\n\n            code under one',
    '!!! note\n    T\n    :   d\n        T3\n        :   dd3\n\n            under dd3',
]

RX_ALPH = {
    'adm': ['!!!', '!!! ', '!', ' ', '  ', 'a', 'B', '-', '_', '1', '"', '\n', 'é', 'É', '.', ' "t"', '""', '\n!!! ',
            ' "', '" ', 'x y', '\xa0', '٣'],
    'def': [':', ' ', '  ', '   ', '    ', 'a', '\n', ': ', '\n:', 'b c', '::', ' : ', '\x0b'],
    'fn': ['[^', ']', ':', ']:', ' ', '   ', '    ', 'a', '1', '\n', '[^1]:', '[^a]: b', '[', '^', 'x y', '\t'],
    'abbr': ['*[', ']', ':', ']:', '] :', ' ', '  ', 'a', 'B', '\n', '\\', '*', '[', "''", '""', 'T t', ']  :', '\n '],
    'items': ['1', '23', '.', ' ', '  ', '    ', '*', '+', '-', 'a', '٣', '\n', '1. ', '- ', '3. ', '* ', '\n    ',
              'x', '       '],
}


def _soup(rng, toks, lo, hi):
    return ''.join(rng.choice(toks) for _ in range(rng.randint(lo, hi)))


def _structured(rng):
    """lines = indentation + marker + content joined by single / double newlines"""
    out = []
    for _ in range(rng.randint(1, 10)):
        ind = ' ' * rng.choice((0, 0, 0, 0, 1, 3, 4, 4, 4, 4, 5, 8, 8, 8, 12, 16))
        mk = rng.choice(('- ', '* ', '+ ', '1. ', '3. ', '10.  ', '', '', '', '', '> ', '# ', '!!! note', '!!! tip "T"',
                         '!!! a b', ': ', ':   ', ':  ', '[^1]: ', '[^n]: ', '*[AB]: ', '*[C]: ', '[r]: /u ', '---'))
        ct = rng.choice(('a', 'b c', '', 'x  ', 'term', 'AB is C', '[^1]', '- y', ': z', '    k', '"T"', "''", 'note',
                         '!!! in', '1. n', '[^2]: q', '*[D]: e'))
        out.append(ind + mk + ct)
        out.append(rng.choice(('\n', '\n', '\n', '\n\n', '\n\n', '\n\n\n', '\n \n')))
    return ''.join(out[:-1])


def _nested(rng):
    """a structured document indented under an admonition header, a definition, a footnote or a list item"""
    body = _structured(rng).split('\n')
    w = rng.choice((4, 4, 4, 8, 3))
    head = rng.choice(('!!! note', '!!! tip "T"', 'Term\n:   d', ':   d', '[^1]: fn', '- li', '1. one', '!!! a\n    - x',
                       '!!! a\n    T\n    :   d', 'p'))
    sep = rng.choice(('\n', '\n', '\n\n'))
    tail = rng.choice(('', '', '\n\nafter', '\nlazy'))
    return head + sep + '\n'.join((' ' * w + l) if l.strip() else l for l in body) + tail


def _corpus():
    out = []
    for f in sorted(glob.glob('/repo/tests/extensions/*.txt') + glob.glob('/repo/tests/extensions/extra/*.txt') +
                    glob.glob('/repo/tests/basic/*.txt')):
        try:
            out.append(open(f, encoding='utf-8').read())
        except Exception:
            pass
    return out


def _depth(e):
    return 1 + max((_depth(c) for c in e), default=0)


def _tags(t, acc):
    acc.add(t.tag)
    for c in t.children:
        _tags(c, acc)


def _grp(x):
    return 'N' if x is None else 'S' + proto.enc_str(x)


class _Run:
    def __init__(self, driver):
        self.driver = driver
        self.cases = 0
        self.inputs = set()
        self.dis = []
        self.samples = []
        self.dist = {}

    def count(self, k, d=1):
        self.dist[k] = self.dist.get(k, 0) + d

    def check(self, reqs, expected, show):
        answers = self.driver.ask_many(reqs)
        for r, a, e, s in zip(reqs, answers, expected, show):
            self.cases += 1
            self.inputs.add(r)
            if callable(e):
                model, impl, ok = e(a)
            else:
                model, impl, ok = a, e, a == e
            if not ok:
                self.dis.append({'op': r[0], 'input': s, 'model': model, 'impl': impl})
            elif len(self.samples) < 40 and self.cases % 997 == 1:
                self.samples.append({'op': r[0], 'input': s, 'answer': a if len(a) < 200 else a[:200] + '…'})


# the implied title is `klass.split(' ', 1)[0].capitalize()`: a non-ASCII first character needs the title-case table
_NONASCII_CLASS = re.compile(r'!!! ?[^\x00-\x7f]')


class _MdPool:
    def __init__(self):
        self.pool = {}

    def get(self, flags, tab):
        key = (flags, tab)
        if key not in self.pool:
            self.pool[key] = markdown.Markdown(extensions=[e for e, f in zip(EXTS, flags) if f == '1'], tab_length=tab)
        return self.pool[key]

    def drop(self, flags, tab):
        self.pool.pop((flags, tab), None)


def _tables(md, flags):
    fn = []
    ab = []
    if flags[2] == '1':
        fn = list(md.parser.blockprocessors['footnote'].footnotes.footnotes.items())
    if flags[3] == '1':
        ab = list(md.parser.blockprocessors['abbr'].abbrs.items())
    return fn, ab


def _docs(R, rng, n):
    corpus = _corpus()
    pool = _MdPool()
    todo = []
    i = 0
    attempts = 0
    fam = list(FAMILIES) + [c for c in corpus if '<' not in c and '&' not in c]
    fam = [(f, fl) for f in fam for fl in ('11111', '00000')] + [(f, None) for f in fam]
    while len(todo) < n and attempts < 4 * n + 100:
        attempts += 1
        tab = 4
        flags = None
        if fam:
            src, flags = fam.pop()
        elif i % 5 == 3:
            src = _structured(rng)
            tab = rng.choice((4, 4, 4, 4, 2, 8))
        elif i % 5 == 2:
            src = _nested(rng)
            if rng.random() < 0.3:
                src = _nested(rng).replace('\n', '\n    ') if rng.random() < 0.5 else src + '\n\n' + _nested(rng)
        elif i % 11 == 4 and corpus:
            c = rng.choice(corpus)
            a = rng.randint(0, len(c))
            src = c[a:a + rng.randint(0, 200)]
        else:
            src = _soup(rng, TOKS, 1, 16)
            r = rng.random()
            if r < 0.08:
                tab = 2
            elif r < 0.16:
                tab = 8
        i += 1
        if flags is None:
            r = rng.random()
            if r < 0.25:
                flags = '11111'
            elif r < 0.5:
                k = rng.randrange(5)
                flags = ''.join('1' if j == k else '0' for j in range(5))
            else:
                flags = ''.join(rng.choice('01') for _ in range(5))
        if '<' in src or '&' in src:
            R.count('skip:lt-or-amp'); continue
        if not proto.lean_ok(src):
            R.count('skip:surrogate'); continue
        if 'Σ' in src:
            R.count('skip:final-sigma'); continue
        md = pool.get(flags, tab)
        md.reset()
        lines = md.preprocessors['normalize_whitespace'].run(src.split('\n'))
        lines2 = md.preprocessors['html_block'].run(list(lines))
        assert list(lines2) == list(lines)
        text = '\n'.join(lines)
        if flags[0] == '1' and _NONASCII_CLASS.search(text):
            R.count('skip:non-ascii-class'); continue
        exc = None
        root = None
        try:
            root = md.parser.parseDocument(list(lines)).getroot()
        except RecursionError:
            md.parser.state.clear()
            pool.drop(flags, tab)
            R.count('skip:recursion'); continue
        except KeyError as e:
            exc = 'KeyError'
            pool.drop(flags, tab)
        except Exception as e:                                   # any other exception is reported as a disagreement
            exc = type(e).__name__
            pool.drop(flags, tab)
        if root is not None and _depth(root) > 150:
            R.count('skip:deep'); continue
        if exc is None:
            fn, ab = _tables(md, flags)
            impl = (proto.from_etree(root).key(keep_none=False), dict(md.references), fn, ab)
        else:
            impl = exc
        todo.append((flags, tab, src, text, impl))
    reqs = [('blocksx', flags, str(tab), proto.enc_str(text)) for flags, tab, _, text, _ in todo]
    exp = []
    for flags, tab, src, text, impl in todo:
        R.count('tab:%d' % tab)
        R.count('flags:' + flags)

        def cmp(a, impl=impl, flags=flags):
            if impl == 'KeyError':
                R.count('impl:KeyError')
                return a, 'KeyError (expected oof)', a == 'oof'
            if isinstance(impl, str):
                R.count('impl:' + impl)
                return a, impl, False
            if not a.startswith('ok '):
                if a == 'oof':
                    R.count('oof')
                return a, repr(impl), False
            tree, rf, fn, ab = a[3:].split('|')
            mrefs = {}
            if rf:
                for triple in rf.split(';'):
                    k, u, t = triple.split('=')
                    mrefs[proto.dec_str(k)] = (proto.dec_str(u), proto.dec_opt(t))

            def dec_dict(f):
                return [tuple(proto.dec_str(x) for x in kv.split('=')) for kv in f.split(';')] if f else []
            mt = proto.dec_tree(tree)
            model = (mt.key(keep_none=False), mrefs, dec_dict(fn), dec_dict(ab))
            tags = set(); _tags(mt, tags)
            for t in tags:
                R.count('tag:' + t)
            if mrefs:
                R.count('refs')
            if model[2]:
                R.count('footnotes')
                if len(model[2]) > 1:
                    R.count('footnotes:2+')
                if any('\n\n' in v for _, v in model[2]):
                    R.count('footnotes:multiblock')
            if model[3]:
                R.count('abbrs')
            if flags[0] == '1' and 'div' in [c.tag for c in _walk(mt)][1:]:
                R.count('admonition-div')
            if any(c.tag == 'ol' and c.attrs for c in _walk(mt)):
                R.count('ol-start')
            return repr(model), repr(impl), model == impl
        exp.append(cmp)
    R.check(reqs, exp, [{'flags': flags, 'tab': tab, 'src': src} for flags, tab, src, _, _ in todo])


def _walk(t):
    yield t
    for c in t.children:
        yield from _walk(c)


# ------------------------------------------------------------------ (b) recognisers
def _recognisers(R, rng, n):
    mds = {t: markdown.Markdown(tab_length=t) for t in (4, 2, 8)}
    adm = AdmonitionProcessor(mds[4].parser)
    reqs, exp, show = [], [], []

    def add(req, e, s):
        if all(proto.lean_ok(x) for x in s.values() if isinstance(x, str)) and not any(
                'Σ' in x for x in s.values() if isinstance(x, str)):
            reqs.append(req); exp.append(e); show.append(s)

    for _ in range(n):
        s = _soup(rng, RX_ALPH['adm'], 0, 9)
        m = AdmonitionProcessor.RE.search(s)
        add(('rex.adm', proto.enc_str(s)),
            '%d %d %s %s' % (m.start(), m.end(), _grp(m.group(1)), _grp(m.group(2))) if m else 'none', {'s': s})
        if m and not (m.group(2) is None and ord(m.group(1)[0]) > 127):
            k, t = adm.get_class_and_title(m)
            add(('admclass', proto.enc_str(m.group(1)), _grp(m.group(2))), _grp(k) + ' ' + _grp(t),
                {'g1': m.group(1), 'g2': m.group(2)})
        s = _soup(rng, RX_ALPH['def'], 0, 8)
        m = DefListProcessor.RE.search(s)
        e = '%d %d %s' % (m.start(), m.end(), _grp(m.group(2))) if m else 'none'
        add(('rex.def', proto.enc_str(s)), e + (' 1' if DefListProcessor.NO_INDENT_RE.match(s) else ' 0'), {'s': s})
        s = _soup(rng, RX_ALPH['fn'], 0, 9)
        m = FootnoteBlockProcessor.RE.search(s)
        add(('rex.fn', proto.enc_str(s)),
            '%d %d %s %s' % (m.start(), m.end(), _grp(m.group(1)), _grp(m.group(2))) if m else 'none', {'s': s})
        s = _soup(rng, RX_ALPH['abbr'], 0, 9)
        m = AbbrBlockprocessor.RE.search(s)
        add(('rex.abbr', proto.enc_str(s)),
            '%d %d %s %s' % (m.start(), m.end(), _grp(m.group('abbr')), _grp(m.group('title'))) if m else 'none',
            {'s': s})
        s = _soup(rng, RX_ALPH['items'], 1, 10)
        tab = rng.choice((4, 4, 2, 8))
        for kind, procs in (('ol', (SaneOListProcessor,)), ('ul', (SaneUListProcessor,)),
                            ('no', (bp.OListProcessor, bp.UListProcessor))):
            for P in procs:
                proc = P(mds[tab].parser)
                if proc.RE.match(s):
                    items = proc.get_items(s)
                    add(('getitemsx', kind, str(tab), proto.enc_str(s)),
                        proto.enc_list(items) + ' ' + _grp(proc.STARTSWITH), {'kind': kind, 'tab': tab, 's': s})
                    break
    R.check(reqs, exp, show)


def run(driver, rng, n):
    R = _Run(driver)
    _docs(R, rng, n)
    c0 = R.cases
    R.count('cases:blocksx', c0)
    _recognisers(R, rng, max(n // 8, 50))
    R.count('cases:recognisers', R.cases - c0)
    return {'cases': R.cases, 'distinct': len(R.inputs), 'disagreements': R.dis, 'samples': R.samples,
            'dist': dict(sorted(R.dist.items()))}


if __name__ == '__main__':
    import json, random, time
    seed = int(sys.argv[1]) if len(sys.argv) > 1 else 1
    n = int(sys.argv[2]) if len(sys.argv) > 2 else 2000
    d = proto.Driver(sys.argv[3] if len(sys.argv) > 3 else None)
    t0 = time.time()
    res = run(d, random.Random(seed), n)
    d.close()
    print(json.dumps({'cases': res['cases'], 'distinct': res['distinct'], 'disagreements': len(res['disagreements']),
                      'dist': res['dist'], 'seconds': round(time.time() - t0, 1)}, ensure_ascii=False))
    for x in res['disagreements'][:12]:
        print('DISAGREE', json.dumps(x, ensure_ascii=False))
