"""Correspondence of the Lean inline / tree-processor / postprocessor models with the implementation.

`run(driver, rng, n)` draws `n` random '<'-free documents (token soup and corpus fragments), runs the REAL block stage,
and compares stage by stage (each stage is fed with the real output of the previous one):
  inline   md.treeprocessors['inline'].run(root)            vs op `inline`
  pretty   md.treeprocessors['prettify'].run(root)          vs op `pretty`
  unesc    md.treeprocessors['unescape'].run(root)          vs op `unesc`
  post     the real postprocessors on the stripped output   vs op `post`
  finish   md.convert(src)                                  vs op `finish` on the real serializer output
plus unit ops against the real regular expressions / methods on random strings over their own alphabets, and synthetic
cases for the raw-HTML restore and the top-level stripping.
"""
from __future__ import annotations
import glob, os, re, sys, collections

sys.path.insert(0, os.path.dirname(os.path.dirname(os.path.abspath(__file__))))
import proto  # noqa: E402
import markdown  # noqa: E402
from markdown import inlinepatterns as ip  # noqa: E402

STX, ETX = '\x02', '\x03'
TOKS = ['a', 'b', 'cd', ' ', ' ', '\n', '*', '**', '***', '_', '__', '___', '`', '``', '\\', '\\\\', '!', '[', ']', '(',
        ')', '[a]', '[b c]', '[x][a]', '![i][a]', '"', "'", ' "t"', ':', '  \n', 'é', '1', '-', '# ', '> ', '- ', '\n\n',
        '[a]: /u "T"\n\n', '[b c]: v\n\n', '.', '{', '+', '    ', '1. ', '\t', '=', '---',
        '&', '&amp;', ';', '#', 'x', '&#1', '&#12;', '&#x1f', '&#x1F;', '&#', '&#x', '&a', '&lt;', '&ſ;', '&1;',
        '[a]: /u&v "T&amp;"\n\n', 'ff', '](', '("', ' *', '* ', ' _ ', '_a_', '*b*', '\\*', '\\(', '((', '))', '>']
F = re.DOTALL | re.UNICODE


def _corpus():
    out = []
    for f in sorted(glob.glob('/repo/tests/basic/*.txt') + glob.glob('/repo/tests/misc/*.txt')):
        try:
            out.append(open(f, encoding='utf-8').read())
        except Exception:
            pass
    return out


FIXED = ['[]("\\((', '[a](b"(', '[a](b "t")', '![a *b*](c \'t\')', '*a **b** c*', '***a*b**', '___a__b_', '* a *', 'x * y*',
         '- a *b*\n\n    - c `d`\n    - e [f](g)\n\n- h\n', '> - a *b* c\n> - **d**\n', '[a *b* `c`][]\n\n[a *b* `c`]: /u\n',
         '[x][a] ![i][a]\n\n[a]: /u "T"\n', 'a  \nb  \n*c*  \n', '\\\\`a`', '``a`b``', '&amp; &#12; &#x1F; &x', '\\* \\_ \\a \\',
         '*a [b*](c)', '[*a](b*c)', '[a](b(c)d)', '[a]( b "t" )', "[a](b 't\"u')", '[a](b"c)', '[[a]](b)', '![[a]](b)', '**a*b*c**',
         '__a_b_c__', '_a_ _ _b_', 'a_b_c', '- [a](b)\n- *c*\n    1. `d`\n    2. **e** f\n', '# *a* b `c`\n\ntext _d_\n',
         '[a](<b c> "t")'.replace('<', '').replace('>', ''), '\t', '', ' ', '* * *a', '_ _', '[a] (b)', '[a]\n[b]\n\n[b]: /x\n']
LINKY = ['[', ']', '(', ')', '"', "'", '\\(', '\\)', '\\[', '!', 'a', 'b', ' ', ' ', '*', '_', '`', '[a]', '(b)', '(b "t")', "(c 't')",
         '](', '![', '[x][a]', '[a]: /u "T"\n\n', '\n', '((', '))', '\\"', '&amp;', 'é']
EMPHY = ['*', '**', '***', '_', '__', '___', 'a', 'b', ' ', ' ', '\n', 'c d', '1', '\\*', '\\_', '`', 'é', ' * ', ' _ ', '  \n']
LINES = ['- ', '    - ', '        - ', '> ', '1. ', '    1. ', '# ', '## ', '', '', '    ', '\n']
WORDS = ['a', '*b*', '**c**', '`d`', '[e](f)', '[g][a]', '_h_', '\\*', 'i  ', '![j](k "l")', '&amp;', '*m', 'n*', ' * ', '[o]',
         '***p***', '__q__', '[r *s*](t)', 'u_v_w', '***a **b _c_** d***', '___a __b *c*__ d___', '***a **b *c* _d_** e***', '**a *b _c_ d* e**', '(', ')', '"', '[a]: /u "T"', '*x `y` z*', '**a *b* c**', '[*a* `b`](c)']


def gen_doc(rng, corpus):
    r = rng.random()
    if r < 0.18:
        from gen import common as _G
        return _G.inline_doc(rng).replace('<', '')
    r = rng.random()
    if r < 0.12 and corpus:
        c = rng.choice(corpus)
        a = rng.randint(0, len(c))
        s = c[a:a + rng.randint(0, 160)]
        s = s.replace('<', rng.choice(['', '(', '[']))
    elif r < 0.20:
        s = ''.join(rng.choice(TOKS) for _ in range(rng.randint(10, 40)))
    elif r < 0.40:
        s = ''.join(rng.choice(LINKY) for _ in range(rng.randint(1, 18)))
    elif r < 0.55:
        s = ''.join(rng.choice(EMPHY) for _ in range(rng.randint(1, 18)))
    elif r < 0.75:
        s = '\n'.join(rng.choice(LINES) + ' '.join(rng.choice(WORDS) for _ in range(rng.randint(0, 4)))
                      for _ in range(rng.randint(1, 7)))
    else:
        s = ''.join(rng.choice(TOKS) for _ in range(rng.randint(1, 16)))
    return s.replace('<', '')


def tree_ok(t):
    if not proto.lean_ok(t.tag or '') or not proto.lean_ok(t.text or '') or not proto.lean_ok(t.tail or ''):
        return False
    for k, v in t.attrs:
        if not proto.lean_ok(k) or not proto.lean_ok(v):
            return False
    return all(tree_ok(c) for c in t.children)


def enc_refs(refs):
    if not refs:
        return '-'
    return ';'.join(proto.enc_str(k) + '=' + proto.enc_str(u) + '=' + proto.enc_opt(t) for k, (u, t) in refs.items())


def tags_of(t, acc):
    acc[t.tag if t.kind == 'n' else t.kind] += 1
    for c in t.children:
        tags_of(c, acc)
    return acc


def dec_tree_answer(ans):
    """`ok <tree>|<stash>` → (key, stash)"""
    tree, stash, summary = ans[3:].split('|')
    return proto.dec_tree(tree).key(keep_none=False), proto.dec_list(stash), proto.dec_list(summary)


class Acc:
    def __init__(self):
        self.cases = 0
        self.inputs = set()
        self.dis = []
        self.samples = []
        self.dist = collections.Counter()

    def check(self, op, inp, model, impl, sample=False):
        self.cases += 1
        self.dist['op:' + op] += 1
        self.inputs.add((op, inp))
        if model != impl:
            if len(self.dis) < 50:
                self.dis.append({'op': op, 'input': inp, 'model': model, 'impl': impl})
            self.dist['disagree:' + op] += 1
        elif sample and len(self.samples) < 12:
            self.samples.append({'op': op, 'input': inp, 'output': impl})


# ---------------------------------------------------------------------------------------------- documents
def docs_part(driver, rng, n, acc):
    md = markdown.Markdown()
    corpus = _corpus()
    batch = []

    def flush():
        if not batch:
            return
        reqs = []
        for item in batch:
            reqs.extend(item['reqs'])
        answers = driver.ask_many(reqs)
        pos = 0
        for item in batch:
            for (op, inp, expect, decode) in item['checks']:
                ans = answers[pos]
                pos += 1
                try:
                    got = decode(ans)
                except Exception as e:  # malformed answer = disagreement
                    got = 'undecodable: %r (%s)' % (ans[:80], e)
                acc.check(op, inp, got, expect, sample=(op in ('inline', 'finish')))
        batch.clear()

    for di in range(n):
        src = FIXED[di] if di < len(FIXED) else gen_doc(rng, corpus)
        acc.dist['len:%d' % min(5, len(src) // 20)] += 1
        if not proto.lean_ok(src):
            acc.dist['skip:surrogate'] += 1
            continue
        item = {'reqs': [], 'checks': []}

        def add(op, args, inp, expect, decode):
            item['reqs'].append((op,) + tuple(args))
            item['checks'].append((op, inp, expect, decode))
        md.reset()
        try:
            lines = md.preprocessors['normalize_whitespace'].run(src.split('\n'))
            lines = md.preprocessors['html_block'].run(lines)
            root = md.parser.parseDocument(list(lines)).getroot()
        except RecursionError:
            acc.dist['skip:block-recursion'] += 1
            continue
        t_in = proto.from_etree(root)
        if not tree_ok(t_in):
            acc.dist['skip:surrogate'] += 1
            continue
        refs = dict(md.references)
        pre_stash = list(md.htmlStash.rawHtmlBlocks)
        if pre_stash:   # cannot happen without '<'
            acc.dist['skip:block-html'] += 1
            continue
        enc_in = proto.enc_tree(t_in)
        tags_in = tags_of(t_in, collections.Counter())
        # ---- inline
        try:
            md.treeprocessors['inline'].run(root)
        except (TypeError, RecursionError) as e:
            acc.dist['skip:inline-' + type(e).__name__] += 1
            add('inline', [enc_in, enc_refs(refs)], src, 'exception', lambda a: 'exception' if a in ('err', 'oof') else a[:60])
            batch.append(item)
            continue
        t1 = proto.from_etree(root)
        stash = [str(x) for x in md.htmlStash.rawHtmlBlocks]
        sn = md.treeprocessors['inline'].stashed_nodes
        summary = [('s' + v) if isinstance(v, str) else ('n' + v.tag + ''.join(' ' + x for x in v.attrib.values()))
                   for _, v in sorted(sn.items(), key=lambda kv: int(kv[0]))]
        acc.dist['stash-entries'] += len(summary)
        add('inline', [enc_in, enc_refs(refs)], src, (t1.key(keep_none=False), stash, summary), dec_tree_answer)
        created = tags_of(t1, collections.Counter()) - tags_in
        for tg, k in created.items():
            acc.dist['tag:' + str(tg)] += k
        if stash:
            acc.dist['docs:entity-stash'] += 1
        if STX + 'klzzwxh' in repr(t1.key()).encode().decode('unicode_escape', 'ignore') or 'klzzwxh' in repr(t1.key()):
            acc.dist['docs:placeholder-left-in-tree'] += 1
        # ---- prettify
        enc1 = proto.enc_tree(t1)
        md.treeprocessors['prettify'].run(root)
        t2 = proto.from_etree(root)
        add('pretty', [enc1], src, t2.key(keep_none=False), lambda a: proto.dec_tree(a).key(keep_none=False))
        # ---- unescape
        enc2 = proto.enc_tree(t2)
        try:
            md.treeprocessors['unescape'].run(root)
            t3 = proto.from_etree(root)
            ok3 = tree_ok(t3)
            if ok3:
                add('unesc', [enc2], src, t3.key(keep_none=False),
                    lambda a: proto.dec_tree(a[3:]).key(keep_none=False) if a.startswith('ok ') else a)
        except (ValueError, OverflowError):
            ok3 = False
            add('unesc', [enc2], src, 'err', lambda a: a)
        if not ok3:
            acc.dist['skip:after-unescape'] += 1
            batch.append(item)
            continue
        # ---- serializer (real), strip, postprocessors
        out = md.serializer(root)
        try:
            start = out.index('<div>') + 5
            end = out.rindex('</div>')
            stripped = out[start:end].strip()
        except ValueError:
            stripped = '' if out.strip().endswith('<div />') else None
        add('strip', [proto.enc_str(out)], src, stripped, proto.dec_opt)
        if stripped is not None:
            posted = stripped
            for pp in md.postprocessors:
                posted = pp.run(posted)
            add('post', [proto.enc_str(stripped), proto.enc_list(stash)], src, posted,
                lambda a: proto.dec_str(a[3:]) if a.startswith('ok ') else a)
        try:
            if not src.strip():      # `convert` answers '' for a blank source before any stage runs
                raise RecursionError
            final = md.reset().convert(src)
            if [str(x) for x in md.htmlStash.rawHtmlBlocks] != stash:
                acc.dist['note:stash-differs-in-convert'] += 1
            else:
                add('finish', [proto.enc_str(out), proto.enc_list(stash)], src, final,
                    lambda a: proto.dec_str(a[3:]) if a.startswith('ok ') else a)
                if STX in final or 'klzzwxh' in final or 'wzxhzdk' in final:
                    acc.dist['docs:leaked-placeholder'] += 1
        except RecursionError:
            acc.dist['skip:finish-blank-or-recursion'] += 1
        acc.dist['docs'] += 1
        batch.append(item)
        if len(batch) >= 200:
            flush()
    flush()


# ---------------------------------------------------------------------------------------------- unit ops
def rnd(rng, al, k):
    return ''.join(rng.choice(al) for _ in range(rng.randint(0, k)))


def unit_part(driver, rng, n, acc):
    md = markdown.Markdown()
    md.treeprocessors['inline'].stashed_nodes = {}
    link = md.inlinePatterns['link']
    ref = md.inlinePatterns['reference']
    BT = re.compile(ip.BACKTICK_RE, F)
    NS = re.compile(ip.NOT_STRONG_RE, F)
    EN = re.compile(ip.ENTITY_RE, F)
    EM = {'*': [re.compile(x, F) for x in (ip.EM_STRONG_RE, ip.STRONG_EM_RE, ip.STRONG_EM3_RE, ip.STRONG_RE, ip.EMPHASIS_RE)],
          '_': [re.compile(x, F) for x in (ip.EM_STRONG2_RE, ip.STRONG_EM2_RE, ip.SMART_STRONG_EM_RE, ip.SMART_STRONG_RE,
                                           ip.SMART_EMPHASIS_RE)]}
    # the processors must still use these very expressions
    assert md.inlinePatterns['backtick'].compiled_re.pattern == ip.BACKTICK_RE
    assert [i.pattern.pattern for i in ip.AsteriskProcessor.PATTERNS] == [r.pattern for r in EM['*']]
    assert [i.pattern.pattern for i in ip.UnderscoreProcessor.PATTERNS] == [r.pattern for r in EM['_']]
    assert md.inlinePatterns['not_strong'].compiled_re.pattern == ip.NOT_STRONG_RE
    assert md.inlinePatterns['entity'].compiled_re.pattern == ip.ENTITY_RE
    E = proto.enc_str
    reqs, checks = [], []

    def add(op, args, inp, expect, decode):
        reqs.append((op,) + tuple(args))
        checks.append((op, inp, expect, decode))

    def pair(a):
        return None if a == 'N' else tuple(int(x) for x in a.split(' '))
    al_bt = ['`', '``', '\\', '\\\\', 'a', ' ', '\n', '*', '```']
    al_em = ['*', '**', '_', '__', 'a', 'b', ' ', '\n', '1', 'é', '-', '***', '___']
    al_en = ['&', '#', 'x', 'X', ';', '1', 'f', 'F', 'g', 'a', 'ſ', ' ', '&#', '&#x', '&amp;', '٣']
    al_ln = ['(', ')', "'", '"', 'a', 'b', ' ', '<', '>', '\n', '[', ']', '\\', '\t', 'é']
    al_tx = ['[', ']', 'a', 'b', ' ', '(', '\n']
    al_id = ['[', ']', 'a', 'B', ' ', '\n', '  ', 'É', '\t', 'x']
    al_ue = [STX, ETX, '1', '4', '0', '9', '٣', 'a', STX + '42' + ETX, STX + '1114112' + ETX, STX + '233' + ETX]
    al_bl = ['<', '/', '>', ' ', 'div', 'p', 'P', 'span', '!', '?', '@', '%', 'x', '\n', 'DIV', 'hr']
    k = max(200, n // 4)
    for _ in range(k):
        s = rnd(rng, al_bt, 10); st = rng.randint(0, len(s) + 1)
        m = BT.search(s, st)
        exp = None if not m else (('code', m.start(), m.end(), m.group(3)) if m.group(3) is not None else ('bs', m.start(), m.end(), m.group(1)))

        def dbt(a):
            if a == 'N': return None
            kind, a1, a2, g = a.split(' ')
            return (kind, int(a1), int(a2), proto.dec_str(g))
        add('re.backtick', [E(s), str(st)], (s, st), exp, dbt)

        s = rnd(rng, al_em, 11)
        c = rng.choice('*_'); idx = rng.randint(0, 4)
        cands = [i for i in range(len(s)) if s[i] == c]
        pos = rng.choice(cands) if cands and rng.random() < 0.85 else rng.randint(0, len(s) + 1)
        m = EM[c][idx].match(s, pos)
        exp = (m.end(), list(m.groups()[1:])) if m else None

        def dem(a):
            if a == 'N': return None
            e, _, gs = a.partition('|')
            return (int(e), proto.dec_list(gs))
        add('re.em', [E(c), str(idx), E(s), str(pos)], (c, idx, s, pos), exp, dem)

        s = rnd(rng, al_em, 10); st = rng.randint(0, len(s) + 1)
        m = NS.search(s, st)
        add('re.notstrong', [E(s), str(st)], (s, st), (m.start(), m.end()) if m else None, pair)

        s = rnd(rng, al_en, 10); st = rng.randint(0, len(s) + 1)
        m = EN.search(s, st)
        add('re.entity', [E(s), str(st)], (s, st), (m.start(), m.end()) if m else None, pair)

        s = rnd(rng, al_ln, 12)
        if rng.random() < 0.8: s = '(' + s
        st = rng.randint(0, min(2, len(s)))
        exp = link.getLink(s, st)

        def dln(a):
            h, t, i, hd = a.split('|')
            return (proto.dec_str(h), proto.dec_opt(t), int(i), hd == '1')
        add('getlink', [E(s), str(st)], (s, st), tuple(exp), dln)

        s = rnd(rng, al_tx, 10); st = rng.randint(0, len(s) + 1)
        exp = link.getText(s, st)

        def dtx(a):
            t, i, hd = a.split('|')
            return (proto.dec_str(t), int(i), hd == '1')
        add('gettext', [E(s), str(st)], (s, st), tuple(exp), dtx)

        s = rnd(rng, al_id, 8); st = rng.randint(0, len(s) + 1); tx = rnd(rng, al_id, 3)
        i2, e2, hd = ref.evalId(s, st, tx)
        exp = (ref.NEWLINE_CLEANUP_RE.sub(' ', i2), e2) if hd else None

        def did(a):
            if a == 'N': return None
            i, _, e = a.partition('|')
            return (proto.dec_str(i), int(e))
        if proto.lean_ok(s + tx) and 'Σ' not in (s + tx):
            add('evalid', [E(s), str(st), E(tx)], (s, st, tx), exp, did)

        s = rnd(rng, al_ue, 8)
        try:
            exp = md.treeprocessors['unescape'].unescape(s)
        except (ValueError, OverflowError):
            exp = None
        if exp is None or proto.lean_ok(exp):
            add('unescapetext', [E(s)], s, exp, proto.dec_opt)

        s = rnd(rng, al_bl, 6)
        add('isblockhtml', [E(s)], s, md.postprocessors['raw_html'].isblocklevel(s), lambda a: a == '1')
    answers = driver.ask_many(reqs)
    for (op, inp, exp, dec), ans in zip(checks, answers):
        try:
            got = dec(ans)
        except Exception as e:
            got = 'undecodable: %r (%s)' % (ans[:80], e)
        acc.check(op, inp, got, exp)


# ---------------------------------------------------------------------------------------------- synthetic post / strip
def synth_part(driver, rng, n, acc):
    E = proto.enc_str
    md = markdown.Markdown()
    entries = ['<div>x</div>', '<span>y</span>', '<!-- c -->', '&amp;', '<hr />', '</div>', '<p>q</p>', 'plain',
               '<DIV>', '< p>', '<?php ?>', STX + 'wzxhzdk:0' + ETX, '<b>' + STX + 'wzxhzdk:1' + ETX + '</b>', '']
    reqs, checks = [], []
    k = max(100, n // 8)
    for _ in range(k):
        md.reset()
        stash = [rng.choice(entries) for _ in range(rng.randint(0, 4))]
        for h in stash:
            md.htmlStash.store(h)
        al = ['<p>', '</p>', 'a', ' ', '\n', STX + 'amp' + ETX, STX + 'wzxhzdk:', ETX, '0', '1', '2', '00', '7'] + \
             [STX + 'wzxhzdk:%d' % i + ETX for i in range(5)] + ['<p>' + STX + 'wzxhzdk:%d' % i + ETX + '</p>' for i in range(4)]
        text = rnd(rng, al, 8)
        try:
            exp = text
            for pp in md.postprocessors:
                exp = pp.run(exp)
        except RecursionError:
            exp = 'oof'
        reqs.append(('post', E(text), proto.enc_list(stash)))
        checks.append(('post.synth', (text, tuple(stash)), exp, lambda a: proto.dec_str(a[3:]) if a.startswith('ok ') else a))
        # top-level stripping through the real `convert` with a constant serializer
        al2 = ['<div>', '</div>', '<div />', ' ', '\n', 'a', '<p>', STX + 'amp' + ETX, '<div', '>']
        out = rnd(rng, al2, 6)
        md2 = markdown.Markdown()
        md2.serializer = lambda root, out=out: out
        try:
            exp = md2.convert('x')
        except ValueError:
            exp = 'err'
        reqs.append(('finish', E(out), '-'))
        checks.append(('finish.synth', out, exp, lambda a: proto.dec_str(a[3:]) if a.startswith('ok ') else a))
    answers = driver.ask_many(reqs)
    for (op, inp, exp, dec), ans in zip(checks, answers):
        try:
            got = dec(ans)
        except Exception as e:
            got = 'undecodable: %r (%s)' % (ans[:80], e)
        acc.check(op, inp, got, exp)


# ---------------------------------------------------------------------------------------------- arbitrary trees
# placeholders that no stash entry answers to (unknown id, malformed): the "wrong placeholder" branch of
# `__processPlaceholders` and the `None` result of the `unescape` callback.  Ids of existing entries are not forged:
# the implementation would then put one element object in two places, which a value model cannot express.
FORGED = [STX + 'klzzwxh:9999' + ETX, STX + 'klzzwxh:012' + ETX, STX + 'klzzwxh:', STX + 'klzzwxh:0000', ETX,
          '[a](b' + STX + 'klzzwxh:9999' + ETX + 'c "t' + STX + 'klzzwxh:9998' + ETX + '")', STX + '42' + ETX,
          '![x' + STX + 'klzzwxh:9999' + ETX + '](y)']


def gen_tree(rng, depth=0):
    """an element tree that need not come from the block parser: inline markup in every text and tail, children
    next to text, AtomicStrings, so that the visiting order of `run` is exercised (stash ids are compared)"""
    def txt():
        r = rng.random()
        if r < 0.25: return None
        if r < 0.3: return ''
        w = WORDS if rng.random() < 0.85 else WORDS + FORGED
        return ' '.join(rng.choice(w) for _ in range(rng.randint(1, 3)))
    t = proto.T('n', rng.choice(['p', 'li', 'div', 'span', 'em', 'ul', 'h1', 'code', 'pre', 'blockquote']))
    t.text = txt(); t.tail = txt() if depth > 0 else None
    t.text_atomic = t.text is not None and rng.random() < 0.1
    t.tail_atomic = t.tail is not None and rng.random() < 0.05
    if depth < 3:
        t.children = [gen_tree(rng, depth + 1) for _ in range(rng.choice([0, 0, 1, 1, 2, 3]))]
    return t


def tree_part(driver, rng, n, acc):
    md_plain = markdown.Markdown()
    md_esc = markdown.Markdown()
    md_esc.ESCAPED_CHARS = [c for c in md_esc.ESCAPED_CHARS if c not in '*('] + ['"', 'a', '|']   # the list is a parameter
    reqs, checks = [], []
    for _ in range(max(100, n // 4)):
        t = gen_tree(rng)
        t.tag = 'div'
        md = md_esc if rng.random() < 0.3 else md_plain
        md.reset()
        refs = {'a': ('/u', 'T')} if rng.random() < 0.7 else {}
        md.references.update(refs)
        root = proto.to_etree(t)
        enc_in = proto.enc_tree(t)
        try:
            md.treeprocessors['inline'].run(root)
        except (TypeError, RecursionError) as e:
            acc.dist['skip:tree-' + type(e).__name__] += 1
            continue
        t1 = proto.from_etree(root)
        sn = md.treeprocessors['inline'].stashed_nodes
        summary = [('s' + v) if isinstance(v, str) else ('n' + v.tag + ''.join(' ' + x for x in v.attrib.values()))
                   for _, v in sorted(sn.items(), key=lambda kv: int(kv[0]))]
        stash = [str(x) for x in md.htmlStash.rawHtmlBlocks]
        if md is md_esc:
            reqs.append(('inline', enc_in, enc_refs(refs), proto.enc_str(''.join(md.ESCAPED_CHARS))))
            acc.dist['trees:other-escaped-chars'] += 1
        else:
            reqs.append(('inline', enc_in, enc_refs(refs)))
        checks.append(('inline.tree', enc_in, (t1.key(keep_none=False), stash, summary), dec_tree_answer))
        enc1 = proto.enc_tree(t1)
        md.treeprocessors['prettify'].run(root)
        reqs.append(('pretty', enc1))
        checks.append(('pretty.tree', enc1, proto.from_etree(root).key(keep_none=False),
                       lambda a: proto.dec_tree(a).key(keep_none=False)))
    answers = driver.ask_many(reqs)
    for (op, inp, exp, dec), ans in zip(checks, answers):
        try:
            got = dec(ans)
        except Exception as e:
            got = 'undecodable: %r (%s)' % (ans[:80], e)
        acc.check(op, inp, got, exp)


# ---------------------------------------------------------------------------------------------- adversarial fuel
def _nest(k):
    return ''.join(('*' if i % 2 == 0 else '_') + 'a ' for i in range(k)) + \
        ''.join(' b' + ('*' if i % 2 == 0 else '_') for i in reversed(range(k)))


def _nest2(k):
    return ''.join('**' if i % 2 else '*' for i in range(k)) + 'x' + ''.join('**' if i % 2 else '*' for i in reversed(range(k)))


FUEL_FAMILIES = {
    'esc': lambda k: '\\a' * k + '\\*' * k,              # quadratic pattern loop (the loopFuel counterexample)
    'undefref': lambda k: '[x]' * k + '[y](z)' * k,
    'undefref2': lambda k: '[a][b]' * k + '*c*' * k,
    'em': lambda k: '*a*' * k,
    'bt': lambda k: '`a`' * k + '``' * k,
    'btrun': lambda k: '`' * k + 'a' + '`' * (k - 1),
    'nest': _nest, 'nest2': _nest2,                       # depthFuel, build fuel, runFuel (deep element nesting)
    'linkchain': lambda k: '[' * k + 'a' + '](u)' * k,
    'linknest': lambda k: '[a ' * k + '](u)' * k,
    'img': lambda k: '![a](b "t")' * k,
    'star': lambda k: ' * ' * k,                          # not_strong strings: ppLoop
    'under': lambda k: 'a_b' * k + '_',
    'stars': lambda k: '*' * k,
    'stars_sp': lambda k: '* ' * k + '*',
    'amp': lambda k: '&amp;' * k,
    'br': lambda k: 'a  \n' * k,
    'mix': lambda k: '\\a[x]*b* `c` [d](e) &lt; _f_ ' * (k // 8 + 1),
    'quote': lambda k: '[a]("' + '(' * k,
}


def fuel_part(driver, rng, n, acc):
    """long single text nodes (300–2000 characters) of the shapes that make the loops of the inline engine run
    longest; a fuel that is too small shows up as `oof` against a real result"""
    md = markdown.Markdown()
    names = sorted(FUEL_FAMILIES)
    reqs, checks = [], []
    old = sys.getrecursionlimit()
    sys.setrecursionlimit(max(old, 20000))
    try:
        for j in range(max(len(names), n // 250)):
            name = names[j % len(names)]
            if rng.random() < 0.25:     # a mix of two families in one node
                other = rng.choice(names)
                src = FUEL_FAMILIES[name](rng.randint(20, 200)) + ' ' + FUEL_FAMILIES[other](rng.randint(20, 200))
                name = name + '+' + other
            else:
                src = FUEL_FAMILIES[name](rng.randint(100, 500))
            src = src[:2000].replace('<', '')
            t = proto.T('n', 'div', children=[proto.T('n', 'p', text=src)])
            if rng.random() < 0.3:      # the same text as a tail and next to a child with children
                t.children[0].children = [proto.T('n', 'span', text='x', tail=src[:600], children=[proto.T('n', 'b', text='*y*')])]
            md.reset()
            root = proto.to_etree(t)
            try:
                md.treeprocessors['inline'].run(root)
            except RecursionError:
                acc.dist['skip:fuel-RecursionError'] += 1
                continue
            t1 = proto.from_etree(root)
            sn = md.treeprocessors['inline'].stashed_nodes
            summary = [('s' + v) if isinstance(v, str) else ('n' + v.tag + ''.join(' ' + x for x in v.attrib.values()))
                       for _, v in sorted(sn.items(), key=lambda kv: int(kv[0]))]
            stash = [str(x) for x in md.htmlStash.rawHtmlBlocks]
            acc.dist['fuel:' + name.split('+')[0]] += 1
            reqs.append(('inline', proto.enc_tree(t), '-'))
            checks.append(('inline.fuel', (name, len(src), src[:60]), (t1.key(keep_none=False), stash, summary), dec_tree_answer))
    finally:
        sys.setrecursionlimit(old)
    answers = driver.ask_many(reqs)
    for (op, inp, exp, dec), ans in zip(checks, answers):
        try:
            got = dec(ans) if ans.startswith('ok ') else ans
        except Exception as e:
            got = 'undecodable: %r (%s)' % (ans[:80], e)
        acc.check(op, inp, got, exp)


def run(driver, rng, n):
    acc = Acc()
    docs_part(driver, rng, n, acc)
    tree_part(driver, rng, n, acc)
    fuel_part(driver, rng, n, acc)
    unit_part(driver, rng, n, acc)
    synth_part(driver, rng, n, acc)
    return {'cases': acc.cases, 'distinct': len(acc.inputs), 'disagreements': acc.dis, 'samples': acc.samples,
            'dist': dict(sorted(acc.dist.items()))}


if __name__ == '__main__':
    import random, json, time
    seed = int(sys.argv[1]) if len(sys.argv) > 1 else 1
    n = int(sys.argv[2]) if len(sys.argv) > 2 else 2000
    d = proto.Driver()
    t0 = time.time()
    res = run(d, random.Random(seed), n)
    d.close()
    print('cases', res['cases'], 'distinct', res['distinct'], 'disagreements', len(res['disagreements']),
          'time %.1fs' % (time.time() - t0))
    for x in res['disagreements'][:8]:
        print(' ', x['op'], repr(x['input'])[:200]); print('    model', repr(x['model'])[:400]); print('    impl ', repr(x['impl'])[:400])
    print(json.dumps(res['dist'], ensure_ascii=False))
