"""Correspondence: iteration order of the five processor registries, model (registry model fed with the registration table
that the translator extracted from the source) vs the real Markdown instance, for core and for every extension subset tried."""
import markdown

REGS = {'preprocessors': lambda md: md.preprocessors, 'blockprocessors': lambda md: md.parser.blockprocessors,
        'inlinePatterns': lambda md: md.inlinePatterns, 'treeprocessors': lambda md: md.treeprocessors,
        'postprocessors': lambda md: md.postprocessors}
# extensions whose registrations are all constant-priority registrations on the Markdown instance's registries
EXTS = ['abbr', 'admonition', 'attr_list', 'def_list', 'fenced_code', 'footnotes', 'legacy_attrs', 'legacy_em',
        'md_in_html', 'meta', 'nl2br', 'sane_lists', 'tables', 'toc', 'wikilinks']


def real_order(md, reg):
    r = REGS[reg](md); r._sort()
    return [p.name for p in r._priority]


def run(driver, rng, n):
    subsets = [[]] + [[e] for e in EXTS]
    for _ in range(min(n, 400) // 5):
        subsets.append(sorted(rng.sample(EXTS, rng.randint(2, 5))))
    dis = []; cases = 0; seen = set()
    for sub in subsets:
        md = markdown.Markdown(extensions=list(sub))
        for reg in REGS:
            a = driver.ask('disp.order', ';'.join(['core'] + list(sub)), reg)
            model = a.split(',') if a else []
            real = real_order(md, reg)
            cases += 1; seen.add((tuple(sub), reg))
            if model != real:
                dis.append({'op': 'disp.order', 'input': {'extensions': sub, 'registry': reg}, 'model': model, 'impl': real})
    return {'cases': cases, 'distinct': len(seen), 'disagreements': dis,
            'samples': [{'extensions': subsets[-1], 'registry': 'blockprocessors', 'order': real_order(markdown.Markdown(extensions=subsets[-1]), 'blockprocessors')}],
            'dist': {'subsets': len(subsets)}}
