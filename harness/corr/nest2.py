"""C01f: differential test of the sub-grammar `Nest2Doc` of Props/C01f.lean against the real converter.

`run(driver, rng, n)` is the entry point of the correspondence framework: `n` documents of the generator `G2`, each
printed under 4 spellings (`corr.nest.check_docs`: `convert(print d sp) = spec d`).

python corr/nest2.py <n documents> <seed>      (4 spellings per document)
  the block structure of mode C of corr/nest.py (flat blocks, quotes and lists nested in each other to depth 5) with
  the inline content of `deep2Run` (Spec/DocFlat2.lean): words, escapes, code spans without `<`, emphasis / strong to
  two levels around words, escapes and code spans, no escaped backslash directly before a code span.

`python corr/nest2.py lean <n> <seed>` prints a Lean file that evaluates `WF` and `Nest2Doc` (`Spec/DocNest2.lean`)
on generated documents: the generator and the predicate describe the same documents.
"""
from __future__ import annotations
import os, sys, random

sys.path.insert(0, os.path.dirname(os.path.dirname(os.path.abspath(__file__))))
from proto import Driver  # noqa: E402
from corr import doc as D  # noqa: E402
from corr import nest as N  # noqa: E402


def ok_items(xs, depth):
    prev = None
    for x in xs:
        if x[0] not in 'TXCEG': return False
        if x[0] == 'C' and '<' in x[1]: return False
        if x[0] == 'C' and prev is not None and prev[0] == 'X' and prev[1] == '\\': return False
        if x[0] in 'EG':
            if depth > 1: return False
            if not ok_items(x[1], depth + 1): return False
        prev = x
    return True


def has_nested(xs, d=0):
    return any(x[0] in 'EG' and (d > 0 or has_nested(x[1], d + 1)) for x in xs)


class G2(N.G):
    def __init__(self, rng, maxdepth=4):
        super().__init__(rng, 'C', maxdepth)
        self.g = D.Gen(rng, 1)

    def inlines(self, plain=False):
        for _ in range(400):
            c = self.g.inlines(2)
            if ok_items(c, 0): return c
        return [('T', 'w')]


def count_nested(d):
    n = 0
    for b in d:
        if b[0] in 'pas' and has_nested(b[-1]): n += 1
        elif b[0] == 'q': n += count_nested(b[1])
        elif b[0] in 'uo':
            for it in b[2]: n += count_nested(it)
    return n


def run(driver, rng, n, spellings=N.SPELLINGS, full=False):
    """`n` documents of `G2` (all drawn from `rng`), `spellings` spellings each; `distinct` = distinct printed sources.
    dist: the statistics of `corr.nest.check_docs` + the number of generated documents / blocks with emphasis inside
    emphasis (the part of the grammar that `corr.nest` does not reach)."""
    g = G2(rng)
    docs = [g.doc() for _ in range(n)]
    res = N.check_docs(driver, rng, docs, spellings, ['C2'] * n, full)
    nested = [count_nested(d) for d in docs]
    res['dist']['generated:with_nested_emphasis'] = sum(1 for k in nested if k)
    res['dist']['generated:blocks_with_nested_emphasis'] = sum(nested)
    return res


if __name__ == '__main__' and sys.argv[1] == 'lean':
    n, seed = int(sys.argv[2]), int(sys.argv[3])
    g = G2(random.Random(seed))
    print('import MdVerif.Spec.DocNest2\nopen MdVerif MdVerif.DocSpec\n')
    for i in range(n):
        print('def d%d : Doc := %s' % (i, N.lean_doc(g.doc())))
    print('def docs : List Doc := [' + ', '.join('d%d' % i for i in range(n)) + ']')
    print('#eval (docs.length, (docs.filter (fun d => WF d)).length, (docs.filter (fun d => WF d && Nest2Doc d)).length)')
    sys.exit(0)

if __name__ == '__main__':
    import json
    n = int(sys.argv[1]) if len(sys.argv) > 1 else 2000
    seed = int(sys.argv[2]) if len(sys.argv) > 2 else 1
    d = Driver()
    res = run(d, random.Random(seed), n, full=True)
    d.close()
    print(json.dumps({k: v for k, v in res.items() if k not in ('dis', 'rejected', 'disagreements', 'samples')}, indent=1))
    for x in res['rejected'][:3]: print('REJECTED', x)
    for x in res['dis'][:int(os.environ.get('SHOW', '6'))]:
        print('SRC ', repr(x['src'])); print('WANT', repr(x['want'])); print('GOT ', repr(x['got'])); print('DOC ', x['doc']); print()
