import MdVerif.Lemmas.C04EndToEnd
import MdVerif.Spec.HtmlLex
import Driver.Proto
open MdVerif MdVerif.HtmlFrag MdVerif.Py


def safeLines (t : Str) : Bool := (lines t).all DocParse.lineSafe

def blockHyp (t : Str) : Bool :=
  match HtmlFrag.lex t with
  | some (Tok.open_ name attrs trail :: rest) =>
    match rest.getLast? with
    | some (Tok.close n2) =>
      let body := rest.dropLast
      n2 == name && (Tok.open_ name attrs trail).ok && Extract.isBlockLevelTag (lower name) && lower name != hrTag &&
        toksOk body && closesOk (lower name) body && safeLines t && C04E2E.firstSepOk attrs trail
    | _ => false
  | _ => false

def unitCommon (t : Str) : Bool :=
  safeLines t && Post.isBlockLevelHtml TreeProc.defaultBlockLevel (t ++ ['\n']) && t.getLast? == some '>'

def unitHyp (t : Str) : Bool :=
  unitCommon t &&
  (if startsWith t "<!--".toList && endsWith t "-->".toList && t.length ≥ 7 then
     !(Py.contains ((t.drop 4).take (t.length - 7)) ['-', '-'])
   else if startsWith t "<?".toList && endsWith t "?>".toList && t.length ≥ 4 then
     !(Py.contains ((t.drop 2).take (t.length - 4)) ['?', '>'])
   else if (startsWith t "<!DOCTYPE".toList || startsWith t "<!doctype".toList) && endsWith t ">".toList then
     !(((t.drop 9).take (t.length - 10)).contains '>')
   else match HtmlFrag.lex t with
     | some [Tok.open_ name attrs trail] => (Tok.open_ name attrs trail).ok && lower name == hrTag
     | some [Tok.selfClose name attrs trail] => (Tok.selfClose name attrs trail).ok && Extract.isBlockLevelTag (lower name)
     | _ => false)

partial def loop (h : IO.FS.Stream) (out : IO.FS.Stream) : IO Unit := do
  let l ← h.getLine
  if l.isEmpty then return
  let l := (l.dropRightWhile (· == (Char.ofNat 10)))
  match l.splitOn "\t" with
  | ["b", s] => out.putStrLn (if blockHyp (Driver.decStr s) then "R1" else "R0")
  | ["u", s] => out.putStrLn (if unitHyp (Driver.decStr s) then "R1" else "R0")
  | _ => out.putStrLn "R?"
  loop h out

def main : IO Unit := do
  loop (← IO.getStdin) (← IO.getStdout)
