"""Pre-proof tests for `Props/C17Src.lean`: the C17 clauses read back from the OUTPUT, on the document classes of the
theorems.  For each random instance the implementation (`markdown.markdown`) and the model (`convertx` op of the driver)
must give the same output; the output is read back with the strict reader (`htmlread.forest`) and the observations of
the theorem (computed here in Python from the parameters of the source) are compared with what the reader finds.

usage: VERIF_REPO=… python c17src.py [n] [seed] [fn,toc]
"""
from __future__ import annotations
import os, random, sys, json

sys.path.insert(0, os.path.dirname(os.path.dirname(os.path.abspath(__file__))))
sys.path.insert(0, os.path.dirname(os.path.abspath(__file__)))
import proto  # noqa: E402
import markdown  # noqa: E402
import htmlread  # noqa: E402
from pipelinex import flags_of  # noqa: E402

ALNUM = 'abcdefghijklmnopqrstuvwxyzABCDEFGHIJKLMNOPQRSTUVWXYZ0123456789'


def word(rng, lo=1, hi=6):
    return ''.join(rng.choice(ALNUM) for _ in range(rng.randint(lo, hi)))


def plain(rng, maxw=4):
    return ' '.join(word(rng) for _ in range(rng.randint(1, maxw)))


def tail(rng):
    r = rng.random()
    if r < 0.25: return ''
    if r < 0.7: return ' ' + plain(rng, 3)
    return plain(rng, 3)


def walk(children):
    for c in children:
        if isinstance(c, str): continue
        yield c
        yield from walk(c[2])


def attr(n, k):
    for k0, v in n[1]:
        if k0 == k: return v
    return None


def obs_fn(forest):
    """(hrefs of a.footnote-ref, ids of li, ids of sup, hrefs of a.footnote-backref, per li: (id, back-link hrefs))"""
    els = list(walk(forest))
    refs = [attr(e, 'href') for e in els if e[0] == 'a' and attr(e, 'class') == 'footnote-ref']
    lis = [attr(e, 'id') for e in els if e[0] == 'li']
    sups = [attr(e, 'id') for e in els if e[0] == 'sup']
    backs = [attr(e, 'href') for e in els if e[0] == 'a' and attr(e, 'class') == 'footnote-backref']
    per = [(attr(e, 'id'), [attr(a, 'href') for a in walk(e[2]) if a[0] == 'a' and attr(a, 'class') == 'footnote-backref'])
           for e in els if e[0] == 'li']
    return refs, lis, sups, backs, per


def refname(i, k):
    return ('fnref:' if k == 0 else 'fnref%d:' % (k + 1)) + i


def fn_case(rng):
    m = rng.randint(1, 4)
    ids = []
    while len(ids) < m:
        w = word(rng, 1, 3)
        if w not in ids: ids.append(w)
    defs = [(i, plain(rng, 3)) for i in ids]
    t = plain(rng, 3)
    segs = [(rng.choice(ids), tail(rng)) for _ in range(rng.randint(0, 7))]
    src = t + ''.join('[^%s]%s' % s for s in segs) + ''.join('\n\n[^%s]: %s' % d for d in defs)
    # the observations the theorem states
    hist = {}
    sups = []
    for (i, _) in segs:
        k = hist.get(i, 0); hist[i] = k + 1
        sups.append(refname(i, k))
    refs = ['#fn:' + i for i, _ in segs]
    lis = ['fn:' + i for i, _ in defs]
    per = [('fn:' + i, ['#' + refname(i, k) for k in range(max(hist.get(i, 0), 1))]) for i, _ in defs]
    backs = [h for _, hs in per for h in hs]
    return src, (refs, lis, sups, backs, per), (segs, defs)


def check_fn_clauses(o, segs, defs):
    """the clauses (a)-(d) as stated in the property, on the observations"""
    refs, lis, sups, backs, per = o
    bad = []
    if not all(r.startswith('#') and r[1:] in lis for r in refs): bad.append('a')
    for (i, _), (lid, hs) in zip(defs, per):
        k = sum(1 for s in segs if s[0] == i)
        if k >= 1:
            mine = [s for s, (j, _) in zip(sups, segs) if j == i]          # the sup ids of the references to i, in order
            if hs != ['#' + s for s in mine] or len(set(hs)) != k: bad.append('c')
            if not all(h[1:] in sups for h in hs): bad.append('b')
        else:
            if hs != ['#fnref:' + i] or ('fnref:' + i) in sups: bad.append('c0')     # F-C17-2: exactly one, dangling
    if len(set(sups + lis)) != len(sups) + len(lis): bad.append('d')
    return bad


def run_fn(driver, rng, n):
    variants = [['footnotes'], ['footnotes', 'admonition', 'def_list', 'abbr', 'sane_lists'], ['footnotes', 'abbr'],
                ['footnotes', 'sane_lists', 'def_list'], ['footnotes', 'nl2br', 'wikilinks'],
                ['footnotes', 'admonition', 'def_list', 'abbr', 'sane_lists', 'nl2br', 'wikilinks']]
    cases = []
    for _ in range(n):
        src, exp, par = fn_case(rng)
        cases.append((src, exp, par, rng.choice(['xhtml', 'html']), rng.choice([4, 4, 2, 8]), rng.choice(variants)))
    ans = driver.ask_many([('convertx', flags_of(set(e)), str(tab), fmt, proto.enc_str(s)) for s, _, _, fmt, tab, e in cases])
    bad = []
    for (src, exp, (segs, defs), fmt, tab, exts), a in zip(cases, ans):
        real = markdown.markdown(src, extensions=exts, output_format=fmt, tab_length=tab)
        model = proto.dec_str(a[3:]) if a.startswith('ok ') else a
        why = []
        if real != model: why.append('model != real')
        try:
            o = obs_fn(htmlread.forest(real, fmt))
        except htmlread.NotWellFormed as e:
            why.append('not well formed: %s' % e); o = None
        if o is not None:
            if o != exp: why.append('observations differ')
            why += check_fn_clauses(o, segs, defs)
        if why:
            bad.append({'src': src, 'fmt': fmt, 'tab': tab, 'exts': exts, 'why': why, 'real': real, 'model': model})
    return {'cases': len(cases), 'distinct': len(set(c[0] for c in cases)), 'bad': len(bad), 'samples': bad[:3],
            'unreferenced': sum(1 for c in cases for d in c[2][1] if all(s[0] != d[0] for s in c[2][0])),
            'repeated': sum(1 for c in cases if len(set(s[0] for s in c[2][0])) < len(c[2][0]))}


# ---------------------------------------------------------------- toc: flat documents of ATX headings + [TOC]
TITLE = 'abcdefghijklmnopqrstuvwxyzABCDEFGHIJKLMNOPQRSTUVWXYZ0123456789'


def title(rng):
    ws = [''.join(rng.choice(TITLE[:6] if rng.random() < 0.6 else TITLE) for _ in range(rng.randint(1, 3)))
          for _ in range(rng.randint(1, 3))]
    return ' '.join(ws)


def slug(t):
    import re
    v = re.sub(r'[^\w\s-]', '', t).strip().lower()
    return re.sub(r'[-\s]+', '-', v)


def toc_case(rng):
    n = rng.randint(0, 7)
    pool = [title(rng) for _ in range(rng.randint(1, 3))]
    hs = [(rng.randint(1, 6), rng.choice(pool) if rng.random() < 0.7 else title(rng)) for _ in range(n)]
    pos = rng.randint(0, n)                     # where the [TOC] paragraph stands
    blocks = ['#' * l + ' ' + t for l, t in hs]
    blocks.insert(pos, '[TOC]')
    src = '\n\n'.join(blocks)
    used = set(); ids = []
    for _, t in hs:
        s = slug(t); c = s; k = 0
        while c in used or not c:
            k += 1; c = '%s_%d' % (s, k)
        used.add(c); ids.append(c)
    # outline parents by position
    parents = []
    for i, (l, _) in enumerate(hs):
        p = None
        for j in range(i - 1, -1, -1):
            if hs[j][0] < l: p = j; break
        parents.append(p)
    return src, (hs, ids, parents, pos)


def obs_toc(forest):
    els = list(walk(forest))
    hd = [(int(e[0][1]), attr(e, 'id')) for e in els if len(e[0]) == 2 and e[0][0] == 'h' and e[0][1] in '123456']
    divs = [e for e in forest if not isinstance(e, str) and e[0] == 'div' and attr(e, 'class') == 'toc']
    links = []

    def go(ul, parent):
        for li in ul[2]:
            if isinstance(li, str): continue
            assert li[0] == 'li'
            a = [c for c in li[2] if not isinstance(c, str) and c[0] == 'a'][0]
            links.append((attr(a, 'href'), ''.join(x for x in a[2] if isinstance(x, str)), parent))
            me = len(links) - 1
            for c in li[2]:
                if not isinstance(c, str) and c[0] == 'ul': go(c, me)
    for d in divs:
        for c in d[2]:
            if not isinstance(c, str) and c[0] == 'ul': go(c, None)
    return hd, len(divs), links


def run_toc(driver, rng, n):
    variants = [['toc'], ['toc', 'sane_lists'], ['toc', 'admonition', 'def_list', 'abbr', 'footnotes']]
    cases = []
    for _ in range(n):
        src, par = toc_case(rng)
        cases.append((src, par, rng.choice(['xhtml', 'html']), rng.choice([4, 4, 2, 8]), rng.choice(variants)))
    ans = driver.ask_many([('convertx', flags_of(set(e)), str(tab), fmt, proto.enc_str(s)) for s, _, fmt, tab, e in cases])
    bad = []
    for (src, (hs, ids, parents, pos), fmt, tab, exts), a in zip(cases, ans):
        real = markdown.markdown(src, extensions=exts, output_format=fmt, tab_length=tab)
        model = proto.dec_str(a[3:]) if a.startswith('ok ') else a
        why = []
        if real != model: why.append('model != real')
        try:
            hd, ndiv, links = obs_toc(htmlread.forest(real, fmt))
        except htmlread.NotWellFormed as e:
            why.append('not well formed: %s' % e); hd = None
        if hd is not None:
            if hd != [(l, i) for (l, _), i in zip(hs, ids)]: why.append('heading ids differ')
            if ndiv != 1: why.append('toc divs: %d' % ndiv)
            if links != [('#' + i, t, p) for (_, t), i, p in zip(hs, ids, parents)]: why.append('links differ')
            if len(set(ids)) != len(ids): why.append('ids collide')
        if why:
            bad.append({'src': src, 'fmt': fmt, 'tab': tab, 'exts': exts, 'why': why, 'real': real, 'model': model})
    return {'cases': len(cases), 'distinct': len(set(c[0] for c in cases)), 'bad': len(bad), 'samples': bad[:3],
            'with_duplicates': sum(1 for c in cases if len(set(t for _, t in c[1][0])) < len(c[1][0]))}


if __name__ == '__main__':
    n = int(sys.argv[1]) if len(sys.argv) > 1 else 2500
    seed = int(sys.argv[2]) if len(sys.argv) > 2 else 1
    only = sys.argv[3].split(',') if len(sys.argv) > 3 else ['fn', 'toc']
    d = proto.Driver()
    rng = random.Random(seed)
    res = {}
    if 'fn' in only: res['fn'] = run_fn(d, rng, n)
    if 'toc' in only: res['toc'] = run_toc(d, rng, n)
    print(json.dumps(res, indent=1))
    d.close()
