"""Correspondence of the codec and command-line models (C20, lean/MdVerif/Model/{Codec,Cli}.lean, ops `codec.*`, `cli.*`)
with

* `str.encode(enc)`, `str.encode(enc, 'xmlcharrefreplace')`, `bytes.decode(enc)` of the running CPython for ascii / latin-1 / utf-8,
* `codecs.getreader(enc)(stream).read()` (what `convertFile` reads with: a truncated trailing sequence is not an error),
* `str.lstrip('\\ufeff')`,
* the real `Markdown.convertFile` (path or stream in; path, stream or stdout out) with `convert` replaced by a stand-in,
* the real `markdown.__main__.parse_options(argv)` (the config-file reader is stubbed: it records which file was opened).

`run(driver, rng, n)` returns {'cases', 'distinct', 'disagreements' (list of {'op','input','model','impl','kind'}),
'samples', 'dist'}.
"""
from __future__ import annotations
import codecs, collections, contextlib, io, os, sys, tempfile

try:
    from .. import proto
except ImportError:
    sys.path.insert(0, os.path.dirname(os.path.dirname(os.path.abspath(__file__))))
    import proto

import markdown
import markdown.__main__ as mdmain

E = proto.enc_str
CODECS = {'ascii': 'ascii', 'latin1': 'latin-1', 'utf8': 'utf-8'}


def enc_bytes(b) -> str:
    return ','.join(str(x) for x in b)


# ---------------------------------------------------------------------------------------------- generators
INTERESTING = [0, 9, 10, 13, 32, 38, 35, 59, 48, 57, 65, 127, 128, 129, 160, 233, 255, 256, 257, 0x7FF, 0x800, 0x801, 0xFFF, 0x1000,
               0x20AC, 0xD7FF, 0xE000, 0xFEFF, 0xFFFD, 0xFFFE, 0xFFFF, 0x10000, 0x10001, 0x1F600, 0x3FFFF, 0x40000, 0xFFFFF,
               0x100000, 0x10FFFF]


def gen_text(rng, maxlen=12):
    out = []
    if rng.random() < 0.3: out.append('﻿' * rng.choice([1, 1, 2, 3]))
    for _ in range(rng.randrange(0, maxlen)):
        r = rng.random()
        if r < 0.35: c = rng.randrange(32, 127)
        elif r < 0.55: c = rng.choice(INTERESTING)
        elif r < 0.70: c = rng.randrange(128, 0x800)
        elif r < 0.85: c = rng.randrange(0x800, 0x10000)
        else: c = rng.randrange(0x10000, 0x110000)
        if 0xD800 <= c <= 0xDFFF: c = 0xD7FF
        out.append(chr(c))
    if rng.random() < 0.15: out.insert(rng.randrange(len(out) + 1), '&#%d;' % rng.choice(INTERESTING))
    return ''.join(out)


def gen_bytes(rng, enc):
    r = rng.random()
    if r < 0.45:            # valid text, sometimes damaged
        b = bytearray(gen_text(rng).encode(enc, 'xmlcharrefreplace'))
        if b and rng.random() < 0.5:
            for _ in range(rng.choice([1, 1, 2])):
                j = rng.randrange(len(b))
                op = rng.random()
                if op < 0.4: b[j] = rng.randrange(256)
                elif op < 0.7: del b[j]
                else: b.insert(j, rng.choice([0x80, 0xBF, 0xC0, 0xC1, 0xC2, 0xE0, 0xED, 0xEF, 0xF0, 0xF4, 0xF5, 0xF8, 0xFF, 0x7F]))
                if not b: break
        return bytes(b)
    if r < 0.75:            # UTF-8 edge sequences
        seqs = [b'\xc0\x80', b'\xc1\xbf', b'\xc2\x80', b'\xdf\xbf', b'\xe0\x80\x80', b'\xe0\x9f\xbf', b'\xe0\xa0\x80', b'\xed\x9f\xbf',
                b'\xed\xa0\x80', b'\xed\xbf\xbf', b'\xee\x80\x80', b'\xef\xbb\xbf', b'\xef\xbf\xbf', b'\xf0\x80\x80\x80', b'\xf0\x8f\xbf\xbf',
                b'\xf0\x90\x80\x80', b'\xf4\x8f\xbf\xbf', b'\xf4\x90\x80\x80', b'\xf5\x80\x80\x80', b'\xf7\xbf\xbf\xbf', b'\xf8\x88\x80\x80\x80',
                b'\xe2\x82', b'\xe2', b'\xf0\x9f\x98', b'\x80', b'\xbf', b'\xfe', b'\xff', b'a', b'\xc3\xa9', b'\xe2\x82\xac', b'\xf0\x9f\x98\x80',
                b'\xc3\x28', b'\xe2\x28\xa1', b'\xe2\x82\x28', b'\xf0\x28\x8c\xbc', b'\xf0\x90\x28\xbc', b'\xf0\x28\x8c\x28']
        return b''.join(rng.choice(seqs) for _ in range(rng.randrange(1, 4)))
    return bytes(rng.randrange(256) for _ in range(rng.randrange(0, 8)))


SHORT_VAL = 'feoxc'
LONG_VAL = ['file', 'encoding', 'output_format', 'extension', 'extension_configs']
LONG_FLAG = ['no_lazy_ol', 'quiet', 'verbose', 'noisy', 'help', 'version']
VALUES = ['out.html', 'utf-8', 'latin-1', 'html', 'xhtml', 'toc', 'extra', 'markdown.extensions.toc:TocExtension', 'cfg.yml', '',
          '-', '--', '-n', '-x', '--file', 'a=b', '=', 'é.md', 'in put.txt', '-f', 'x']


def gen_argv(rng):
    args = []
    for _ in range(rng.choice([0, 1, 1, 2, 2, 3, 3, 4, 5, 7])):
        r = rng.random()
        if r < 0.22:      # short option with value
            c = rng.choice(SHORT_VAL); v = rng.choice(VALUES)
            if rng.random() < 0.35: args.append('-' + c + v)
            else:
                args.append('-' + c)
                if rng.random() < 0.93: args.append(v)
        elif r < 0.34:    # short flags, clusters
            cl = ''.join(rng.choice('nqvnqvh' + SHORT_VAL + 'zZ1') for _ in range(rng.choice([1, 1, 2, 3])))
            args.append('-' + cl)
            if rng.random() < 0.3: args.append(rng.choice(VALUES))
        elif r < 0.56:    # long option with value
            name = rng.choice(LONG_VAL)
            if rng.random() < 0.4: name = name[:rng.randrange(1, len(name) + 1)]
            v = rng.choice(VALUES)
            if rng.random() < 0.45: args.append('--' + name + '=' + v)
            else:
                args.append('--' + name)
                if rng.random() < 0.93: args.append(v)
        elif r < 0.70:    # long flag
            name = rng.choice(LONG_FLAG)
            if rng.random() < 0.4: name = name[:rng.randrange(1, len(name) + 1)]
            args.append('--' + name + ('=' + rng.choice(VALUES) if rng.random() < 0.1 else ''))
        elif r < 0.76: args.append(rng.choice(['--', '-', '', '--=x', '--bogus', '-?', '--no-lazy-ol', '--File', '---', '-- ', '--e', '--ex',
                                               '--extension_', '--v', '--ve', '--n', '--no', '--o', '--f', '--h', '--q']))
        else: args.append(rng.choice(['in.md', 'README.txt', 'é.md', 'a b', 'x', 'y.markdown']))
    return args


# ---------------------------------------------------------------------------------------------- expectations
class _FakeFile:
    def __init__(self, name): self.name = name
    def __enter__(self): return self
    def __exit__(self, *a): return False


class _FakeCodecs:
    """stands in for the `codecs` module inside `markdown.__main__`: records the file `parse_options` opens"""
    @staticmethod
    def open(name, mode='r', encoding=None): return _FakeFile(name)


def real_parse(argv):
    old_codecs, old_yaml = mdmain.codecs, mdmain.yaml_load
    mdmain.codecs = _FakeCodecs
    mdmain.yaml_load = lambda fp: {'__file__': fp.name}
    try:
        with contextlib.redirect_stderr(io.StringIO()), contextlib.redirect_stdout(io.StringIO()):
            opts, level = mdmain.parse_options(list(argv))
    except SystemExit as e:
        return 'E:usage' if e.code == 2 else 'E:exit0' if e.code in (0, None) else 'E:?%r' % (e.code,)
    finally:
        mdmain.codecs, mdmain.yaml_load = old_codecs, old_yaml
    if set(opts) != {'input', 'output', 'extensions', 'extension_configs', 'encoding', 'output_format', 'lazy_ol'}:
        return 'keys:%r' % sorted(opts)
    loaded = opts['extension_configs'].get('__file__') if opts['extension_configs'] else None
    return '|'.join([proto.enc_opt(opts['input']), proto.enc_opt(opts['output']), proto.enc_list(opts['extensions']),
                     proto.enc_opt(loaded), proto.enc_opt(opts['encoding']), E(opts['output_format']),
                     proto.enc_bool(opts['lazy_ol']), str(level)])


STANDINS = {'id': lambda t: t, 'rev': lambda t: t[::-1], 'wrap': lambda t: '﻿<p>' + t + '\xe9€\U0001F600</p>'}


def real_convertfile(tmp, enc, fn, data, in_mode, out_mode):
    """the bytes the real convertFile writes ('E': UnicodeDecodeError)"""
    class M(markdown.Markdown):
        def convert(self, source): return STANDINS[fn](source)
    md = M()
    if in_mode == 'path':
        inp = os.path.join(tmp, 'in.txt')
        with open(inp, 'wb') as f: f.write(data)
    else: inp = io.BytesIO(data)
    try:
        if out_mode == 'path':
            outp = os.path.join(tmp, 'out.html')
            md.convertFile(input=inp, output=outp, encoding=enc)
            with open(outp, 'rb') as f: return f.read()
        if out_mode == 'stream':
            out = io.BytesIO()
            md.convertFile(input=inp, output=out, encoding=enc)
            return out.getvalue()
        class FakeStdout:
            buffer = io.BytesIO()
        old = sys.stdout
        sys.stdout = FakeStdout()
        try: md.convertFile(input=inp, output=None, encoding=enc)
        finally: fake, sys.stdout = sys.stdout, old
        return fake.buffer.getvalue()
    except UnicodeDecodeError:
        return 'E'


# ---------------------------------------------------------------------------------------------- run
def run(driver, rng, n):
    cases = 0; seen = set(); dis = []; samples = []; dist = collections.Counter()

    def check(kind, args, real, label=None):
        nonlocal cases
        model = driver.ask(*args)
        cases += 1; seen.add(args); dist[kind] += 1
        if label: dist[kind + ':' + label] += 1
        rec = {'op': args[0], 'input': list(args[1:]), 'model': model, 'impl': real, 'kind': kind}
        if model != real: dis.append(rec)
        elif len(samples) < 12 and rng.random() < 0.01: samples.append(rec)
        return model

    with tempfile.TemporaryDirectory() as tmp:
        # every single code point boundary, once
        for cp in INTERESTING:
            for cname, enc in CODECS.items():
                s = 'a' + chr(cp) + 'b'
                check('encx', ('codec.encx', cname, E(s)), 'B' + enc_bytes(s.encode(enc, 'xmlcharrefreplace')), 'boundary')
        for i in range(n):
            which = i % 6
            cname = rng.choice(list(CODECS)); enc = CODECS[cname]
            if which == 0:
                s = gen_text(rng)
                try: real = 'B' + enc_bytes(s.encode(enc)); lab = 'ok'
                except UnicodeEncodeError: real = 'E'; lab = 'error'
                check('enc', ('codec.enc', cname, E(s)), real, cname + ':' + lab)
            elif which == 1:
                s = gen_text(rng)
                b = s.encode(enc, 'xmlcharrefreplace')
                check('encx', ('codec.encx', cname, E(s)), 'B' + enc_bytes(b), cname + (':refs' if b != s.encode('utf-8') and cname != 'utf8' else ':plain'))
            elif which == 2:
                b = gen_bytes(rng, enc)
                try: real = 'S' + E(b.decode(enc)); lab = 'ok'
                except UnicodeDecodeError: real = 'E'; lab = 'error'
                check('dec', ('codec.dec', cname, enc_bytes(b)), real, cname + ':' + lab)
                try: real2 = 'S' + E(codecs.getreader(enc)(io.BytesIO(b)).read()); lab2 = 'ok'
                except UnicodeDecodeError: real2 = 'E'; lab2 = 'error'
                check('decstream', ('codec.decstream', cname, enc_bytes(b)), real2, cname + ':' + lab2 + (':tail-dropped' if real2 != real else ''))
            elif which == 3:
                s = gen_text(rng)
                if rng.random() < 0.3: s = s[:rng.randrange(len(s) + 1)] + '﻿' + s
                check('stripbom', ('codec.stripbom', E(s)), E(s.lstrip('﻿')), 'bom' if s.startswith('﻿') else 'none')
            elif which == 4:
                fn = rng.choice(list(STANDINS))
                b = gen_bytes(rng, enc) if rng.random() < 0.3 else (gen_text(rng).encode(enc, 'xmlcharrefreplace'))
                if rng.random() < 0.2 and cname == 'utf8': b = b'\xef\xbb\xbf' * rng.choice([1, 2]) + b
                in_mode, out_mode = rng.choice(['path', 'stream']), rng.choice(['path', 'stream', 'stdout'])
                real = real_convertfile(tmp, enc, fn, b, in_mode, out_mode)
                check('convertfile', ('codec.convertfile', cname, fn, enc_bytes(b)), real if real == 'E' else 'B' + enc_bytes(real),
                      in_mode + '->' + out_mode + (':E' if real == 'E' else ''))
            else:
                argv = gen_argv(rng)
                real = real_parse(argv)
                m = check('cli', ('cli.parse', proto.enc_list(argv)), real, real if real.startswith('E') else 'ok')
                if not real.startswith('E'):
                    # the canonical command line of the model means the same to the real parser
                    rendered = driver.ask('cli.render', proto.enc_list(argv))
                    back = real_parse(proto.dec_list(rendered)) if rendered != 'E' else 'E'
                    cases += 1; dist['cli-render'] += 1
                    if back != real:
                        dis.append({'op': 'cli.render', 'input': [argv, rendered], 'model': back, 'impl': real, 'kind': 'cli-render'})
    return {'cases': cases, 'distinct': len(seen), 'disagreements': dis, 'samples': samples,
            'dist': dict(sorted(dist.items()))}


if __name__ == '__main__':
    import random, json
    d = proto.Driver()
    r = run(d, random.Random(int(os.environ.get('VERIF_SEED', '1'))), int(sys.argv[1]) if len(sys.argv) > 1 else 6000)
    d.close()
    r['disagreements'] = r['disagreements'][:20]
    print(json.dumps(r, indent=1, ensure_ascii=True)[:7000])
