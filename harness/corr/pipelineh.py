"""Correspondence, end to end WITH raw HTML: `PipelineH.convertH` (driver op `converth`: the text-level preprocessor model
`HtmlTok.extractText` in front of the block / inline / serializer / postprocessor models) vs `markdown.Markdown(...).convert`.
Documents: Markdown chunks (the generator of corr/pipeline.py, without `<`) interleaved with raw HTML blocks of gen/rawhtml.py
(indentation 0..3, mostly between blank lines, sometimes glued to a paragraph or followed by text on the same line), plus the
documents of corr/htmltok.py.  The model answers `ood` for sources outside `TokDomain` and when the preprocessed text still
contains `<` (inline tags: outside the inline model); such cases are counted, never compared."""
import markdown
import proto
from corr import pipeline as CP
from corr import htmltok as CH
from gen import rawhtml


def gen(rng):
    k = rng.random()
    if k < 0.15: return CH.gen_doc(rng)
    parts = []
    n = rng.randint(1, 4)
    raw_at = rng.randrange(n)
    for i in range(n):
        if i == raw_at or rng.random() < 0.3:
            s = ' ' * rng.choice([0, 0, 0, 0, 1, 2, 3]) + rawhtml.raw_block(rng)[1] + rng.choice(['', '', '', '', '', ' ', ' t', ' *t*'])
        else:
            s = CP.gen(rng).strip('\n')
        parts.append(s)
    out = ''
    for s in parts:
        out += s + rng.choice(['\n\n', '\n\n', '\n\n', '\n\n', '\n', '\n\n\n', '\n \n'])
    return out if rng.random() < 0.8 else out.rstrip('\n')


FIXED = ['one\n\n<div class="a">\n*x*\n\n<p>y</p>\n</div>\n\ntwo', '<div>x</div>', 'a\n\n<!-- c -->\n\nb', '<hr>\n\np', '# h\n\n<table>\n<tr><td>*x*</td></tr>\n</table>\n\n- li',
         '<div>a</div>\n\n<div>b</div>\n\n*c* &amp; d', 'p\n<div>x</div>\n\nq', '<?php echo 1 ?>\n\nx', '<!DOCTYPE html>\n\n# t', '<div>x</div> tail\n\nnext', '  <p>*x*</p>\n\ny']


def run(driver, rng, n):
    mds = {}
    docs = []
    for s in FIXED + [gen(rng) for _ in range(max(0, n - len(FIXED)))]:
        if not proto.lean_ok(s) or 'Σ' in s: continue
        tab = rng.choice([4, 4, 4, 4, 2, 8])
        fmt = rng.choice(['xhtml', 'xhtml', 'html'])
        docs.append((s, tab, fmt))
    ans = driver.ask_many([('converth', str(t), f, proto.enc_str(s)) for s, t, f in docs])
    dis = []; seen = set(); samples = []
    dist = {'ok': 0, 'err': 0, 'oof': 0, 'ood': 0, 'recursion_skip': 0, 'with_lt': 0, 'ok_with_lt': 0, 'ok_with_stash': 0, 'ok_stash_and_markdown': 0}
    for (s, tab, fmt), a in zip(docs, ans):
        md = mds.get((tab, fmt))
        if md is None: md = mds[(tab, fmt)] = markdown.Markdown(tab_length=tab, output_format=fmt)
        key = a.split(' ')[0]
        dist[key] = dist.get(key, 0) + 1
        if '<' in s: dist['with_lt'] += 1
        if key == 'ood': continue
        try:
            md.reset()
            real = 'ok ' + proto.enc_str(md.convert(s))
            nstash = len(md.htmlStash.rawHtmlBlocks)
        except RecursionError:
            dist['recursion_skip'] += 1; continue
        except (ValueError, OverflowError):
            real = 'err'; nstash = 0
        if real != a:
            dis.append({'op': 'converth', 'input': {'src': s, 'tab': tab, 'fmt': fmt}, 'model': proto.dec_str(a[3:]) if a.startswith('ok ') else a,
                        'impl': proto.dec_str(real[3:]) if real.startswith('ok ') else real})
        elif a.startswith('ok '):
            if '<' in s:
                dist['ok_with_lt'] += 1; seen.add((s, tab, fmt))
                out = proto.dec_str(a[3:])
                if nstash: dist['ok_with_stash'] += 1
                if nstash and any(t in out for t in ('<em>', '<strong>', '<code>', '<a ', '<li>', '<h1', '<h2', '<blockquote>')): dist['ok_stash_and_markdown'] += 1
                if len(samples) < 3 and nstash and len(s) > 40: samples.append({'src': s, 'tab': tab, 'fmt': fmt, 'out': out})
    return {'cases': len(docs), 'distinct': len(seen), 'disagreements': dis, 'samples': samples, 'dist': dist}


if __name__ == '__main__':
    import random, sys, json
    from proto import Driver
    n = int(sys.argv[1]) if len(sys.argv) > 1 else 2000
    seed = int(sys.argv[2]) if len(sys.argv) > 2 else 1
    d = Driver()
    r = run(d, random.Random(seed), n)
    d.close()
    print(json.dumps({'cases': r['cases'], 'distinct': r['distinct'], 'n_disagreements': len(r['disagreements']), 'dist': r['dist']}, indent=1, sort_keys=True))
    for x in r['disagreements'][:6]: print(json.dumps(x, default=str)[:2500])
