"""C01b / C01g: differential test of the sub-grammars `Deep2Doc` and `BrDoc` (Spec/DocFlat2.lean) against the real
converter: model (`Pipeline.convert`) = specification (`spec`) = `markdown.Markdown().convert`, on every spelling tried.

`run(driver, rng, n)` is the entry point of the correspondence framework (mode of every document drawn from `rng`).

python corr/brdoc.py <mode> <n documents> <seed>        (3 spellings per document; mode = deep2 | br | all)
  deep2  flat documents of rules, indented code blocks without `<`, paragraphs / ATX / Setext headings of words,
         escapes, code spans without `<` and emphasis / strong to two levels (no escaped backslash directly before a
         code span)                                                                    -- `C01_em_nested`
  br     the same, and paragraphs may contain hard breaks at their top level          -- `C01_hard_breaks`

`python corr/brdoc.py lean <mode> <n> <seed>` prints a Lean file that evaluates `WF` and the predicate on generated
documents: the generator and the predicate describe the same documents.
"""
from __future__ import annotations
import os, sys, random, json

sys.path.insert(0, os.path.dirname(os.path.dirname(os.path.abspath(__file__))))
import proto  # noqa: E402
from proto import enc_str, dec_str  # noqa: E402
from corr import doc as D  # noqa: E402
from corr import nest as N  # noqa: E402


def ok_items(xs, depth, br):
    prev = None
    for x in xs:
        if x[0] not in 'TXCEGB': return False
        if x[0] == 'B' and not (br and depth == 0): return False
        if x[0] == 'C' and '<' in x[1]: return False
        if x[0] == 'C' and prev is not None and prev[0] == 'X' and prev[1] == '\\': return False
        if x[0] in 'EG':
            if depth > 1: return False
            if not ok_items(x[1], depth + 1, br): return False
        prev = x
    return True


def gen_doc(rng, g, mode):
    def inl(br):
        for _ in range(600):
            c = g.inlines(2, br_ok=br)
            if ok_items(c, 0, br): return c
        return [('T', 'w')]
    out = []
    for _ in range(rng.randint(1, 4)):
        k = rng.choice(['p', 'p', 'p', 'a', 's', 'r', 'c'])
        if k == 'p' and mode == 'br' and rng.random() < 0.6:      # several lines, joined by hard breaks
            c = inl(False)
            for _ in range(rng.choice([1, 1, 2, 3, 5])): c = c + [('B',)] + inl(False)
            out.append(('p', c))
        elif k == 'p': out.append(('p', inl(mode == 'br')))
        elif k == 'a': out.append(('a', rng.randint(1, 6), inl(False)))
        elif k == 's': out.append(('s', rng.randint(1, 2), inl(False)))
        elif k == 'r': out.append(('r',))
        else: out.append(('c', [l for l in g.code_lines() if '<' not in l] or ['x']))
    return out


def lean_inl(x):
    return '.br' if x[0] == 'B' else N.lean_inl(x) if x[0] not in 'EG' else \
        '.%s [%s]' % ('em' if x[0] == 'E' else 'strong', ', '.join(lean_inl(y) for y in x[1]))


def lean_block(b):
    inl = lambda c: '[' + ', '.join(lean_inl(y) for y in c) + ']'
    if b[0] == 'p': return '.para ' + inl(b[1])
    if b[0] == 'a': return '.atx %d %s' % (b[1], inl(b[2]))
    if b[0] == 's': return '.setext %d %s' % (b[1], inl(b[2]))
    if b[0] == 'r': return '.rule'
    return '.code [' + ', '.join(N.lean_str(l) for l in b[1]) + ']'


def has_br(doc):
    return any(b[0] == 'p' and any(x[0] == 'B' for x in b[1]) for b in doc)


def has_nested(doc):
    def f(xs, d):
        return any(x[0] in 'EG' and (d > 0 or f(x[1], d + 1)) for x in xs)
    return any(b[0] in 'pas' and f(b[-1], 0) for b in doc)


MODES = ('deep2', 'br')
SPELLINGS = 3
MAX_DIS = 50


def run(driver, rng, n, mode=None, full=False):
    """correspondence entry point (`framework.pmap('corr.brdoc', 'run', seed, n, shards)`): `n` generated documents
    (`mode` None: deep2 / br drawn from `rng` per document), each accepted one printed under 3 spellings drawn from `rng`;
    on every printed source  model (`convert`) = specification (`doc.spec`) = `markdown.Markdown().convert`.
    `distinct` = distinct printed sources.  A generated document that `doc.wf` rejects is counted in
    dist['rejected_by_wf'] and skipped (the generator filters `doc.Gen`, `WF` is the judge)."""
    import markdown
    g = D.Gen(rng, 4)
    docs, modes = [], []
    for _ in range(n):
        m = mode or rng.choice(MODES)
        docs.append(gen_doc(rng, g, m)); modes.append(m)
    encs = [D.enc_doc(d) for d in docs]
    wf = driver.ask_many([('doc.wf', e) for e in encs]) if docs else []
    keep = [(d, e, m) for d, e, m, w in zip(docs, encs, modes, wf) if w == '1']
    res = dict(mode=mode or 'mixed', documents=len(keep), cases=0, differences=0, rejected=len(docs) - len(keep), with_br=0,
               with_nesting=0, lines_max=0)
    dist = {'documents': len(keep), 'rejected_by_wf': len(docs) - len(keep), 'with_br': 0, 'with_nesting': 0}
    for doc, _, m in keep:
        dist['mode:' + m] = dist.get('mode:' + m, 0) + 1
        dist['with_br'] += has_br(doc)
        dist['with_nesting'] += has_nested(doc)
        for b in doc:
            if b[0] == 'p':
                k = 1 + sum(x[0] == 'B' for x in b[1])
                res['lines_max'] = max(res['lines_max'], k)
                dist['para_lines:%d' % k] = dist.get('para_lines:%d' % k, 0) + 1
    res['with_br'], res['with_nesting'] = dist['with_br'], dist['with_nesting']
    specs = driver.ask_many([('doc.spec', e) for _, e, _ in keep]) if keep else []
    reqs, meta = [], []
    for i, (doc, e, m) in enumerate(keep):
        for _ in range(SPELLINGS):
            sp = ','.join(str(rng.randint(0, 20)) for _ in range(rng.randint(0, 40)))
            reqs.append(('doc.print', e, sp)); meta.append(i)
    srcs = [dec_str(x) for x in driver.ask_many(reqs)] if reqs else []
    answers = driver.ask_many([('convert', '4', 'xhtml', enc_str(src)) for src in srcs]) if srcs else []
    md = markdown.Markdown()
    dis, seen = [], set()
    for (_, e, sp), i, src, a in zip(reqs, meta, srcs, answers):
        spec = dec_str(specs[i])
        model = dec_str(a[3:]) if a.startswith('ok ') else a
        try:
            real = md.reset().convert(src)
        except Exception as ex:  # noqa: BLE001   an exception of the converter is a disagreement
            real = 'EXCEPTION %r' % (ex,)
            md = markdown.Markdown()
        seen.add(src)
        if not (model == spec == real):
            dis.append(dict(src=src, spec=spec, model=model, real=real, doc=keep[i][0], sp=sp, mode=keep[i][2]))
    res['cases'] = len(reqs); res['differences'] = len(dis)
    dis.sort(key=lambda x: (len(x['src']), x['src']))
    dist['disagreements_total'] = len(dis)
    out = {'cases': len(reqs), 'distinct': len(seen),
           'disagreements': [{'op': 'convert(print d sp) = spec d = markdown(print d sp)', 'mode': x['mode'],
                              'input': N.clip(x['src'], 1500), 'spelling': N.clip(x['sp'], 120), 'spec': N.clip(x['spec']),
                              'model': N.clip(x['model']), 'impl': N.clip(x['real']), 'doc': N.clip(x['doc'], 800)}
                             for x in dis[:MAX_DIS]],
           'samples': [{'op': 'doc.print', 'input': N.clip(keep[meta[k]][0], 400), 'model': N.clip(srcs[k], 400)}
                       for k in rng.sample(range(len(reqs)), min(3, len(reqs)))],
           'dist': dict(sorted(dist.items()))}
    if full:
        out.update({'res': res, 'dis': dis})
    return out


if __name__ == '__main__' and sys.argv[1] == 'lean':
    mode, n, seed = sys.argv[2], int(sys.argv[3]), int(sys.argv[4])
    rng = random.Random(seed)
    g = D.Gen(rng, 4)
    pred = 'BrDoc' if mode == 'br' else 'Deep2Doc'
    print('import MdVerif.Spec.DocFlat2\nopen MdVerif MdVerif.DocSpec\n')
    for i in range(n):
        print('def d%d : Doc := [%s]' % (i, ', '.join('(' + lean_block(b) + ')' for b in gen_doc(rng, g, mode))))
    print('def docs : List Doc := [' + ', '.join('d%d' % i for i in range(n)) + ']')
    print('#eval (docs.length, (docs.filter (fun d => WF d)).length, (docs.filter (fun d => WF d && %s d)).length)' % pred)
    sys.exit(0)

if __name__ == '__main__':
    mode = sys.argv[1] if len(sys.argv) > 1 else 'br'
    n = int(sys.argv[2]) if len(sys.argv) > 2 else 2000
    seed = int(sys.argv[3]) if len(sys.argv) > 3 else 1
    mode = None if mode == 'all' else mode
    d = proto.Driver()
    out = run(d, random.Random(seed), n, mode, full=True)
    d.close()
    res, dis = out['res'], out['dis']
    print(json.dumps(res, indent=1)); print(json.dumps({k: out[k] for k in ('cases', 'distinct', 'dist')}))
    for x in dis[:int(os.environ.get('SHOW', '6'))]:
        print('SRC  ', repr(x['src'])); print('SPEC ', repr(x['spec'])); print('MODEL', repr(x['model']))
        print('REAL ', repr(x['real'])); print()
