"""C01: the specification `MdVerif/Spec/Doc.lean` (`print`, `spec`, `WF`) against the real converter.

`run(driver, rng, n)`: `n` random well-formed documents (block nesting <= 4, inline nesting <= 3, <= 8 top-level
blocks), each printed under several random spellings by the driver (`doc.print`); `markdown.markdown(source)` must
equal `doc.spec` of the document.  Documents are generated well-formed by construction; the driver's `doc.wf` is the
judge (a generated document it rejects is counted in `dist['rejected_by_wf']` and skipped).

`STAGE` (module variable or `stage=` argument) grows the grammar:
  1  paragraphs, ATX/Setext headings, rules, code blocks; text, emphasis, strong, code spans, escapes
  2  + block quotes      3  + lists (tight/loose, nested)      4  + links, images, autolinks, hard breaks
"""
from __future__ import annotations
import os, sys, collections

sys.path.insert(0, os.path.dirname(os.path.dirname(os.path.abspath(__file__))))
from proto import enc_str, dec_str, enc_opt  # noqa: E402

STAGE = 4
SPELLINGS = 4
ESCAPED = '\\`*_{}[]()>#+-.!'
VOCAB = ['foo', 'bar', 'Baz', 'a', 'x1', '2024', 'Hello', 'w', 'Qux', 'z9', 'I', 'lorem']
CODE_ALPHA = 'ab `*_<>&[]()\\#"\'!-+.1=;~|{}x '
LINE_ALPHA = 'ab  `*_<>&[]()\\#"\'!-+.1=;:>|x  '
DEST_ALPHA = 'abcxyz019/:.-_#?=&%~+'


# ---------------------------------------------------------------- encoding
def enc_inline(x, out):
    k = x[0]
    if k == 'T': out += ['T', 'S' + enc_str(x[1])]
    elif k in 'EG':
        out += [k, str(len(x[1]))]
        for y in x[1]: enc_inline(y, out)
    elif k == 'C': out += ['C', 'S' + enc_str(x[1])]
    elif k == 'L':
        out += ['L', str(len(x[1]))]
        for y in x[1]: enc_inline(y, out)
        out += ['S' + enc_str(x[2]), enc_opt(x[3])]
    elif k == 'I': out += ['I', 'S' + enc_str(x[1]), 'S' + enc_str(x[2]), enc_opt(x[3])]
    elif k == 'A': out += ['A', 'S' + enc_str(x[1])]
    elif k == 'B': out += ['B']
    elif k == 'X': out += ['X', str(ord(x[1]))]
    else: raise ValueError(k)


def enc_block(b, out):
    k = b[0]
    if k == 'p':
        out += ['p', str(len(b[1]))]
        for y in b[1]: enc_inline(y, out)
    elif k in 'as':
        out += [k, str(b[1]), str(len(b[2]))]
        for y in b[2]: enc_inline(y, out)
    elif k == 'r': out += ['r']
    elif k == 'c': out += ['c', str(len(b[1]))] + ['S' + enc_str(l) for l in b[1]]
    elif k == 'q':
        out += ['q', str(len(b[1]))]
        for y in b[1]: enc_block(y, out)
    elif k in 'uo':
        out += [k, '1' if b[1] else '0', str(len(b[2]))]
        for item in b[2]:
            out += [str(len(item))]
            for y in item: enc_block(y, out)
    else: raise ValueError(k)


def enc_doc(d):
    out = [str(len(d))]
    for b in d: enc_block(b, out)
    return ' '.join(out)


# ---------------------------------------------------------------- generator
class Gen:
    def __init__(self, rng, stage):
        self.rng, self.stage = rng, stage
        self.labels = set()

    def words(self, lead=False, trail=False):
        r = self.rng
        w = ' '.join(r.choice(VOCAB) for _ in range(r.randint(1, 3)))
        return (' ' if lead else '') + w + (' ' if trail else '')

    def label(self):
        for _ in range(50):
            w = self.words()
            if w.lower() not in self.labels:
                self.labels.add(w.lower()); return w
        w = 'u%d' % len(self.labels)
        self.labels.add(w); return w

    def dest(self):
        r = self.rng
        while True:
            d = ''.join(r.choice(DEST_ALPHA) for _ in range(r.randint(1, 8)))
            if d != '/' and '&#' not in d: return d

    def title(self):
        return self.words() if self.rng.random() < 0.5 else None

    def code_body(self):
        r = self.rng
        while True:
            b = ''.join(r.choice(CODE_ALPHA) for _ in range(r.randint(1, 7))).strip(' ')
            if b and '```' not in b and '&#' not in b:
                return b

    def inline_kinds(self, in_link, par, br_ok, depth):
        ks = ['T', 'T', 'T', 'C', 'X']
        if depth > 0 and par != 'inner': ks += ['E', 'G']
        if self.stage >= 4:
            ks += ['I']
            if br_ok: ks += ['B']
            if not in_link and depth > 0: ks += ['L', 'L']
            if not in_link: ks += ['A']
        return ks

    def inlines(self, depth, in_link=False, par=None, br_ok=True):
        """a well-formed run of inlines; `par` in None/'E'/'G'/'inner'"""
        r = self.rng
        n = r.choice([1, 1, 2, 2, 3, 4, 5])
        out = []
        prev = None
        for i in range(n):
            ks = self.inline_kinds(in_link, par, br_ok, depth)
            ks = [k for k in ks if not (k == prev and k in 'TCB')]
            if par in ('E', 'G'): ks = [k for k in ks if k != par]
            if i == 0 or i == n - 1: ks = [k for k in ks if k != 'B']
            k = r.choice(ks)
            prev = k
            if k == 'T': out.append(['T', None])
            elif k in 'EG':
                sub = 'inner' if par in ('E', 'G') else k
                out.append((k, self.inlines(depth - 1, in_link, sub, br_ok)))
            elif k == 'C': out.append(('C', self.code_body()))
            elif k == 'X': out.append(('X', r.choice(ESCAPED)))
            elif k == 'B': out.append(('B',))
            elif k == 'A': out.append(('A', r.choice(['http://', 'https://', 'ftp://']) + self.dest()))
            elif k == 'I': out.append(('I', self.label(), self.dest(), self.title()))
            elif k == 'L':
                if r.random() < 0.4:
                    c = [('T', self.label())]
                else:
                    c = self.inlines(depth - 1, True, None, br_ok)
                    if len(c) == 1 and c[0][0] == 'T':
                        if c[0][1].lower() in self.labels: c = [('T', self.label())]
                        else: self.labels.add(c[0][1].lower())
                out.append(('L', c, self.dest(), self.title()))
        # emphasis directly inside emphasis stands between spaces
        if par in ('E', 'G'):
            fixed = []
            for i, x in enumerate(out):
                if x[0] in 'EG':
                    if fixed and not (fixed[-1][0] == 'T' or fixed[-1][0] == 'B'):
                        fixed.append(['T', 'sp'])
                    fixed.append(x)
                    if i + 1 < len(out) and out[i + 1][0] not in 'TB':
                        fixed.append(['T', 'sp'])
                else:
                    fixed.append(x)
            out = fixed
        # texts: spaces towards neighbours
        res = []
        for i, x in enumerate(out):
            if x[0] == 'T':
                first, last = i == 0, i == len(out) - 1
                need_l = (not first) and par in ('E', 'G') and out[i - 1][0] in 'EG'
                need_r = (not last) and par in ('E', 'G') and out[i + 1][0] in 'EG'
                lead = (not first) and out[i - 1][0] != 'B' and (need_l or r.random() < 0.7)
                trail = (not last) and (need_r or r.random() < 0.7)
                if x[1] == 'sp' and lead and trail and r.random() < 0.5:
                    res.append(('T', ' '))
                else:
                    res.append(('T', self.words(lead, trail)))
            else:
                res.append(x)
        return res

    def code_lines(self, in_list=False):
        r = self.rng
        n = r.choice([1, 1, 2, 3, 4])
        ls = []
        for i in range(n):
            if 0 < i < n - 1 and r.random() < 0.25 and not (in_list and ls[-1] == ''):
                ls.append('')
            else:
                while True:
                    l = ''.join(r.choice(LINE_ALPHA) for _ in range(r.randint(1, 10))).rstrip(' ')
                    if l.strip(' ') and '&#' not in l: break
                ls.append(l)
        return ls

    def block_kinds(self, depth, mode):
        ks = ['p', 'p', 'p', 'a', 's', 'r', 'c']
        if self.stage >= 2 and depth > 0: ks += ['q']
        if self.stage >= 3 and depth > 0: ks += ['u', 'u', 'o']
        return ks

    def blocks(self, depth, mode, n=None, first_para=False):
        r = self.rng
        n = n or r.choice([1, 1, 2, 2, 3])
        out = []
        for i in range(n):
            ks = self.block_kinds(depth, mode)
            if out:
                p = out[-1][0]
                if p in 'uo': ks = [k for k in ks if k not in 'uoc']
                if p == 'c': ks = [k for k in ks if k != 'c']
                if p == 'q': ks = [k for k in ks if k != 'q']
            if first_para and i == 0: ks = ['p']
            if first_para and i == 1: ks = [k for k in ks if k != 'c']
            out.append(self.block(r.choice(ks), depth, mode))
        return out

    def block(self, k, depth, mode):
        r = self.rng
        if k == 'p': return ('p', self.inlines(3))
        if k == 'a': return ('a', r.randint(1, 6), self.inlines(3, br_ok=False))
        if k == 's': return ('s', r.randint(1, 2), self.inlines(3, br_ok=False))
        if k == 'r': return ('r',)
        if k == 'c': return ('c', self.code_lines(mode is not None))
        if k == 'q': return ('q', self.blocks(depth - 1, None))
        loose = mode if mode is not None else (r.random() < 0.5)
        return (k, loose, self.items(depth - 1, loose))

    def items(self, depth, loose):
        r = self.rng
        n = r.choice([1, 2, 2, 3])
        items = []
        for _ in range(n):
            if loose:
                items.append(self.blocks(depth, True, n=r.choice([1, 1, 2, 3]), first_para=True))
            else:
                it = [('p', self.inlines(3))]
                if depth > 0 and r.random() < 0.35:
                    it.append((r.choice('uo'), False, self.items(depth - 1, False)))
                items.append(it)
        if loose and len(items) < 2 and all(len(i) < 2 for i in items):
            items.append(self.blocks(depth, True, n=1, first_para=True))
        return items

    def doc(self):
        self.labels = set()
        return self.blocks(3, None, n=self.rng.randint(1, 8))


class WildGen(Gen):
    """few constraints by construction: the driver's `doc.wf` decides.  Finds documents that `WF` accepts although the
    careful generator would never build them."""

    def words(self, lead=False, trail=False):
        r = self.rng
        w = ' '.join(r.choice(VOCAB) for _ in range(r.randint(1, 2)))
        return (' ' if r.random() < 0.3 else '') + w + (' ' if r.random() < 0.3 else '')

    def label(self):
        return ' '.join(self.rng.choice(VOCAB[:5]) for _ in range(self.rng.randint(1, 2)))

    def inlines(self, depth, in_link=False, par=None, br_ok=True):
        r = self.rng
        out = []
        for _ in range(r.choice([1, 1, 2, 2, 3, 4])):
            ks = ['T', 'T', 'T', 'C', 'X', 'I', 'B', 'A']
            if depth > 0: ks += ['E', 'G', 'L']
            if self.stage < 4: ks = [k for k in ks if k not in 'IBAL']
            k = r.choice(ks)
            if k == 'T': out.append(('T', self.words() if r.random() < 0.9 else ' '))
            elif k in 'EG': out.append((k, self.inlines(depth - 1, in_link, k, br_ok)))
            elif k == 'C': out.append(('C', self.code_body()))
            elif k == 'X': out.append(('X', r.choice(ESCAPED)))
            elif k == 'B': out.append(('B',))
            elif k == 'A': out.append(('A', r.choice(['http://', 'https://', 'ftp://']) + self.dest()))
            elif k == 'I': out.append(('I', self.label(), self.dest(), self.title()))
            elif k == 'L': out.append(('L', self.inlines(depth - 1, True, None, br_ok), self.dest(), self.title()))
        return out

    def title(self):
        return self.label() if self.rng.random() < 0.5 else None

    def code_lines(self, in_list=False):
        r = self.rng
        ls = []
        for _ in range(r.choice([1, 1, 2, 3, 4])):
            ls.append('' if r.random() < 0.2 else ''.join(r.choice(LINE_ALPHA) for _ in range(r.randint(1, 8))))
        return ls

    def blocks(self, depth, mode, n=None, first_para=False):
        r = self.rng
        out = []
        for _ in range(n or r.choice([1, 1, 2, 2, 3])):
            ks = self.block_kinds(depth, mode)
            out.append(self.block(r.choice(ks), depth, mode))
        return out

    def block(self, k, depth, mode):
        r = self.rng
        if k in 'uo':
            loose = r.random() < 0.5 if (mode is None or r.random() < 0.2) else mode
            return (k, loose, self.items(depth - 1, loose))
        return Gen.block(self, k, depth, mode)

    def items(self, depth, loose):
        r = self.rng
        items = []
        for _ in range(r.choice([1, 2, 2, 3])):
            it = [('p', self.inlines(2))] if r.random() < 0.9 else []
            if r.random() < 0.5:
                it += self.blocks(depth, loose, n=r.choice([1, 1, 2]))
            if not it: it = [('p', self.inlines(1))]
            items.append(it)
        return items

    def doc(self):
        return self.blocks(3, None, n=self.rng.randint(1, 4))


# ---------------------------------------------------------------- statistics
def inline_depth(xs):
    """number of nested inline containers (emphasis, strong, link)"""
    d = 0
    for x in xs:
        if x[0] in 'EGL': d = max(d, 1 + inline_depth(x[1]))
    return d


def walk(d, kinds, depth=1):
    """returns (block depth, inline depth)"""
    bd, idp = depth, 0
    for b in d:
        kinds.add('block:' + {'p': 'para', 'a': 'atx', 's': 'setext', 'r': 'rule', 'c': 'code', 'q': 'quote',
                              'u': 'ulist', 'o': 'olist'}[b[0]])
        if b[0] in 'uo': kinds.add('list:loose' if b[1] else 'list:tight')
        ins = b[1] if b[0] == 'p' else b[2] if b[0] in 'as' else None
        if ins is not None:
            idp = max(idp, inline_depth(ins)); walk_inl(ins, kinds)
        subs = [b[1]] if b[0] == 'q' else b[2] if b[0] in 'uo' else []
        for s in subs:
            x, y = walk(s, kinds, depth + 1)
            bd, idp = max(bd, x), max(idp, y)
    return bd, idp


def walk_inl(xs, kinds):
    for x in xs:
        kinds.add('inline:' + {'T': 'text', 'E': 'em', 'G': 'strong', 'C': 'code', 'L': 'link', 'I': 'image',
                               'A': 'autolink', 'B': 'br', 'X': 'esc'}[x[0]])
        if x[0] in 'EGL': walk_inl(x[1], kinds)


# ---------------------------------------------------------------- run
def run(driver, rng, n, stage=None, wild=None):
    """`wild`: number of additional documents from the unconstrained generator (default `n`; most are rejected by `WF`)"""
    import markdown
    stage = stage or STAGE
    g = Gen(rng, stage)
    docs = [g.doc() for _ in range(n)]
    wg = WildGen(rng, stage)
    wild_docs = [wg.doc() for _ in range(n if wild is None else wild)]
    docs += wild_docs
    encs = [enc_doc(d) for d in docs]
    wf = driver.ask_many([('doc.wf', e) for e in encs])
    dist = collections.Counter()
    dist['rejected_by_wf'] = sum(1 for w in wf[:n] if w != '1')
    dist['wild_generated'] = len(wild_docs)
    dist['wild_accepted_by_wf'] = sum(1 for w in wf[n:] if w == '1')
    keep = [(d, e) for d, e, w in zip(docs, encs, wf) if w == '1']
    for d, _ in keep:
        kinds = set()
        bd, idp = walk(d, kinds)
        for k in kinds: dist[k] += 1
        dist['block_depth:%d' % bd] += 1
        dist['inline_depth:%d' % idp] += 1
    specs = driver.ask_many([('doc.spec', e) for _, e in keep])
    reqs, meta = [], []
    for i, (d, e) in enumerate(keep):
        for j in range(SPELLINGS):
            sp = [] if j == 0 else [rng.randint(0, 11) for _ in range(rng.choice([10, 60, 200]))]
            reqs.append(('doc.print', e, ','.join(map(str, sp)))); meta.append(i)
    srcs = []
    for i in range(0, len(reqs), 10000):
        srcs.extend(driver.ask_many(reqs[i:i + 10000]))
    md = markdown.Markdown()
    dis, seen = [], set()
    for (op, e, sp), i, s in zip(reqs, meta, srcs):
        src = dec_str(s)
        seen.add(src)
        try:
            out = md.reset().convert(src)
        except Exception as ex:  # noqa: BLE001
            out = 'EXCEPTION %r' % (ex,)
        want = dec_str(specs[i])
        if out != want:
            dis.append({'op': 'convert(print d sp) = spec d', 'input': repr(src), 'model': want, 'impl': out,
                        'doc': repr(keep[i][0])})
    dis.sort(key=lambda x: len(x['input']))
    dist['documents'] = len(keep)
    samples = [{'op': 'doc.print', 'input': repr(keep[meta[k]][0]), 'model': dec_str(srcs[k])}
               for k in rng.sample(range(len(reqs)), min(6, len(reqs)))]
    return {'cases': len(reqs), 'distinct': len(seen), 'disagreements': dis[:50], 'n_disagreements': len(dis),
            'samples': samples, 'dist': dict(sorted(dist.items()))}


if __name__ == '__main__':
    import random, json
    from proto import Driver
    n = int(sys.argv[1]) if len(sys.argv) > 1 else 2000
    stage = int(sys.argv[2]) if len(sys.argv) > 2 else STAGE
    seed = int(sys.argv[3]) if len(sys.argv) > 3 else 1
    d = Driver()
    res = run(d, random.Random(seed), n, stage, wild=int(os.environ['WILD']) if 'WILD' in os.environ else None)
    d.close()
    print(json.dumps({k: v for k, v in res.items() if k not in ('samples', 'disagreements')}, indent=1))
    for x in res['disagreements'][:int(os.environ.get('SHOW', '8'))]:
        import difflib
        a, b = x['model'], x['impl']
        sm = difflib.SequenceMatcher(None, a, b, autojunk=False)
        ops = [o for o in sm.get_opcodes() if o[0] != 'equal'][:1]
        print('SRC ', x['input'][:700])
        for tag, i1, i2, j1, j2 in ops:
            print('WANT …%r…' % a[max(0, i1 - 60):i2 + 60]); print('GOT  …%r…' % b[max(0, j1 - 60):j2 + 60])
        print()
    if os.environ.get('SAMPLES'):
        for s in res['samples']: print(s)
    sys.exit(1 if res['disagreements'] else 0)
