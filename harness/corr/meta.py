"""Correspondence of the `meta` extension models with the implementation.

  * op `meta.run` (`Meta.run`, `MdVerif/Model/Ext/Meta.lean`) vs `MetaPreprocessor(md).run(lines)` and the `md.Meta` it sets
    (and vs the Python mirror `harness/mirror/mirror_meta.py`), on generated line lists: keys over `[A-Za-z0-9_-]` and
    others, 0-5 leading blanks, continuation lines, `---` / `...` delimiters and look-alikes, blank lines, tabs, non-ASCII
    white space, line feeds inside a line;
  * op `meta.match` (the four recognisers) vs `META_RE`, `META_MORE_RE`, `BEGIN_RE`, `END_RE` of the module on the lines;
  * op `convertm 1 …` (`PipelineM.convertM true`) vs `markdown.Markdown(extensions=['meta', …]).convert` — the output AND
    `md.Meta` — for documents `header + separator + body` (bodies of corr/pipelinex.py, random subsets of its extensions,
    both formats, tab lengths 4/2/8), documents without header, documents opening with `---`, `...`, a blank line;
  * op `convertm 0 …` vs op `convertx` (the model without the meta step) on a tenth of the documents.

The implementation is the one with F-C16-3 repaired (`BEGIN_RE`/`END_RE` anchored with `$`, `END_RE` honoured only after
an opener or a keyword); the witnesses of the finding are among the fixed documents.

run(driver, rng, n) -> {'cases', 'distinct', 'disagreements', 'samples', 'dist'}.  `ood` answers are counted, never
compared (domain of `convertX`, on the text after the meta step).
"""
from __future__ import annotations
import os, re, sys

_H = os.path.dirname(os.path.dirname(os.path.abspath(__file__)))
sys.path.insert(0, _H)
sys.path.insert(0, os.path.join(_H, 'mirror'))
sys.path.insert(0, os.path.dirname(os.path.abspath(__file__)))
import proto  # noqa: E402
import markdown  # noqa: E402
from markdown.extensions import meta as IM  # noqa: E402
import mirror_meta as MM  # noqa: E402
import pipelinex as CX  # noqa: E402


def enc_dict(items):
    return ' '.join(proto.enc_str(k) + ':' + proto.enc_list(v) for k, v in items)


def impl_run(lines):
    class _M:
        Meta = None
    m = _M()
    out = IM.MetaPreprocessor(m).run(list(lines))
    return out, [(k, list(v)) for k, v in m.Meta.items()]


def impl_match(line):
    m1 = IM.META_RE.match(line); m2 = IM.META_MORE_RE.match(line)
    return '|'.join(['N' if not m1 else 'S' + proto.enc_str(m1.group('key')) + ':' + proto.enc_str(m1.group('value')),
                     'N' if not m2 else 'S' + proto.enc_str(m2.group('value')),
                     proto.enc_bool(bool(IM.BEGIN_RE.match(line))), proto.enc_bool(bool(IM.END_RE.match(line)))])


HKEYS = ['Title', 'title', 'Author', 'author', 'Date', 'k_1', 'x-y', '9', 'base_url', 'Summary', 'A', '-', '_']
HVALS = ['My Document', 'v', '', ' spaced  ', 'Waylan Limberg', 'http://example.com/', '2007-2008', 'a: b', '*not em*', '`c`',
         'é ü', '[l](/u)', '# no header', '- no list', '\tx', 'x\t', '---', '...', '| a | b |', '[^1]', '```', '!!! note']


def gen_header(rng):
    ls = []
    for _ in range(rng.randint(1, 4)):
        ls.append(' ' * rng.choice([0, 0, 0, 1, 2, 3]) + rng.choice(HKEYS) + rng.choice([':', ': ', ':  ', ':\t', ':    ']) + rng.choice(HVALS))
        for _ in range(rng.choice([0, 0, 0, 1, 2])):
            ls.append(' ' * rng.choice([4, 4, 5, 8]) + rng.choice([v for v in HVALS if v.strip()]))
    return ls


def gen_doc(rng):
    """(source, kind)"""
    body = CX.gen(rng)
    r = rng.random()
    if r < 0.35:
        return '\n'.join(gen_header(rng)) + rng.choice(['\n\n', '\n\n', '\n\n\n', '\n \n', '\n\t\n', '\r\n\r\n']) + body, 'header'
    if r < 0.50:
        return '---\n' + '\n'.join(gen_header(rng)) + rng.choice(['\n---\n', '\n...\n', '\n---\n\n', '\n...\n\n', '\n\n', '\n--- \n', '\n----\n']) + body, 'yaml'
    if r < 0.58:
        return '\n'.join(gen_header(rng)) + '\n' + body, 'header-glued'
    if r < 0.66:
        return rng.choice(['...', '... x', '...and so on', '....', '---', '----', '--- x', '', ' ', '\t', '--', '..', ' ---', ' ...', '---\n', '---\n\n',
                           '---\n...', '   a: b', '    a: b', 'é: x', 'a b: c', 'a:b', ':']) + rng.choice(['\n', '\n\n', ' ', '']) + body, 'opening'
    if r < 0.72:
        return '\n'.join(MM.gen_lines(rng)) + rng.choice(['', '\n\n' + body]), 'lines'
    return body, 'plain'


FIXED = ['Title: My Document\nSummary: A brief description\n    of my document.\nAuthors: Waylan Limberg\n         John Doe\nDate: October 2, 2007\n'
         'blank-value:\nbase_url: http://example.com\n\nThis is the first paragraph of the document.',
         '---\nTitle: My Document\nAuthors: A\n         B\n---\nbody *x*', '---\nk: v\n...\n\n# h', '...and so on\n\ntext', '----\ntext', '... and so on\n\ntext', '...\n\ntext', '--- x\nA: b\n...\nbody', 'A: b\n...\nbody', '---\n...\nbody', '---', '...',
         'a: b', 'a: b\n', 'A: 1\na: 2\nB: 3\n    4\nA: 5\n\nx', '\n\na: b', 'a: b\n\n```\nA: c\n```', 'a: b\n\n', 'k: v\n\n    code', 'k:v\n* * *',
         'Author: <a@b.c>\n\nbody', 'k: v\n\na <b> c', '   k: v\n    w\n     x\n\n\ty']


def run(driver, rng, n):
    dis = []; seen = set(); samples = []
    dist = {'run': 0, 'run:consumed': 0, 'run:dict': 0, 'run:multi': 0, 'run:merged': 0, 'run:yaml': 0, 'run:rest': 0, 'match': 0,
            'match:meta': 0, 'match:more': 0, 'match:end': 0, 'ok': 0, 'err': 0, 'oof': 0, 'ood': 0, 'recursion_skip': 0, 'skip:non-ascii-class': 0,
            'doc:dict': 0, 'doc:dict+output': 0, 'doc:no-dict-same-as-plain': 0, 'doc:no-dict-differs-from-plain': 0, 'off': 0}
    # ---------------------------------------------------------------- Meta.run, recognisers
    n_run = max(1, n // 2)
    lists = [l.split('\n') for l in FIXED] + [MM.gen_lines(rng) for _ in range(n_run)]
    lists = [ls for ls in lists if all(proto.lean_ok(l) for l in ls)]
    ans = driver.ask_many([('meta.run', proto.enc_list(ls)) for ls in lists])
    for ls, a in zip(lists, ans):
        out, items = impl_run(ls)
        real = proto.enc_list(out) + '|' + enc_dict(items)
        mo, mi = MM.run(ls)
        mir = proto.enc_list(mo) + '|' + enc_dict(mi)
        dist['run'] += 1
        if len(out) < len(ls): dist['run:consumed'] += 1
        if items: dist['run:dict'] += 1
        if any(len(v) > 1 for _, v in items): dist['run:multi'] += 1
        if items and len(items) < sum(1 for l in ls[:len(ls) - len(out)] if IM.META_RE.match(l)): dist['run:merged'] += 1
        if ls and ls[0][:3] == '---' and items: dist['run:yaml'] += 1
        if items and out: dist['run:rest'] += 1
        if real != a or mir != a:
            dis.append({'op': 'meta.run', 'input': ls, 'model': a, 'impl': real, 'mirror': mir})
        elif items: seen.add(('run', tuple(ls)))
    lines = sorted({l for ls in lists for l in ls})
    ans = driver.ask_many([('meta.match', proto.enc_str(l)) for l in lines])
    for l, a in zip(lines, ans):
        real = impl_match(l)
        dist['match'] += 1
        f = real.split('|')
        if f[0] != 'N': dist['match:meta'] += 1
        if f[1] != 'N': dist['match:more'] += 1
        if f[3] == '1': dist['match:end'] += 1
        if real != a: dis.append({'op': 'meta.match', 'input': l, 'model': a, 'impl': real})
    # ---------------------------------------------------------------- convertM
    n_doc = max(1, n - n_run)
    docs = []
    for i in range(n_doc + len(FIXED)):
        s, kind = (FIXED[i], 'fixed') if i < len(FIXED) else gen_doc(rng)
        if not proto.lean_ok(s) or 'Σ' in s: continue
        r = rng.random()
        if r < 0.3: names = set()
        elif r < 0.5: names = set(CX.SUPPORTED)
        elif r < 0.65: names = {rng.choice(CX.SUPPORTED)}
        else: names = {e for e in CX.SUPPORTED if rng.random() < 0.4}
        docs.append((s, rng.choice([4, 4, 4, 4, 4, 2, 8]), rng.choice(['xhtml', 'xhtml', 'html']), CX.flags_of(names), kind))
    ans = driver.ask_many([('convertm', '1', fl, str(t), f, proto.enc_str(s)) for s, t, f, fl, _ in docs])
    mds = {}
    nonascii = re.compile(r'!!! ?[^\x00-\x7f]')
    for (s, tab, fmt, fl, kind), a in zip(docs, ans):
        key = (tab, fmt, fl)
        exts = [e for e, c in zip(CX.EXTS, fl) if c == '1']
        md = mds.get(key)
        if md is None:
            md = mds[key] = markdown.Markdown(tab_length=tab, output_format=fmt, extensions=['meta'] + exts)
        k = a.split('|')[0].split(' ')[0]
        dist[k] = dist.get(k, 0) + 1
        dist['kind:' + kind] = dist.get('kind:' + kind, 0) + 1
        if k == 'ood': continue
        try:
            md.reset()
            real = 'ok ' + proto.enc_str(md.convert(s))
        except RecursionError:
            dist['recursion_skip'] += 1; mds.pop(key, None); continue
        except (ValueError, OverflowError):
            real = 'err'; mds.pop(key, None)
        except Exception as e:
            real = 'exc ' + type(e).__name__; mds.pop(key, None)
        items = [(kk, list(v)) for kk, v in md.Meta.items()]
        real += '|' + enc_dict(items)
        if fl[CX.EXTS.index('admonition')] == '1' and nonascii.search(s):
            dist['skip:non-ascii-class'] += 1; continue
        if real != a:
            dis.append({'op': 'convertm', 'input': {'src': s, 'tab': tab, 'fmt': fmt, 'flags': fl}, 'model': a, 'impl': real})
            continue
        if k != 'ok': continue
        out = proto.dec_str(a.split('|')[0][3:])
        if items:
            dist['doc:dict'] += 1
            if out:
                dist['doc:dict+output'] += 1; seen.add((s, tab, fmt, fl))
        else:
            try:
                plain = markdown.markdown(s, tab_length=tab, output_format=fmt, extensions=exts)
                dist['doc:no-dict-same-as-plain' if plain == out else 'doc:no-dict-differs-from-plain'] += 1
            except Exception:
                pass
        if len(samples) < 3 and items: samples.append({'src': s, 'flags': fl, 'model': a[:200]})
    # ---------------------------------------------------------------- convertM false = convertX
    sub = docs[::10]
    a0 = driver.ask_many([('convertm', '0', fl, str(t), f, proto.enc_str(s)) for s, t, f, fl, _ in sub])
    ax = driver.ask_many([('convertx', fl, str(t), f, proto.enc_str(s)) for s, t, f, fl, _ in sub])
    for (s, tab, fmt, fl, _), x0, xx in zip(sub, a0, ax):
        dist['off'] += 1
        if x0 != xx + '|':
            dis.append({'op': 'convertm-off', 'input': {'src': s, 'tab': tab, 'fmt': fmt, 'flags': fl}, 'model': x0, 'impl': xx})
    return {'cases': len(lists) + len(lines) + len(docs) + len(sub), 'distinct': len(seen), 'disagreements': dis, 'samples': samples, 'dist': dist}


if __name__ == '__main__':
    import json, random, time
    seed = int(sys.argv[1]) if len(sys.argv) > 1 else 1
    n = int(sys.argv[2]) if len(sys.argv) > 2 else 2000
    d = proto.Driver(sys.argv[3] if len(sys.argv) > 3 else None)
    t0 = time.time()
    res = run(d, random.Random(seed), n)
    d.close()
    print(json.dumps({'cases': res['cases'], 'distinct': res['distinct'], 'disagreements': len(res['disagreements']),
                      'dist': res['dist'], 'seconds': round(time.time() - t0, 1)}, ensure_ascii=False))
    for x in res['disagreements'][:10]:
        print('DISAGREE', json.dumps(x, ensure_ascii=False))
