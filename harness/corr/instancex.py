"""Correspondence of the concrete instance model (`lean/MdVerif/Model/InstanceX.lean`, driver op `instx.run`) with ONE
real `markdown.Markdown(extensions=[…])` instance over random HISTORIES: sequences (1–6 steps) of `convert(src)` and
`reset()`, documents without '<' (the modelled domain) from the generators of `corr/pipelinex.py` plus generators
that split definitions and uses (link references, footnotes, abbreviations) across the documents of a history,
entity references and fenced blocks (the HTML stash keeps counting without `reset()`).

In three histories out of ten the `meta` extension is enabled as well (op `instx.runm`, `InstanceX.convertSM true`): half of
the documents then open with a meta-data header (generators of corr/meta.py), and `md.Meta` after the history is compared.

run(driver, rng, n) -> {'cases', 'distinct', 'disagreements', 'samples', 'dist'}

Compared: EVERY output of the history, and the state after it (`md.references`, the footnote table, `abbrs`,
`htmlStash.rawHtmlBlocks`, `used_refs`, `found_refs`, and the side outputs `md.toc`, `md.toc_tokens` — level, id, name of
the flattened tokens) when the model still tracks it.  The model answers `D` (outside the
modelled domain) for the documents `convertX` does not model and for every conversion after a conversion that did not
return normally until the next `reset()`; such answers are counted, they are not disagreements.  `E` must be a raised
ValueError/OverflowError.  A case is a history; `distinct` counts the histories in which a conversion WITHOUT a preceding
reset gave an output different from what a new instance gives for the same document (the persistence is exercised).
"""
from __future__ import annotations
import os, sys

sys.path.insert(0, os.path.dirname(os.path.dirname(os.path.abspath(__file__))))
sys.path.insert(0, os.path.dirname(os.path.abspath(__file__)))
import proto  # noqa: E402
import markdown  # noqa: E402
from gen import common as G, docs as D  # noqa: E402
import pipelinex as PX  # noqa: E402
import meta as CM  # noqa: E402

EXTS = PX.EXTS

LABELS = ['a', 'b', 'Ref', 'x y', '1', 'é']
FNIDS = ['1', '2', 'a', 'note', 'x y']
ABBRS = ['HTML', 'W3C', 'A', 'AB', 'X Y', 'li']
WORDS = ['text', 'and', 'HTML', 'W3C', 'A', 'AB', 'X Y', 'li', 'more', 'é', 'x']


def _w(rng, lo=1, hi=4):
    return ' '.join(rng.choice(WORDS) for _ in range(rng.randint(lo, hi)))


def defs_part(rng):
    k = rng.randrange(8)
    if k < 3:
        return '[%s]: %s%s' % (rng.choice(LABELS), rng.choice(['/u', '/v', 'http://e.x/?a=1&b=2', '/é']), rng.choice(['', '', ' "T"', " 'q'", ' (p)', '\n    "next"']))
    if k < 5:
        return '[^%s]: %s' % (rng.choice(FNIDS), rng.choice(['note ' + _w(rng), '*e* [l][a]', 'HTML [^%s] back' % rng.choice(FNIDS), '', 'p1\n\n    p2', 'p\n\n    - l1\n    - l2',
                                                             '[b]: /infn\n\n    x [z][b]', '# h', '> q', '*[AB]: from fn', '&amp; ent', '```\n    f\n    ```']))
    if k < 7:
        return '*[%s]: %s' % (rng.choice(ABBRS), rng.choice(['Hyper Text', 'T t', 'é', "''", '""', 'a *b*', '&amp;']))
    return D.p_refdef(rng) if rng.random() < 0.5 else D.p_footnote_def(rng)


def uses_part(rng):
    k = rng.randrange(10)
    if k < 3:
        l = rng.choice(LABELS)
        return rng.choice(['[t][%s]', '[%s]', '[%s][]', '![i][%s]', '![%s]', 'x [t] [%s] y', '*[t][%s]*', '- [t][%s]', '> [%s]', '# h [%s]']) % l
    if k < 6:
        return ''.join('%s[^%s]%s' % (rng.choice(['', 'w', '*e*', _w(rng, 1, 2)]), rng.choice(FNIDS + ['zz']), rng.choice(['', ' ', '\n'])) for _ in range(rng.randint(1, 3)))
    if k < 8:
        return rng.choice(['', '# ', '## ', '# ', '- ', '> ', '1. ']) + _w(rng, 1, 6) + rng.choice(['', '', '', ' {#i1}', ' {: data-toc-label="L" }'])
    if k == 8:
        return rng.choice(['a &amp; b', '&lt;x&gt;', '&copy; &#169; &#x41;', 'AT&T', '&amp;amp;', '`&amp;`', '    &amp;', '[TOC]', '# H\n\n[TOC]', '///Footnotes Go Here///'])
    return rng.choice(['```\ncode HTML\n```', '~~~ py\nx\n~~~', '```\na\n```\n\n```\nb\n```', '| a | b |\n|---|---|\n| HTML | [t][a] |', '!!! note\n    HTML[^1]', 'T\n:   d [a]',
                       '[[w]] A', 'l1\nl2 [a]', 'p {: #i .c }', '# H [^1] {#i}'])


def split_doc(rng):
    n = rng.randint(1, 4)
    r = rng.random()
    parts = [(defs_part if (rng.random() < (0.85 if r < 0.35 else 0.15 if r < 0.7 else 0.5)) else uses_part)(rng) for _ in range(n)]
    return rng.choice(['\n\n', '\n\n', '\n']).join(parts)


def gen_doc(rng):
    r = rng.random()
    if r < 0.6: s = split_doc(rng)
    elif r < 0.68: s = PX.fn_doc(rng)
    elif r < 0.74: s = PX.abbr_doc(rng)
    elif r < 0.8: s = PX.toc_doc(rng)
    elif r < 0.82: s = rng.choice(['', ' ', '\n', ' \n\t'])
    elif r < 0.84: s = rng.choice(['&#1114112;', 'x &#x110000; y', '&#99999999999;'])    # unescape raises / not: whatever happens
    elif r < 0.86: s = rng.choice(PX.FAMILIES)
    else: s = PX.gen(rng)
    return s.replace('<', '')


def gen_meta_doc(rng):
    body = gen_doc(rng)
    r = rng.random()
    if r < 0.35: s = '\n'.join(CM.gen_header(rng)) + rng.choice(['\n\n', '\n\n', '\n\n\n', '\n \n']) + body
    elif r < 0.5: s = '---\n' + '\n'.join(CM.gen_header(rng)) + rng.choice(['\n---\n', '\n...\n', '\n---\n\n', '\n\n']) + body
    elif r < 0.56: s = '\n'.join(CM.gen_header(rng)) + '\n' + body
    elif r < 0.6: s = rng.choice(CM.FIXED)
    else: s = body
    return s.replace('<', '')


def gen_history(rng, meta=False):
    k = rng.randint(1, 6)
    g = gen_meta_doc if meta else gen_doc
    evs = []
    for i in range(k):
        if i and rng.random() < 0.22: evs.append(None)                  # reset()
        else: evs.append(g(rng))
    if not any(e is not None for e in evs): evs[0] = g(rng)
    return evs


def dec_rows(f):
    return [] if f == '-' else [r.split('~') for r in f.split(';')]


def real_state(md):
    st = {'refs': dict(md.references), 'html': list(md.htmlStash.rawHtmlBlocks), 'fn': None, 'used': None, 'found': None, 'abbrs': None,
          'counter': md.htmlStash.html_counter, 'pstate': list(md.parser.state), 'toc': None, 'toks': None}
    for e in md.registeredExtensions:
        n = type(e).__name__
        if n == 'FootnoteExtension':
            st['fn'] = list(e.footnotes.items()); st['used'] = set(e.used_refs); st['found'] = dict(e.found_refs)
        elif n == 'AbbrExtension':
            st['abbrs'] = list(e.abbrs.items())
        elif n == 'TocExtension':
            st['toc'] = md.toc; st['toks'] = flat_tokens(md.toc_tokens)
    return st


def flat_tokens(toks):
    out = []
    for t in toks:
        out.append((t['level'], t['id'], t['name']))
        out.extend(flat_tokens(t['children']))
    return out


def model_state(f, real):
    """decode `V…` into the shape of `real_state` (tables of extensions that are not enabled: as the real ones)"""
    refs, fns, abbrs, html, used, found, toc, toks = f[1:].split('#')
    d = {}
    for i, u, t in dec_rows(refs):
        d[proto.dec_str(i)] = (proto.dec_str(u), proto.dec_opt(t))
    st = {'refs': d, 'html': proto.dec_list(html), 'counter': len(proto.dec_list(html)), 'pstate': [],
          'fn': None, 'used': None, 'found': None, 'abbrs': None, 'toc': None, 'toks': None}
    if real['toc'] is not None:
        st['toc'] = proto.dec_str(toc)
        st['toks'] = [(int(l), proto.dec_str(i), proto.dec_str(n)) for l, i, n in dec_rows(toks)]
    if real['fn'] is not None:
        st['fn'] = [(proto.dec_str(k), proto.dec_str(v)) for k, v in dec_rows(fns)]
        st['used'] = set(proto.dec_list(used))
        st['found'] = {proto.dec_str(k): int(v) for k, v in dec_rows(found)}
    if real['abbrs'] is not None:
        st['abbrs'] = [(proto.dec_str(k), proto.dec_str(v)) for k, v in dec_rows(abbrs)]
    return st


def run(driver, rng, n, supported=None):
    supported = list(supported or PX.SUPPORTED)
    cases = []
    attempts = 0
    while len(cases) < n and attempts < 3 * n + 100:
        attempts += 1
        on = rng.random() < 0.3
        evs = gen_history(rng, on)
        if any(e is not None and (not proto.lean_ok(e) or 'Σ' in e or '<' in e or '\t' in e and False) for e in evs): continue
        r = rng.random()
        if r < 0.3: names = set(supported)
        elif r < 0.45: names = {rng.choice(['footnotes', 'abbr', 'fenced_code', 'toc'])}
        elif r < 0.55: names = set()
        else: names = {e for e in supported if rng.random() < 0.5}
        tab = rng.choice([4, 4, 4, 4, 4, 2, 8])
        fmt = rng.choice(['xhtml', 'xhtml', 'html'])
        cases.append((evs, tab, fmt, PX.flags_of(names), on))
    reqs = [(('instx.runm', '1') if on else ('instx.run',)) + (fl, str(t), f) + tuple('R' if e is None else 'C' + proto.enc_str(e) for e in evs)
            for evs, t, f, fl, on in cases]
    ans = driver.ask_many(reqs)
    dis = []
    dist = {'histories': 0, 'conversions': 0, 'resets': 0, 'ok': 0, 'err': 0, 'oof': 0, 'ood': 0, 'ood:after-failure': 0, 'recursion_skip': 0,
            'skip:non-ascii-class': 0, 'state_compared': 0, 'state_untracked': 0, 'persistence_visible': 0, 'conv_without_reset': 0,
            'toc_nonempty': 0, 'meta_on': 0, 'meta_nonempty': 0, 'leak:refs': 0, 'leak:footnotes': 0, 'leak:abbr': 0, 'leak:stash': 0, 'leak:fnref': 0}
    distinct = 0
    fresh_cache = {}
    for (evs, tab, fmt, fl, on), a in zip(cases, ans):
        dist['histories'] += 1
        outs_f, state_f = a.split('#', 1)
        meta_f = None
        if on:
            dist['meta_on'] += 1
            if state_f != 'X': state_f, meta_f = state_f.rsplit('#', 1)
        outs = outs_f.split('|') if outs_f else []
        names = [e for e, c in zip(EXTS, fl) if c == '1']
        md = markdown.Markdown(tab_length=tab, output_format=fmt, extensions=names + (['meta'] if on else []))
        key = (tab, fmt, fl, on)
        if key not in fresh_cache:
            fresh_cache[key] = markdown.Markdown(tab_length=tab, output_format=fmt, extensions=names + (['meta'] if on else []))
        j = 0; skip = False; tracked = True; dirty = False; visible = False
        for e in evs:
            if e is None:
                md.reset(); dist['resets'] += 1; tracked = True; dirty = False; continue
            m = outs[j]; j += 1
            dist['conversions'] += 1
            try:
                real = 'K' + proto.enc_str(md.convert(e))
            except RecursionError:
                dist['recursion_skip'] += 1; skip = True; break
            except (ValueError, OverflowError):
                real = 'E'
            except Exception as ex:  # noqa: BLE001
                real = 'X' + type(ex).__name__
            if m == 'D':
                dist['ood'] += 1
                if not tracked: dist['ood:after-failure'] += 1
                tracked = False; continue
            if 'admonition' in names and PX._NONASCII_CLASS.search(e):
                dist['skip:non-ascii-class'] += 1; skip = True; break
            dist[{'K': 'ok', 'E': 'err', 'F': 'oof'}[m[0]]] += 1
            if m != real:
                dis.append({'op': 'instx.run', 'input': {'history': evs, 'tab': tab, 'fmt': fmt, 'flags': fl, 'meta': on, 'step': j - 1},
                            'model': proto.dec_str(m[1:]) if m[0] == 'K' else m, 'impl': proto.dec_str(real[1:]) if real[0] == 'K' else real})
                skip = True; break
            if m[0] != 'K': tracked = False; continue
            if dirty:
                dist['conv_without_reset'] += 1
                fm = fresh_cache[key]
                try:
                    fo = fm.reset().convert(e)
                except Exception:  # noqa: BLE001
                    fo = None; fresh_cache.pop(key, None)
                if fo is not None and 'K' + proto.enc_str(fo) != real:
                    visible = True; dist['persistence_visible'] += 1
                    out = proto.dec_str(real[1:])
                    if '<abbr' in out and '<abbr' not in fo: dist['leak:abbr'] += 1
                    if out.count('<li id="fn:') > fo.count('<li id="fn:'): dist['leak:footnotes'] += 1
                    if out.count('<a href') + out.count('<img') > fo.count('<a href') + fo.count('<img'): dist['leak:refs'] += 1
                    if 'fnref2' in out and 'fnref2' not in fo or 'fnref3' in out and 'fnref3' not in fo: dist['leak:fnref'] += 1
            if e.strip(): dirty = True
        if skip: continue
        if visible: distinct += 1
        if state_f == 'X' or not tracked:
            dist['state_untracked'] += 1
            if (state_f == 'X') != (not tracked):
                dis.append({'op': 'instx.run', 'input': {'history': evs, 'tab': tab, 'fmt': fmt, 'flags': fl, 'meta': on}, 'model': 'state ' + state_f[:1], 'impl': 'tracked=%r' % tracked})
            continue
        rs = real_state(md); ms = model_state(state_f, rs)
        dist['state_compared'] += 1
        if rs['toks']: dist['toc_nonempty'] += 1
        if len(rs['html']) > 0 and any(x is None for x in evs[1:]) is False and len([x for x in evs if x]) > 1: dist['leak:stash'] += 1
        if on:
            rm = CM.enc_dict([(k, list(v)) for k, v in md.Meta.items()])
            if md.Meta: dist['meta_nonempty'] += 1
            if rm != meta_f:
                dis.append({'op': 'instx.runm', 'input': {'history': evs, 'tab': tab, 'fmt': fmt, 'flags': fl, 'meta': on}, 'model': 'Meta ' + str(meta_f), 'impl': 'Meta ' + rm})
        if rs != ms:
            dis.append({'op': 'instx.run', 'input': {'history': evs, 'tab': tab, 'fmt': fmt, 'flags': fl, 'meta': on}, 'model': 'state ' + repr(ms), 'impl': 'state ' + repr(rs)})
    for e in EXTS:
        dist['flag:' + e] = sum(1 for c in cases if c[3][EXTS.index(e)] == '1')
    return {'cases': len(cases), 'distinct': distinct, 'disagreements': dis,
            'samples': [{'history': c[0], 'tab': c[1], 'fmt': c[2], 'flags': c[3], 'meta': c[4], 'model': a[:200]} for c, a in list(zip(cases, ans))[:3]],
            'dist': dist}


if __name__ == '__main__':
    import json, random, time
    seed = int(sys.argv[1]) if len(sys.argv) > 1 else 1
    n = int(sys.argv[2]) if len(sys.argv) > 2 else 2000
    d = proto.Driver(sys.argv[3] if len(sys.argv) > 3 else None)
    t0 = time.time()
    res = run(d, random.Random(seed), n)
    d.close()
    print(json.dumps({'cases': res['cases'], 'distinct': res['distinct'], 'disagreements': len(res['disagreements']),
                      'dist': res['dist'], 'seconds': round(time.time() - t0, 1)}, ensure_ascii=False))
    for x in res['disagreements'][:10]:
        print('DISAGREE', json.dumps(x, ensure_ascii=False))
