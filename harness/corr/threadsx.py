"""Correspondence for the concrete thread theorems (`lean/MdVerif/Props/C12X.lean`): REAL threads, each owning ITS OWN
`markdown.Markdown(extensions=[…])` instance and performing ITS OWN history of `convert(src)` / `reset()`, against the
sequential outcomes of the concrete instance model (`InstanceX.outcomes` / `runS`, driver ops `instx.run`, `instx.runm`).

`C12X_outputs_eq_sequential` says: in the thread system of the model, under EVERY schedule, the outcomes of thread i and the
final state of its instance are `outcomes x_i cfg_i fresh ops_i` / `runS x_i cfg_i fresh ops_i`.  So the model side of this
comparison is the sequential run of each history (no new driver op is needed); the real side is run three ways:

  forced   N (2..4) threads; a controller hands a baton to the threads in the order of a random SCHEDULE (a random
           interleaving of the threads' operations, the `List Nat` of the theorem): thread `s[k]` performs its next operation
           while all others are blocked.  This is the step granularity of the model (assumption A2 of the file header: one
           operation = one step), with real thread identities (thread-local interpreter state is per thread).
  free     the same threads, the same histories, all released at once behind a barrier with `sys.setswitchinterval(1e-6)`:
           the interleaving is the interpreter's, at byte-code granularity (what A2 abstracts from).
  shared   ONE instance used by all threads under the forced schedule (the usage the property excludes): compared with
           the model's answer for the MERGED history (the operations in schedule order on one instance) — this is
           `ThreadsX.runShared`, the system of `C12X_shared_instance_counterexample`; counted in `dist['shared:*']`, and
           `shared:differs_from_alone` counts the cases in which some thread obtained something else than alone.

run(driver, rng, n) -> {'cases', 'distinct', 'disagreements', 'samples', 'dist'}.  A case = one system (N histories);
`distinct` = systems in which at least two threads have different extension sets and every thread converted something.
Compared per thread: EVERY output, and the state of the instance after the history (`md.references`, footnotes, abbrs,
stash, `used_refs`, `found_refs`, toc side outputs, `md.Meta`) — by the rules of `corr/instancex.py` (the model answers
`D` outside its domain and after a failed conversion until the next reset: counted, never a disagreement).
"""
from __future__ import annotations
import os, sys, threading

sys.path.insert(0, os.path.dirname(os.path.dirname(os.path.abspath(__file__))))
sys.path.insert(0, os.path.dirname(os.path.abspath(__file__)))
import proto  # noqa: E402
import markdown  # noqa: E402
import pipelinex as PX  # noqa: E402
import meta as CM  # noqa: E402
import instancex as IX  # noqa: E402

EXTS = PX.EXTS


def gen_worker(rng, supported):
    on = rng.random() < 0.25
    while True:
        evs = IX.gen_history(rng, on)
        if not any(e is not None and (not proto.lean_ok(e) or 'Σ' in e or '<' in e) for e in evs): break
    r = rng.random()
    if r < 0.25: names = set(supported)
    elif r < 0.45: names = {rng.choice(['footnotes', 'abbr', 'fenced_code', 'toc', 'attr_list'])} & set(supported)
    elif r < 0.5: names = set()
    else: names = {e for e in supported if rng.random() < 0.5}
    return {'evs': evs, 'tab': rng.choice([4, 4, 4, 2, 8]), 'fmt': rng.choice(['xhtml', 'xhtml', 'html']), 'flags': PX.flags_of(names), 'on': on}


def make_md(w):
    names = [e for e, c in zip(EXTS, w['flags']) if c == '1']
    return markdown.Markdown(tab_length=w['tab'], output_format=w['fmt'], extensions=names + (['meta'] if w['on'] else []))


def do_op(md, e):
    """one operation on the real instance -> the observation (None for reset)"""
    if e is None:
        md.reset(); return None
    try:
        return 'K' + proto.enc_str(md.convert(e))
    except RecursionError:
        return 'RECURSION'
    except (ValueError, OverflowError):
        return 'E'
    except Exception as ex:  # noqa: BLE001
        return 'X' + type(ex).__name__


def run_forced(workers, mds, sched):
    """real threads, one per worker; thread sched[k] performs its next operation at time k.  mds[i] is the instance thread i
    uses (all different: the property; all the same object: the shared mode) -> per thread the list of observations"""
    n = len(workers)
    go = [threading.Semaphore(0) for _ in range(n)]
    done = threading.Semaphore(0)
    outs = [[] for _ in range(n)]
    errs = []

    def body(i):
        try:
            for e in workers[i]['evs']:
                go[i].acquire()
                try:
                    o = do_op(mds[i], e)
                    if e is not None: outs[i].append(o)
                finally:
                    done.release()
        except BaseException as ex:  # noqa: BLE001
            errs.append((i, repr(ex))); done.release()
    ths = [threading.Thread(target=body, args=(i,), daemon=True) for i in range(n)]
    for t in ths: t.start()
    for i in sched:
        go[i].release(); done.acquire()
    for t in ths: t.join(timeout=60)
    return outs, errs


def run_free(workers, mds):
    n = len(workers)
    bar = threading.Barrier(n)
    outs = [[] for _ in range(n)]
    errs = []

    def body(i):
        try:
            bar.wait()
            for e in workers[i]['evs']:
                o = do_op(mds[i], e)
                if e is not None: outs[i].append(o)
        except BaseException as ex:  # noqa: BLE001
            errs.append((i, repr(ex)))
    old = sys.getswitchinterval()
    sys.setswitchinterval(1e-6)
    try:
        ths = [threading.Thread(target=body, args=(i,), daemon=True) for i in range(n)]
        for t in ths: t.start()
        for t in ths: t.join(timeout=120)
    finally:
        sys.setswitchinterval(old)
    return outs, errs


def req_of(w, evs=None):
    evs = w['evs'] if evs is None else evs
    return (('instx.runm', '1') if w['on'] else ('instx.run',)) + (w['flags'], str(w['tab']), w['fmt']) + tuple('R' if e is None else 'C' + proto.enc_str(e) for e in evs)


def compare(w, evs, ans, real_outs, md, dist, mode, dis, ctx):
    """the comparison rules of corr/instancex.py for one history `evs` on one instance: model answer `ans`, real outputs
    `real_outs` (one per conversion, in order), the real instance `md` afterwards.  -> True when everything was compared"""
    outs_f, state_f = ans.split('#', 1)
    meta_f = None
    if w['on'] and state_f != 'X': state_f, meta_f = state_f.rsplit('#', 1)
    outs = outs_f.split('|') if outs_f else []
    names = [e for e, c in zip(EXTS, w['flags']) if c == '1']
    j = 0; tracked = True
    for e in evs:
        if e is None:
            tracked = True; continue
        m = outs[j]; real = real_outs[j] if j < len(real_outs) else 'MISSING'; j += 1
        dist[mode + ':conversions'] += 1
        if real == 'RECURSION':
            dist[mode + ':recursion_skip'] += 1; return False
        if m == 'D':
            dist[mode + ':ood'] += 1; tracked = False; continue
        if 'admonition' in names and PX._NONASCII_CLASS.search(e):
            dist[mode + ':skip'] += 1; return False
        if m != real:
            dis.append({'op': 'threadsx.' + mode, 'input': dict(ctx, step=j - 1, history=evs),
                        'model': proto.dec_str(m[1:]) if m[0] == 'K' else m, 'impl': proto.dec_str(real[1:]) if real[0] == 'K' else real})
            return False
        dist[mode + ':outputs_equal'] += 1
        if m[0] != 'K': tracked = False
    if state_f == 'X' or not tracked:
        if (state_f == 'X') != (not tracked):
            dis.append({'op': 'threadsx.' + mode, 'input': dict(ctx, history=evs), 'model': 'state ' + state_f[:1], 'impl': 'tracked=%r' % tracked})
        return True
    rs = IX.real_state(md); ms = IX.model_state(state_f, rs)
    dist[mode + ':state_compared'] += 1
    if w['on']:
        rm = CM.enc_dict([(k, list(v)) for k, v in md.Meta.items()])
        if rm != meta_f:
            dis.append({'op': 'threadsx.' + mode, 'input': dict(ctx, history=evs), 'model': 'Meta ' + str(meta_f), 'impl': 'Meta ' + rm})
    if rs != ms:
        dis.append({'op': 'threadsx.' + mode, 'input': dict(ctx, history=evs), 'model': 'state ' + repr(ms), 'impl': 'state ' + repr(rs)})
    return True


def run(driver, rng, n, supported=None):
    supported = list(supported or PX.SUPPORTED)
    systems = []
    for _ in range(n):
        k = rng.choice([2, 2, 3, 3, 4])
        ws = [gen_worker(rng, supported) for _ in range(k)]
        sched = [i for i, w in enumerate(ws) for _ in w['evs']]
        rng.shuffle(sched)
        # the shared mode needs one configuration: that of thread 0
        systems.append((ws, sched))
    reqs = []
    for ws, sched in systems:
        for w in ws: reqs.append(req_of(w))
        pos = [0] * len(ws); merged = []
        for i in sched:
            merged.append(ws[i]['evs'][pos[i]]); pos[i] += 1
        reqs.append(req_of(ws[0], merged))
        for w in ws: reqs.append(req_of(ws[0], w['evs']))          # what each thread obtains ALONE with thread 0's configuration
    ans = driver.ask_many(reqs)
    dist = {}
    for mode in ('forced', 'free', 'shared'):
        for key in ('conversions', 'outputs_equal', 'ood', 'recursion_skip', 'skip', 'state_compared'): dist[mode + ':' + key] = 0
    dist.update({'systems': 0, 'threads': 0, 'ops': 0, 'thread_errors': 0, 'shared:differs_from_alone': 0, 'shared:systems': 0})
    dis = []
    distinct = 0
    p = 0
    for ws, sched in systems:
        k = len(ws)
        a_seq = ans[p:p + k]; a_merged = ans[p + k]; a_alone0 = ans[p + k + 1:p + 2 * k + 1]; p += 2 * k + 1
        dist['systems'] += 1; dist['threads'] += k; dist['ops'] += len(sched)
        ctx = {'flags': [w['flags'] for w in ws], 'meta': [w['on'] for w in ws], 'schedule': sched, 'histories': [w['evs'] for w in ws]}
        if len({w['flags'] for w in ws}) > 1 and all(any(e is not None for e in w['evs']) for w in ws): distinct += 1
        # forced
        mds = [make_md(w) for w in ws]
        outs, errs = run_forced(ws, mds, sched)
        dist['thread_errors'] += len(errs)
        for i, w in enumerate(ws):
            compare(w, w['evs'], a_seq[i], outs[i], mds[i], dist, 'forced', dis, dict(ctx, thread=i))
        # free
        mds = [make_md(w) for w in ws]
        outs, errs = run_free(ws, mds)
        dist['thread_errors'] += len(errs)
        for i, w in enumerate(ws):
            compare(w, w['evs'], a_seq[i], outs[i], mds[i], dist, 'free', dis, dict(ctx, thread=i))
        # shared: one instance (configuration of thread 0), the merged history
        w0 = ws[0]
        md = make_md(w0)
        outs, errs = run_forced(ws, [md] * k, sched)
        dist['thread_errors'] += len(errs)
        dist['shared:systems'] += 1
        pos = [0] * k; merged = []; merged_outs = []
        for i in sched:
            e = ws[i]['evs'][pos[i]]; merged.append(e)
            if e is not None:
                c = sum(1 for x in ws[i]['evs'][:pos[i]] if x is not None)
                merged_outs.append(outs[i][c] if c < len(outs[i]) else 'MISSING')
            pos[i] += 1
        compare(w0, merged, a_merged, merged_outs, md, dist, 'shared', dis, dict(ctx, thread='shared'))
        # does some thread see the others?  (model: its outcomes inside the merged history vs alone)
        m_merged = a_merged.split('#', 1)[0]; m_merged = m_merged.split('|') if m_merged else []
        per = [[] for _ in range(k)]; pos = [0] * k; j = 0
        for i in sched:
            e = ws[i]['evs'][pos[i]]; pos[i] += 1
            if e is not None:
                per[i].append(m_merged[j]); j += 1
        alone = [(a.split('#', 1)[0].split('|') if a.split('#', 1)[0] else []) for a in a_alone0]
        if any(per[i] != alone[i] for i in range(k)): dist['shared:differs_from_alone'] += 1
    return {'cases': len(systems), 'distinct': distinct, 'disagreements': dis,
            'samples': [{'flags': [w['flags'] for w in ws], 'schedule': sched, 'histories': [w['evs'] for w in ws]} for ws, sched in systems[:2]],
            'dist': dist}


if __name__ == '__main__':
    import json, random, time
    seed = int(sys.argv[1]) if len(sys.argv) > 1 else 1
    n = int(sys.argv[2]) if len(sys.argv) > 2 else 500
    d = proto.Driver(sys.argv[3] if len(sys.argv) > 3 else None)
    t0 = time.time()
    res = run(d, random.Random(seed), n)
    d.close()
    print(json.dumps({'cases': res['cases'], 'distinct': res['distinct'], 'disagreements': len(res['disagreements']),
                      'dist': res['dist'], 'seconds': round(time.time() - t0, 1)}, ensure_ascii=False))
    for x in res['disagreements'][:10]:
        print('DISAGREE', json.dumps(x, ensure_ascii=False))
