"""Pre-proof tests for `Props/C16RenderG.lean`: for each statement, random instances of its domain; the expected
output (the right-hand side of the theorem, computed here in Python) is compared with the implementation
(`markdown.markdown`) and with the model (`convertx` op of the driver).

usage: VERIF_REPO=… python c16g.py [n] [seed]
"""
from __future__ import annotations
import os, random, sys

sys.path.insert(0, os.path.dirname(os.path.dirname(os.path.abspath(__file__))))
sys.path.insert(0, os.path.dirname(os.path.abspath(__file__)))
import proto  # noqa: E402
import markdown  # noqa: E402
from pipelinex import EXTS, flags_of  # noqa: E402

ALNUM = 'abcdefghijklmnopqrstuvwxyzABCDEFGHIJKLMNOPQRSTUVWXYZ0123456789'


def word(rng, lo=1, hi=6):
    return ''.join(rng.choice(ALNUM) for _ in range(rng.randint(lo, hi)))


def plain(rng, maxw=4):
    return ' '.join(word(rng) for _ in range(rng.randint(1, maxw)))


def tail(rng):
    """text after a reference: empty, or plain text optionally preceded by one space"""
    r = rng.random()
    if r < 0.25: return ''
    if r < 0.7: return ' ' + plain(rng, 3)
    return plain(rng, 3)


def hr(fmt): return '<hr />' if fmt == 'xhtml' else '<hr>'


def sup(refid, id, num):
    return '<sup id="%s"><a class="footnote-ref" href="#fn:%s">%d</a></sup>' % (refid, id, num)


def back(href, num):
    return ('<a class="footnote-backref" href="#%s" title="Jump back to footnote %d in the text">&#8617;</a>' % (href, num))


def li(id, note, backs):
    return '<li id="fn:%s">\n<p>%s&#160;%s</p>\n</li>\n' % (id, note, ''.join(backs))


def fndiv(fmt, lis):
    return '<div class="footnote">\n%s\n<ol>\n%s</ol>\n</div>' % (hr(fmt), ''.join(lis))


# ---- statements: (name, extension names, generator -> (src, expected(fmt)))
def fn_mid(rng):
    t, id, u, note = plain(rng), word(rng, 1, 4), tail(rng), plain(rng)
    src = '%s[^%s]%s\n\n[^%s]: %s' % (t, id, u, id, note)
    return src, lambda fmt: '<p>%s%s%s</p>\n' % (t, sup('fnref:' + id, id, 1), u) + fndiv(fmt, [li(id, note, [back('fnref:' + id, 1)])])


def fn_twice(rng):
    t, id, u, v, note = plain(rng), word(rng, 1, 4), tail(rng), tail(rng), plain(rng)
    src = '%s[^%s]%s[^%s]%s\n\n[^%s]: %s' % (t, id, u, id, v, id, note)
    return src, lambda fmt: ('<p>%s%s%s%s%s</p>\n' % (t, sup('fnref:' + id, id, 1), u, sup('fnref2:' + id, id, 1), v) +
                             fndiv(fmt, [li(id, note, [back('fnref:' + id, 1), back('fnref2:' + id, 1)])]))


def fn_two(rng):
    t, a, u, v, na, nb = plain(rng), word(rng, 1, 4), tail(rng), tail(rng), plain(rng), plain(rng)
    b = word(rng, 1, 4)
    while b == a: b = word(rng, 1, 4)
    swap = rng.random() < 0.5
    d1, d2 = ((b, nb), (a, na)) if swap else ((a, na), (b, nb))
    num = {d1[0]: 1, d2[0]: 2}
    src = '%s[^%s]%s[^%s]%s\n\n[^%s]: %s\n\n[^%s]: %s' % (t, a, u, b, v, d1[0], d1[1], d2[0], d2[1])
    return src, lambda fmt: ('<p>%s%s%s%s%s</p>\n' % (t, sup('fnref:' + a, a, num[a]), u, sup('fnref:' + b, b, num[b]), v) +
                             fndiv(fmt, [li(d1[0], d1[1], [back('fnref:' + d1[0], 1)]), li(d2[0], d2[1], [back('fnref:' + d2[0], 2)])]))


def fn_general(rng):
    """`C16_footnotes_anywhere`: any number of references (to defined labels, repeated or not) in one paragraph line, any
    number of definitions (distinct labels; some possibly never referenced)"""
    m = rng.randint(1, 4)
    ids = []
    while len(ids) < m:
        w = word(rng, 1, 3)
        if w not in ids: ids.append(w)
    defs = [(i, plain(rng, 3)) for i in ids]
    t = plain(rng, 3)
    segs = [(rng.choice(ids), tail(rng)) for _ in range(rng.randint(0, 6))]
    src = t + ''.join('[^%s]%s' % s for s in segs) + ''.join('\n\n[^%s]: %s' % d for d in defs)

    def exp(fmt):
        hist = {}
        refs = ''
        for (i, u) in segs:
            k = hist.get(i, 0); hist[i] = k + 1
            refs += sup(('fnref:' if k == 0 else 'fnref%d:' % (k + 1)) + i, i, ids.index(i) + 1) + u
        lis = []
        for n, (i, note) in enumerate(defs, start=1):
            c = hist.get(i, 0)
            hrefs = ['fnref:' + i] + ['fnref%d:%s' % (j, i) for j in range(2, c + 1)]
            lis.append(li(i, note, [back(h, n) for h in hrefs]))
        return '<p>%s%s</p>\n' % (t, refs) + fndiv(fmt, lis)
    return src, exp


LOWER = 'abcdefghijklmnopqrstuvwxyz0123456789'


def lword(rng): return ''.join(rng.choice(LOWER) for _ in range(rng.randint(1, 6)))


def para(rng): return [plain(rng, 3) for _ in range(rng.randint(1, 3))]


def adm_paras(rng, tab=None):
    """`C16_admonition_paragraphs`: an admonition whose body has several paragraphs (separated by empty lines, each line
    indented by tab_length), followed by any number of ordinary paragraphs"""
    kl = ' '.join(lword(rng) for _ in range(rng.randint(1, 2)))
    r = rng.random()
    if r < 0.4: title, ttl = ' "%s"' % (T := plain(rng, 3)), T
    elif r < 0.7: title, ttl = '', kl.split(' ')[0].capitalize()
    else: title, ttl = ' ""', None
    bodies = [para(rng) for _ in range(rng.randint(1, 3))]
    after = [para(rng) for _ in range(rng.randint(0, 2))]

    def src(tab):
        ind = ' ' * tab
        blocks = ['!!! ' + kl + title + '\n' + '\n'.join(ind + l for l in bodies[0])]
        blocks += ['\n'.join(ind + l for l in b) for b in bodies[1:]]
        blocks += ['\n'.join(q) for q in after]
        return '\n\n'.join(blocks)

    def exp(fmt):
        out = '<div class="admonition %s">\n' % kl
        if ttl is not None: out += '<p class="admonition-title">%s</p>\n' % ttl
        out += ''.join('<p>%s</p>\n' % '\n'.join(b) for b in bodies) + '</div>'
        out += ''.join('\n<p>%s</p>' % '\n'.join(q) for q in after)
        return out
    return src, exp


def adm_between(rng):
    """`C16_admonition_between_paragraphs`: ordinary paragraphs, then the admonition of `adm_paras` (several body
    paragraphs), then ordinary paragraphs"""
    src0, exp0 = adm_paras(rng)
    before = [para(rng) for _ in range(rng.randint(0, 3))]

    def src(tab): return '\n\n'.join(['\n'.join(q) for q in before] + [src0(tab)])

    def exp(fmt): return ''.join('<p>%s</p>\n' % '\n'.join(q) for q in before) + exp0(fmt)
    return src, exp


def def_groups(rng):
    """`C16_deflist_groups`: any number of term/definition groups separated by empty lines; in each group term lines,
    then one-line definitions `:   d`; the last definition of a group may be continued by indented paragraphs"""
    groups = []
    for _ in range(rng.randint(1, 3)):
        terms = [plain(rng, 3) for _ in range(rng.randint(1, 2))]
        defs = [plain(rng, 3) for _ in range(rng.randint(1, 3))]
        conts = [para(rng) for _ in range(rng.choice([0, 0, 1, 2]))]
        groups.append((terms, defs, conts))

    def src(tab):
        blocks = []
        for terms, defs, conts in groups:
            blocks.append('\n'.join(terms + [':   ' + d for d in defs]))
            blocks += ['\n'.join(' ' * tab + l for l in c) for c in conts]
        return '\n\n'.join(blocks)

    def exp(fmt):
        out = '<dl>\n'
        for terms, defs, conts in groups:
            out += ''.join('<dt>%s</dt>\n' % t for t in terms)
            out += ''.join('<dd>%s</dd>\n' % d for d in defs[:-1])
            if conts:
                out += '<dd>\n<p>%s</p>\n' % defs[-1] + ''.join('<p>%s</p>\n' % '\n'.join(c) for c in conts) + '</dd>\n'
            else:
                out += '<dd>%s</dd>\n' % defs[-1]
        return out + '</dl>'
    return src, exp


def def_then_paras(rng):
    """`C16_deflist_then_paragraphs`: the groups of `def_groups`, followed by any number of ordinary paragraphs"""
    src0, exp0 = def_groups(rng)
    after = [para(rng) for _ in range(rng.randint(0, 3))]

    def src(tab): return '\n\n'.join([src0(tab)] + ['\n'.join(q) for q in after])

    def exp(fmt): return exp0(fmt) + ''.join('\n<p>%s</p>' % '\n'.join(q) for q in after)
    return src, exp


def def_in_quote(rng):
    """`C16_deflist_in_blockquote`: a definition list (term lines, one-line definitions) inside a block quote"""
    terms = [plain(rng, 3) for _ in range(rng.randint(1, 3))]
    defs = [plain(rng, 3) for _ in range(rng.randint(1, 3))]
    src = '\n'.join('> ' + l for l in terms + [':   ' + d for d in defs])
    out = ('<blockquote>\n<dl>\n' + ''.join('<dt>%s</dt>\n' % t for t in terms) +
           ''.join('<dd>%s</dd>\n' % d for d in defs) + '</dl>\n</blockquote>')
    return src, lambda fmt: out


def adm_in_quote(rng):
    """`C16_admonition_in_blockquote`: an admonition (any title form, one body paragraph of several lines) inside a
    block quote"""
    kl = ' '.join(lword(rng) for _ in range(rng.randint(1, 2)))
    r = rng.random()
    if r < 0.4: title, ttl = ' "%s"' % (T := plain(rng, 3)), T
    elif r < 0.7: title, ttl = '', kl.split(' ')[0].capitalize()
    else: title, ttl = ' ""', None
    body = para(rng)

    def src(tab):
        return '\n'.join('> ' + l for l in ['!!! ' + kl + title] + [' ' * tab + l for l in body])

    def exp(fmt):
        out = '<blockquote>\n<div class="admonition %s">\n' % kl
        if ttl is not None: out += '<p class="admonition-title">%s</p>\n' % ttl
        return out + '<p>%s</p>\n</div>\n</blockquote>' % '\n'.join(body)
    return src, exp


def adm_head(rng):
    kl = ' '.join(lword(rng) for _ in range(rng.randint(1, 2)))
    r = rng.random()
    if r < 0.4: title, ttl = ' "%s"' % (T := plain(rng, 3)), T
    elif r < 0.7: title, ttl = '', kl.split(' ')[0].capitalize()
    else: title, ttl = ' ""', None
    return kl, title, ttl


def adm_nested(rng):
    """`C16_admonition_nested`: an admonition whose body is a paragraph followed by a nested admonition (indented one
    level more)"""
    k1, t1, s1 = adm_head(rng); k2, t2, s2 = adm_head(rng)
    b1, b2 = para(rng), para(rng)

    def src(tab):
        i1, i2 = ' ' * tab, ' ' * (2 * tab)
        return ('!!! ' + k1 + t1 + '\n' + '\n'.join(i1 + l for l in b1) + '\n\n' +
                i1 + '!!! ' + k2 + t2 + '\n' + '\n'.join(i2 + l for l in b2))

    def exp(fmt):
        out = '<div class="admonition %s">\n' % k1
        if s1 is not None: out += '<p class="admonition-title">%s</p>\n' % s1
        out += '<p>%s</p>\n<div class="admonition %s">\n' % ('\n'.join(b1), k2)
        if s2 is not None: out += '<p class="admonition-title">%s</p>\n' % s2
        return out + '<p>%s</p>\n</div>\n</div>' % '\n'.join(b2)
    return src, exp


def fn_paras(rng, middle=False):
    """`C16_footnotes_paragraphs`: any number of one-line paragraphs, each with any number of references (to defined
    labels, repeated or not, also across paragraphs), then the definitions; with middle=True
    (`C16_footnotes_definitions_anywhere`) the definitions come after the first k >= 1 paragraphs, the other
    paragraphs follow them"""
    m = rng.randint(1, 4)
    ids = []
    while len(ids) < m:
        w = word(rng, 1, 3)
        if w not in ids: ids.append(w)
    defs = [(i, plain(rng, 3)) for i in ids]
    paras = [(plain(rng, 3), [(rng.choice(ids), tail(rng)) for _ in range(rng.randint(0, 4))]) for _ in range(rng.randint(1, 4))]
    k = (0 if middle == 'first' else rng.randint(1, len(paras))) if middle else len(paras)
    plines = [t + ''.join('[^%s]%s' % s for s in segs) for t, segs in paras]
    src = '\n\n'.join(plines[:k] + ['[^%s]: %s' % d for d in defs] + plines[k:])

    def exp(fmt):
        hist = {}
        out = ''
        for t, segs in paras:
            refs = ''
            for (i, u) in segs:
                k = hist.get(i, 0); hist[i] = k + 1
                refs += sup(('fnref:' if k == 0 else 'fnref%d:' % (k + 1)) + i, i, ids.index(i) + 1) + u
            out += '<p>%s%s</p>\n' % (t, refs)
        lis = []
        for n, (i, note) in enumerate(defs, start=1):
            c = hist.get(i, 0)
            hrefs = ['fnref:' + i] + ['fnref%d:%s' % (j, i) for j in range(2, c + 1)]
            lis.append(li(i, note, [back(h, n) for h in hrefs]))
        return out + fndiv(fmt, lis)
    return src, exp


def fn_middle(rng): return fn_paras(rng, middle=True)


def fn_first(rng): return fn_paras(rng, middle='first')


STATEMENTS = [
    ('fn_first', ['footnotes'], fn_first),
    ('fn_first_composes', ['footnotes', 'wikilinks', 'nl2br', 'admonition', 'def_list', 'abbr', 'sane_lists'], fn_first),
    ('fn_middle', ['footnotes'], fn_middle),
    ('fn_middle_composes', ['footnotes', 'wikilinks', 'nl2br', 'admonition', 'def_list', 'abbr', 'sane_lists'], fn_middle),
    ('adm_nested', ['admonition'], adm_nested),
    ('adm_nested_composes', ['admonition', 'def_list', 'footnotes', 'abbr', 'sane_lists', 'wikilinks'], adm_nested),
    ('adm_in_quote', ['admonition'], adm_in_quote),
    ('adm_in_quote_composes', ['admonition', 'def_list', 'footnotes', 'abbr', 'sane_lists', 'wikilinks'], adm_in_quote),
    ('def_in_quote', ['def_list'], def_in_quote),
    ('def_in_quote_composes', ['def_list', 'admonition', 'footnotes', 'abbr', 'sane_lists', 'wikilinks'], def_in_quote),
    ('def_then_paras', ['def_list'], def_then_paras),
    ('def_then_paras_composes', ['def_list', 'admonition', 'footnotes', 'abbr', 'sane_lists', 'wikilinks'], def_then_paras),
    ('def_groups', ['def_list'], def_groups),
    ('def_groups_composes', ['def_list', 'admonition', 'footnotes', 'abbr', 'sane_lists', 'wikilinks'], def_groups),
    ('adm_between', ['admonition'], adm_between),
    ('adm_between_composes', ['admonition', 'footnotes', 'def_list', 'abbr', 'sane_lists', 'wikilinks'], adm_between),
    ('adm_paras', ['admonition'], adm_paras),
    ('adm_paras_composes', ['admonition', 'footnotes', 'def_list', 'abbr', 'sane_lists', 'wikilinks'], adm_paras),
    ('fn_paras', ['footnotes'], fn_paras),
    ('fn_paras_composes', ['footnotes', 'admonition', 'def_list', 'abbr', 'sane_lists'], fn_paras),
    ('fn_paras_wl_nl', ['footnotes', 'wikilinks', 'nl2br', 'admonition', 'def_list', 'abbr', 'sane_lists'], fn_paras),
    ('fn_general_wl_nl', ['footnotes', 'wikilinks', 'nl2br', 'admonition', 'def_list', 'abbr', 'sane_lists'], fn_general),
    ('fn_general_nl', ['footnotes', 'nl2br'], fn_general),
    ('fn_general', ['footnotes'], fn_general),
    ('fn_general_composes', ['footnotes', 'admonition', 'def_list', 'abbr', 'sane_lists'], fn_general),
    ('fn_mid', ['footnotes'], fn_mid),
    ('fn_twice', ['footnotes'], fn_twice),
    ('fn_two', ['footnotes'], fn_two),
]


def run(driver, rng, n, only=None):
    res = {}
    for name, exts, gen in STATEMENTS:
        if only and name not in only: continue
        cases = []
        for _ in range(n):
            src, exp = gen(rng)
            fmt = rng.choice(['xhtml', 'html'])
            tab = rng.choice([4, 4, 2, 8])
            if callable(src): src = src(tab)                      # the source depends on tab_length
            cases.append((src, exp(fmt), fmt, tab))
        ans = driver.ask_many([('convertx', flags_of(set(exts)), str(tab), fmt, proto.enc_str(s)) for s, _, fmt, tab in cases])
        bad = []
        for (src, exp, fmt, tab), a in zip(cases, ans):
            real = markdown.markdown(src, extensions=exts, output_format=fmt, tab_length=tab)
            model = proto.dec_str(a[3:]) if a.startswith('ok ') else a
            if not (real == exp == model):
                bad.append({'src': src, 'fmt': fmt, 'tab': tab, 'expected': exp, 'real': real, 'model': model})
        res[name] = {'cases': len(cases), 'distinct': len(set(c[0] for c in cases)), 'bad': len(bad), 'samples': bad[:3]}
    return res


if __name__ == '__main__':
    n = int(sys.argv[1]) if len(sys.argv) > 1 else 600
    seed = int(sys.argv[2]) if len(sys.argv) > 2 else 1
    only = sys.argv[3].split(',') if len(sys.argv) > 3 else None
    d = proto.Driver()
    import json
    print(json.dumps(run(d, random.Random(seed), n, only), indent=1))
    d.close()
