"""Tests of the C05X statements before proving (and as a regression check afterwards).

T1  tree level, model (driver op `convertx.tree`) AND implementation (serializer hook): the tree handed to the serializer
    is `WFTree` (names, distinct attribute names, void elements empty) and its root is the attribute-less `div`.
T2  output level, implementation and model: the output for a `<`-free source is read by the strict reader
    (harness/htmlread.py) and every element / attribute name is in the vocabulary of the enabled extensions.

`run(driver, rng, n)` is the entry point of the correspondence framework (attr_list drawn from `rng` per document).

usage: c05x.py [seed] [n] [attr_list: 0|1|mix]
"""
from __future__ import annotations
import os, re, sys, json, random, time

sys.path.insert(0, os.path.dirname(os.path.dirname(os.path.abspath(__file__))))
sys.path.insert(0, os.path.dirname(os.path.abspath(__file__)))
import proto  # noqa: E402
import markdown  # noqa: E402
import htmlread  # noqa: E402
import pipelinex as PX  # noqa: E402

EXTS = PX.EXTS
VOID = ('br', 'hr', 'img')
NAME = re.compile(r'[A-Za-z0-9:_.-]+\Z')
CORE_TAGS = set('p h1 h2 h3 h4 h5 h6 ul ol li blockquote pre code hr br em strong a img div'.split())
CORE_KEYS = set('href title src alt'.split())


def vocab(fl):
    on = {e for e, c in zip(EXTS, fl) if c == '1'}
    tags = set(CORE_TAGS); keys = set(CORE_KEYS)
    if 'tables' in on: tags |= set('table thead tbody tr th td'.split()); keys.add('style')
    if 'def_list' in on: tags |= {'dl', 'dt', 'dd'}
    if 'abbr' in on: tags.add('abbr')
    if 'footnotes' in on: tags.add('sup'); keys |= {'class', 'id'}
    if on & {'admonition', 'wikilinks', 'toc'}: keys.add('class')
    if 'toc' in on: keys.add('id')
    if 'sane_lists' in on: keys.add('start')
    if 'fenced_code' in on: keys |= {'class', 'id'}       # only on the stashed pre/code (output level)
    return tags, keys


def wf_tree(t, fl, path='', root=True, attr_list=False):
    """list of violations"""
    bad = []
    tags, keys = vocab(fl)
    if t.kind != 'n': bad.append((path, 'kind', t.kind)); return bad
    if not NAME.match(t.tag): bad.append((path, 'tagname', t.tag))
    if t.tag not in tags: bad.append((path, 'tag', t.tag))
    ks = [k for k, _ in t.attrs]
    if len(set(ks)) != len(ks): bad.append((path, 'dupattr', ks))
    for k in ks:
        if not NAME.match(k): bad.append((path, 'attrname', k))
        if not attr_list and k not in keys: bad.append((path, 'key', k))
    if t.tag in VOID and (t.text or t.children): bad.append((path, 'void', t.tag))
    if root and (t.tag != 'div' or t.attrs): bad.append((path, 'root', t.tag, t.attrs))
    for i, c in enumerate(t.children):
        bad += wf_tree(c, fl, path + '/%d:%s' % (i, c.tag), False, attr_list)
    return bad


def forest_vocab(forest, fl, attr_list=False, top=True):
    tags, keys = vocab(fl)
    bad = []
    for n in forest:
        if isinstance(n, str): continue
        tag, attrs, kids = n
        if tag not in tags: bad.append(('tag', tag))
        if tag == 'div' and top and False: pass
        for k, _ in attrs:
            if not attr_list and k not in keys: bad.append(('key', k))
        if tag in VOID and kids: bad.append(('void', tag))
        bad += forest_vocab(kids, fl, attr_list, False)
    return bad


# `AttrList.nameRanges` (Model/Ext/AttrList.lean): the characters `sanitize_name` keeps = the key grammar of attr_list
NAME_RANGES = [(0x41, 0x5a), (0x5f, 0x5f), (0x61, 0x7a), (0xc0, 0xd6), (0xd8, 0xf6), (0xf8, 0x2ff), (0x370, 0x37d),
               (0x37f, 0x1fff), (0x200c, 0x200d), (0x2070, 0x218f), (0x2c00, 0x2fef), (0x3001, 0xd7ff), (0xf900, 0xfdcf),
               (0xfdf0, 0xfffd), (0x3a, 0x3a), (0x2d, 0x2d), (0x2e, 0x2e), (0x30, 0x39), (0xb7, 0xb7), (0x300, 0x36f),
               (0x203f, 0x2040)]
ATTR_NAME_WHY = re.compile(r'malformed attribute name in <|attribute .* without quoted value in <', re.S)
MAX_DIS = 50


def al_key(k):
    """`k.all AttrList.nameChar` (`C05X_attr_list_keys`)"""
    return all(any(lo <= ord(c) <= hi for lo, hi in NAME_RANGES) for c in k)


def split_documented(bad, attr_list):
    """With attr_list enabled an attribute name is any word of its key grammar (`C05X_attr_list_keys`), which need not
    be a name of the strict reader (`C05X_attr_list_not_names`: documented behaviour).  Returns (violations, documented):
    an `attrname` entry whose key is in the key grammar is documented when attr_list is on, everything else a violation."""
    if not attr_list: return bad, []
    doc = [x for x in bad if x[1] == 'attrname' and al_key(x[2])]
    return [x for x in bad if not (x[1] == 'attrname' and al_key(x[2]))], doc


def tags_of(t, out):
    out.add(t.tag)
    for c in t.children: tags_of(c, out)
    return out


def clip(x, k=600):
    x = x if isinstance(x, str) else json.dumps(x, ensure_ascii=False, default=repr)
    return x if len(x) <= k else x[:k] + '…(%d chars)' % len(x)


def run(driver, rng, n, attr_list=None, full=False):
    """correspondence entry point (`framework.pmap('corr.c05x', 'run', seed, n, shards)`): `n` sources without `<`
    (the families of corr/pipelinex.py first, then its generator), flag sets / tab_length / output format drawn from `rng`;
    `attr_list` None: drawn from `rng` per document (True / False: every document with / without it, as the script did).
    Checked per document: T1 on the model tree and on the implementation tree, T2 on the implementation output, and
    that STX amp ETX never reaches AndSubstitutePostprocessor.  With attr_list on, the two documented consequences of
    its key grammar (`split_documented`; the strict reader refusing the output for an ATTRIBUTE NAME) are counted in
    dist['attr_list:…'] and are no disagreements; everything else the script reported is one.
    `distinct` = distinct (source, tab, format, flags) whose implementation tree has an element other than div / p."""
    supported = [e for e in PX.SUPPORTED if e != 'attr_list']
    docs = []
    fam = [(f, set(supported)) for f in PX.FAMILIES]
    attempts = 0
    while len(docs) < n and attempts < 3 * n + 200:
        attempts += 1
        if fam: s, names = fam.pop()
        else:
            s = PX.gen(rng)
            r = rng.random()
            if r < 0.3: names = set(supported)
            elif r < 0.5: names = {rng.choice(supported)}
            else: names = {e for e in supported if rng.random() < 0.5}
        al = (rng.random() < 0.5) if attr_list is None else bool(attr_list)
        if al: names = names | {'attr_list'}
        if not proto.lean_ok(s) or 'Σ' in s or '<' in s: continue
        tab = rng.choice([4, 4, 4, 4, 2, 8]); fmt = rng.choice(['xhtml', 'xhtml', 'html'])
        docs.append((s, tab, fmt, PX.flags_of(names), al))
    trees = driver.ask_many([('convertx.tree', fl, str(t), proto.enc_str(s)) for s, t, f, fl, _ in docs]) if docs else []
    outs = driver.ask_many([('convertx', fl, str(t), f, proto.enc_str(s)) for s, t, f, fl, _ in docs]) if docs else []
    dist = {}
    fails = []
    seen = set()

    def cnt(k, by=1): dist[k] = dist.get(k, 0) + by
    mds = {}
    for (s, tab, fmt, fl, al), ta, oa in zip(docs, trees, outs):
        inp = {'src': s, 'tab': tab, 'fmt': fmt, 'flags': fl, 'attr_list': al}
        cnt('attr_list:on' if al else 'attr_list:off')
        # --- model tree
        if ta.startswith('ok '):
            tr = proto.dec_tree(ta[3:].split('|')[0])
            bad, documented = split_documented(wf_tree(tr, fl, attr_list=al), al)
            cnt('model-tree-ok' if not bad else 'model-tree-BAD')
            if documented: cnt('attr_list:model-tree-key-not-a-name')
            if bad: fails.append(('model-tree', inp, 'WFTree, vocabulary, attribute-less root div', bad[:3]))
        else: cnt('model-tree-' + ta.split(' ')[0])
        # --- implementation tree and output
        key = (tab, fmt, fl)
        md = mds.get(key)
        if md is None:
            md = mds[key] = markdown.Markdown(tab_length=tab, output_format=fmt, extensions=[e for e, c in zip(EXTS, fl) if c == '1'])
            orig = md.serializer
            cap = md._cap = []
            md.serializer = (lambda o, c: (lambda el: (c.append(proto.from_etree(el)), o(el))[1]))(orig, cap)
            amp = md.postprocessors['amp_substitute']
            md._amp = []
            amp.run = (lambda o, c: (lambda text: (c.append('\x02amp\x03' in text), o(text))[1]))(amp.run, md._amp)
        md._cap.clear(); md._amp.clear()
        try:
            real = md.reset().convert(s)
        except Exception as e:
            cnt('impl-exc-' + type(e).__name__); mds.pop(key, None); continue
        cnt('impl-hamp-ok' if not any(md._amp) else 'impl-hamp-VIOLATED')
        if any(md._amp): fails.append(('impl-hamp', inp, 'no STX amp ETX in the text given to AndSubstitutePostprocessor', 'STX amp ETX reaches AndSubstitutePostprocessor'))
        if md._cap:
            bad, documented = split_documented(wf_tree(md._cap[-1], fl, attr_list=al), al)
            cnt('impl-tree-ok' if not bad else 'impl-tree-BAD')
            if documented: cnt('attr_list:impl-tree-key-not-a-name')
            if bad: fails.append(('impl-tree', inp, 'WFTree, vocabulary, attribute-less root div', bad[:3]))
            if tags_of(md._cap[-1], set()) - {'div', 'p'}: seen.add((s, tab, fmt, fl))
        # --- output level
        try:
            forest = htmlread.forest(real, fmt)
            bad = forest_vocab(forest, fl, al)
            cnt('impl-out-ok' if not bad else 'impl-out-VOCAB')
            if bad: fails.append(('impl-out-vocab', inp, 'every element / attribute name of the output in the vocabulary', bad[:3], real))
        except htmlread.NotWellFormed as e:
            if al and ATTR_NAME_WHY.match(e.why):
                cnt('attr_list:impl-out-not-read(attribute name)')
            else:
                cnt('impl-out-NOTWF'); fails.append(('impl-out-notwf', inp, 'the strict reader reads the output', str(e), real))
        if oa.startswith('ok '):
            mo = proto.dec_str(oa[3:])
            cnt('model=impl' if mo == real else 'model!=impl')
        else: cnt('model-out-' + oa.split(' ')[0])
    cnt('disagreements_total', len(fails))
    fails.sort(key=lambda f: (len(f[1]['src']), f[1]['src'], f[0]))
    res = {'cases': len(docs), 'distinct': len(seen),
           'disagreements': [{'op': f[0], 'input': dict(f[1], src=clip(f[1]['src'], 1500)), 'expected': f[2], 'got': clip(f[3], 400),
                              **({'output': clip(f[4], 400)} if len(f) > 4 else {})} for f in fails[:MAX_DIS]],
           'samples': [{'src': clip(d[0], 300), 'tab': d[1], 'fmt': d[2], 'flags': d[3], 'model-tree': t[:120]}
                       for d, t in list(zip(docs, trees))[len(PX.FAMILIES):len(PX.FAMILIES) + 3]],
           'dist': dict(sorted(dist.items()))}
    if full: res['fails'] = fails
    return res


if __name__ == '__main__':
    seed = int(sys.argv[1]) if len(sys.argv) > 1 else 1
    n = int(sys.argv[2]) if len(sys.argv) > 2 else 2000
    al = (None if sys.argv[3] == 'mix' else sys.argv[3] == '1') if len(sys.argv) > 3 else False
    d = proto.Driver(None)
    t0 = time.time()
    res = run(d, random.Random(seed), n, al, full=True)
    dist, fails = res['dist'], [(f[0], f[1]['src'], f[1]['flags']) + tuple(f[3:]) for f in res['fails']]
    d.close()
    print(json.dumps({'dist': dist, 'seconds': round(time.time() - t0, 1)}, ensure_ascii=False))
    seen = set()
    for f in fails:
        k = (f[0], str(f[3])[:60])
        if k in seen: continue
        seen.add(k)
        print('FAIL', json.dumps(f, ensure_ascii=False)[:700])
        if len(seen) > 40: break
