"""Tests of the C05X statements before proving (and as a regression check afterwards).

T1  tree level, model (driver op `convertx.tree`) AND implementation (serializer hook): the tree handed to the serializer
    is `WFTree` (names, distinct attribute names, void elements empty) and its root is the attribute-less `div`.
T2  output level, implementation and model: the output for a `<`-free source is read by the strict reader
    (harness/htmlread.py) and every element / attribute name is in the vocabulary of the enabled extensions.

usage: c05x.py [seed] [n] [attr_list: 0|1]
"""
from __future__ import annotations
import os, re, sys, json, random, time

sys.path.insert(0, os.path.dirname(os.path.dirname(os.path.abspath(__file__))))
sys.path.insert(0, os.path.dirname(os.path.abspath(__file__)))
import proto  # noqa: E402
import markdown  # noqa: E402
import htmlread  # noqa: E402
import pipelinex as PX  # noqa: E402

EXTS = PX.EXTS
VOID = ('br', 'hr', 'img')
NAME = re.compile(r'[A-Za-z0-9:_.-]+\Z')
CORE_TAGS = set('p h1 h2 h3 h4 h5 h6 ul ol li blockquote pre code hr br em strong a img div'.split())
CORE_KEYS = set('href title src alt'.split())


def vocab(fl):
    on = {e for e, c in zip(EXTS, fl) if c == '1'}
    tags = set(CORE_TAGS); keys = set(CORE_KEYS)
    if 'tables' in on: tags |= set('table thead tbody tr th td'.split()); keys.add('style')
    if 'def_list' in on: tags |= {'dl', 'dt', 'dd'}
    if 'abbr' in on: tags.add('abbr')
    if 'footnotes' in on: tags.add('sup'); keys |= {'class', 'id'}
    if on & {'admonition', 'wikilinks', 'toc'}: keys.add('class')
    if 'toc' in on: keys.add('id')
    if 'sane_lists' in on: keys.add('start')
    if 'fenced_code' in on: keys |= {'class', 'id'}       # only on the stashed pre/code (output level)
    return tags, keys


def wf_tree(t, fl, path='', root=True, attr_list=False):
    """list of violations"""
    bad = []
    tags, keys = vocab(fl)
    if t.kind != 'n': bad.append((path, 'kind', t.kind)); return bad
    if not NAME.match(t.tag): bad.append((path, 'tagname', t.tag))
    if t.tag not in tags: bad.append((path, 'tag', t.tag))
    ks = [k for k, _ in t.attrs]
    if len(set(ks)) != len(ks): bad.append((path, 'dupattr', ks))
    for k in ks:
        if not NAME.match(k): bad.append((path, 'attrname', k))
        if not attr_list and k not in keys: bad.append((path, 'key', k))
    if t.tag in VOID and (t.text or t.children): bad.append((path, 'void', t.tag))
    if root and (t.tag != 'div' or t.attrs): bad.append((path, 'root', t.tag, t.attrs))
    for i, c in enumerate(t.children):
        bad += wf_tree(c, fl, path + '/%d:%s' % (i, c.tag), False, attr_list)
    return bad


def forest_vocab(forest, fl, attr_list=False, top=True):
    tags, keys = vocab(fl)
    bad = []
    for n in forest:
        if isinstance(n, str): continue
        tag, attrs, kids = n
        if tag not in tags: bad.append(('tag', tag))
        if tag == 'div' and top and False: pass
        for k, _ in attrs:
            if not attr_list and k not in keys: bad.append(('key', k))
        if tag in VOID and kids: bad.append(('void', tag))
        bad += forest_vocab(kids, fl, attr_list, False)
    return bad


def run(driver, rng, n, attr_list):
    supported = [e for e in PX.SUPPORTED if e != 'attr_list']
    docs = []
    fam = [(f, set(supported)) for f in PX.FAMILIES]
    while len(docs) < n:
        if fam: s, names = fam.pop()
        else:
            s = PX.gen(rng)
            r = rng.random()
            if r < 0.3: names = set(supported)
            elif r < 0.5: names = {rng.choice(supported)}
            else: names = {e for e in supported if rng.random() < 0.5}
        if attr_list: names = names | {'attr_list'}
        if not proto.lean_ok(s) or 'Σ' in s or '<' in s: continue
        tab = rng.choice([4, 4, 4, 4, 2, 8]); fmt = rng.choice(['xhtml', 'xhtml', 'html'])
        docs.append((s, tab, fmt, PX.flags_of(names)))
    trees = driver.ask_many([('convertx.tree', fl, str(t), proto.enc_str(s)) for s, t, f, fl in docs])
    outs = driver.ask_many([('convertx', fl, str(t), f, proto.enc_str(s)) for s, t, f, fl in docs])
    dist = {}
    fails = []

    def cnt(k): dist[k] = dist.get(k, 0) + 1
    mds = {}
    for (s, tab, fmt, fl), ta, oa in zip(docs, trees, outs):
        # --- model tree
        if ta.startswith('ok '):
            tr = proto.dec_tree(ta[3:].split('|')[0])
            bad = wf_tree(tr, fl, attr_list=attr_list)
            cnt('model-tree-ok' if not bad else 'model-tree-BAD')
            if bad: fails.append(('model-tree', s, fl, bad[:3]))
        else: cnt('model-tree-' + ta.split(' ')[0])
        # --- implementation tree and output
        key = (tab, fmt, fl)
        md = mds.get(key)
        if md is None:
            md = mds[key] = markdown.Markdown(tab_length=tab, output_format=fmt, extensions=[e for e, c in zip(EXTS, fl) if c == '1'])
            orig = md.serializer
            cap = md._cap = []
            md.serializer = (lambda o, c: (lambda el: (c.append(proto.from_etree(el)), o(el))[1]))(orig, cap)
            amp = md.postprocessors['amp_substitute']
            md._amp = []
            amp.run = (lambda o, c: (lambda text: (c.append('\x02amp\x03' in text), o(text))[1]))(amp.run, md._amp)
        md._cap.clear(); md._amp.clear()
        try:
            real = md.reset().convert(s)
        except Exception as e:
            cnt('impl-exc-' + type(e).__name__); mds.pop(key, None); continue
        cnt('impl-hamp-ok' if not any(md._amp) else 'impl-hamp-VIOLATED')
        if any(md._amp): fails.append(('impl-hamp', s, fl, 'STX amp ETX reaches AndSubstitutePostprocessor'))
        if md._cap:
            bad = wf_tree(md._cap[-1], fl, attr_list=attr_list)
            cnt('impl-tree-ok' if not bad else 'impl-tree-BAD')
            if bad: fails.append(('impl-tree', s, fl, bad[:3]))
        # --- output level
        try:
            forest = htmlread.forest(real, fmt)
            bad = forest_vocab(forest, fl, attr_list)
            cnt('impl-out-ok' if not bad else 'impl-out-VOCAB')
            if bad: fails.append(('impl-out-vocab', s, fl, bad[:3], real[:200]))
        except htmlread.NotWellFormed as e:
            cnt('impl-out-NOTWF'); fails.append(('impl-out-notwf', s, fl, str(e), real[:300]))
        if oa.startswith('ok '):
            mo = proto.dec_str(oa[3:])
            cnt('model=impl' if mo == real else 'model!=impl')
        else: cnt('model-out-' + oa.split(' ')[0])
    return dist, fails


if __name__ == '__main__':
    seed = int(sys.argv[1]) if len(sys.argv) > 1 else 1
    n = int(sys.argv[2]) if len(sys.argv) > 2 else 2000
    al = (sys.argv[3] == '1') if len(sys.argv) > 3 else False
    d = proto.Driver(None)
    t0 = time.time()
    dist, fails = run(d, random.Random(seed), n, al)
    d.close()
    print(json.dumps({'dist': dist, 'seconds': round(time.time() - t0, 1)}, ensure_ascii=False))
    seen = set()
    for f in fails:
        k = (f[0], str(f[3])[:60])
        if k in seen: continue
        seen.add(k)
        print('FAIL', json.dumps(f, ensure_ascii=False)[:700])
        if len(seen) > 40: break
