"""Correspondence for C03: the code-escaping model and the fenced-code model vs the implementation.

* `code.escape` / `code.escape1` vs `markdown.util.code_escape`; `fence.escape` vs `FencedBlockPreprocessor._escape`;
* `fence.find`  vs `FencedBlockPreprocessor.FENCED_BLOCK_RE.search` (start, end, groups fence / attrs / lang / hl_lines / code);
* `fence.run`   vs the real preprocessor of `markdown.Markdown(extensions=['fenced_code'])` run on the lines of the text, together
  with the `rawHtmlBlocks` it leaves in the stash.  Blocks with a non-empty `{attrs}` part are outside the model (`ood`); the
  harness checks that the model says `ood` exactly when the implementation reaches such a block first.
* `fence.runa`  vs the same real preprocessor, `{attrs}` branch included (`get_attrs_and_remainder`, `handle_attrs`, the `continue`
  when the braces do not match): never `ood`.

Texts are pre-normalised (no tabs, no CR) over the alphabet: fence characters, newline, space, letters, `{ } . = " ' & < >` and a few
tokens (`hl_lines=`, `{.py}`, …) that make the interesting branches of the pattern frequent.
"""
import os, sys
sys.path.insert(0, os.path.dirname(os.path.dirname(os.path.abspath(__file__))))
import markdown
from markdown.util import code_escape
from markdown.extensions.fenced_code import FencedBlockPreprocessor
from proto import enc_str, dec_str, dec_list, dec_opt

RE = FencedBlockPreprocessor.FENCED_BLOCK_RE

CHARS = ['`', '~', '\n', ' ', 'a', 'b', 'p', 'y', 'h', 'l', '_', '{', '}', '.', '=', '"', "'", '&', '<', '>', '#', '+', '-', 'é', '1']
TOKENS = ['```', '~~~', '````', '~~~~', '```\n', '~~~\n', '\n```', '\n~~~', '\n```\n', '\n~~~\n', '\n', '\n', ' ', '  ',
          'hl_lines=', 'hl_lines="1 2"', "hl_lines='3'", 'hl_lines="', '.py', 'py', 'c++', '.', '{', '}', '{}', '{.py}', '{ }',
          '{.py #i}', '{#a .x .y #b}', '{.py k=v}', '{k="v w" .c}', '{.}', '{#}', '{. .b}', '{.a"b}', '{.a&b <c>}', '{.a}x}', '{.a} }', '{id=q}',
          '{=}', '{.a =}', '{py}', '&amp;', '&lt;', '<b>', '&', '<', '>', '"', 'x', '*e*', '\x02wzxhzdk:0\x03']
ESC = ['&', '<', '>', '"', '&amp;', '&lt;', '&gt;', '&#1;', '&a', ';', 'a', ' ', '\n', '&&', '<>', 'é', '&quot;']


def gen_text(rng):
    k = rng.random()
    if k < 0.2:
        return ''.join(rng.choice(CHARS) for _ in range(rng.randint(0, 24)))
    if k < 0.5:
        return ''.join(rng.choice(TOKENS) for _ in range(rng.randint(0, 12)))
    return ''.join(gen_block(rng) for _ in range(rng.choice([1, 1, 1, 2, 2, 3])))


def gen_block(rng):
    # a (nearly) well-formed block with noise around and inside
    f = rng.choice(['```', '~~~', '````', '~~~~~'])
    info = rng.choice(['', '', 'py', ' py ', '.py', '..py', 'c++ ', ' hl_lines="1"', 'py hl_lines="1" ', 'pyhl_lines=\'2\'',
                       'hl_lines="1\n2"', ' {.py}', '{}', '{ }', '{.a .b}', '{x', 'x}', ' {.py} x', '{#i .a .b k=v}', '{.a}}', '{.a}b}', '{ #i }', '{.a"<&>}', "{k='}' .a}",
                       '{.py hl_lines="1 2"}', '{.py linenums=true}', '{id=z .c}', '{a=b=c}', '{.x #}', '{..y}', 'a b', '.', ' . '])
    body = ''.join(rng.choice(TOKENS + CHARS) for _ in range(rng.randint(0, 8)))
    close = rng.choice([f, f, f + ' ', f + '  ', f[:-1], f + f[0], ' ' + f, f + 'x'])
    pre = ''.join(rng.choice(TOKENS) for _ in range(rng.randint(0, 3)))
    post = ''.join(rng.choice(TOKENS) for _ in range(rng.randint(0, 3)))
    return pre + rng.choice(['\n', '\n', '']) + f + info + '\n' + body + rng.choice(['\n', '\n', '']) + close + rng.choice(['\n', '', '\n\n']) + post


def gen_esc(rng):
    return ''.join(rng.choice(ESC) for _ in range(rng.randint(0, 12)))


def real_find(text):
    m = RE.search(text)
    if not m: return None
    return (m.start(), m.end(), m.group('fence'), m.group('attrs'), m.group('lang'), m.group('hl_lines'), m.group('code'))


def model_find(ans):
    if ans == 'none': return None
    f = ans.split('|')
    return (int(f[0]), int(f[1]), dec_str(f[2]), dec_opt(f[3]), dec_opt(f[4]), dec_opt(f[5]), dec_str(f[6]))


def real_run(text, attrs_ood=True):
    """the real preprocessor; with attrs_ood: 'ood' when a block with a non-empty {attrs} part comes up"""
    md = markdown.Markdown(extensions=['fenced_code'])
    pp = md.preprocessors['fenced_code_block']
    # does the loop ever see a match with non-empty attrs?  replay the loop's searches to know (the model stops there)
    seen_attrs = []
    orig = FencedBlockPreprocessor.FENCED_BLOCK_RE

    class Spy:
        def search(self, t, i=0):
            m = orig.search(t, i)
            if m and m.group('attrs'): seen_attrs.append(m.group('attrs'))
            return m
    pp.FENCED_BLOCK_RE = Spy()
    out = pp.run(text.split('\n'))
    if seen_attrs and attrs_ood: return 'ood'
    return ('\n'.join(out), list(md.htmlStash.rawHtmlBlocks))


def model_run(ans):
    if ans in ('ood', 'fuel'): return ans
    t, st = ans.split('|')
    return (dec_str(t), dec_list(st))


def run(driver, rng, n):
    dis = []; cases = 0; seen = set(); samples = []
    dist = {'escape': 0, 'find.match': 0, 'find.none': 0, 'find.attrs': 0, 'find.lang': 0, 'find.hl': 0, 'find.hl_multiline': 0,
            'run.ok': 0, 'run.ood': 0, 'run.blocks0': 0, 'run.blocks1': 0, 'run.blocks2+': 0,
            'runa.attrs': 0, 'runa.id': 0, 'runa.class': 0, 'runa.lang': 0}
    pp = FencedBlockPreprocessor(markdown.Markdown(), {})
    n_esc = max(1, n // 5)
    # ---- escaping
    texts = [gen_esc(rng) for _ in range(n_esc)]
    reqs = []
    for t in texts:
        reqs += [('code.escape', enc_str(t)), ('code.escape1', enc_str(t)), ('fence.escape', enc_str(t))]
    ans = driver.ask_many(reqs)
    for i, t in enumerate(texts):
        cases += 1; seen.add(('e', t)); dist['escape'] += 1
        real = code_escape(t)
        for j, op in enumerate(('code.escape', 'code.escape1')):
            mod = dec_str(ans[3 * i + j])
            if mod != real: dis.append({'op': op, 'input': t, 'model': mod, 'impl': real})
        mod = dec_str(ans[3 * i + 2]); real = pp._escape(t)
        if mod != real: dis.append({'op': 'fence.escape', 'input': t, 'model': mod, 'impl': real})
    # ---- find + run
    texts = [gen_text(rng) for _ in range(n - n_esc)]
    CH = 500
    for a in range(0, len(texts), CH):
        chunk = texts[a:a + CH]
        reqs = []
        for t in chunk: reqs += [('fence.find', enc_str(t)), ('fence.run', enc_str(t)), ('fence.runa', enc_str(t)), ('fence.attrsend', enc_str(t))]
        ans = driver.ask_many(reqs)
        for i, t in enumerate(chunk):
            cases += 1; seen.add(('f', t))
            mf, rf = model_find(ans[4 * i]), real_find(t)
            if rf is None: dist['find.none'] += 1
            else:
                dist['find.match'] += 1
                if rf[3] is not None: dist['find.attrs'] += 1
                if rf[4]: dist['find.lang'] += 1
                if rf[5] is not None:
                    dist['find.hl'] += 1
                    if '\n' in rf[5]: dist['find.hl_multiline'] += 1
            if mf != rf: dis.append({'op': 'fence.find', 'input': t, 'model': mf, 'impl': rf})
            mr, rr = model_run(ans[4 * i + 1]), real_run(t)
            if rr == 'ood': dist['run.ood'] += 1
            else:
                dist['run.ok'] += 1
                k = len(rr[1]); dist['run.blocks0' if k == 0 else 'run.blocks1' if k == 1 else 'run.blocks2+'] += 1
                if k >= 1 and len(samples) < 3: samples.append({'text': t, 'newtext': rr[0], 'stash': rr[1]})
            if mr != rr: dis.append({'op': 'fence.run', 'input': t, 'model': mr, 'impl': rr})
            ma = model_run(ans[4 * i + 2])
            ra = real_run(t, False) if rr == 'ood' else rr
            if rr == 'ood':
                dist['runa.attrs'] += 1
                h = ''.join(ra[1])
                if '<pre id=' in h: dist['runa.id'] += 1
                if '<pre class=' in h or '" class=' in h.split('><code')[0]: dist['runa.class'] += 1
                if 'language-' in h: dist['runa.lang'] += 1
            if ma != ra: dis.append({'op': 'fence.runa', 'input': t, 'model': ma, 'impl': ra})
            m0 = RE.search(t)
            re_end = str(m0.end('attrs')) if (m0 and m0.group('attrs')) else 'none'
            if ans[4 * i + 3] != re_end: dis.append({'op': 'fence.attrsend', 'input': t, 'model': ans[4 * i + 3], 'impl': re_end})
    return {'cases': cases, 'distinct': len(seen), 'disagreements': dis, 'samples': samples, 'dist': dist}


if __name__ == '__main__':
    import random, sys, json
    from proto import Driver
    d = Driver()
    r = run(d, random.Random(int(sys.argv[2]) if len(sys.argv) > 2 else 1), int(sys.argv[1]) if len(sys.argv) > 1 else 20000)
    d.close()
    print(json.dumps({k: r[k] for k in ('cases', 'distinct', 'dist')}))
    print('disagreements:', len(r['disagreements']))
    for x in r['disagreements'][:10]: print(x)
