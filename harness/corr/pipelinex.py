"""Correspondence, end to end with extensions: `PipelineX.convertX` (compiled Lean driver, op `convertx`) vs
`markdown.Markdown(extensions=[…]).convert` for text without '<' (the modelled domain), both output formats,
tab_length in {4, 2, 8}, random subsets of the modelled extensions.

run(driver, rng, n) -> {'cases', 'distinct', 'disagreements', 'samples', 'dist'}

The model may answer `ood` (outside the modelled domain: stated in `Model/PipelineX.lean`); such cases are counted in
`dist['ood']` and are not disagreements — an `ok` answer must be the implementation's output exactly, `err` must be a
raised ValueError/OverflowError.  Non-trivial = the output contains an element the enabled extensions produce or a
non-paragraph element.
"""
from __future__ import annotations
import os, re, sys

sys.path.insert(0, os.path.dirname(os.path.dirname(os.path.abspath(__file__))))
sys.path.insert(0, os.path.dirname(os.path.abspath(__file__)))
import proto  # noqa: E402
import markdown  # noqa: E402
from gen import common as G, docs as D  # noqa: E402
import blockext as BX  # noqa: E402

# order of the flag string of `convertx`
EXTS = ['fenced_code', 'tables', 'admonition', 'def_list', 'abbr', 'footnotes', 'sane_lists', 'nl2br', 'wikilinks',
        'attr_list', 'toc']
# the extensions the model handles end to end at the current stage (the others are answered `ood`)
SUPPORTED = ['fenced_code', 'tables', 'admonition', 'def_list', 'sane_lists', 'nl2br', 'wikilinks', 'footnotes', 'abbr', 'attr_list', 'toc']

XTOK = ['```', '~~~', '````', '```py\n', '~~~ .x\n', '``` {.c #i}\n', '```\n', '\n```', '\n~~~\n', '``` hl_lines="1"\n',
        '| a | b |\n|---|---|\n', '|', ' | ', '|-|-|', '\n|:-|-:|\n', 'a|b', '-|-', ':-:', '`a|b`', '\\|', '|x|\n|-|\n',
        'h1 | h2\n-- | --\nc1 | c2', '[^1]', '[^1]: n\n', '*[X]: T\n', 'X', '[[w]]', '[[a b]]', '[TOC]', '{: #i .c}',
        '{#j}', '{ .k }', ' {: k=v }', '\n{: .p }', '///Footnotes Go Here///', 'é|ü',
        '[[', ']]', '[[Wiki Link]]', '[[a_b - c]]', '[[ ]]', '[[é1]]', '[[a  _b_ c]]', '*[[w]]*', '[[w]](/u)', '[x][[w]]',
        '\\[[w]]', '[[w]', '[[a]b]]', '`[[w]]`', '[[w_ ]]', '[[_ w]]', 'line\nbreak', 'a  \nb', '*e\nm*', '[l\nk](/u)']

FAMILIES = [
    '```\ncode *x*\n```',
    'para\n```py\nx = 1\n\n\ny\n```\nafter',
    '~~~~ {.lang #id .c2}\n~~~\nstill\n~~~~',
    '``` { .a k=v }\nc\n```',
    '``` {broken\nc\n```',
    '- item\n\n    ```\n    in list\n    ```',
    '> ```\n> q\n> ```',
    '```\nunclosed',
    '```\na\n```\n```\nb\n```',
    'a | b\n--|--\n1 | 2',
    '| a | b |\n|:--|--:|\n| *e* | `c|d` |\n| short |\n| x | y | long |',
    '|a|\n|-|',
    'a | b\n- | -',
    'text\na | b\n- | -\nc | d',
    '    a | b\n    - | -',
    '> a | b\n> - | -\n> 1 | 2',
    '- a | b\n  - | -',
    '!!! note\n    a | b\n    - | -\n    1 | 2\n\n    ```\n    fenced in admonition?\n    ```',
    'T\n:   a | b\n    - | -',
    'a | b\n:-: | :-\n\\| | \\\\|',
    '| a \\\\|\n|---|\n| b \\\\|',
    '# h | x\n- | -',
    'text[^1] and[^2] again[^1]\n\n[^1]: first *note*\n[^2]: second\n    more\n\n    para 2\n\n        code',
    'x[^a][^a][^a] y[^b]\n\n[^a]: A\n\n[^b]:\n    - list\n    - in note',
    'p[^1]\n\n///Footnotes Go Here///\n\nafter\n\n[^1]: n',
    '- item ///Footnotes Go Here/// x\n- b[^1]\n\n    cont ///Footnotes Go Here///\n\n[^1]: n[^1] self ref',
    '[^1]: a[^2]\n[^2]: b[^1]\n\nuse[^2] use[^1]',
    '[^x]: | a | b |\n    |---|---|\n\nr[^x] [^nodef] [^]',
    '[^1]:\n\nempty[^1][^1]',
    '[^1]: body\n\n    [ref]: /u "T"\n\n[l][ref][^1]',
    '# h[^1]\n\n> q[^1]\n\n[^1]: *[A]: b\n    !!! note\n        in fn',
    '[^1]: a\n\n    [^2]: nested def\n\nt[^1]',
    'The HTML spec, HTML5 and XHTML by the W3C.\n\n*[HTML]: Hyper Text\n*[W3C]: World Wide Web Consortium',
    '*[A]: one\n*[AB]: two\n*[B]: three\n\nA AB B A-B AB. (A) _A_ A_B `A` [A](/A "A") *A* A',
    '*[é x]: t\n*[-]: dash\n*[a-b]: hy\n\né x a-b a - b xé x',
    '*[X]: T\n\n# X h\n\n- X item\n\n> X\n\n    X code\n\n| X | a X |\n|---|---|\n\nX[^1]\n\n[^1]: X note X',
    "*[X]: T\n\n*[X]: ''\n\nX gone",
    '*[X]: T\nX  \nX\nline X',
    '*[li]: T\n*[X Y]: U\n\n[[li]] X Y [X Y](/u) **li**',
    '# Title {#t .c}\n\n## Sub ## {: k=v }\n\nH\n= {.x}\n\npara *em*{.e} text\n{: #p .q }\n\n- item {.li}\n- two\n    {.li2}\n- three\n\n    - sub\n    {.x}',
    'T {.dt}\n:   def\n    {.dd}\n\n| a {.th} | b |\n|---|---|\n| c {.td} | [l](/u){.a} |\n\n> q\n> {.bq}\n\n!!! note\n    x\n    {.adm}',
    '*e*{: .a }{.b} **s**{#i} `c`{.k} [l](/u){ k="v w" } ![i](/s){.img}x [[w]]{.w} y[^1]{.f}\n\n[^1]: n {.p}\n{.p2}',
    'p {.a}} q\n{: .b }}\n\n# h {.c}}\n\n*e*{.d}} rest',
    '``` {.py #i}\nc\n```\n\n``` {.py k=v}\nc\n```',
    '```py hl_lines="1"\nc\n```',
    '- a\n  {.x}\n\n1. b *e*{.y}\n{.z}',
    '# h #{.c}\n\n# h2 {.c} #\n\n# *e* {.c}\n\n# *e*{.c}',
    '[TOC]\n\n# One\n\n## Two *em* `c`\n\n### Three [l](/u)\n\n# One\n\n#### Deep\n\n## Back',
    '# Title {#custom}\n\n# Title\n\n# custom\n\n# Title {: data-toc-label="Lbl *x*" }\n\n[TOC]\n\n- [TOC]\n\n> [TOC]\n\ntext [TOC]\n\n*[TOC]*',
    '# h[^1] x[^1]\n\n[TOC]\n\n[^1]: note\n    # in note',
    '## a_1\n## a_1\n## a\n## a\n## \n## !!!\n## -- x --',
    '# A and B\n\n# A \\> B \\* C\n\n# `code a`\n\n# ![img alt](/s)\n\n[TOC]',
    'Setext\n===\n\nTwo\n---\n\n[TOC]\n{: .k }\n\n[TOC]  \nx',
    '!!! note\n    # in adm\n\n    [TOC]\n\nT\n:   # in dd\n\n| # no | b |\n|---|---|',
    '- a *e* {.x}\n    - sub\n- b `c`{.k} {.y}\n    1. n\n- {.z}\n    - s2',
    '# T {: data-toc-label="A & B > c *d*" }\n\n## U {: data-toc-label="" }\n\n[TOC]',
    '# T {: data-toc-label="A & B > c" }\n\n## U\n\n[TOC]',
    '* # H\n///Footnotes Go Here/// x\n\nr[^1]\n\n[^1]: n',
    '* # H\n  tail ///Footnotes Go Here///\n* b[^1]\n\n[^1]: n\n\n///Footnotes Go Here///',
    'a [[Wiki Link]] b\nnext line [[x_y  z]] [[ ]] [[no close]\n\n- item\n  cont [[w]]',
    '# h\nline1\nline2  \nline3\n\n> q1\n> q2\n\n- a\n  b\n\n| t | u |\n|---|---|\n| 1 | [[w]] |',
    '*em\nacross* `code\nspan` [link\ntext](/u "t\nt")',
    '!!! note "T *e*"\n    body `c`\n\nTerm *t*\n:   def [l](/u)\n\n3. x\n4. y',
]


def gen(rng):
    r = rng.random()
    if r < 0.17: s = G.soup(rng, G.alphabet(html=False, amp=True, ext=True) + XTOK, 1, 18)
    elif r < 0.35: s = BX._soup(rng, BX.TOKS + XTOK, 1, 16)
    elif r < 0.5: s = BX._structured(rng)
    elif r < 0.6: s = BX._nested(rng)
    elif r < 0.74: s = D.document(rng, 1, 5, meta=False)
    elif r < 0.78: s = toc_doc(rng)
    elif r < 0.84: s = G.lines_doc(rng, 1, 8)
    elif r < 0.88: s = G.fragment(rng, 200)
    elif r < 0.92: s = fn_doc(rng)
    elif r < 0.95: s = abbr_doc(rng)
    elif r < 0.98: s = attr_doc(rng)
    else: s = '\n\n'.join(rng.choice([D.p_table, D.p_fence, D.p_admonition, D.p_deflist, D.p_list, D.p_para])(rng)
                          for _ in range(rng.randint(1, 4)))
    return s.replace('<', '')


def fn_doc(rng):
    """references and definitions of a few footnote labels, with bodies of several shapes, markers, duplicates"""
    ids = rng.sample(['1', '2', 'a', 'note', 'x y', 'A:b', '^', 'é'], rng.randint(1, 3))
    parts = []
    for _ in range(rng.randint(1, 4)):
        r = rng.random()
        w = rng.choice(['text', '*em*', 'a `c`', 'see', '> quoted', '- item', '# head', 'T\n:   def', '| a | b |\n|--|--|\n| c'])
        ref = ''.join('[^%s]' % rng.choice(ids + ['zz']) + rng.choice(['', ' ', ' and ', '[l](/u)', '\n']) for _ in range(rng.randint(1, 3)))
        parts.append(w + ref if r < 0.8 else ref + w)
    for i in ids:
        if rng.random() < 0.9:
            body = rng.choice(['note %s' % i, '*e* [^%s] back' % rng.choice(ids), '', 'a\n    b', 'p1\n\n    p2', 'p\n\n    - l1\n    - l2',
                               'p\n\n        code', '- li', '> q', '# h', 'x  \ny', '[[w]] line\nline2', 'T\n    :   d', '!!! note\n        adm',
                               '```\n    f\n    ```'])
            parts.append('[^%s]: %s' % (i, body))
    if rng.random() < 0.3:
        parts.insert(rng.randint(0, len(parts)), rng.choice(['///Footnotes Go Here///', 'x ///Footnotes Go Here/// y', '- ///Footnotes Go Here///', '* # H\n  t ///Footnotes Go Here///', '1. # H\n///Footnotes Go Here///',
                                                            '- a\n\n    b\n  ///Footnotes Go Here///', '    ///Footnotes Go Here///']))
    rng.shuffle(parts) if rng.random() < 0.3 else None
    return rng.choice(['\n\n', '\n\n', '\n']).join(parts)


def abbr_doc(rng):
    keys = rng.sample(['HTML', 'W3C', 'A', 'AB', 'B', 'a-b', 'é', 'X Y', 'x', 'li', '1', 'A.B', 'T_T', '**', 'A\\'], rng.randint(1, 4))
    parts = ['*[%s]: %s' % (k, rng.choice(['Title', 'T t', 'é', '"q"', "''", 'a *b*'])) for k in keys]
    for _ in range(rng.randint(1, 4)):
        ws = [rng.choice(keys + ['x', 'and', '-', '.', 'A', 'HTML5', 'xHTML', '_', '*', '`', '[', '](/u)', '\n', '  \n']) for _ in range(rng.randint(1, 8))]
        parts.append(rng.choice(['', '', '# ', '- ', '> ', '    ', '1. ', '!!! note\n    ', 'T\n:   ']) + rng.choice([' ', ' ', '']).join(ws))
    if rng.random() < 0.5: rng.shuffle(parts)
    return rng.choice(['\n\n', '\n\n', '\n']).join(parts)


def attr_doc(rng):
    def al():
        items = [rng.choice(['#i%d' % rng.randint(1, 3), '.c', '.c2', 'k=v', 'k="v w"', "k='x'", 'é=1', 'a:b=c', 'data-x=y', '.', '#', 'k=', '=v', 'x'])
                 for _ in range(rng.randint(1, 3))]
        return rng.choice(['{', '{:', '{: ', '{ ']) + ' '.join(items) + rng.choice(['}', ' }', '}', '}}', ' } '])
    parts = []
    for _ in range(rng.randint(1, 5)):
        k = rng.randrange(10)
        w = rng.choice(['word', 'a b', '*e* x', 'Title'])
        if k == 0: parts.append('#' * rng.randint(1, 3) + ' ' + w + rng.choice([' ', '  ', '']) + al() + rng.choice(['', ' #', ' ']))
        elif k == 1: parts.append(w + ' ' + al() + '\n' + rng.choice(['===', '---']))
        elif k == 2: parts.append(w + rng.choice(['\n', ' ', '\n  ']) + al())
        elif k == 3: parts.append(rng.choice(['*e*', '**s**', '`c`', '[l](/u)', '![i](/s)', '[[w]]', '*a **b**' + al() + '*']) + rng.choice(['', ' ']) + al() + rng.choice(['', ' t', al()]))
        elif k == 4: parts.append('- ' + w + ' ' + al() + '\n- b\n  ' + al() + rng.choice(['', '\n\n    - sub ' + al() + '\n    ' + al(), '\n- x *e* ' + al() + '\n    - sub\n- `c` ' + al() + '\n    1. n ' + al()]))
        elif k == 5: parts.append('T ' + al() + '\n:   d ' + al() + '\n    ' + al())
        elif k == 6: parts.append('| a ' + al() + ' | b |\n|---|---|\n| c | d ' + al() + ' |')
        elif k == 7: parts.append('> q\n> ' + al())
        elif k == 8: parts.append('!!! note "T ' + al() + '"\n    body\n    ' + al())
        else: parts.append('``` ' + al() + '\ncode\n```')
    return '\n\n'.join(parts)


def toc_doc(rng):
    parts = []
    for _ in range(rng.randint(1, 7)):
        k = rng.randrange(8)
        w = rng.choice(['One', 'Two words', 'a_1', 'a', 'x *em* y', '`c`', '[l](/u)', 'A - B', 'h[^1]', 'X', '!!', 'UP case', '1. n', 'a  b', 'q "r"'])
        if k < 4: parts.append('#' * rng.randint(1, 6) + ' ' + w + rng.choice(['', '', ' #', ' {#id%d}' % rng.randint(1, 2), ' {: data-toc-label="L" }', ' {: data-toc-label="a & b > c" }', ' {.c}']))
        elif k == 4: parts.append(w + '\n' + rng.choice(['===', '---']))
        elif k == 5: parts.append(rng.choice(['[TOC]', '[TOC]', ' [TOC] ', '[toc]', 'x [TOC]', '- [TOC]', '> [TOC]', '*[TOC]*', '[TOC]\nline', '    [TOC]', '# [TOC]']))
        elif k == 6: parts.append('para ' + w)
        else: parts.append(rng.choice(['[^1]: fn', '*[X]: T', '- li\n\n    # h in li', '!!! note\n    ## h in adm']))
    return '\n\n'.join(parts)


def flags_of(names):
    return ''.join('1' if e in names else '0' for e in EXTS)


_NONASCII_CLASS = re.compile(r'!!! ?[^\x00-\x7f]')
_MARKERS = ('<em', '<strong', '<code', '<a ', '<img', '<li', '<h', '<blockquote', '<br', '<pre', '<table', '<dl', '<div', '<abbr',
            '<sup', 'start=')


def run(driver, rng, n, supported=None):
    supported = list(supported or SUPPORTED)
    mds = {}
    docs = []
    fam = [(f, set(supported)) for f in FAMILIES] + [(f, set()) for f in FAMILIES]
    attempts = 0
    while len(docs) < n and attempts < 3 * n + 100:
        attempts += 1
        if fam:
            s, names = fam.pop()
        else:
            s = gen(rng)
            r = rng.random()
            if r < 0.3: names = set(supported)
            elif r < 0.5: names = {rng.choice(supported)}
            else: names = {e for e in supported if rng.random() < 0.5}
            if rng.random() < 0.02:
                names = names | {rng.choice(EXTS)}                     # possibly unsupported: the model must say `ood`
        if not proto.lean_ok(s) or 'Σ' in s or '<' in s: continue
        tab = rng.choice([4, 4, 4, 4, 4, 2, 8])
        fmt = rng.choice(['xhtml', 'xhtml', 'html'])
        docs.append((s, tab, fmt, flags_of(names)))
    ans = driver.ask_many([('convertx', fl, str(t), f, proto.enc_str(s)) for s, t, f, fl in docs])
    dis = []; seen = set()
    dist = {'ok': 0, 'err': 0, 'oof': 0, 'ood': 0, 'recursion_skip': 0, 'nontrivial': 0, 'html': 0, 'skip:non-ascii-class': 0}
    for (s, tab, fmt, fl), a in zip(docs, ans):
        key = (tab, fmt, fl)
        md = mds.get(key)
        if md is None:
            md = mds[key] = markdown.Markdown(tab_length=tab, output_format=fmt, extensions=[e for e, c in zip(EXTS, fl) if c == '1'])
        k = a.split(' ')[0]
        dist[k] = dist.get(k, 0) + 1
        if a == 'ood':
            if not set(e for e, c in zip(EXTS, fl) if c == '1') <= set(supported): dist['ood:unsupported-flag'] = dist.get('ood:unsupported-flag', 0) + 1
            else: dist['ood:supported-flags'] = dist.get('ood:supported-flags', 0) + 1
            continue
        try:
            real = 'ok ' + proto.enc_str(md.reset().convert(s))
        except RecursionError:
            dist['recursion_skip'] += 1; mds.pop(key, None); continue
        except (ValueError, OverflowError):
            real = 'err'; mds.pop(key, None)
        except Exception as e:                                   # any other exception is a disagreement
            real = 'exc ' + type(e).__name__; mds.pop(key, None)
        if fl[EXTS.index('admonition')] == '1' and _NONASCII_CLASS.search(s):
            dist['skip:non-ascii-class'] += 1; continue
        if fmt == 'html': dist['html'] += 1
        if real != a:
            dis.append({'op': 'convertx', 'input': {'src': s, 'tab': tab, 'fmt': fmt, 'flags': fl},
                        'model': proto.dec_str(a[3:]) if a.startswith('ok ') else a,
                        'impl': proto.dec_str(real[3:]) if real.startswith('ok ') else real})
        elif a.startswith('ok '):
            out = proto.dec_str(a[3:])
            for t in ('<table', '<dl', 'class="admonition', '<pre><code', 'language-', 'start=', 'text-align', '<abbr', '<sup', 'wikilink',
                      'class="toc"', 'footnote', ' id="i', ' class="c', 'k="', 'footnote-backref', 'fnref2', '<br', '<h1 id=', '<h2 id=', '_1"', 'toc">\n<ul>\n<li>'):
                if t in out: dist['out:' + t] = dist.get('out:' + t, 0) + 1
            if any(t in out for t in _MARKERS):
                dist['nontrivial'] += 1; seen.add((s, tab, fmt, fl))
    for e in EXTS:
        dist['flag:' + e] = sum(1 for d in docs if d[3][EXTS.index(e)] == '1')
    return {'cases': len(docs), 'distinct': len(seen), 'disagreements': dis,
            'samples': [{'src': d[0], 'tab': d[1], 'fmt': d[2], 'flags': d[3], 'model': a[:200]} for d, a in list(zip(docs, ans))[:3]],
            'dist': dist}


if __name__ == '__main__':
    import json, random, time
    seed = int(sys.argv[1]) if len(sys.argv) > 1 else 1
    n = int(sys.argv[2]) if len(sys.argv) > 2 else 2000
    d = proto.Driver(sys.argv[3] if len(sys.argv) > 3 else None)
    t0 = time.time()
    res = run(d, random.Random(seed), n)
    d.close()
    print(json.dumps({'cases': res['cases'], 'distinct': res['distinct'], 'disagreements': len(res['disagreements']),
                      'dist': res['dist'], 'seconds': round(time.time() - t0, 1)}, ensure_ascii=False))
    for x in res['disagreements'][:10]:
        print('DISAGREE', json.dumps(x, ensure_ascii=False))
