"""C06X accounting check on the real implementation: documents made of top-level paragraphs, admonitions (header with /
without title, indented body) and pipe tables (rows wider / narrower than the header; no backticks, no backslashes):
visible letters of the output == expected letters computed from the source by the accounting of Props/C06X.lean
(admonition: title visible, class not; no title: first class word capitalised; table: first n cells of each row)."""
import sys, os, random
sys.path.insert(0, os.path.join(os.path.dirname(__file__), '..'))
import markdown, htmlread
from gen import c06_docs as D
N = int(sys.argv[1]); rng = random.Random(int(sys.argv[2]) if len(sys.argv) > 2 else 1)
L = lambda s: ''.join(c for c in s if c.isalpha())
def cells(row, border):
    row = row.strip(' ')
    if border:
        if row.startswith('|'): row = row[1:]
        if row.endswith('|'): row = row[:-1]
    return row.split('|')
md = markdown.Markdown(extensions=['admonition', 'tables'])
bad = tabs = adms = drops = 0
for _ in range(N):
    W = D.Words(rng); src = []; exp = []
    for _ in range(rng.randint(1, 5)):
        r = rng.random()
        if r < 0.3:
            w = [W() for _ in range(rng.randint(1, 3))]; src.append(' '.join(w)); exp.append(''.join(w))
        elif r < 0.6:
            cls = [W().lower() for _ in range(rng.randint(1, 2))]
            # lower-case ASCII class words only (str.capitalize of non-ASCII is out of the model's domain)
            cls = [''.join(ch for ch in c if ch.isascii()) or 'k' for c in cls]
            k = rng.randrange(3); t = W() + ' ' + W()
            head = '!!! ' + ' '.join(cls) + ('' if k == 0 else ' "%s"' % t if k == 1 else ' ""')
            body = [W() for _ in range(rng.randint(0, 2))]
            src.append('\n'.join([head] + ['    ' + x for x in body]))
            exp.append((cls[0].capitalize() if k == 0 else L(t) if k == 1 else '') + ''.join(body)); adms += 1
        else:
            n = rng.randint(2, 3); border = rng.random() < 0.5
            def row(k):
                c = [W() for _ in range(k)]
                s = ' | '.join(c)
                return ('| ' + s + ' |' if border else s), c
            h, hc = row(n)
            while not border and not hc[0] and False: h, hc = row(n)
            sep = ' | '.join(rng.choice(['---', ':--', '--:', ':-:']) for _ in range(n)); sep = '| ' + sep + ' |' if border else sep
            rows = [row(rng.randint(1, n + 2)) for _ in range(rng.randint(0, 3))]
            blk = '\n'.join([h, sep] + [r[0] for r in rows])
            hc2 = cells(h, border)
            if len(hc2) != n or any(not r[0].strip() for r in rows) or not h.strip(): 
                src.append('x' + W()); exp.append(L(src[-1])); continue
            e = ''.join(L(c) for c in hc2[:n])
            for r, _ in rows:
                cs = cells(r, border); e += ''.join(L(c) for c in cs[:n])
                if len(cs) > n: drops += 1
            src.append(blk); exp.append(e); tabs += 1
    text = '\n\n'.join(src)
    md.reset(); out = md.convert(text)
    got = L(htmlread.text_content(htmlread.forest(out)))
    if got != ''.join(exp):
        bad += 1
        if bad <= 3: print(repr(text)); print(out); print(got, ''.join(exp))
print('docs', N, 'tables', tabs, 'rows with dropped cells', drops, 'admonitions', adms, 'mismatches', bad)
