"""Correspondence for C04 at TEXT level: the tokenizer model `Model/HtmlTok.lean` (driver op `htmltok.events`) and the composed
preprocessor model `Model/ExtractText.lean` (`htmltok.extract`) versus the real `HTMLExtractor` / `HtmlBlockPreprocessor.run`.

For every generated text
  * the real extractor runs with the event recorder of `corr/extract.py` (`feed(src); close()`),
  * the model's event list is compared, event by event and fact by fact, with the recorded one,
  * the model's preprocessor output (lines + stash) is compared with `HtmlBlockPreprocessor.run(src.split('\\n'))` on a
    fresh `Markdown` instance.
The model may answer `ood` (outside `TokDomain`); such cases are counted (`dist['ood']`), never compared.  An `ood` answer is
never a disagreement, any other answer that differs is.  The regex-free Python mirror `mirror/mirror_htmltok.py` (the
Lean model is its transliteration) is compared on the same inputs (`mirror` disagreements)."""
import os, sys
import markdown
from markdown.preprocessors import HtmlBlockPreprocessor
from proto import enc_str, enc_list, dec_str, dec_list, enc_bool, lean_ok
from corr import extract as CE
from gen import rawhtml

sys.path.insert(0, os.path.join(os.path.dirname(os.path.abspath(__file__)), '..', 'mirror'))

STX, ETX = '\x02', '\x03'

# ------------------------------------------------------------------ generators
WORDS = ['foo', 'bar baz', '*x*', '**b**', '# h', '- li', '1. one', '`c`', '[l](u)', '> q', '    code', 'é ß', 'a & b', 'a &amp; b', '&#65;', '&#x41;',
         '&copy;', 'x &lt; y', '1 > 0', 'a\nb', 'AT&T', '&#38x', '&#12', '&amp', 'q;', '&#x;', '&&', '& ', '&-;', '&a.b-c;', '&#00065;', '&#xZ;', 'Σ', 'K']
TAGN = ['div', 'p', 'span', 'b', 'a', 'table', 'pre', 'DIV', 'Span', 'h1', 'x-y', 'a:b', 'hr', 'br', 'img', 'section', 'ul', 'li', 'em', 'code', 'script', 'style',
        'blockquote', 'd1v', 'div.x', 'divé', 'dΣv', 'k', 'textarea']
ANAME = ['class', 'id', 'data-x', 'a:b', 'on_click', 'hidden', 'X', '=', '==', '"', "'", '`', 'a`b', '<', '&', 'é', 'a"b', ',', 'a,']
AVAL = ['x', 'a b', 'c-1', '*x*', '1 < 2', 'a > b', 'x&amp;y', 'é', '`c`', "it's", 'say "hi"', '', 'x\ny', 'x\n\ny', '/p?q=1&r=2', 'a=b', '/', 'a/b', '>', '<div>', '</div>',
        ',', 'a,b']
WS = ['', ' ', ' ', ' ', '  ', '\n', '\t', ' \n ', '\x0b', '\xa0', '\x85', '/', ' /', '/ ', ' / ']


def attr_soup(rng):
    n = rng.choice(ANAME)
    k = rng.random()
    if k < 0.2: return n
    v = rng.choice(AVAL)
    eq = rng.choice(['=', '=', '=', ' = ', '= ', ' =', '==', '=\n'])
    if k < 0.4:
        bare = v if rng.random() < 0.3 else (''.join(ch for ch in v if ch not in ' \n"\'`=<>&') or 'v')
        return n + eq + bare
    if k < 0.7: return n + eq + '"' + (v if rng.random() < 0.15 else v.replace('"', '')) + '"' + rng.choice(['', '', '', ',', ' ,', ',,'])
    if k < 0.95: return n + eq + "'" + (v if rng.random() < 0.15 else v.replace("'", '')) + "'" + rng.choice(['', '', '', ','])
    return n + eq + rng.choice(['"', "'"]) + v                     # unclosed quote


def start_tag_soup(rng):
    s = '<' + rng.choice(TAGN)
    for _ in range(rng.choice([0, 0, 1, 1, 2, 3])):
        s += rng.choice(WS[1:] if rng.random() < 0.9 else WS) + attr_soup(rng)
    s += rng.choice(WS) + rng.choice(['>', '>', '>', '>', '/>', ' />', '', '/', '`>', '\x00>'])
    return s


def end_tag_soup(rng):
    return '</' + rng.choice(['', '', '', ' ', '\n']) + rng.choice(TAGN) + rng.choice(['', '', '', ' ', '\n', ' x', ' a="b"', '/', ' /']) + rng.choice(['>', '>', '>', '>', ''])


def misc_soup(rng):
    return rng.choice(CE.COMMENTS + CE.PIS + CE.DECLS + CE.STRAY + ['<!-- a --  >', '<!-- a --\n>', '<!--x--->', '<!---->', '<!DOCTYPE a\nb>', '<!doctype>', '<!DOCTYPEx>',
                                                                      '<!KDOCTYPE>', '<?a?b?>', '<??>', '<?>', '<!->', '</>', '</ >', '</1>', '</é>', '<é>', '<>', '< >'])


def piece_soup(rng):
    k = rng.random()
    if k < 0.3: return rng.choice(WORDS)
    if k < 0.6: return start_tag_soup(rng)
    if k < 0.8: return end_tag_soup(rng)
    return misc_soup(rng)


def gen_soup(rng):
    """sequences of (possibly odd) tags, references and words with every kind of separator"""
    s = ''
    for _ in range(rng.randint(1, 7)):
        s += piece_soup(rng) + rng.choice(['', '', ' ', ' ', '\n', '\n', '\n\n', '\n\n', '\n   ', '\n ', ' \n\n'])
    return s


def gen_wellformed(rng):
    """paragraphs and raw blocks of grammar 4.3 (gen/rawhtml.py), separated by blank lines (mostly)"""
    s = ''
    for _ in range(rng.randint(1, 4)):
        k = rng.random()
        if k < 0.5:
            piece = ' ' * rng.choice([0, 0, 0, 1, 2, 3, 4]) + rawhtml.raw_block(rng)[1] + rng.choice(['', '', '', ' ', ' tail', ' &amp; t'])
        elif k < 0.65:
            piece = rng.choice(WORDS) + ' ' + rawhtml.inline_elem(rng) + ' ' + rng.choice(WORDS)
        else:
            piece = rng.choice(WORDS) + rng.choice(['', ' ' + rng.choice(WORDS), '\n' + rng.choice(WORDS)])
        s += piece + rng.choice(['\n\n', '\n\n', '\n\n', '\n', '\n\n\n', '\n \n'])
    return s


FUZZ = [' ', ' ', '/', '=', '=', '"', "'", '`', '>', 'a', 'b', ',', '\n', '<', '&', ';', '#', '1', '-', '!', '?', '\x0b', '\x00', '\t', 'é']


def gen_tagfuzz(rng):
    """random character sequences right after `<a` / `</a` / `<!` / `<?` / `&`: stresses the regex recognisers"""
    s = rng.choice(['', 'x ', 'p\n', '  ', '\n'])
    for _ in range(rng.randint(1, 3)):
        s += rng.choice(['<a', '<a', '<a', '<div', '</a', '</', '<!', '<?', '<!--', '&', '&#', '<!doctype', '<a b', '<a b=', '<a b="c"', "<a b='c'"])
        s += ''.join(rng.choice(FUZZ) for _ in range(rng.randint(0, 9)))
        s += rng.choice(['>', '>', '/>', '', ';', '?>', '-->', ' >'])
        s += rng.choice(['', ' ', 'x', '\n', '\n\n'])
    return s


def normalise(s):
    import re
    s = s.replace(STX, '').replace(ETX, '').replace('\r\n', '\n').replace('\r', '\n') + '\n\n'
    s = s.expandtabs(4)
    return re.sub(r'(?<![^\n]) +\n', '\n', s)


def gen_doc(rng):
    k = rng.random()
    if k < 0.30: s = gen_wellformed(rng)
    elif k < 0.55: s = gen_soup(rng)
    elif k < 0.70: s = gen_tagfuzz(rng)
    else: return CE.gen_doc(rng)
    return normalise(s) if rng.random() < 0.85 else s


# ------------------------------------------------------------------ fixed cases (every construct of the fragment; the known defects as OOD or reproduced)
FIXED = [
    'p1\n\n<div class="a" id=\'b\' c=d hidden>\n*x*\n\n<p>y &amp; z</p>\n</div>\n\np2\n\n', '<div>x</div>\n\n', 'a <b>x</b> &amp; c &#65; &#x41; d\n\n',
    '<!-- c -->\n\n', '<!-- c --  >\n\n', '<?php echo 1; ?>\n\ntext\n\n', 'x <?php ?> y\n\n', '<!DOCTYPE html>\n\n', 'x <!DOCTYPE html>\n\n', '<!x>\n\n', '<hr>\n\n', '<hr />\n\np\n\n',
    '<br />\n\n', 'a<br/>b\n\n', '<div/>\n\n', '</>\n\n', '</ x>\n\n', '</1>\n\n', '</div x="1">\n\n', '<div`x>\n\n', '<a b=`c`>\n\n', '<a b="1",c>\n\n', '<a b="1", c>\n\n', '< div>\n\n',
    '<div>\n\n</div> tail\nmore\n\n<p>q</p>\n\n', '   <div>x</div>\n\n', '    <div>x</div>\n\n', 'para\n  <div>x</div>\n\n', '<div\nclass="x">y</div>\n\n',
    'a <span title="a > b">c</span>\n\n', '<div>x</div> &amp; foo\n\n<div>y</div>\n\n', 'a &# b\n\n', 'a &# b;\n\n', 'a &# b;\n\n<div>*x*</div>\n\n', 'AT&T\n\n', 'x &', '&', '&#', '&#;',
    '<div', '<', 'x <', '<div>\n<!-- </div> -->\n</div>\n\n', '<script>\n1 < 2\n</script>\n\n', 'a <script>x</script> b\n\n', '<![CDATA[ x ]]>\n\n', 'x <![CDATA[ x ]]>\n\n',
    '<div a="x>\n\n', '<dΣv>\n\n', '<DIV>x</DIV>\n\n', '<p>a<br>b</p>\n\n', '', '\n\n', '<div>', '<div></div>', '<div></div>\n', '<div></div>\n \n',
]



# ------------------------------------------------------------------ the theorems of Props/C04Text.lean, instantiated on the real code
NAMECH = 'abcXYZ019-_:.'
ESCAPED = set('\\`*_{}[]()>#+-.!')


class Inst:
    """random instances of the hypotheses of C04_text_block_once / C04_text_end_to_end (grammar of Spec/HtmlFrag.lean)"""

    def __init__(self, rng):
        self.R = rng
        self.BL = markdown.Markdown().block_level_elements

    def name(self): return self.R.choice('abcdXY') + ''.join(self.R.choice(NAMECH) for _ in range(self.R.randint(0, 4)))
    def sep(self): return ''.join(self.R.choice(' \n') for _ in range(self.R.randint(1, 3)))

    def anystr(self, excl, n=6):
        s = ''.join(self.R.choice(list('ab *_#<>&;"\'`/=-\n!?é,') + ['\n\n', '--', '<div>', '</div>', '&amp;']) for _ in range(self.R.randint(0, n)))
        for e in excl: s = s.replace(e, '')
        return s

    def attr(self):
        k = self.R.random(); n = self.name()
        if k < .25: return self.sep() + n, 'none'
        if k < .5: return self.sep() + n + '="' + self.anystr(['"']) + '"', 'dq'
        if k < .75: return self.sep() + n + "='" + self.anystr(["'"]) + "'", 'sq'
        return self.sep() + n + '=' + ''.join(self.R.choice(NAMECH) for _ in range(self.R.randint(1, 4))), 'bare'

    def attrs(self):
        l = [self.attr() for _ in range(self.R.choice([0, 0, 1, 2, 3]))]
        return ''.join(a for a, _ in l), (l[-1][1] if l else None)

    def trail(self): return ''.join(self.R.choice(' \n') for _ in range(self.R.choice([0, 0, 1, 2])))

    def tagname(self, block=None):
        while True:
            n = self.R.choice(['div', 'p', 'span', 'b', 'a', 'table', 'pre', 'DIV', 'Span', 'h1', 'x-y', 'a:b', 'hr', 'br', 'img', 'section', 'ul', 'li', 'em',
                               'code', 'blockquote', 'HR', 'Hr'] + [self.name()])
            if n.lower() in ('script', 'style'): continue
            if block is True and (n.lower() not in self.BL or n.lower() == 'hr'): continue
            return n

    def plain(self, n=8): return ''.join(self.R.choice(list('ab *_#>;"\'`/=-\n!?é,') + ['\n\n']) for _ in range(self.R.randint(0, n)))

    def tok(self):
        k = self.R.random()
        if k < .25:
            t = self.plain()
            return ('text', t) if t else self.tok()
        if k < .3:
            # text with bare `&` / `<` (each followed by a character that cannot start a reference / tag, never last)
            t = ''
            for _ in range(self.R.randint(1, 3)):
                t += self.plain(3) + self.R.choice(['& ', '< ', '&&\n', '<= ', '&.', '<3', '<<-', '&<;']) + self.R.choice(['', 'x', ' 1'])
            return ('text', t + self.R.choice([' ', 'z', '\n']))
        if k < .38: return ('ent', '&' + self.R.choice('abcXY') + ''.join(self.R.choice('abc019-.') for _ in range(self.R.randint(0, 4))) + ';')
        if k < .46: return ('cref', '&#' + self.R.choice([''.join(self.R.choice('0123456789') for _ in range(self.R.randint(1, 4))),
                                                           self.R.choice('xX') + ''.join(self.R.choice('0123456789abcdefABCDEF') for _ in range(self.R.randint(1, 4)))]) + ';')
        if k < .56: return ('cmt', '<!--' + self.anystr(['--'], 8).replace('--', '') + '-->')
        if k < .75:
            a, _ = self.attrs(); return ('open', '<' + self.tagname() + a + self.trail() + '>')
        if k < .92: return ('close', '</' + self.tagname() + '>')
        a, last = self.attrs(); t = self.trail()
        if last == 'bare' and not t: t = ' '
        return ('self', '<' + self.tagname() + a + t + '/>')

    @staticmethod
    def stack_run(tag, toks):
        import re
        S = [tag]
        for k, t in toks:
            if k == 'open':
                n = re.match(r'<([^\s/>]*)', t).group(1).lower()
                if n != 'hr': S.insert(0, n)
            elif k == 'close':
                n = t[2:-1].lower()
                if n in S:
                    S2 = S[S.index(n) + 1:]
                    if not S2: return None
                    S = S2
        return S

    def block(self):
        """(text of a block element satisfying toksOk / closesOk, its open tag, its tag name)"""
        while True:
            toks = []
            for _ in range(self.R.randint(0, 6)):
                t = self.tok()
                if toks and toks[-1][0] == 'text' and t[0] == 'text': continue
                toks.append(t)
            tn = self.tagname(block=True)
            S = self.stack_run(tn.lower(), toks)
            if S is None or S[-1] != tn.lower() or tn.lower() in S[:-1]: continue
            a, _ = self.attrs()
            opn = '<' + tn + a + self.trail() + '>'
            return opn + ''.join(t for _, t in toks) + '</' + tn + '>', opn, tn

    def unit(self):
        """a comment, processing instruction, declaration, <hr> (the instances of `Unit` in Lemmas/HtmlTokUnits.lean)"""
        k = self.R.random()
        if k < .3: return '<!--' + self.anystr(['--'], 8).replace('--', '') + '-->'
        if k < .6:
            b = self.anystr([], 8)
            while '?>' in b: b = b.replace('?>', '')
            return '<?' + b + '?>'
        if k < .8: return self.R.choice(['<!DOCTYPE', '<!doctype']) + self.anystr(['>'], 8) + '>'
        return self.R.choice(['<hr>', '<HR class="a">', '<hr />', '<div/>'])

    def line_text(self):
        while True:
            t = ''.join(self.R.choice(list('ab c*_#>;"\'`/=-!?é,.()[]{}+\\1')) for _ in range(self.R.randint(1, 10)))
            if t and not t[0].isspace() and not t[-1].isspace(): return t


def esc_all(t): return ''.join('\\' + c if c in ESCAPED else c for c in t)
def esc_cdata(t): return t.replace('&', '&amp;').replace('<', '&lt;').replace('>', '&gt;')
def line_safe(l): return not any(c in l for c in '\n\x02\x03\r\t') and (l == '' or any(c != ' ' for c in l))


def theorem_instances(rng, n, bump):
    """C04_text_block_once and C04_text_end_to_end_para on the real code; returns violated instances"""
    bad = []
    g = Inst(rng)
    for _ in range(n):
        block, opn, tn = g.block()
        p1, p2 = g.plain(), g.plain()
        doc = p1 + '\n\n' + block + '\n\n' + p2
        md = markdown.Markdown()
        lines = HtmlBlockPreprocessor(md).run(doc.split('\n'))
        stash = [str(x) for x in md.htmlStash.rawHtmlBlocks]
        bump('thm:text_block_once')
        if lines != (p1 + '\n\n\n' + STX + 'wzxhzdk:0' + ETX + '\n\n\n\n' + p2).split('\n') or stash != [block + '\n']:
            bad.append({'op': 'theorem-instance C04_text_block_once', 'input': doc, 'model': None, 'impl': {'lines': lines, 'stash': stash}})
        if all(line_safe(l) for l in block.split('\n')) and opn[1 + len(tn)] in ' >':
            t1, t2 = g.line_text(), g.line_text()
            doc2 = esc_all(t1) + '\n\n' + block + '\n\n' + esc_all(t2)
            exp = '<p>' + esc_cdata(t1) + '</p>\n' + block + '\n\n<p>' + esc_cdata(t2) + '</p>'
            real = markdown.markdown(doc2)
            bump('thm:text_end_to_end_para')
            if real != exp:
                bad.append({'op': 'theorem-instance C04_text_end_to_end_para', 'input': doc2, 'model': exp, 'impl': real})
        # C04_text_many_once: plain text or nothing, then 1..4 raw items (blocks and units) each followed by plain text
        t0 = rng.choice(['', g.plain() + '\n\n'])
        nsec = rng.randint(1, 4); doc3 = t0; exp3 = t0; want = []
        for i in range(nsec):
            if rng.random() < .6: T = g.block()[0]; lead = '\n'
            else: T = g.unit(); lead = ''
            tail = '\n\n' + g.plain() + ('' if i == nsec - 1 else '\n\n')
            doc3 += T + tail; exp3 += lead + STX + 'wzxhzdk:%d' % i + ETX + '\n\n' + tail; want.append(T + '\n')
        md = markdown.Markdown()
        lines = HtmlBlockPreprocessor(md).run(doc3.split('\n'))
        stash = [str(x) for x in md.htmlStash.rawHtmlBlocks]
        bump('thm:text_many_once')
        if lines != exp3.split('\n') or stash != want:
            bad.append({'op': 'theorem-instance C04_text_many_once', 'input': doc3, 'model': {'lines': exp3.split('\n'), 'stash': want},
                        'impl': {'lines': lines, 'stash': stash}})
        # C04_text_end_to_end_anywhere / _unit_anywhere: paragraph before / after present or absent
        T = block if rng.random() < .7 else g.unit()
        if all(line_safe(l) for l in T.split('\n')) and (T is not block or opn[1 + len(tn)] in ' >') and not T.startswith('<div/') :
            t1, t2 = g.line_text(), g.line_text()
            bef, aft = rng.random() < .5, rng.random() < .5
            doc4 = (esc_all(t1) + '\n\n' if bef else '') + T + ('\n\n' + esc_all(t2) if aft else '')
            exp4 = ('<p>' + esc_cdata(t1) + '</p>\n' if bef else '') + T + ('\n\n<p>' + esc_cdata(t2) + '</p>' if aft else '')
            bump('thm:text_end_to_end_anywhere')
            real = markdown.markdown(doc4)
            if real != exp4:
                bad.append({'op': 'theorem-instance C04_text_end_to_end_anywhere', 'input': doc4, 'model': exp4, 'impl': real})
    return bad


def enc_events(evs):
    return '|'.join(CE.enc_event(e) for e in evs)


def kind_of(src, real_events):
    if '<' not in src: return 'lt_free'
    ks = set(e[0] for e in real_events)
    if 'S' in ks and 'E' in ks: return 'elements'
    if 'M' in ks: return 'empty_only'
    return 'other'


def run(driver, rng, n):
    import mirror_htmltok as MT
    dis = []; seen = set(); dist = {}; samples = []; cases = 0

    def bump(k, d=1): dist[k] = dist.get(k, 0) + d

    docs = []
    for src in list(FIXED) + [gen_doc(rng) for _ in range(max(0, n - len(FIXED)))]:
        if lean_ok(src) and src not in seen:
            seen.add(src); docs.append(src)
    reqs = []
    for src in docs:
        reqs.append(('htmltok.events', enc_str(src))); reqs.append(('htmltok.extract', enc_str(src))); reqs.append(('htmltok.lex', enc_str(src)))
    ans = driver.ask_many(reqs)
    pre_md = markdown.Markdown()
    for k, src in enumerate(docs):
        a_ev, a_ex, a_lex = ans[3 * k], ans[3 * k + 1], ans[3 * k + 2]
        cases += 1
        # the real thing: (1) recorded events, (2) the preprocessor itself on a fresh stash
        try:
            p, md = CE.record(src)
            real_events = p.events
        except AssertionError:
            real_events = None                                  # never: the repaired tree does not assert any more
        pre_md.reset()
        try:
            real_lines = HtmlBlockPreprocessor(pre_md).run(src.split('\n'))
            real_stash = [str(x) for x in pre_md.htmlStash.rawHtmlBlocks]
        except AssertionError:
            real_lines = None
        mir = MT.events(src)
        if (a_ev == 'ood') != (a_ex == 'ood'):
            dis.append({'op': 'htmltok.ood-consistency', 'input': src, 'model': [a_ev[:40], a_ex[:40]], 'impl': None})
        if (mir is MT.OOD) != (a_ev == 'ood'):
            dis.append({'op': 'htmltok.mirror-domain', 'input': src, 'model': a_ev[:80], 'impl': 'mirror ' + ('ood' if mir is MT.OOD else 'in domain')})
        if a_lex == '1':
            bump('lex_accepts')
            if '<' in src: bump('lex_accepts_with_lt')
            if a_ev == 'ood':             # C04_text_domain_lex: never
                dis.append({'op': 'htmltok.lex-implies-domain', 'input': src, 'model': 'lex=1, events=ood', 'impl': None})
        if a_ev == 'ood':
            bump('ood'); bump('ood:' + (kind_of(src, real_events) if real_events is not None else 'assert'))
            continue
        bump('in_domain'); bump('in_domain:' + kind_of(src, real_events or []))
        if real_events is None or real_lines is None:
            dis.append({'op': 'htmltok.events', 'input': src, 'model': a_ev[:200], 'impl': 'AssertionError'}); continue
        impl_ev = enc_events(real_events)
        if a_ev != impl_ev:
            dis.append({'op': 'htmltok.events', 'input': src, 'model': a_ev.split('|'), 'impl': impl_ev.split('|')})
        impl_ex = enc_list(real_lines) + '|' + enc_list(real_stash)
        if a_ex != impl_ex:
            try:
                l, s = a_ex.split('|'); model = {'lines': dec_list(l), 'stash': dec_list(s)}
            except Exception:
                model = a_ex
            dis.append({'op': 'htmltok.extract', 'input': src, 'model': model, 'impl': {'lines': real_lines, 'stash': real_stash}})
        if mir is not MT.OOD and (mir[0] != real_events or ''.join(mir[1].cleandoc).split('\n') != real_lines or mir[1].stash != real_stash):
            dis.append({'op': 'mirror', 'input': src, 'model': mir[0], 'impl': real_events})
        # distribution
        for e, kind in zip(real_events, p.kinds):
            bump('ev:' + kind)
            if e[0] == 'S':
                if e[3] and e[4]: bump('start:block_at_line_start')
                if ' ' in e[2] or '\n' in e[2]: bump('start:with_attrs')
                if '"' in e[2]: bump('start:dq_value')
                if "'" in e[2]: bump('start:sq_value')
            if e[0] == 'D' and e[1][:1] == '<' and len(e[1]) > 2: bump('start:junk_as_data')
            if e[0] == 'M' and e[2] and e[3]: bump('empty:block_at_line_start')
            if e[0] in 'SEM' and e[-1]: bump('blank_follows')
            if e[0] in 'SM' and e[3] and not src.startswith(e[2 if e[0] == 'S' else 1]) and p.kinds: bump('at_line_start_true')
        if len(real_stash) >= 1: bump('docs_with_stash')
        if len(real_stash) >= 2: bump('docs_with_2+_stash')
        if any(len(x) > 40 and '\n\n' in x for x in real_stash): bump('stash_with_blank_line_inside')
        go1 = MT.go1(src)
        if go1 is not MT.OOD and go1[2]: bump('second_phase_lt_free')
        if len(samples) < 3 and len(real_stash) >= 1 and len(real_events) >= 6:
            samples.append({'source': src, 'events': [list(map(str, e)) for e in real_events], 'lines': real_lines, 'stash': real_stash})
    dis += theorem_instances(rng, max(20, n // 10), bump)
    return {'cases': cases, 'distinct': len(seen), 'disagreements': dis, 'samples': samples, 'dist': dist}


if __name__ == '__main__':
    import random, json
    from proto import Driver
    n = int(sys.argv[1]) if len(sys.argv) > 1 else 2000
    seed = int(sys.argv[2]) if len(sys.argv) > 2 else 1
    d = Driver()
    r = run(d, random.Random(seed), n)
    d.close()
    print(json.dumps({'cases': r['cases'], 'distinct': r['distinct'], 'n_disagreements': len(r['disagreements']), 'dist': r['dist']}, indent=1, sort_keys=True))
    for x in r['disagreements'][:5]: print(json.dumps(x, default=str)[:3000])
