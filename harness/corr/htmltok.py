"""Correspondence for C04 at TEXT level: the tokenizer model `Model/HtmlTok.lean` (driver op `htmltok.events`) and the composed
preprocessor model `Model/ExtractText.lean` (`htmltok.extract`) versus the real `HTMLExtractor` / `HtmlBlockPreprocessor.run`.

For every generated text
  * the real extractor runs with the event recorder of `corr/extract.py` (`feed(src); close()`),
  * the model's event list is compared, event by event and fact by fact, with the recorded one,
  * the model's preprocessor output (lines + stash) is compared with `HtmlBlockPreprocessor.run(src.split('\\n'))` on a
    fresh `Markdown` instance.
The model may answer `ood` (outside `TokDomain`); such cases are counted (`dist['ood']`), never compared.  An `ood` answer is
never a disagreement, any other answer that differs is.  The regex-free Python mirror `mirror/mirror_htmltok.py` (the
Lean model is its transliteration) is compared on the same inputs (`mirror` disagreements)."""
import os, sys
import markdown
from markdown.preprocessors import HtmlBlockPreprocessor
from proto import enc_str, enc_list, dec_str, dec_list, enc_bool, lean_ok
from corr import extract as CE
from gen import rawhtml

sys.path.insert(0, os.path.join(os.path.dirname(os.path.abspath(__file__)), '..', 'mirror'))

STX, ETX = '\x02', '\x03'

# ------------------------------------------------------------------ generators
WORDS = ['foo', 'bar baz', '*x*', '**b**', '# h', '- li', '1. one', '`c`', '[l](u)', '> q', '    code', 'é ß', 'a & b', 'a &amp; b', '&#65;', '&#x41;',
         '&copy;', 'x &lt; y', '1 > 0', 'a\nb', 'AT&T', '&#38x', '&#12', '&amp', 'q;', '&#x;', '&&', '& ', '&-;', '&a.b-c;', '&#00065;', '&#xZ;', 'Σ', 'K']
TAGN = ['div', 'p', 'span', 'b', 'a', 'table', 'pre', 'DIV', 'Span', 'h1', 'x-y', 'a:b', 'hr', 'br', 'img', 'section', 'ul', 'li', 'em', 'code', 'script', 'style',
        'blockquote', 'd1v', 'div.x', 'divé', 'dΣv', 'k', 'textarea']
ANAME = ['class', 'id', 'data-x', 'a:b', 'on_click', 'hidden', 'X', '=', '==', '"', "'", '`', 'a`b', '<', '&', 'é', 'a"b', ',', 'a,']
AVAL = ['x', 'a b', 'c-1', '*x*', '1 < 2', 'a > b', 'x&amp;y', 'é', '`c`', "it's", 'say "hi"', '', 'x\ny', 'x\n\ny', '/p?q=1&r=2', 'a=b', '/', 'a/b', '>', '<div>', '</div>',
        ',', 'a,b']
WS = ['', ' ', ' ', ' ', '  ', '\n', '\t', ' \n ', '\x0b', '\xa0', '\x85', '/', ' /', '/ ', ' / ']


def attr_soup(rng):
    n = rng.choice(ANAME)
    k = rng.random()
    if k < 0.2: return n
    v = rng.choice(AVAL)
    eq = rng.choice(['=', '=', '=', ' = ', '= ', ' =', '==', '=\n'])
    if k < 0.4:
        bare = v if rng.random() < 0.3 else (''.join(ch for ch in v if ch not in ' \n"\'`=<>&') or 'v')
        return n + eq + bare
    if k < 0.7: return n + eq + '"' + (v if rng.random() < 0.15 else v.replace('"', '')) + '"' + rng.choice(['', '', '', ',', ' ,', ',,'])
    if k < 0.95: return n + eq + "'" + (v if rng.random() < 0.15 else v.replace("'", '')) + "'" + rng.choice(['', '', '', ','])
    return n + eq + rng.choice(['"', "'"]) + v                     # unclosed quote


def start_tag_soup(rng):
    s = '<' + rng.choice(TAGN)
    for _ in range(rng.choice([0, 0, 1, 1, 2, 3])):
        s += rng.choice(WS[1:] if rng.random() < 0.9 else WS) + attr_soup(rng)
    s += rng.choice(WS) + rng.choice(['>', '>', '>', '>', '/>', ' />', '', '/', '`>', '\x00>'])
    return s


def end_tag_soup(rng):
    return '</' + rng.choice(['', '', '', ' ', '\n']) + rng.choice(TAGN) + rng.choice(['', '', '', ' ', '\n', ' x', ' a="b"', '/', ' /']) + rng.choice(['>', '>', '>', '>', ''])


def misc_soup(rng):
    return rng.choice(CE.COMMENTS + CE.PIS + CE.DECLS + CE.STRAY + ['<!-- a --  >', '<!-- a --\n>', '<!--x--->', '<!---->', '<!DOCTYPE a\nb>', '<!doctype>', '<!DOCTYPEx>',
                                                                      '<!KDOCTYPE>', '<?a?b?>', '<??>', '<?>', '<!->', '</>', '</ >', '</1>', '</é>', '<é>', '<>', '< >'])


def piece_soup(rng):
    k = rng.random()
    if k < 0.3: return rng.choice(WORDS)
    if k < 0.6: return start_tag_soup(rng)
    if k < 0.8: return end_tag_soup(rng)
    return misc_soup(rng)


def gen_soup(rng):
    """sequences of (possibly odd) tags, references and words with every kind of separator"""
    s = ''
    for _ in range(rng.randint(1, 7)):
        s += piece_soup(rng) + rng.choice(['', '', ' ', ' ', '\n', '\n', '\n\n', '\n\n', '\n   ', '\n ', ' \n\n'])
    return s


def gen_wellformed(rng):
    """paragraphs and raw blocks of grammar 4.3 (gen/rawhtml.py), separated by blank lines (mostly)"""
    s = ''
    for _ in range(rng.randint(1, 4)):
        k = rng.random()
        if k < 0.5:
            piece = ' ' * rng.choice([0, 0, 0, 1, 2, 3, 4]) + rawhtml.raw_block(rng)[1] + rng.choice(['', '', '', ' ', ' tail', ' &amp; t'])
        elif k < 0.65:
            piece = rng.choice(WORDS) + ' ' + rawhtml.inline_elem(rng) + ' ' + rng.choice(WORDS)
        else:
            piece = rng.choice(WORDS) + rng.choice(['', ' ' + rng.choice(WORDS), '\n' + rng.choice(WORDS)])
        s += piece + rng.choice(['\n\n', '\n\n', '\n\n', '\n', '\n\n\n', '\n \n'])
    return s


FUZZ = [' ', ' ', '/', '=', '=', '"', "'", '`', '>', 'a', 'b', ',', '\n', '<', '&', ';', '#', '1', '-', '!', '?', '\x0b', '\x00', '\t', 'é']


def gen_tagfuzz(rng):
    """random character sequences right after `<a` / `</a` / `<!` / `<?` / `&`: stresses the regex recognisers"""
    s = rng.choice(['', 'x ', 'p\n', '  ', '\n'])
    for _ in range(rng.randint(1, 3)):
        s += rng.choice(['<a', '<a', '<a', '<div', '</a', '</', '<!', '<?', '<!--', '&', '&#', '<!doctype', '<a b', '<a b=', '<a b="c"', "<a b='c'"])
        s += ''.join(rng.choice(FUZZ) for _ in range(rng.randint(0, 9)))
        s += rng.choice(['>', '>', '/>', '', ';', '?>', '-->', ' >'])
        s += rng.choice(['', ' ', 'x', '\n', '\n\n'])
    return s


def normalise(s):
    import re
    s = s.replace(STX, '').replace(ETX, '').replace('\r\n', '\n').replace('\r', '\n') + '\n\n'
    s = s.expandtabs(4)
    return re.sub(r'(?<![^\n]) +\n', '\n', s)


def gen_doc(rng):
    k = rng.random()
    if k < 0.30: s = gen_wellformed(rng)
    elif k < 0.55: s = gen_soup(rng)
    elif k < 0.70: s = gen_tagfuzz(rng)
    else: return CE.gen_doc(rng)
    return normalise(s) if rng.random() < 0.85 else s


# ------------------------------------------------------------------ fixed cases (every construct of the fragment; the known defects as OOD or reproduced)
FIXED = [
    'p1\n\n<div class="a" id=\'b\' c=d hidden>\n*x*\n\n<p>y &amp; z</p>\n</div>\n\np2\n\n', '<div>x</div>\n\n', 'a <b>x</b> &amp; c &#65; &#x41; d\n\n',
    '<!-- c -->\n\n', '<!-- c --  >\n\n', '<?php echo 1; ?>\n\ntext\n\n', 'x <?php ?> y\n\n', '<!DOCTYPE html>\n\n', 'x <!DOCTYPE html>\n\n', '<!x>\n\n', '<hr>\n\n', '<hr />\n\np\n\n',
    '<br />\n\n', 'a<br/>b\n\n', '<div/>\n\n', '</>\n\n', '</ x>\n\n', '</1>\n\n', '</div x="1">\n\n', '<div`x>\n\n', '<a b=`c`>\n\n', '<a b="1",c>\n\n', '<a b="1", c>\n\n', '< div>\n\n',
    '<div>\n\n</div> tail\nmore\n\n<p>q</p>\n\n', '   <div>x</div>\n\n', '    <div>x</div>\n\n', 'para\n  <div>x</div>\n\n', '<div\nclass="x">y</div>\n\n',
    'a <span title="a > b">c</span>\n\n', '<div>x</div> &amp; foo\n\n<div>y</div>\n\n', 'a &# b\n\n', 'a &# b;\n\n', 'a &# b;\n\n<div>*x*</div>\n\n', 'AT&T\n\n', 'x &', '&', '&#', '&#;',
    '<div', '<', 'x <', '<div>\n<!-- </div> -->\n</div>\n\n', '<script>\n1 < 2\n</script>\n\n', 'a <script>x</script> b\n\n', '<![CDATA[ x ]]>\n\n', 'x <![CDATA[ x ]]>\n\n',
    '<div a="x>\n\n', '<dΣv>\n\n', '<DIV>x</DIV>\n\n', '<p>a<br>b</p>\n\n', '', '\n\n', '<div>', '<div></div>', '<div></div>\n', '<div></div>\n \n',
]


def enc_events(evs):
    return '|'.join(CE.enc_event(e) for e in evs)


def kind_of(src, real_events):
    if '<' not in src: return 'lt_free'
    ks = set(e[0] for e in real_events)
    if 'S' in ks and 'E' in ks: return 'elements'
    if 'M' in ks: return 'empty_only'
    return 'other'


def run(driver, rng, n):
    import mirror_htmltok as MT
    dis = []; seen = set(); dist = {}; samples = []; cases = 0

    def bump(k, d=1): dist[k] = dist.get(k, 0) + d

    docs = []
    for src in list(FIXED) + [gen_doc(rng) for _ in range(max(0, n - len(FIXED)))]:
        if lean_ok(src) and src not in seen:
            seen.add(src); docs.append(src)
    reqs = []
    for src in docs:
        reqs.append(('htmltok.events', enc_str(src))); reqs.append(('htmltok.extract', enc_str(src)))
    ans = driver.ask_many(reqs)
    pre_md = markdown.Markdown()
    for k, src in enumerate(docs):
        a_ev, a_ex = ans[2 * k], ans[2 * k + 1]
        cases += 1
        # the real thing: (1) recorded events, (2) the preprocessor itself on a fresh stash
        try:
            p, md = CE.record(src)
            real_events = p.events
        except AssertionError:
            real_events = None                                  # never: the repaired tree does not assert any more
        pre_md.reset()
        try:
            real_lines = HtmlBlockPreprocessor(pre_md).run(src.split('\n'))
            real_stash = [str(x) for x in pre_md.htmlStash.rawHtmlBlocks]
        except AssertionError:
            real_lines = None
        mir = MT.events(src)
        if (a_ev == 'ood') != (a_ex == 'ood'):
            dis.append({'op': 'htmltok.ood-consistency', 'input': src, 'model': [a_ev[:40], a_ex[:40]], 'impl': None})
        if (mir is MT.OOD) != (a_ev == 'ood'):
            dis.append({'op': 'htmltok.mirror-domain', 'input': src, 'model': a_ev[:80], 'impl': 'mirror ' + ('ood' if mir is MT.OOD else 'in domain')})
        if a_ev == 'ood':
            bump('ood'); bump('ood:' + (kind_of(src, real_events) if real_events is not None else 'assert'))
            continue
        bump('in_domain'); bump('in_domain:' + kind_of(src, real_events or []))
        if real_events is None or real_lines is None:
            dis.append({'op': 'htmltok.events', 'input': src, 'model': a_ev[:200], 'impl': 'AssertionError'}); continue
        impl_ev = enc_events(real_events)
        if a_ev != impl_ev:
            dis.append({'op': 'htmltok.events', 'input': src, 'model': a_ev.split('|'), 'impl': impl_ev.split('|')})
        impl_ex = enc_list(real_lines) + '|' + enc_list(real_stash)
        if a_ex != impl_ex:
            try:
                l, s = a_ex.split('|'); model = {'lines': dec_list(l), 'stash': dec_list(s)}
            except Exception:
                model = a_ex
            dis.append({'op': 'htmltok.extract', 'input': src, 'model': model, 'impl': {'lines': real_lines, 'stash': real_stash}})
        if mir is not MT.OOD and (mir[0] != real_events or ''.join(mir[1].cleandoc).split('\n') != real_lines or mir[1].stash != real_stash):
            dis.append({'op': 'mirror', 'input': src, 'model': mir[0], 'impl': real_events})
        # distribution
        for e, kind in zip(real_events, p.kinds):
            bump('ev:' + kind)
            if e[0] == 'S':
                if e[3] and e[4]: bump('start:block_at_line_start')
                if ' ' in e[2] or '\n' in e[2]: bump('start:with_attrs')
                if '"' in e[2]: bump('start:dq_value')
                if "'" in e[2]: bump('start:sq_value')
            if e[0] == 'D' and e[1][:1] == '<' and len(e[1]) > 2: bump('start:junk_as_data')
            if e[0] == 'M' and e[2] and e[3]: bump('empty:block_at_line_start')
            if e[0] in 'SEM' and e[-1]: bump('blank_follows')
            if e[0] in 'SM' and e[3] and not src.startswith(e[2 if e[0] == 'S' else 1]) and p.kinds: bump('at_line_start_true')
        if len(real_stash) >= 1: bump('docs_with_stash')
        if len(real_stash) >= 2: bump('docs_with_2+_stash')
        if any(len(x) > 40 and '\n\n' in x for x in real_stash): bump('stash_with_blank_line_inside')
        go1 = MT.go1(src)
        if go1 is not MT.OOD and go1[2]: bump('second_phase_lt_free')
        if len(samples) < 3 and len(real_stash) >= 1 and len(real_events) >= 6:
            samples.append({'source': src, 'events': [list(map(str, e)) for e in real_events], 'lines': real_lines, 'stash': real_stash})
    return {'cases': cases, 'distinct': len(seen), 'disagreements': dis, 'samples': samples, 'dist': dist}


if __name__ == '__main__':
    import random, json
    from proto import Driver
    n = int(sys.argv[1]) if len(sys.argv) > 1 else 2000
    seed = int(sys.argv[2]) if len(sys.argv) > 2 else 1
    d = Driver()
    r = run(d, random.Random(seed), n)
    d.close()
    print(json.dumps({'cases': r['cases'], 'distinct': r['distinct'], 'n_disagreements': len(r['disagreements']), 'dist': r['dist']}, indent=1, sort_keys=True))
    for x in r['disagreements'][:5]: print(json.dumps(x, default=str)[:3000])
