"""C06X exploration: which extension flag sets conserve the letters plainly (real implementation).
usage: c06x_fuzz.py <ext,ext,...> <n> [seed]"""
import sys, os, random
sys.path.insert(0, os.path.join(os.path.dirname(__file__), '..'))
import markdown, htmlread
from gen import c06_docs as D

EXT = sys.argv[1].split(',') if sys.argv[1] else []
N = int(sys.argv[2]); SEED = int(sys.argv[3]) if len(sys.argv) > 3 else 1
FORB = os.environ.get('FORB', '<&[]')


def letters(s): return ''.join(c for c in s if c.isalpha())


def xline(rng, W):
    r = rng.random()
    w = lambda: W()
    if r < 0.25:   # def list
        return rng.choice([':   ', ':   ', ': ', ':  ', ':', '   :   ', '    :   ', ' : ']) + D.inline(rng, W).replace('\n', ' ')
    if r < 0.45:   # admonition
        cls = ' '.join(w() for _ in range(rng.randint(1, 2)))
        t = rng.choice(['', '', ' "%s"' % w(), ' "%s %s"' % (w(), w()), ' ""', ' "%s' % w(), ' "%s" %s' % (w(), w()), '  "%s"  ' % w(), '"%s"' % w()])
        return rng.choice(['!!! ', '!!!', '!!!  ', ' !!! ', '!!!! ']) + cls + t
    if r < 0.75:   # table rows
        k = rng.randint(1, 4)
        if rng.random() < 0.4:
            cells = [rng.choice(['---', ':--', '--:', ':-:', '-', ' --- ', '-- -']) for _ in range(k)]
        else:
            cells = [rng.choice([w(), w() + ' ' + w(), '*%s*' % w(), '`%s`' % w(), '', ' ', '`%s | %s`' % (w(), w()), w() + '\\|' + w()]) for _ in range(k)]
        s = rng.choice([' | ', '|', ' |', '| ']).join(cells)
        if rng.random() < 0.5: s = '|' + s
        if rng.random() < 0.5: s = s + '|'
        return s
    if r < 0.85:
        return rng.choice(['    ', '        ', '  ', '   ']) + D.inline(rng, W).replace('\n', ' ')
    return D.inline(rng, W).replace('\n', ' ')


def xdoc(rng, W):
    out = []
    for _ in range(rng.randint(1, 8)):
        r = rng.random()
        if r < 0.6:
            ln = xline(rng, W)
        elif r < 0.8:
            ln = D.block(rng, W, 2)
        else:
            ln = rng.choice(['- ', '1. ', '> ', '* ', '2. ', '+ ', '# ', '    - ', '    ']) + xline(rng, W)
        out.append(ln)
        out.append(rng.choice(['\n', '\n', '\n\n', '\n\n', '\n    \n']))
    return ''.join(out[:-1])


def main():
    rng = random.Random(SEED)
    md = markdown.Markdown(extensions=EXT)
    cases = viol = exc = unread = 0
    shown = 0
    tags = {}
    vs = []
    for i in range(N):
        W = D.Words(rng)
        text = xdoc(rng, W) if rng.random() < 0.7 else D.gen(rng)[1]
        if any(c in text for c in FORB): continue
        cases += 1
        try:
            md.reset(); out = md.convert(text)
        except Exception as e:
            exc += 1; md = markdown.Markdown(extensions=EXT); continue
        try:
            f = htmlread.forest(out)
        except htmlread.NotWellFormed:
            unread += 1; continue
        for t in ('dl', 'dt', 'dd', 'table', 'admonition', 'br', 'ul', 'ol', 'start='):
            if t in out: tags[t] = tags.get(t, 0) + 1
        a = letters(text); b = letters(htmlread.text_content(f))
        if a != b:
            viol += 1
            vs.append((text, out, a, b))
    vs.sort(key=lambda v: len(v[0]))
    for text, out, a, b in vs[:int(os.environ.get('SHOW', '8'))]:
        print('---'); print(repr(text)); print(repr(out)); print(a); print(b)
    print('ext', EXT, 'cases', cases, 'viol', viol, 'exc', exc, 'unread', unread, tags)


main()
