"""Statement test for `C04_text_end_to_end_many` (Props/C04Many.lean): documents `[A0 ¶] R1 ¶ [A1 ¶] R2 ¶ … Rn [¶ An]`
(A_i flat Markdown or absent -- absent between two raw items = the raw items are adjacent; R_i raw HTML items that
satisfy the hypotheses of the theorem, checked by the Lean predicates through corr/c04many_hyp.lean, run with `lake env lean --run`) against
   [out(A0) "\n"] R1 "\n\n" [out(A1) "\n"] R2 … Rn ["\n\n" out(An)]
on the real implementation and on the model (`converth`)."""
import os, random, subprocess, sys
sys.path.insert(0, os.path.dirname(os.path.dirname(os.path.abspath(__file__))))
import markdown
import proto
from gen import rawhtml

WORDS = ['alpha', 'beta', 'Gamma', 'x1', 'two words', 'a b c', 'It is', 'né', '2 > 1', 'q "r"']
ESC = ['\\*', '\\_', '\\#', '\\`', '\\[', '\\]', '\\\\', '\\>', '\\-', '\\+', '\\!', '\\.']


def text(rng):
    out = rng.choice(WORDS)
    for _ in range(rng.choice([0, 0, 1, 2])):
        out += rng.choice([' ', ' ', '']) + rng.choice(ESC) + rng.choice([' ', '']) + rng.choice(WORDS)
    return out


def flat_block(rng):
    k = rng.random()
    if k < 0.45: return ' ' * rng.choice([0, 0, 0, 1, 2, 3]) + text(rng)
    if k < 0.6: return '#' * rng.randint(1, 6) + ' ' + text(rng) + rng.choice(['', '', ' #', ' ##'])
    if k < 0.75: return text(rng) + '\n' + rng.choice(['===', '---', '=', '-----'])
    return rng.choice(['---', '***', '___', '* * *', '- - -', ' ***', '_ _ _ _'])


def flat_doc(rng):
    return '\n\n'.join(flat_block(rng) for _ in range(rng.choice([1, 1, 2, 3])))


def simple_block(rng):
    tag = rng.choice(rawhtml.BLOCK_TAGS)
    body = rng.choice(['x', '*x*', '\n# h\n\n- li\n', '<b>t</b>', '&amp; y', '<!-- c -->z', '\n<p>\ninner\n\n</p>\n', '', '<br>x', 'a <img src="s" /> b',
                       '</span>', '\n\n*md*\n\n'])
    return rawhtml.start_tag(rng, tag) + body + '</' + tag + '>'


def raw_item(rng):
    k = rng.random()
    if k < 0.35: return 'b', simple_block(rng)
    if k < 0.6:
        kind, t = rawhtml.raw_block(rng)
        return ('b' if kind == 'elem' else 'u'), t
    if k < 0.7: return 'u', rawhtml.comment(rng)
    if k < 0.8: return 'u', rawhtml.pi(rng)
    if k < 0.87: return 'u', rawhtml.decl(rng)
    return 'u', rawhtml.void(rng)


def check_hyps(items):
    here = os.path.dirname(os.path.dirname(os.path.dirname(os.path.abspath(__file__))))
    data = ''.join(k + '\t' + proto.enc_str(t) + '\n' for k, t in items)
    r = subprocess.run(['lake', 'env', 'lean', '--run', os.path.join(here, 'harness', 'corr', 'c04many_hyp.lean')], input=data, text=True,
                       capture_output=True, cwd=os.path.join(here, 'lean'))
    out = [l for l in r.stdout.split('\n') if l in ('R0', 'R1', 'R?')]
    assert len(out) == len(items), r.stderr[-2000:]
    return [o == 'R1' for o in out]


def main(n, seed):
    rng = random.Random(seed)
    pool = []
    while len(pool) < 4 * n:
        k, t = raw_item(rng)
        if proto.lean_ok(t) and all(ord(c) < 0x110000 for c in t): pool.append((k, t))
    pool = list(dict.fromkeys(pool))
    ok = check_hyps(pool)
    good = [p for p, o in zip(pool, ok) if o]
    print('raw items: %d distinct generated, %d satisfy the hypotheses (blocks %d, units %d)' % (
        len(pool), len(good), sum(1 for k, _ in good if k == 'b'), sum(1 for k, _ in good if k == 'u')))
    md = markdown.Markdown()
    d = proto.Driver()
    docs = []
    for _ in range(n):
        m = rng.choice([1, 2, 2, 2, 3, 3, 4, 5])
        raws = [rng.choice(good)[1] for _ in range(m)]
        A = [flat_doc(rng) if rng.random() < (0.6 if 0 < i < m else 0.7) else None for i in range(m + 1)]
        src = '' if A[0] is None else A[0] + '\n\n'
        exp = '' if A[0] is None else md.reset().convert(A[0]) + '\n'
        for i, r in enumerate(raws):
            last = i == m - 1
            a = A[i + 1]
            if last:
                src += r + ('' if a is None else '\n\n' + a)
                exp += r + ('' if a is None else '\n\n' + md.reset().convert(a))
            else:
                src += r + '\n\n' + ('' if a is None else a + '\n\n')
                exp += r + '\n\n' + ('' if a is None else md.reset().convert(a) + '\n')
        docs.append((src, exp, m, sum(1 for i in range(1, m) if A[i] is None)))
    ans = d.ask_many([('converth', '4', 'xhtml', proto.enc_str(s)) for s, _, _, _ in docs])
    bad_real = bad_model = 0
    stats = {}
    for (src, exp, m, adj), a in zip(docs, ans):
        real = md.reset().convert(src)
        stats[m] = stats.get(m, 0) + 1
        if real != exp:
            bad_real += 1
            if bad_real <= 5: print('REAL differs:\n src=%r\n exp=%r\n got=%r' % (src, exp, real))
        model = proto.dec_str(a[3:]) if a.startswith('ok ') else a
        if model != exp:
            bad_model += 1
            if bad_model <= 5: print('MODEL differs:\n src=%r\n exp=%r\n got=%r' % (src, exp, model))
    print('documents: %d (by number of raw items: %s; with adjacent raw items: %d); real != formula: %d; model != formula: %d' % (
        len(docs), sorted(stats.items()), sum(1 for x in docs if x[3]), bad_real, bad_model))


if __name__ == '__main__':
    main(int(sys.argv[1]) if len(sys.argv) > 1 else 6000, int(sys.argv[2]) if len(sys.argv) > 2 else 1)
