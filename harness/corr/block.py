"""Correspondence of the Lean block-parser / extractor model (ops of lean/Driver/BlockOps.lean) with the
implementation in /repo.

run(driver, rng, n) ->
  {'cases', 'distinct', 'disagreements': [{op, input, model, impl}], 'samples', 'dist'}

 (a) `blocks`   n random '<'/'&'-free documents (token soup, fragments of tests/basic and tests/misc, fixed
                deep-nesting families), tab_length 4 mostly, also 2 and 8: the model's tree and references
                against `md.parser.parseDocument` / `md.references`;
 (b) `re.*`, `detab`, `loosedetab`, `getitems`   against the compiled regex objects / methods of the processors,
                on random strings over each regex's own alphabet;
 (c) `extract`  against `HtmlBlockPreprocessor.run` on '<'-free soups rich in ampersand shapes.
"""
from __future__ import annotations
import glob, os, sys

sys.path.insert(0, os.path.dirname(os.path.dirname(os.path.abspath(__file__))))
import proto  # noqa: E402

import markdown  # noqa: E402
from markdown import blockprocessors as bp  # noqa: E402
from markdown.preprocessors import HtmlBlockPreprocessor  # noqa: E402

TOKS = ['a', 'b', 'cd', ' ', ' ', '\n', '\n', '\n\n', '*', '_', '`', '\\', '!', '>', '> ', '>  ', '#', '# ', '## ',
        '-', '- ', '+ ', '* ', '1. ', '12. ', '2.', '    ', '  ', '   ', '        ', '---', '***', '* * *', '===', '=',
        '-\n', '.', ':', '[a]: /u', '[b]:\n /u "t"', ' "t"', '(t)', '[', ']', '\t', '  \n', 'é', '٣. ',
        # more nesting, more blank shapes, non-ASCII space / digit classes
        '\n    ', '\n        ', '    - ', '        * ', '    1. ', '> > ', '>\n', '\n>', '#\n', ' #', '\\#', '""',
        "'t'", '()', '[É]: /u', '[a]:\n/v (t)', '[a]: u> ','\x0b', '\x0c', '\xa0', ' ', '\x1c', '²', '１. ',
        'A', 'É', ' \n', '\n \n', '      ', '_ _ _', '- - -', '-- -']

FAMILIES = [
    '> ' * 40 + 'x',
    '>' * 40 + ' x\n' + '>' * 20 + ' y',
    '\n\n'.join(' ' * (4 * i) + '- i%d' % i for i in range(30)),
    '\n'.join(' ' * (4 * i) + '- i%d' % i for i in range(30)),
    '\n\n'.join(' ' * (4 * i) + '%d. i' % i for i in range(30)),
    '- x\n\n        code',                     # F-C01-2
    '- a\n\n    > q\n\n        c\n- b',
    '* # H\nline',
    '1. a\n\n    # h\n    t\n\n2. b',
    '> - a\n>\n>     b\n> - c\n\npara\n    code\n\n\n    more',
    '[a]: /u ""\n[b]: /v ()\n[C D]:\n   <w>\n   \'t\'',
    '    c1\n\n\n    c2\nrest\n===\nx',
    '- a\n- b\n\n- c\n    - d\n\n        e',
    '- x\n\n    para',
    '    \nfoo', '  \n===',                      # F-C09-1: a whitespace-only first line is not emptied
    '* * subitem1\n    * subitem2',            # the `parent.tag in ['ol', 'ul']` edge of OListProcessor.run
    '[É]: /u\n[é]: /v (T)\n\n[A  B]:\n    x> \'q\'  \nrest',
]

RX_ALPH = {
    'listitem': ['1', '23', '.', ' ', '  ', '    ', '*', '+', '-', 'a', '٣', '²', '\n', '1. ', '- ', '       '],
    'hr': ['-', '*', '_', ' ', '  ', '\n', 'a', '---', '* ', '   ', '    '],
    'hash': ['#', '##', '\\', 'a', ' ', '\n', '#\n', '\\#', '######', '\\\n'],
    'setext': ['=', '-', ' ', '\n', 'a', '==', '--', '=-', '\n='],
    'quote': ['>', ' ', '  ', '   ', '\n', 'a', '> ', '>  ', '\x0b', '\xa0'],
    'ref': ['[', ']', ':', ' ', '  ', '\n', 'a', 'b', '"', "'", '(', ')', '[a]:', '[a]: ', '/u', ' "t"', 'x>', '>', '\t',
            '\xa0', '\x0b', '""', '()', '    ', 'É'],
    'detab': [' ', '  ', '    ', '        ', '\n', 'a', '\x0b', '\xa0', '\n\n', ' a'],
}
AMP_TOKS = ['&', '&a', '&a;', '&#1', '&#1;', '&#x', '&#x1f', '&#x1f;', '&#X1F;', '&#', ';', ' ', 'a', 'g', 'x', '#', '1',
            'f', '\n', '&amp;', '&lt;', '&a-b.c;', '&1;', '&ſ;', '&#12a', '&#xg', '&#x1g;', '&&', 'é', 'X', '&#9', '&ab']


def _soup(rng, toks, lo, hi):
    return ''.join(rng.choice(toks) for _ in range(rng.randint(lo, hi)))


def _structured(rng):
    """lines = indentation + marker + content, joined by single or double newlines: nested lists, quotes in lists,
    code in lists, headers in lists"""
    out = []
    for _ in range(rng.randint(1, 9)):
        ind = ' ' * rng.choice((0, 0, 0, 1, 2, 3, 4, 4, 4, 5, 6, 7, 8, 8, 9, 12, 16))
        mk = rng.choice(('- ', '* ', '+ ', '1. ', '2. ', '10.  ', '', '', '', '> ', '>', '# ', '## ', '---', '===', '-', '[r]: /u '))
        ct = rng.choice(('a', 'b c', '', 'x  ', '- y', '> z', '# h', '1. n', '    k', '"T"', '\\', '*e*'))
        out.append(ind + mk + ct)
        out.append(rng.choice(('\n', '\n', '\n\n', '\n\n', '\n\n\n', '\n \n')))
    return ''.join(out[:-1])


def _corpus():
    out = []
    for f in sorted(glob.glob('/repo/tests/basic/*.txt') + glob.glob('/repo/tests/misc/*.txt')):
        try:
            out.append(open(f, encoding='utf-8').read())
        except Exception:
            pass
    return out


def _depth(e):
    return 1 + max((_depth(c) for c in e), default=0)


def _tags(t, acc):
    acc.add(t.tag)
    for c in t.children:
        _tags(c, acc)


def _grp(x):
    return 'N' if x is None else 'S' + proto.enc_str(x)


class _Run:
    def __init__(self, driver):
        self.driver = driver
        self.cases = 0
        self.inputs = set()
        self.dis = []
        self.samples = []
        self.dist = {}

    def count(self, k, d=1):
        self.dist[k] = self.dist.get(k, 0) + d

    def check(self, reqs, expected, show):
        """reqs: request tuples; expected: canonical impl answers (or a callable answer -> (model, impl, equal))"""
        answers = self.driver.ask_many(reqs)
        for r, a, e, s in zip(reqs, answers, expected, show):
            self.cases += 1
            self.inputs.add(r)
            if callable(e):
                model, impl, ok = e(a)
            else:
                model, impl, ok = a, e, a == e
            if not ok:
                self.dis.append({'op': r[0], 'input': s, 'model': model, 'impl': impl})
            elif len(self.samples) < 40 and self.cases % 997 == 1:
                self.samples.append({'op': r[0], 'input': s, 'answer': a if len(a) < 200 else a[:200] + '…'})


# ------------------------------------------------------------------ (a) documents
def _docs(R, rng, n):
    corpus = _corpus()
    mds = {t: markdown.Markdown(tab_length=t) for t in (4, 2, 8, 3, 1)}
    todo = []
    i = 0
    attempts = 0
    fam = list(FAMILIES) + [c for c in corpus if '<' not in c and '&' not in c]      # also whole test files
    while len(todo) < n and attempts < 4 * n + 100:
        attempts += 1
        tab = 4
        if fam:
            src = fam.pop()
        elif i % 5 == 3:
            src = _structured(rng)
            tab = rng.choice((4, 4, 4, 2, 8, 3, 1))
        elif i % 5 == 4 and corpus:
            c = rng.choice(corpus)
            a = rng.randint(0, len(c))
            src = c[a:a + rng.randint(0, 160)]
        else:
            src = _soup(rng, TOKS, 1, 18)
            r = rng.random()
            if r < 0.12:
                tab = 2
            elif r < 0.24:
                tab = 8
        i += 1
        if '<' in src or '&' in src:
            R.count('skip:lt-or-amp'); continue
        if not proto.lean_ok(src):
            R.count('skip:surrogate'); continue
        if 'Σ' in src:
            R.count('skip:final-sigma'); continue
        md = mds[tab]
        md.reset()
        lines = md.preprocessors['normalize_whitespace'].run(src.split('\n'))
        try:
            root = md.parser.parseDocument(list(lines)).getroot()
        except RecursionError:
            md.parser.state.clear()
            R.count('skip:recursion'); continue
        if _depth(root) > 150:        # `nearing_recursion_limit` may have switched the blockquote processor off
            R.count('skip:deep'); continue
        refs = dict(md.references)
        todo.append((tab, src, '\n'.join(lines), proto.from_etree(root), refs))
    reqs = [('blocks', str(tab), proto.enc_str(text)) for tab, _, text, _, _ in todo]
    exp = []
    for tab, src, text, real, refs in todo:
        R.count('tab:%d' % tab)

        def cmp(a, real=real, refs=refs):
            impl = (real.key(keep_none=False), refs)
            if not a.startswith('ok '):
                if a == 'oof':
                    R.count('oof')
                return a, repr(impl), False
            tree, _, rf = a[3:].partition('|')
            mrefs = {}
            if rf:
                for triple in rf.split(';'):
                    k, u, t = triple.split('=')
                    mrefs[proto.dec_str(k)] = (proto.dec_str(u), proto.dec_opt(t))
            mt = proto.dec_tree(tree)
            model = (mt.key(keep_none=False), mrefs)
            tags = set(); _tags(mt, tags)
            for t in tags:
                R.count('tag:' + t)
            if mrefs:
                R.count('refs')
            return repr(model), repr(impl), model == impl
        exp.append(cmp)
    R.check(reqs, exp, [{'tab': tab, 'src': src} for tab, src, _, _, _ in todo])


# ------------------------------------------------------------------ (b) recognisers
def _recognisers(R, rng, n):
    mds = {t: markdown.Markdown(tab_length=t) for t in (4, 2, 8, 1)}
    ol = {t: bp.OListProcessor(m.parser) for t, m in mds.items()}
    ul = {t: bp.UListProcessor(m.parser) for t, m in mds.items()}
    base = {t: bp.BlockProcessor(m.parser) for t, m in mds.items()}
    bq = bp.BlockQuoteProcessor(mds[4].parser)
    reqs, exp, show = [], [], []

    def add(req, e, s):
        if all(proto.lean_ok(x) for x in s.values() if isinstance(x, str)):
            reqs.append(req); exp.append(e); show.append(s)

    for _ in range(n):
        # list items
        s = _soup(rng, RX_ALPH['listitem'], 0, 7)
        tab = rng.choice((4, 4, 2, 8, 1))
        for kind, rx in (('ol', ol[tab].RE), ('ul', ul[tab].RE), ('child', ol[tab].CHILD_RE), ('indent', ol[tab].INDENT_RE)):
            m = rx.match(s)
            if not m: e = 'none'
            elif kind == 'indent': e = '1'
            elif kind == 'child': e = _grp(m.group(1)) + ' ' + _grp(m.group(3))
            else: e = _grp(m.group(0)[:m.start(1)].strip(' ')) + ' ' + _grp(m.group(1))
            add(('re.listitem', str(tab), kind, proto.enc_str(s)), e, {'kind': kind, 'tab': tab, 's': s})
        # hr
        s = _soup(rng, RX_ALPH['hr'], 0, 9)
        m = bp.HRProcessor.SEARCH_RE.search(s)
        add(('re.hr', proto.enc_str(s)), '%d %d' % (m.start(), m.end()) if m else 'none', {'s': s})
        # hash
        s = _soup(rng, RX_ALPH['hash'], 0, 8)
        m = bp.HashHeaderProcessor.RE.search(s)
        add(('re.hash', proto.enc_str(s)),
            '%d %d %d %s' % (m.start(), m.end(), len(m.group('level')), _grp(m.group('header'))) if m else 'none', {'s': s})
        # setext
        s = _soup(rng, RX_ALPH['setext'], 0, 8)
        add(('re.setext', proto.enc_str(s)), '1' if bp.SetextHeaderProcessor.RE.match(s) else 'none', {'s': s})
        # quote
        s = _soup(rng, RX_ALPH['quote'], 0, 8)
        m = bp.BlockQuoteProcessor.RE.search(s)
        m2 = bp.BlockQuoteProcessor.RE.match(s)
        add(('re.quote', proto.enc_str(s)),
            '%s %s %s' % (m.start() if m else 'none', _grp(m2.group(2)) if m2 else 'N', _grp(bq.clean(s))), {'s': s})
        # reference
        s = _soup(rng, RX_ALPH['ref'], 1, 10)
        m = bp.ReferenceProcessor.RE.search(s)
        add(('re.ref', proto.enc_str(s)),
            '%d %d %s %s %s %s' % (m.start(), m.end(), _grp(m.group(1)), _grp(m.group(2)), _grp(m.group(5)), _grp(m.group(6)))
            if m else 'none', {'s': s})
        # detab / looseDetab / get_items
        s = _soup(rng, RX_ALPH['detab'], 0, 9)
        tab = rng.choice((4, 4, 2, 8))
        a, b = base[tab].detab(s)
        add(('detab', str(tab), proto.enc_str(s)), _grp(a) + ' ' + _grp(b), {'tab': tab, 's': s})
        lv = rng.choice((0, 1, 1, 2, 3))
        add(('loosedetab', str(tab), str(lv), proto.enc_str(s)), _grp(base[tab].looseDetab(s, lv)), {'tab': tab, 'level': lv, 's': s})
        s = _soup(rng, RX_ALPH['listitem'] + ['\n', '\n    ', 'x'], 1, 10)
        proc = ol[tab] if ol[tab].RE.match(s) else ul[tab] if ul[tab].RE.match(s) else None
        if proc is not None:
            add(('getitems', str(tab), proto.enc_str(s)), proto.enc_list(proc.get_items(s)), {'tab': tab, 's': s})
    R.check(reqs, exp, show)


# ------------------------------------------------------------------ (c) extract
def _extract(R, rng, n):
    md = markdown.Markdown()
    reqs, exp, show = [], [], []
    for _ in range(n):
        s = _soup(rng, AMP_TOKS, 0, 10)
        if '<' in s or not proto.lean_ok(s):
            continue
        md.reset()
        impl = '\n'.join(HtmlBlockPreprocessor(md).run(s.split('\n')))
        reqs.append(('extract', proto.enc_str(s))); exp.append(proto.enc_str(impl)); show.append({'s': s})
        if impl != s:
            R.count('extract:changed')
    R.check(reqs, exp, show)


def run(driver, rng, n):
    R = _Run(driver)
    _docs(R, rng, n)
    c0 = R.cases
    R.count('cases:blocks', c0)
    _recognisers(R, rng, max(n // 10, 50))
    R.count('cases:recognisers', R.cases - c0)
    c1 = R.cases
    _extract(R, rng, max(n // 4, 50))
    R.count('cases:extract', R.cases - c1)
    return {'cases': R.cases, 'distinct': len(R.inputs), 'disagreements': R.dis, 'samples': R.samples,
            'dist': dict(sorted(R.dist.items()))}


if __name__ == '__main__':
    import json, random, time
    seed = int(sys.argv[1]) if len(sys.argv) > 1 else 1
    n = int(sys.argv[2]) if len(sys.argv) > 2 else 2000
    d = proto.Driver(sys.argv[3] if len(sys.argv) > 3 else None)
    t0 = time.time()
    res = run(d, random.Random(seed), n)
    d.close()
    print(json.dumps({'cases': res['cases'], 'distinct': res['distinct'], 'disagreements': len(res['disagreements']),
                      'dist': res['dist'], 'seconds': round(time.time() - t0, 1)}, ensure_ascii=False))
    for x in res['disagreements'][:12]:
        print('DISAGREE', json.dumps(x, ensure_ascii=False))
